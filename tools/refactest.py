#!/usr/bin/env python3
"""refactest.py <worktree> <k> <name> <checks...>
A behaviour-preserving refactoring (refactor<k>.diff + refactor<k>.md in <worktree>, or the stored copy in
/verif/harmless/<name>/) is applied to a scratch worktree of /repo; the crate's suite must pass; then the given checks run
against it (VERIF_REPO).  Expected: exit 0 (or 2 = undecided), never 1.  Results go to /verif/harmless/<name>/."""
import json, os, shutil, subprocess, sys, time
wt, k, name = sys.argv[1], sys.argv[2], sys.argv[3]
checks = sys.argv[4:]
ROOT = os.path.dirname(os.path.dirname(os.path.abspath(__file__)))
d = os.path.join('/verif', 'harmless', name)
diff = os.path.join(wt, 'refactor%s.diff' % k)
note = os.path.join(wt, 'refactor%s.md' % k)
if not os.path.exists(diff):
    diff, note = os.path.join(d, 'patch.diff'), os.path.join(d, 'description.md')
scr = '/tmp/refval_%d' % os.getpid()
def sh(cmd, cwd=None, timeout=7200, env=None):
    p = subprocess.run(cmd, shell=True, cwd=cwd, stdout=subprocess.PIPE, stderr=subprocess.STDOUT, text=True, timeout=timeout, env=env)
    return p.returncode, p.stdout
meta = {'name': name}
res = {}
try:
    rc, out = sh('git -C /repo worktree add -q --detach %s HEAD' % scr); assert rc == 0, out
    rc, out = sh('git apply %s' % diff, cwd=scr); assert rc == 0, 'patch does not apply: ' + out
    rc, out = sh('CARGO_TARGET_DIR=%s/target cargo test --offline 2>&1 | grep -E "^test result|FAILED|^error" ' % scr, cwd=scr)
    meta['suite_ok'] = 'FAILED' not in out and 'error' not in out and out.count('test result: ok') >= 2
    shutil.rmtree(os.path.join(scr, 'target'), ignore_errors=True)
    print(name, 'suite passes:', meta['suite_ok'])
    cenv = dict(os.environ, VERIF_REPO=scr, VERIF_EVIDENCE_DIR='/tmp/seed_evidence')
    for c in checks:
        t0 = time.time()
        rc, out = sh('./check %s --tier quick' % c, cwd=ROOT, env=cenv)
        lines = [l for l in out.split('\n') if l.startswith(('VIOLATION', 'UNDECIDED', 'OK', 'property', 'NOTE'))]
        res[c] = {'rc': rc, 'lines': [l[:300] for l in lines[:6]], 'wall_s': round(time.time() - t0, 1)}
        print('  ', c, 'rc=%d' % rc, ' | '.join(lines)[:260])
finally:
    sh('git -C /repo worktree remove --force %s' % scr)
    shutil.rmtree(scr, ignore_errors=True)
try:
    prev = json.load(open(os.path.join(d, 'meta.json'))).get('checks', {})
except Exception:
    prev = {}
for c, r in prev.items():
    res.setdefault(c, r)
meta['checks'] = res
meta['false_alarms'] = [c for c, r in res.items() if r['rc'] == 1]
meta['undecided'] = [c for c, r in res.items() if r['rc'] == 2]
os.makedirs(d, exist_ok=True)
if os.path.abspath(diff) != os.path.abspath(os.path.join(d, 'patch.diff')):
    shutil.copy(diff, os.path.join(d, 'patch.diff'))
    if os.path.exists(note):
        shutil.copy(note, os.path.join(d, 'description.md'))
json.dump(meta, open(os.path.join(d, 'meta.json'), 'w'), indent=1)
print('  stored', d, 'false alarms', meta['false_alarms'], 'undecided', meta['undecided'])
