# Loop invariants, ghost state and proof blocks of cleanup_diff_ops / shift_diff_ops_up / shift_diff_ops_down
# (contracts/cleanup.rs).  The contracts (requires/ensures, cleanup_pre/post) are left alone: only the ghost lines inside
# the three function bodies (and the attribute line before a function) are regenerated.
import sys; sys.path.insert(0, '/verif/tools')
from ann import Overlay, ghost
path = sys.argv[1] if len(sys.argv) > 1 else '/verif/contracts/cleanup.rs'
o = Overlay(path)


def is_ghost(l):
    return l.lstrip().startswith('/*@*/')


def body_range(head):
    i = o.find(head)
    a = i
    while o.lines[a].strip() != '{' or is_ghost(o.lines[a]):
        a += 1
    b = a
    while not o.lines[b].startswith('//@@ end'):
        b += 1
    return i, a, b


def strip_body(head):
    i, a, b = body_range(head)
    o.lines[a:b] = [l for l in o.lines[a:b] if not is_ghost(l)]
    # attribute lines directly before the fn
    while i > 0 and is_ghost(o.lines[i - 1]) and '#[verifier::' in o.lines[i - 1]:
        del o.lines[i - 1]
        i -= 1


UP = 'fn shift_diff_ops_up<Old, New>('
DOWN = 'fn shift_diff_ops_down<Old, New>('
TOP = 'pub fn cleanup_diff_ops<Old, New>('
for h in (TOP, UP, DOWN):
    strip_body(h)

ENTRY = '''
let ghost ops0 = ops@; let ghost tag0 = op_tag(ops@[pointer as int]);
let ghost bw = lemma_inv_init(old, new, ops@);
let ghost p0 = pointer as int; let ghost ins = tag0 == DiffTag::Insert;   // [C09]
proof { lemma_c9_init(ops0, p0, ins); }   // [C09]
'''
# C09 (latest insertion position): the frame of each loop behind an opaque name (%s), and what holds where the loop is left.
# The exactness invariant stays the last one: in the strict view without the repo hook it fails (known finding K1), and
# nothing should be left to check behind a failed obligation.
INV = '''
    invariant
        pointer < ops.len(), ops.len() == ops@.len(),
        op_tag(ops@[pointer as int]) == tag0, tag0 == DiffTag::Insert || tag0 == DiffTag::Delete,
        inv_pre(old, new, ops@, bw), inv_post(old, new, ops0, ops@),
        0 <= p0, ins == (tag0 == DiffTag::Insert), %s,   // [C09]
        inv_exact(old, new, ops0, ops@),   // [C11]'''
INV_UP = INV % 'inv_up_frame(ops0, ops@, p0, pointer as int)' + '''
    ensures
        pointer > 0 ==> ops@[pointer - 1] is Equal,   // [C09]'''
INV_DOWN = INV % 'inv_down_frame(ops0, ops@, p0, pointer as int, ins)' + '''
    ensures
        ins ==> stuck_here(old, new, ops@, pointer as int),   // [C09]'''
EXIT = '''
proof { lemma_inv_exit(old, new, ops0, ops@); }
proof { lemma_c9_exit(ops0, ops@, p0, pointer as int, ins); }   // [C09]
'''

# ------------------------------------------------------------------------------------------------- shift_diff_ops_up
# the loop body is one query of ~4 s; it needs 20-30 M rlimit units depending on what else is in the unit (default limit 30 M)
i, a, b = body_range(UP)
o.lines[i:i] = ghost('#[verifier::rlimit(150)]')
i, a, b = body_range(UP)
o.after('{', ENTRY, start=a, stmt=False, ind='    ')
o.after('while let Some(prev_op__r)', INV_UP + '''
    decreases pointer, (if pointer > 0 { olen(ops@[pointer - 1]) } else { 0 }),
''', start=a, stmt=False)
o.after('let this_op = ops[pointer];', '''
let ghost s1 = ops@; let ghost p = pointer as int;
proof { lemma_around_usable(old, new, s1, p, bw); }
''', start=a)
# (Insert, Equal)
k = o.find('(DiffTag::Insert, DiffTag::Equal) => {', a)
o.before('} else if ops[pointer - 1].is_empty() {', '''
proof {
    assert(ops@ =~= shift_up_result(s1, p, suffix_len));
    lemma_up_shift(old, new, ops0, s1, p, suffix_len, bw, p0);
}
''', start=k, ind='                    ')
# (Delete, Equal): a Delete has no new items, so nothing can be shifted
k = o.find('(DiffTag::Delete, DiffTag::Equal) => {', a)
o.after('if suffix_len != 0 {', '''
assert(false);   // dead: common_suffix_len of an empty new range is 0
''', start=k, stmt=False, ind='                    ')
for nth in (1, 2):
    o.after('} else if ops[pointer - 1].is_empty() {', '''
assert(false);   // dead: no op is empty at the loop head
''', start=a, nth=nth, stmt=False, ind='                    ')
# swap
k = o.find('ops.swap(pointer - 1, pointer);', a)
o.after('pointer -= 1;', '''
proof {
    assert(swapped(s1, ops@, p));
    assert(swap_plain(s1, ops@, p) || swap_fixed(ops@, p));
    lemma_up_swap(old, new, ops0, s1, ops@, p, bw, p0);
}
''', start=k)
# merges
for pat in ('ops[pointer - 1].grow_right(this_op.new_range().len());', 'ops[pointer - 1].grow_right(this_op.old_range().len());'):
    k = o.find(pat, a)
    o.after('pointer -= 1;', '''
proof {
    assert(ops@ =~= merge_result(s1, p));
    lemma_up_merge(old, new, ops0, s1, p, bw, p0);
}
''', start=k)

i, a, b = body_range(UP)
k = b
while o.lines[k].strip() != 'pointer': k -= 1
o.lines[k:k] = ghost(EXIT, '    ')

# ----------------------------------------------------------------------------------------------- shift_diff_ops_down
i, a, b = body_range(DOWN)
o.lines[i:i] = ghost('#[verifier::rlimit(150)]')
i, a, b = body_range(DOWN)
o.after('{', ENTRY, start=a, stmt=False, ind='    ')
o.after('while let Some(next_op__r)', INV_DOWN + '''
    decreases ops@.len() - pointer, (if pointer + 1 < ops@.len() { olen(ops@[pointer + 1]) } else { 0 }),
''', start=a, stmt=False)
o.after('let this_op = ops[pointer];', '''
let ghost s1 = ops@; let ghost p = pointer as int;
proof { lemma_around_usable(old, new, s1, p, bw); }
''', start=a)
k = o.find('(DiffTag::Insert, DiffTag::Equal) => {', a)
o.before('} else if ops[pointer + 1].is_empty() {', '''
proof {
    assert(ops@ =~= shift_down_result(s1, p, prefix_len));
    lemma_down_shift(old, new, ops0, s1, p, prefix_len, bw, p0, ins);
}
''', start=k, ind='                    ')
# C09: where the Insert arm gives up, common_prefix_len has compared the first pair of two non-empty ranges and found them different
kk = o.find('break;', k)
o.lines[kk:kk] = ghost('''
proof { lemma_c9_break(old, new, s1, p, prefix_len); }   // [C09]
''', o.indent_of(kk))
k = o.find('(DiffTag::Delete, DiffTag::Equal) => {', a)
o.after('if prefix_len > 0 {', '''
assert(false);   // dead: common_prefix_len of an empty new range is 0
''', start=k, stmt=False, ind='                    ')
for nth in (1, 2):
    o.after('} else if ops[pointer + 1].is_empty() {', '''
assert(false);   // dead: no op is empty at the loop head
''', start=a, nth=nth, stmt=False, ind='                    ')
k = o.find('ops.swap(pointer, pointer + 1);', a)
o.after('pointer += 1;', '''
proof {
    assert(swapped(s1, ops@, p + 1));
    assert(swap_plain(s1, ops@, p + 1) || swap_fixed(ops@, p + 1));
    lemma_down_swap(old, new, ops0, s1, ops@, p, bw, p0, ins);
}
''', start=k)
for pat in ('ops[pointer].grow_right(next_op.new_range().len());', 'ops[pointer].grow_right(next_op.old_range().len());'):
    k = o.find(pat, a)
    o.after('ops.remove(pointer + 1);', '''
proof {
    assert(ops@ =~= merge_result(s1, p + 1));
    lemma_down_merge(old, new, ops0, s1, p, bw, p0, ins);
}
''', start=k)

i, a, b = body_range(DOWN)
k = b
while o.lines[k].strip() != 'pointer': k -= 1
o.lines[k:k] = ghost(EXIT + '''proof { lemma_c9_stuck_exit(old, new, ops@, pointer as int); }   // [C09]
''', '    ')

# -------------------------------------------------------------------------------------------------- cleanup_diff_ops
# termination of the two outer loops is not proved (see the report: the pair shift up / shift down may leave the
# number of ops behind the pointer unchanged for a non-transitive item equality)
i, a, b = body_range(TOP)
o.lines[i:i] = ghost('#[verifier::exec_allows_no_decreases_clause]')
i, a, b = body_range(TOP)
o.after('{', '''
let ghost ops0 = ops@;
''', start=a, stmt=False, ind='    ')
TOPINV = '''
    invariant
        exists|b: OBox| #[trigger] cleanup_pre(old, new, ops@, b),
        cleanup_post(old, new, ops0, ops@),
        cleanup_post_exact(old, new, ops0, ops@),   // [C11]
'''
for nth in (1, 2):
    k = o.find('while let Some(op__r) = ops.get(pointer)', a, nth=nth)
    # C09: the insertion pass leaves every Insert it has passed stuck (last op, or in front of an Equal it cannot slide across)
    o.after('while let Some(op__r) = ops.get(pointer)', TOPINV if nth == 1 else TOPINV.rstrip('\n') + '''
        ins_stuck_upto(rel_of(old, new), ops@, pointer as int),   // [C09]
    ensures
        ins_stuck(rel_of(old, new), ops@),   // [C09]
''', start=k, stmt=False)
    o.after('let op = *op__r;', '''
proof { let b = choose|b: OBox| cleanup_pre(old, new, ops@, b); assert(inv_pre(old, new, ops@, b)) by { reveal(inv_pre); } lemma_op_usable(old, new, ops@, pointer as int, b); }
''', start=k)
    o.before('pointer += 1;', '''
assert(pointer < ops.len() && ops.len() == ops@.len());
''' + ('''assert(ins_stuck_upto(rel_of(old, new), ops@, pointer as int + 1));   // [C09]
''' if nth == 2 else ''), start=k)
    for fn in ('shift_diff_ops_up', 'shift_diff_ops_down'):
        o.before('pointer = %s(ops, old, new, pointer);' % fn, '''
let ghost s1 = ops@; let ghost q1 = pointer as int;
''', start=k)
        o.after('pointer = %s(ops, old, new, pointer);' % fn, '''
proof {
    let b = choose|b: OBox| cleanup_pre(old, new, s1, b);
    assert(ops_full(old, new, ops@, b, false)); assert(cleanup_pre(old, new, ops@, b));
    assert forall|b2: OBox| #[trigger] ops_full(old, new, ops0, b2, false) implies ops_full(old, new, ops@, b2, false) by { assert(ops_full(old, new, s1, b2, false)); }
    assert forall|b2: OBox| #[trigger] ops_full(old, new, ops0, b2, true) implies ops_full(old, new, ops@, b2, true) by { assert(ops_full(old, new, s1, b2, true)); }   // [C11]
}
''' + ('' if nth == 1 else '''proof { %s(rel_of(old, new), s1, ops@, q1, pointer as int); }   // [C09]
''' % ('lemma_stuck_after_up' if fn == 'shift_diff_ops_up' else 'lemma_stuck_after_down')), start=k)
o.save()
