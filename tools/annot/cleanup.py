# Loop invariants, ghost state and proof blocks of cleanup_diff_ops / shift_diff_ops_up / shift_diff_ops_down
# (contracts/cleanup.rs).  The contracts (requires/ensures, cleanup_pre/post) are left alone: only the ghost lines inside
# the three function bodies (and the attribute line before a function) are regenerated.
import sys; sys.path.insert(0, '/verif/tools')
from ann import Overlay, ghost
path = sys.argv[1] if len(sys.argv) > 1 else '/verif/contracts/cleanup.rs'
o = Overlay(path)


def is_ghost(l):
    return l.lstrip().startswith('/*@*/')


def body_range(head):
    i = o.find(head)
    a = i
    while o.lines[a].strip() != '{' or is_ghost(o.lines[a]):
        a += 1
    b = a
    while not o.lines[b].startswith('//@@ end'):
        b += 1
    return i, a, b


def strip_body(head):
    i, a, b = body_range(head)
    o.lines[a:b] = [l for l in o.lines[a:b] if not is_ghost(l)]
    # attribute lines directly before the fn
    while i > 0 and is_ghost(o.lines[i - 1]) and '#[verifier::' in o.lines[i - 1]:
        del o.lines[i - 1]
        i -= 1


UP = 'fn shift_diff_ops_up<Old, New>('
DOWN = 'fn shift_diff_ops_down<Old, New>('
TOP = 'pub fn cleanup_diff_ops<Old, New>('
for h in (TOP, UP, DOWN):
    strip_body(h)

ENTRY = '''
let ghost ops0 = ops@; let ghost tag0 = op_tag(ops@[pointer as int]);
let ghost bw = lemma_inv_init(old, new, ops@);
'''
INV = '''
    invariant
        pointer < ops.len(), ops.len() == ops@.len(),
        op_tag(ops@[pointer as int]) == tag0, tag0 == DiffTag::Insert || tag0 == DiffTag::Delete,
        inv_pre(old, new, ops@, bw), inv_post(old, new, ops0, ops@),
        inv_exact(old, new, ops0, ops@),   // [C11]'''
EXIT = '''
proof { lemma_inv_exit(old, new, ops0, ops@); }
'''

# ------------------------------------------------------------------------------------------------- shift_diff_ops_up
# the loop body is one query of ~4 s; it needs 20-30 M rlimit units depending on what else is in the unit (default limit 30 M)
i, a, b = body_range(UP)
o.lines[i:i] = ghost('#[verifier::rlimit(150)]')
i, a, b = body_range(UP)
o.after('{', ENTRY, start=a, stmt=False, ind='    ')
o.after('while let Some(prev_op__r)', INV + '''
    decreases pointer, (if pointer > 0 { olen(ops@[pointer - 1]) } else { 0 }),
''', start=a, stmt=False)
o.after('let this_op = ops[pointer];', '''
let ghost s1 = ops@; let ghost p = pointer as int;
proof { lemma_around_usable(old, new, s1, p, bw); }
''', start=a)
# (Insert, Equal)
k = o.find('(DiffTag::Insert, DiffTag::Equal) => {', a)
o.before('} else if ops[pointer - 1].is_empty() {', '''
proof {
    assert(ops@ =~= shift_up_result(s1, p, suffix_len));
    lemma_do_shift_up(old, new, ops0, s1, p, suffix_len, bw);
}
''', start=k, ind='                    ')
# (Delete, Equal): a Delete has no new items, so nothing can be shifted
k = o.find('(DiffTag::Delete, DiffTag::Equal) => {', a)
o.after('if suffix_len != 0 {', '''
assert(false);   // dead: common_suffix_len of an empty new range is 0
''', start=k, stmt=False, ind='                    ')
for nth in (1, 2):
    o.after('} else if ops[pointer - 1].is_empty() {', '''
assert(false);   // dead: no op is empty at the loop head
''', start=a, nth=nth, stmt=False, ind='                    ')
# swap
k = o.find('ops.swap(pointer - 1, pointer);', a)
o.after('pointer -= 1;', '''
proof {
    assert(swapped(s1, ops@, p));
    assert(swap_plain(s1, ops@, p) || swap_fixed(ops@, p));
    lemma_do_swap(old, new, ops0, s1, ops@, p, bw);
}
''', start=k)
# merges
for pat in ('ops[pointer - 1].grow_right(this_op.new_range().len());', 'ops[pointer - 1].grow_right(this_op.old_range().len());'):
    k = o.find(pat, a)
    o.after('pointer -= 1;', '''
proof {
    assert(ops@ =~= merge_result(s1, p));
    lemma_do_merge(old, new, ops0, s1, p, bw);
}
''', start=k)

i, a, b = body_range(UP)
k = b
while o.lines[k].strip() != 'pointer': k -= 1
o.lines[k:k] = ghost(EXIT, '    ')

# ----------------------------------------------------------------------------------------------- shift_diff_ops_down
i, a, b = body_range(DOWN)
o.lines[i:i] = ghost('#[verifier::rlimit(150)]')
i, a, b = body_range(DOWN)
o.after('{', ENTRY, start=a, stmt=False, ind='    ')
o.after('while let Some(next_op__r)', INV + '''
    decreases ops@.len() - pointer, (if pointer + 1 < ops@.len() { olen(ops@[pointer + 1]) } else { 0 }),
''', start=a, stmt=False)
o.after('let this_op = ops[pointer];', '''
let ghost s1 = ops@; let ghost p = pointer as int;
proof { lemma_around_usable(old, new, s1, p, bw); }
''', start=a)
k = o.find('(DiffTag::Insert, DiffTag::Equal) => {', a)
o.before('} else if ops[pointer + 1].is_empty() {', '''
proof {
    assert(ops@ =~= shift_down_result(s1, p, prefix_len));
    lemma_do_shift_down(old, new, ops0, s1, p, prefix_len, bw);
}
''', start=k, ind='                    ')
k = o.find('(DiffTag::Delete, DiffTag::Equal) => {', a)
o.after('if prefix_len > 0 {', '''
assert(false);   // dead: common_prefix_len of an empty new range is 0
''', start=k, stmt=False, ind='                    ')
for nth in (1, 2):
    o.after('} else if ops[pointer + 1].is_empty() {', '''
assert(false);   // dead: no op is empty at the loop head
''', start=a, nth=nth, stmt=False, ind='                    ')
k = o.find('ops.swap(pointer, pointer + 1);', a)
o.after('pointer += 1;', '''
proof {
    assert(swapped(s1, ops@, p + 1));
    assert(swap_plain(s1, ops@, p + 1) || swap_fixed(ops@, p + 1));
    lemma_do_swap(old, new, ops0, s1, ops@, p + 1, bw);
}
''', start=k)
for pat in ('ops[pointer].grow_right(next_op.new_range().len());', 'ops[pointer].grow_right(next_op.old_range().len());'):
    k = o.find(pat, a)
    o.after('ops.remove(pointer + 1);', '''
proof {
    assert(ops@ =~= merge_result(s1, p + 1));
    lemma_do_merge(old, new, ops0, s1, p + 1, bw);
}
''', start=k)

i, a, b = body_range(DOWN)
k = b
while o.lines[k].strip() != 'pointer': k -= 1
o.lines[k:k] = ghost(EXIT, '    ')

# -------------------------------------------------------------------------------------------------- cleanup_diff_ops
# termination of the two outer loops is not proved (see the report: the pair shift up / shift down may leave the
# number of ops behind the pointer unchanged for a non-transitive item equality)
i, a, b = body_range(TOP)
o.lines[i:i] = ghost('#[verifier::exec_allows_no_decreases_clause]')
i, a, b = body_range(TOP)
o.after('{', '''
let ghost ops0 = ops@;
''', start=a, stmt=False, ind='    ')
TOPINV = '''
    invariant
        exists|b: OBox| #[trigger] cleanup_pre(old, new, ops@, b),
        cleanup_post(old, new, ops0, ops@),
        cleanup_post_exact(old, new, ops0, ops@),   // [C11]
'''
for nth in (1, 2):
    k = o.find('while let Some(op__r) = ops.get(pointer)', a, nth=nth)
    o.after('while let Some(op__r) = ops.get(pointer)', TOPINV, start=k, stmt=False)
    o.after('let op = *op__r;', '''
proof { let b = choose|b: OBox| cleanup_pre(old, new, ops@, b); assert(inv_pre(old, new, ops@, b)) by { reveal(inv_pre); } lemma_op_usable(old, new, ops@, pointer as int, b); }
''', start=k)
    o.before('pointer += 1;', '''
assert(pointer < ops.len() && ops.len() == ops@.len());
''', start=k)
    for fn in ('shift_diff_ops_up', 'shift_diff_ops_down'):
        o.before('pointer = %s(ops, old, new, pointer);' % fn, '''
let ghost s1 = ops@;
''', start=k)
        o.after('pointer = %s(ops, old, new, pointer);' % fn, '''
proof {
    let b = choose|b: OBox| cleanup_pre(old, new, s1, b);
    assert(ops_full(old, new, ops@, b, false)); assert(cleanup_pre(old, new, ops@, b));
    assert forall|b2: OBox| #[trigger] ops_full(old, new, ops0, b2, false) implies ops_full(old, new, ops@, b2, false) by { assert(ops_full(old, new, s1, b2, false)); }
    assert forall|b2: OBox| #[trigger] ops_full(old, new, ops0, b2, true) implies ops_full(old, new, ops@, b2, true) by { assert(ops_full(old, new, s1, b2, true)); }   // [C11]
}
''', start=k)
o.save()
