import sys; sys.path.insert(0, '/verif/tools')
from ann import Overlay, ghost
o = Overlay('/verif/contracts/textdiff.rs')
# keep the hand-written header block (everything before the first item) and redo the ghost lines of the items
first = o.find('//@@ item src/types.rs :: ^impl Default for Algorithm', code_only=False)
head, rest = o.lines[:first], o.lines[first:]
o.lines = [l for l in rest if not l.lstrip().startswith('/*@*/')]

# ---- Deadline ----
i = o.find('pub fn duration_to_deadline(add: Duration)')
o.lines[i:i] = ghost('#[verifier::external_body]  // assumed (no claim about the result): Instant::now() + checked_add are outside Verus')
i = o.find('fn into_instant(self)')
o.before('{', '''
    ensures self matches Deadline::Absolute(inst) ==> res == Some(inst),
''', start=i)

# ---- TextDiffConfig ----
i = o.find('pub struct TextDiffConfig')
j = o.find('}', i)
o.lines[j + 1:j + 1] = ghost('''
impl TextDiffConfig {
    pub closed spec fn alg(&self) -> Algorithm { self.algorithm }
    pub closed spec fn nl(&self) -> Option<bool> { self.newline_terminated }
    /// the absolute deadline configured with `deadline(..)` (None: no deadline, or a relative timeout)
    pub closed spec fn dl_abs(&self) -> Option<Instant> { match self.deadline { Some(Deadline::Absolute(i)) => Some(i), _ => None } }
}
''')

# ---- OffsetLookup ----
i = o.find('impl<Int> Index<usize> for OffsetLookup<Int>')
o.lines[i:i] = ghost('''
impl<Int> OffsetLookup<Int> {
    pub closed spec fn at(&self, index: usize) -> Int { self.vec@[index - self.offset] }
}
impl<Int> IndexSpecImpl<usize> for OffsetLookup<Int> {
    closed spec fn index_req(&self, index: &usize) -> bool {
        self.offset <= *index < self.offset + self.vec.len()
    }
}
''')
i = o.find('fn index(&self, index: usize)')
o.before('{', '''
    ensures *res == self.at(index),
''', start=i)

# ---- IdentifyDistinct ----
i = o.find('pub struct IdentifyDistinct<Int>')
j = o.find('}', i)
o.lines[j + 1:j + 1] = ghost('''
impl<Int> IdentifyDistinct<Int> {
    // what the two lookups answer (the struct's fields are private; OffsetLookup is a private type)
    pub closed spec fn o_req(&self) -> spec_fn(usize) -> bool { |k: usize| IndexSpec::index_req(&self.old, &k) }
    pub closed spec fn n_req(&self) -> spec_fn(usize) -> bool { |k: usize| IndexSpec::index_req(&self.new, &k) }
    pub closed spec fn o_at(&self) -> spec_fn(usize) -> &Int { |k: usize| item_at(&self.old, k) }
    pub closed spec fn n_at(&self) -> spec_fn(usize) -> &Int { |k: usize| item_at(&self.new, k) }
    pub closed spec fn o_rng(&self) -> (int, int) { (self.old.offset as int, self.old.offset + self.old.vec@.len()) }
    pub closed spec fn n_rng(&self) -> (int, int) { (self.new.offset as int, self.new.offset + self.new.vec@.len()) }
}

/// C14 (second sentence): the integer mapping keeps the caller's index ranges (every index of the ranges can be looked
/// up) and assigns equal numbers to an old and a new item exactly when the items are equal
pub open spec fn ident_ok<Int, Old: Index<usize> + ?Sized, New: Index<usize> + ?Sized>(ih: &IdentifyDistinct<Int>, old: &Old, or: Range<usize>, new: &New, nr: Range<usize>) -> bool
  where New::Output: PartialEq<Old::Output>
{
    ih.o_rng() == (or.start as int, or.end as int) && ih.n_rng() == (nr.start as int, nr.end as int)
    && (forall|k: usize| or.start <= k < or.end ==> #[trigger] (ih.o_req())(k))
    && (forall|k: usize| nr.start <= k < nr.end ==> #[trigger] (ih.n_req())(k))
    && (forall|i: int, j: int| or.start <= i < or.end && nr.start <= j < nr.end ==>
            (*(#[trigger] (ih.n_at())(j as usize)) == *(#[trigger] (ih.o_at())(i as usize))) == eqv(old, i, new, j))
}

/// ops accepted over the integer ids are accepted over the original sequences
pub proof fn lemma_ident_transfer<Old: Index<usize> + ?Sized, New: Index<usize> + ?Sized>(ih: &IdentifyDistinct<u32>, old: &Old, or: Range<usize>, new: &New, nr: Range<usize>, ops: Seq<DiffOp>)
  where New::Output: PartialEq<Old::Output>
  requires ident_ok(ih, old, or, new, nr), or.start <= or.end, nr.start <= nr.end, cap_post_rel(rel_at(ih.n_at(), ih.o_at()), or, nr, ops, false)
  ensures cap_post(old, or, new, nr, ops, false)
{
    broadcast use axiom_item_eq_u32;
    let r1 = rel_at(ih.n_at(), ih.o_at()); let r2 = rel_of(old, new);
    let st = xcanon(or.start as int, nr.start as int, or.end as int, nr.end as int, false);
    assert forall|i: int, j: int| or.start <= i < st.oe && nr.start <= j < st.ne implies (#[trigger] r1(i, j)) == r2(i, j) by {
        assert(r1(i, j) == item_eq((ih.n_at())(j as usize), (ih.o_at())(i as usize)));
        assert(r2(i, j) == eqv(old, i, new, j));
    }
    lemma_xrun_congr(r1, r2, st, evs_of(ops), or.start as int, nr.start as int);
}
''')
i = o.find('pub fn new<Old, New>(')
o.lines[i:i] = ghost('''
#[verifier::external_body]  // assumed contract (HashMap entry API with a local Key enum and custom Hash/Eq impls are outside Verus)
''', '    ')
k = o.find('New::Output: Eq + Hash + PartialEq<Old::Output>,', i)
o.lines[k + 1:k + 1] = ghost('''
    requires old_range.start <= old_range.end, new_range.start <= new_range.end, inb(old, old_range), inb(new, new_range),
        (old_range.end - old_range.start) + (new_range.end - new_range.start) <= 0x1_0000_0000,   // ids are counted in Int (u32 at the call site)
    ensures ident_ok(&res, old, old_range, new, new_range),
''', '    ')
for nm, c in (('old_lookup', 'o'), ('new_lookup', 'n')):
    i = o.find('pub fn %s(&self)' % nm)
    o.lines[i:i] = ghost('''
#[verifier::external_body]  // assumed: the body is `&self.%s`; Verus 0.2026.09.13 generates ill-typed AIR for returning a field as `&impl Index` (probes/impl_trait_return_ill_typed_air.rs)
''' % ('old' if c == 'o' else 'new'), '    ')
    o.before('{', '''
    ensures lk_is(res, self.%s_req(), self.%s_at()),
''' % (c, c), start=i)
for nm, c in (('old_range', 'o'), ('new_range', 'n')):
    i = o.find('pub fn %s(&self)' % nm)
    o.before('{', '''
    requires self.%s_rng().1 <= usize::MAX,
    ensures res.start == self.%s_rng().0, res.end == self.%s_rng().1,
''' % (c, c, c), start=i)

# ---- TextDiffConfig::diff ----
i = o.find("pub fn diff_slices<'old, 'new, 'bufs, T: DiffableStr + ?Sized>(")
CONTRACT = '''
    requires OLD@.len() + NEW@.len() + 4 <= isize::MAX, OLD@.len() + NEW@.len() <= 0x1_0000_0000,
        self.alg() == Algorithm::Lcs ==> (OLD@.len() <= u32::MAX || NEW@.len() <= u32::MAX),
    ensures
        // what is stored: the two token slices, the configured algorithm, the newline flag (override first)
        res.old_toks() == OLD, res.new_toks() == NEW,
        res.alg() == self.alg(),
        res.nl() == (match self.nl() { Some(b) => b, None => NLT }),
        // C02: the stored ops are a valid, normal-form op list over the two token slices - below and above the size
        // at which the items are mapped to integers
        cap_post(OLD, 0..OLD@.len() as usize, NEW, 0..NEW@.len() as usize, res.stored_ops(), false),
        res.wf(),
'''
o.before('{', CONTRACT.replace('OLD', 'old').replace('NEW', 'new').replace('NLT', 'false'), start=i)
k = o.find('{', i)
o.lines[k + 1:k + 1] = ghost('broadcast use axiom_cow_borrowed;', '        ')
i = o.find("fn diff<'old, 'new, 'bufs, T: DiffableStr + ?Sized>(")
o.before('{', CONTRACT.replace('OLD', 'cow_ref(&old)').replace('NEW', 'cow_ref(&new)').replace('NLT', 'newline_terminated'), start=i)
k = o.find('{', i)
o.lines[k + 1:k + 1] = ghost('broadcast use {lemma_cap_lk, axiom_cow_borrowed};', '        ')
o.after('let deadline = match (self.deadline)', '''
let ghost os = cow_ref(&old); let ghost ns = cow_ref(&new);
proof { lemma_slice_inb(os); lemma_slice_inb(ns);
    // a slice is determined by its elements: `&old[..]` is the slice the Cow derefs to
    // (vstd specifies `&s[..]` as the subrange 0..len of `s`)
    assert forall|t: &[&'old T]| (#[trigger] t@) == os@.subrange(0, os@.len() as int) implies t == os by { assert(t@ =~= os@); }
    assert forall|t: &[&'new T]| (#[trigger] t@) == ns@.subrange(0, ns@.len() as int) implies t == ns by { assert(t@ =~= ns@); }
}
''', start=i, stmt=False, ind='        ')
o.after('let ih = IdentifyDistinct::<u32>::new(', '''
proof {
    let orr = 0..os@.len() as usize; let nrr = 0..ns@.len() as usize;
    assert(orr.start <= orr.end && nrr.start <= nrr.end);
    assert(ih.o_rng() == (0int, os@.len() as int));
    assert(forall|k: usize| 0 <= k < os@.len() ==> #[trigger] (ih.o_req())(k));
    assert(forall|i: int, j: int| 0 <= i < os@.len() && 0 <= j < ns@.len() ==>
            (*(#[trigger] (ih.n_at())(j as usize)) == *(#[trigger] (ih.o_at())(i as usize))) == eqv(os, i, ns, j));
    assert(ident_ok(&ih, os, orr, ns, nrr));
    assert forall|ops: Seq<DiffOp>| #[trigger] cap_post_rel(rel_at(ih.n_at(), ih.o_at()), orr, nrr, ops, false) implies cap_post(os, orr, ns, nrr, ops, false) by {
        lemma_ident_transfer(&ih, os, orr, ns, nrr, ops);
    }
}
''', start=i, ind='            ')

# ---- the text entry points: tokenizer (trait-level contract, diffablestr.rs) -> diff -> stored TextDiff ----
ENTRY = '''
    // the two texts: what the references resolve to (DiffableStrRef::ds)
    requires entry_pre(old.ds(), new.ds(), TokKind::KIND),
    ensures
        // C02 / C04: the stored ops are a valid, normal-form op list over the two stored token slices
        res.wf(),
        // C04 / C06: the stored old (new) token slice PARTITIONS the old (new) text, tokens non-empty, in the shape of this tokenizer
        tok_post(old.ds(), TokKind::KIND, res.old_toks()@),
        tok_post(new.ds(), TokKind::KIND, res.new_toks()@),
        // C14: the configured algorithm is reported; C02: newline-terminated NLDOC unless overridden
        res.alg() == self.alg(),
        res.nl() == (match self.nl() { Some(b) => b, None => NLT }),
'''
for nm, kind, nlt, doc in (('diff_lines', 'Lines', 'true', 'for line diffs'), ('diff_words', 'Words', 'false', 'only for line diffs: not for word diffs'),
                           ('diff_chars', 'Chars', 'false', 'only for line diffs: not for char diffs')):
    i = o.find("pub fn %s<'old, 'new, 'bufs, T: DiffableStrRef + ?Sized>(" % nm)
    o.before('{', ENTRY.replace('KIND', kind).replace('NLT', nlt).replace('NLDOC', doc), start=i)
    k = o.find('{', i)
    o.lines[k + 1:k + 1] = ghost('broadcast use axiom_cow_owned_slice;', '        ')

# ---- TextDiffConfig setters ----
ic = o.find('impl TextDiffConfig {')
for nm, post in (('pub fn algorithm(&mut self, alg: Algorithm)', 'res.alg() == alg, res.nl() == old(self).nl(), res.dl_abs() == old(self).dl_abs(), *final(res) == *final(self)'),
                 ('pub fn deadline(&mut self, deadline: Instant)', 'res.dl_abs() == Some(deadline), res.alg() == old(self).alg(), res.nl() == old(self).nl(), *final(res) == *final(self)'),
                 ('pub fn timeout(&mut self, timeout: Duration)', 'res.alg() == old(self).alg(), res.nl() == old(self).nl(), *final(res) == *final(self)'),
                 ('pub fn newline_terminated(&mut self, yes: bool)', 'res.nl() == Some(yes), res.alg() == old(self).alg(), res.dl_abs() == old(self).dl_abs(), *final(res) == *final(self)')):
    i = o.find(nm, ic)
    o.before('{', '    ensures %s,' % post, start=i)

o.lines = head + o.lines
o.save()
