import sys; sys.path.insert(0, '/verif/tools')
from ann import Overlay, ghost
o = Overlay('/verif/contracts/lcs.rs')
o.strip_ghost()
def contract(lv):
    return '''
    requires diff_pre(*vstd::prelude::old(d), old, old_range, new, new_range, LVL),
        (old_range.end - old_range.start) <= u32::MAX || (new_range.end - new_range.start) <= u32::MAX,   // table cells are u32
    ensures
        err_post(*vstd::prelude::old(d), *final(d), res),
        (*final(d)).fobs() == (*vstd::prelude::old(d)).fobs(),
        seg_post(*vstd::prelude::old(d), *final(d), old, old_range, new, new_range, LVL, false, fin::<D>(), res.is_ok()),
'''.replace('LVL', lv)
mt = o.find('fn make_table<Old, New>(')
o.lines[mt:mt] = ghost('''
/// every stored value is bounded by the remaining lengths (so `+ 1` cannot overflow)
spec fn tbl_bounded(t: Map<(usize, usize), u32>, new_len: int, old_len: int) -> bool {
    forall|k: (usize, usize)| #[trigger] t.contains_key(k) ==> k.0 < new_len && k.1 < old_len && t[k] <= new_len - k.0 && t[k] <= old_len - k.1
}
''')
mt = o.find('fn make_table<Old, New>(')
o.before('{', '''
    requires box_pre(old, old_range, new, new_range),
        (old_range.end - old_range.start) <= u32::MAX || (new_range.end - new_range.start) <= u32::MAX,
''', start=mt)
o.after('{', '''
broadcast use {axiom_pure_index, axiom_pure_eq};
''', start=mt, stmt=False, ind='    ')
o.after('for i in (0..new_len).rev()', '''
    invariant
        old_len == old_range.end - old_range.start, new_len == new_range.end - new_range.start,
        box_pre(old, old_range, new, new_range),
        old_len <= u32::MAX || new_len <= u32::MAX,
        tbl_bounded(table@, new_len as int, old_len as int),
''', start=mt, stmt=False)
o.after('for j in (0..old_len).rev()', '''
    invariant
        old_len == old_range.end - old_range.start, new_len == new_range.end - new_range.start,
        box_pre(old, old_range, new, new_range), i < new_len,
        old_len <= u32::MAX || new_len <= u32::MAX,
        tbl_bounded(table@, new_len as int, old_len as int),
''', start=mt, stmt=False)

dd = o.find('pub fn diff_deadline<Old, New, D>(')
o.before('{', contract('alg_lvl(deadline)'), start=dd)
o.after('{', '''
broadcast use {axiom_pure_index, axiom_pure_eq};
let ghost rel = rel_of(old, new); let ghost lvl = alg_lvl(deadline);
let ghost o0 = old_range.start as int; let ghost n0 = new_range.start as int;
let ghost oe0 = old_range.end as int; let ghost ne0 = new_range.end as int;
let ghost d0 = *d; let ghost t0 = d.trace(); let ghost rs0 = d.rely_st(); let ghost r1 = d.rely_rel();
let ghost mut s: Seq<Ev> = Seq::empty();
let ghost mut oc: int = o0; let ghost mut nc: int = n0;
proof { lemma_seg_empty(rel, lvl, o0, n0); lemma_run_empty(r1, rs0); assert(t0 + s =~= t0); assert(alg_inv(*d, d0, t0, s, rel, lvl, rs0, o0, n0, oc, nc)); }
''', start=dd, stmt=False, ind='    ')

def call(o, start, pat, ev, adv, nth=1, extra=''):
    i = o.find(pat, start, nth)
    ind = o.indent_of(i)
    pre = ghost('''
proof { let e = %s; %s if d0.relies() { pre_call(rel, r1, lvl, s, e, o0, n0, oc, nc, rs0); } }
''' % (ev, extra), ind)
    o.lines[i:i] = pre
    j = o.stmt_end(i + len(pre))
    post = ghost('''
proof { let e = %s; post_call(rel, r1, lvl, s, e, o0, n0, oc, nc, rs0); assert((t0 + s).push(e) =~= t0 + s.push(e)); s = s.push(e); %s
    assert(alg_inv(*d, d0, t0, s, rel, lvl, rs0, o0, n0, oc, nc)); }
''' % (ev, adv), ind)
    o.lines[j+1:j+1] = post
    return j + 1 + len(post)

def finish(o, start, nth=1, pat='d.finish()?;'):
    i = o.find(pat, start, nth)
    ind = o.indent_of(i)
    o.lines[i:i] = ghost('''
proof { assert(oc == oe0 && nc == ne0); assert(seg(old, new, lvl, s, o0, n0, oe0, ne0)); if d0.relies() { lemma_seg_any(rel, r1, lvl, s, o0, n0, oe0, ne0, rs0); } lemma_run_fin::<D>(r1, rs0, s); }
''', ind)
    return i + 2

p = call(o, dd, 'd.delete(old_range.start, old_range.len(), new_range.start)?;',
     'Ev::Delete(old_range.start, (old_range.end - old_range.start) as usize, new_range.start)', 'oc = oc + (old_range.end - old_range.start);')
p = finish(o, p)
p = call(o, p, 'd.insert(old_range.start, new_range.start, new_range.len())?;',
     'Ev::Insert(old_range.start, new_range.start, (new_range.end - new_range.start) as usize)', 'nc = nc + (new_range.end - new_range.start);')
p = finish(o, p)
p = call(o, p, 'd.equal(old_range.start, new_range.start, old_range.len())?;',
     'Ev::Equal(old_range.start, new_range.start, (old_range.end - old_range.start) as usize)', 'oc = oc + (old_range.end - old_range.start); nc = nc + (old_range.end - old_range.start);')
p = finish(o, p)
p = call(o, p, 'd.equal(old_range.start, new_range.start, common_prefix_len)?;',
     'Ev::Equal(old_range.start, new_range.start, common_prefix_len)', 'oc = oc + common_prefix_len; nc = nc + common_prefix_len;')
INV = '''
    invariant
        alg_inv(*d, d0, t0, s, rel, lvl, rs0, o0, n0, oc, nc), (*d).fobs() == d0.fobs(),
        box_pre(old, old_range, new, new_range), rely_pre(d0, old, old_range, new, new_range, lvl),
        rel == rel_of(old, new), lvl == alg_lvl(deadline), r1 == d0.rely_rel(), o0 == old_range.start, n0 == new_range.start,
        d0 == *vstd::prelude::old(d), rs0 == d0.rely_st(), t0 == d0.trace(), oe0 == old_range.end, ne0 == new_range.end,
        old_len == old_range.end - old_range.start - common_prefix_len - common_suffix_len,
        new_len == new_range.end - new_range.start - common_prefix_len - common_suffix_len,
        old_idx <= old_len, new_idx <= new_len,
        oc == old_range.start + common_prefix_len + old_idx, nc == new_range.start + common_prefix_len + new_idx,
    decreases (new_len - new_idx) + (old_len - old_idx),
'''
w = o.after('while new_idx < new_len && old_idx < old_len', INV, start=p, stmt=False)
o.after('{', 'broadcast use {axiom_pure_index, axiom_pure_eq};', start=w, stmt=False, ind='            ')
p = call(o, w, 'd.equal(old_orig_idx, new_orig_idx, 1)?;', 'Ev::Equal(old_orig_idx, new_orig_idx, 1)', 'oc = oc + 1; nc = nc + 1;',
         extra='assert(eqv(old, old_orig_idx as int, new, new_orig_idx as int)); assert(relk(rel, old_orig_idx as int, new_orig_idx as int, 0));')
p = call(o, p, 'd.delete(old_orig_idx, 1, new_orig_idx)?;', 'Ev::Delete(old_orig_idx, 1, new_orig_idx)', 'oc = oc + 1;')
p = call(o, p, 'd.insert(old_orig_idx, new_orig_idx, 1)?;', 'Ev::Insert(old_orig_idx, new_orig_idx, 1)', 'nc = nc + 1;')
p = call(o, p, 'd.delete(', 'Ev::Delete((old_range.start + common_prefix_len + old_idx) as usize, (old_len - old_idx) as usize, (new_range.start + common_prefix_len + new_idx) as usize)', 'oc = oc + (old_len - old_idx);')
p = call(o, p, 'd.insert(', 'Ev::Insert((old_range.start + common_prefix_len + old_idx) as usize, (new_range.start + common_prefix_len + new_idx) as usize, (new_len - new_idx) as usize)', 'nc = nc + (new_len - new_idx);')
p = call(o, p, 'd.equal(', 'Ev::Equal((old_range.start + old_len + common_prefix_len) as usize, (new_range.start + new_len + common_prefix_len) as usize, common_suffix_len)', 'oc = oc + common_suffix_len; nc = nc + common_suffix_len;')
p = finish(o, p, pat='d.finish()')
df = o.find('pub fn diff<Old, New, D>(')
o.before('{', contract('alg_lvl(None)'), start=df)
o.save()
