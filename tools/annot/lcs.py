import sys; sys.path.insert(0, '/verif/tools')
from ann import Overlay, ghost
o = Overlay('/verif/contracts/lcs.rs')
o.strip_ghost()
def contract(lv, opt):
    return '''
    requires diff_pre(*vstd::prelude::old(d), old, old_range, new, new_range, LVL),
        (old_range.end - old_range.start) <= u32::MAX || (new_range.end - new_range.start) <= u32::MAX,   // table cells are u32
    ensures
        err_post(*vstd::prelude::old(d), *final(d), res),
        (*final(d)).fobs() == (*vstd::prelude::old(d)).fobs(),
        (*final(d)).config() == (*vstd::prelude::old(d)).config(),
        seg_post(*vstd::prelude::old(d), *final(d), old, old_range, new, new_range, LVL, OPT, fin::<D>(), res.is_ok()),
'''.replace('LVL', lv).replace('OPT', opt)
GEN = '''<Old: Index<usize> + ?Sized, New: Index<usize> + ?Sized>'''
WH = '''where New::Output: PartialEq<Old::Output>'''
TBL = '''t: Map<(usize, usize), u32>, old: &Old, os: int, oe: int, new: &New, ns: int, ne: int'''
mt = o.find('fn make_table<Old, New>(')
o.lines[mt:mt] = ghost('''
/// every stored value is bounded by the remaining lengths (so `+ 1` cannot overflow)
spec fn tbl_bounded(t: Map<(usize, usize), u32>, new_len: int, old_len: int) -> bool {
    forall|k: (usize, usize)| #[trigger] t.contains_key(k) ==> k.0 < new_len && k.1 < old_len && t[k] <= new_len - k.0 && t[k] <= old_len - k.1
}
// ---- C03: the table is the LCS table of the two ranges.  Cell (i, j) - NEW index first - belongs to old[os + j .. oe) and new[ns + i .. ne)
/// value of cell (i, j); the code stores only positive values, absent cells are 0
spec fn tbl_val(t: Map<(usize, usize), u32>, i: int, j: int) -> int {
    if t.contains_key((i as usize, j as usize)) { t[(i as usize, j as usize)] as int } else { 0 }
}
spec fn cell_ok GEN(TBL, i: int, j: int) -> bool WH
{ tbl_val(t, i, j) == lcs_len(old, os + j, oe, new, ns + i, ne) }
/// cell (i2, j2) is filled no later than cell (i, j): rows from the last one up, each row from its last column down
spec fn cell_done(i2: int, j2: int, i: int, j: int) -> bool { i2 > i || (i2 == i && j2 >= j) }
/// all cells filled no later than (i, j) - including the zero border row/column - are final, nothing else is stored
spec fn tbl_upto GEN(TBL, i: int, j: int) -> bool WH
{
    (forall|i2: int, j2: int| 0 <= i2 <= ne - ns && 0 <= j2 <= oe - os && cell_done(i2, j2, i, j) ==> #[trigger] cell_ok(t, old, os, oe, new, ns, ne, i2, j2))
    && (forall|k: (usize, usize)| #[trigger] t.contains_key(k) ==> k.0 < ne - ns && k.1 < oe - os && cell_done(k.0 as int, k.1 as int, i, j))
}
/// make_table's result: for all 0 <= i <= new_len, 0 <= j <= old_len the cell (i, j) is lcs_len(old[os + j ..), new[ns + i ..))
spec fn tbl_lcs GEN(TBL) -> bool WH
{
    forall|i: int, j: int| 0 <= i <= ne - ns && 0 <= j <= oe - os ==> #[trigger] cell_ok(t, old, os, oe, new, ns, ne, i, j)
}
proof fn lemma_tbl_init GEN(old: &Old, os: int, oe: int, new: &New, ns: int, ne: int) WH
  requires os <= oe, ns <= ne
  ensures tbl_upto(Map::<(usize, usize), u32>::empty(), old, os, oe, new, ns, ne, ne - ns, 0)
{
    let t = Map::<(usize, usize), u32>::empty();
    assert forall|i2: int, j2: int| 0 <= i2 <= ne - ns && 0 <= j2 <= oe - os && cell_done(i2, j2, ne - ns, 0) implies #[trigger] cell_ok(t, old, os, oe, new, ns, ne, i2, j2) by {
        lemma_lcs_empty(old, os + j2, oe, new, ns + i2, ne);
    }
}
/// starting row i: the border cell (i, old_len) is 0
proof fn lemma_tbl_row GEN(TBL, i: int) WH
  requires os <= oe, 0 <= i < ne - ns, tbl_upto(t, old, os, oe, new, ns, ne, i + 1, 0)
  ensures tbl_upto(t, old, os, oe, new, ns, ne, i, oe - os)
{
    assert forall|i2: int, j2: int| 0 <= i2 <= ne - ns && 0 <= j2 <= oe - os && cell_done(i2, j2, i, oe - os) implies #[trigger] cell_ok(t, old, os, oe, new, ns, ne, i2, j2) by {
        if i2 > i {
            assert(cell_done(i2, j2, i + 1, 0));
        } else {
            lemma_lcs_empty(old, os + j2, oe, new, ns + i2, ne);
            if t.contains_key((i2 as usize, j2 as usize)) { assert(((i2 as usize, j2 as usize)).1 < oe - os); }
        }
    }
    assert forall|k: (usize, usize)| #[trigger] t.contains_key(k) implies k.0 < ne - ns && k.1 < oe - os && cell_done(k.0 as int, k.1 as int, i, oe - os) by {
        assert(cell_done(k.0 as int, k.1 as int, i + 1, 0));
    }
}
/// the recurrence of lcs_len read off the table: what the loop body computes for cell (i, j)
proof fn lemma_tbl_cell GEN(TBL, i: int, j: int) WH
  requires 0 <= i < ne - ns, 0 <= j < oe - os, tbl_upto(t, old, os, oe, new, ns, ne, i, j + 1)
  ensures lcs_len(old, os + j, oe, new, ns + i, ne) == (if eqv(old, os + j, new, ns + i) { tbl_val(t, i + 1, j + 1) + 1 } else { imax(tbl_val(t, i + 1, j), tbl_val(t, i, j + 1)) })
{
    assert(cell_done(i + 1, j + 1, i, j + 1) && cell_done(i + 1, j, i, j + 1) && cell_done(i, j + 1, i, j + 1));
    assert(cell_ok(t, old, os, oe, new, ns, ne, i + 1, j + 1));
    assert(cell_ok(t, old, os, oe, new, ns, ne, i + 1, j));
    assert(cell_ok(t, old, os, oe, new, ns, ne, i, j + 1));
    assert(os + (j + 1) == os + j + 1 && ns + (i + 1) == ns + i + 1);
}
/// storing the value of cell (i, j) (or leaving it absent when it is 0)
proof fn lemma_tbl_store GEN(tp: Map<(usize, usize), u32>, TBL, i: int, j: int, val: u32) WH
  requires 0 <= i < ne - ns, 0 <= j < oe - os, ne - ns <= usize::MAX, oe - os <= usize::MAX,
      tbl_upto(tp, old, os, oe, new, ns, ne, i, j + 1),
      val == lcs_len(old, os + j, oe, new, ns + i, ne),
      t == (if val > 0 { tp.insert((i as usize, j as usize), val) } else { tp }),
  ensures tbl_upto(t, old, os, oe, new, ns, ne, i, j)
{
    if tp.contains_key((i as usize, j as usize)) { assert(cell_done(((i as usize, j as usize)).0 as int, ((i as usize, j as usize)).1 as int, i, j + 1)); }
    assert forall|i2: int, j2: int| 0 <= i2 <= ne - ns && 0 <= j2 <= oe - os && cell_done(i2, j2, i, j) implies #[trigger] cell_ok(t, old, os, oe, new, ns, ne, i2, j2) by {
        if i2 == i && j2 == j {
        } else {
            assert(cell_done(i2, j2, i, j + 1));
            assert(cell_ok(tp, old, os, oe, new, ns, ne, i2, j2));
            assert((i2 as usize, j2 as usize) != (i as usize, j as usize));
        }
    }
    assert forall|k: (usize, usize)| #[trigger] t.contains_key(k) implies k.0 < ne - ns && k.1 < oe - os && cell_done(k.0 as int, k.1 as int, i, j) by {
        if k != (i as usize, j as usize) { assert(tp.contains_key(k)); assert(cell_done(k.0 as int, k.1 as int, i, j + 1)); }
    }
}
/// one step of the walk at cell (i, j) = (new_idx, old_idx): the neighbour the code moves to keeps the remaining lcs
/// (the code: not equal and cell(i, j + 1) >= cell(i + 1, j) => delete, else insert; on a tie either move is optimal)
proof fn lemma_walk GEN(TBL, i: int, j: int) WH
  requires 0 <= i < ne - ns, 0 <= j < oe - os, tbl_lcs(t, old, os, oe, new, ns, ne)
  ensures
      eqv(old, os + j, new, ns + i) ==> lcs_len(old, os + j, oe, new, ns + i, ne) == 1 + lcs_len(old, os + j + 1, oe, new, ns + i + 1, ne),
      !eqv(old, os + j, new, ns + i) && tbl_val(t, i, j + 1) >= tbl_val(t, i + 1, j) ==> lcs_len(old, os + j, oe, new, ns + i, ne) == lcs_len(old, os + j + 1, oe, new, ns + i, ne),
      !eqv(old, os + j, new, ns + i) && tbl_val(t, i, j + 1) <= tbl_val(t, i + 1, j) ==> lcs_len(old, os + j, oe, new, ns + i, ne) == lcs_len(old, os + j, oe, new, ns + i + 1, ne),
{
    assert(cell_ok(t, old, os, oe, new, ns, ne, i, j + 1));
    assert(cell_ok(t, old, os, oe, new, ns, ne, i + 1, j));
    assert(os + (j + 1) == os + j + 1 && ns + (i + 1) == ns + i + 1);
}
'''.replace('GEN', GEN).replace('WH', WH).replace('TBL', TBL))
mt = o.find('fn make_table<Old, New>(')
o.before('{', '''
    requires box_pre(old, old_range, new, new_range),
        (old_range.end - old_range.start) <= u32::MAX || (new_range.end - new_range.start) <= u32::MAX,
    ensures
        deadline is None ==> res is Some,
        res matches Some(t) ==> tbl_lcs(t@, old, old_range.start as int, old_range.end as int, new, new_range.start as int, new_range.end as int),
''', start=mt)
o.after('{', '''
broadcast use {axiom_pure_index, axiom_pure_eq};
''', start=mt, stmt=False, ind='    ')
ARGS = 'old, old_range.start as int, old_range.end as int, new, new_range.start as int, new_range.end as int'
# NOTE: `VERUS_ghost_iter` is the name the verus! macro gives the ghost iterator of a `for` loop whose head does not name one
# (`for x in it: e`); the head is a code line of /repo, so the default name is used.  `.index@` = number of completed iterations;
# inside the body Verus knows i == new_len - 1 - index (resp. j == old_len - 1 - index), at exit index == len.
o.before('for i in (0..new_len).rev()', '''
proof { lemma_tbl_init(ARGS); }
'''.replace('ARGS', ARGS), start=mt)
o.after('for i in (0..new_len).rev()', '''
    invariant
        old_len == old_range.end - old_range.start, new_len == new_range.end - new_range.start,
        box_pre(old, old_range, new, new_range),
        old_len <= u32::MAX || new_len <= u32::MAX,
        tbl_bounded(table@, new_len as int, old_len as int),
        0 <= VERUS_ghost_iter.index@ <= new_len,
        tbl_upto(table@, ARGS, new_len - VERUS_ghost_iter.index@, 0),
'''.replace('ARGS', ARGS), start=mt, stmt=False)
o.before('for j in (0..old_len).rev()', '''
proof { lemma_tbl_row(table@, ARGS, i as int); }
'''.replace('ARGS', ARGS), start=mt)
o.after('for j in (0..old_len).rev()', '''
    invariant
        old_len == old_range.end - old_range.start, new_len == new_range.end - new_range.start,
        box_pre(old, old_range, new, new_range), i < new_len,
        old_len <= u32::MAX || new_len <= u32::MAX,
        tbl_bounded(table@, new_len as int, old_len as int),
        0 <= VERUS_ghost_iter.index@ <= old_len,
        tbl_upto(table@, ARGS, i as int, old_len - VERUS_ghost_iter.index@),
'''.replace('ARGS', ARGS), start=mt, stmt=False)
o.before('let val = if new[new_range.start + i] == old[old_range.start + j] {', 'broadcast use {axiom_pure_index, axiom_pure_eq};', start=mt)
o.before('if val > 0 {', '''
let ghost tp = table@;
proof {
    lemma_tbl_cell(tp, ARGS, i as int, j as int);
    assert(val == lcs_len(old, old_range.start + j, old_range.end as int, new, new_range.start + i, new_range.end as int));
}
'''.replace('ARGS', ARGS), start=mt)
k = o.find('table.insert((i, j), val);', mt)
o.lines[k+2:k+2] = ghost('''
proof { lemma_tbl_store(tp, table@, ARGS, i as int, j as int, val); }
'''.replace('ARGS', ARGS), o.indent_of(k + 1))
o.before('Some(table)', '''
proof { assert(tbl_lcs(table@, ARGS)); }
'''.replace('ARGS', ARGS), start=mt)

dd = o.find('pub fn diff_deadline<Old, New, D>(')
# the body query (5 hook calls + 4 exits on the main path) needs 20-35 M rlimit units depending on the solver seed: the default (30 M) is too tight
o.lines[dd:dd] = ghost('#[verifier::rlimit(40)]')
dd = o.find('pub fn diff_deadline<Old, New, D>(')
o.before('{', contract('2', 'deadline is None'), start=dd)   # LCS is exact with and without a deadline
o.after('{', '''
broadcast use {axiom_pure_index, axiom_pure_eq};
let ghost rel = rel_of(old, new); let ghost lvl: int = 2;
let ghost o0 = old_range.start as int; let ghost n0 = new_range.start as int;
let ghost oe0 = old_range.end as int; let ghost ne0 = new_range.end as int;
let ghost d0 = *d; let ghost t0 = d.trace(); let ghost rs0 = d.rely_st(); let ghost r1 = d.rely_rel();
let ghost mut s: Seq<Ev> = Seq::empty();
let ghost mut oc: int = o0; let ghost mut nc: int = n0;
let ghost opt = deadline is None;      // C03: no deadline => the script is optimal
let ghost mut eqs: int = 0;            // number of items reported equal so far
proof { lemma_seg_empty(rel, lvl, o0, n0); lemma_run_empty(r1, rs0); assert(t0 + s =~= t0); assert(alg_inv(*d, d0, t0, s, rel, lvl, rs0, o0, n0, oc, nc)); }
proof { assert(eqs == seg_eqs(rel, lvl, s, o0, n0, oc, nc)); }
''', start=dd, stmt=False, ind='    ')

def call(o, start, pat, ev, adv, nth=1, extra='', opt=''):
    i = o.find(pat, start, nth)
    ind = o.indent_of(i)
    pre = ghost('''
proof { let e = %s; %s if d0.relies() { pre_call(rel, r1, lvl, s, e, o0, n0, oc, nc, rs0); } }
''' % (ev, extra), ind)
    o.lines[i:i] = pre
    j = o.stmt_end(i + len(pre))
    post = ghost('''
proof { let e = %s; post_call(rel, r1, lvl, s, e, o0, n0, oc, nc, rs0); assert((t0 + s).push(e) =~= t0 + s.push(e)); s = s.push(e); %s
    assert(alg_inv(*d, d0, t0, s, rel, lvl, rs0, o0, n0, oc, nc)); eqs = eqs + ev_eqs(e); assert(eqs == seg_eqs(rel, lvl, s, o0, n0, oc, nc)); %s }
''' % (ev, adv, opt), ind)
    o.lines[j+1:j+1] = post
    return j + 1 + len(post)

def finish(o, start, nth=1, pat='d.finish()?;', why=''):
    i = o.find(pat, start, nth)
    ind = o.indent_of(i)
    o.lines[i:i] = ghost('''
proof { %s assert(opt ==> eqs == lcs_len(old, o0, oe0, new, n0, ne0)); }
proof { assert(oc == oe0 && nc == ne0); assert(seg(old, new, lvl, s, o0, n0, oe0, ne0)); if d0.relies() { lemma_seg_any(rel, r1, lvl, s, o0, n0, oe0, ne0, rs0); } lemma_run_fin::<D>(r1, rs0, s); }
''' % why, ind)
    return i + 3

# the inner box (prefix and suffix stripped) that make_table has tabulated
IB = 'old, o0 + common_prefix_len, oe0 - common_suffix_len, new, n0 + common_prefix_len, ne0 - common_suffix_len'
p = call(o, dd, 'd.delete(old_range.start, old_range.len(), new_range.start)?;',
     'Ev::Delete(old_range.start, (old_range.end - old_range.start) as usize, new_range.start)', 'oc = oc + (old_range.end - old_range.start);')
p = finish(o, p, why='lemma_lcs_empty(old, o0, oe0, new, n0, ne0);')
p = call(o, p, 'd.insert(old_range.start, new_range.start, new_range.len())?;',
     'Ev::Insert(old_range.start, new_range.start, (new_range.end - new_range.start) as usize)', 'nc = nc + (new_range.end - new_range.start);')
p = finish(o, p, why='lemma_lcs_empty(old, o0, oe0, new, n0, ne0);')
p = call(o, p, 'd.equal(old_range.start, new_range.start, old_range.len())?;',
     'Ev::Equal(old_range.start, new_range.start, (old_range.end - old_range.start) as usize)', 'oc = oc + (old_range.end - old_range.start); nc = nc + (old_range.end - old_range.start);')
p = finish(o, p, why='lemma_lcs_prefix(old, o0, oe0, new, n0, ne0, oe0 - o0); lemma_lcs_empty(old, oe0, oe0, new, ne0, ne0);')
p = call(o, p, 'd.equal(old_range.start, new_range.start, common_prefix_len)?;',
     'Ev::Equal(old_range.start, new_range.start, common_prefix_len)', 'oc = oc + common_prefix_len; nc = nc + common_prefix_len;')
INV = '''
    invariant
        alg_inv(*d, d0, t0, s, rel, lvl, rs0, o0, n0, oc, nc), (*d).fobs() == d0.fobs(), (*d).config() == d0.config(),
        box_pre(old, old_range, new, new_range), rely_pre(d0, old, old_range, new, new_range, lvl),
        rel == rel_of(old, new), lvl == 2, r1 == d0.rely_rel(), o0 == old_range.start, n0 == new_range.start,
        d0 == *vstd::prelude::old(d), rs0 == d0.rely_st(), t0 == d0.trace(), oe0 == old_range.end, ne0 == new_range.end,
        old_len == old_range.end - old_range.start - common_prefix_len - common_suffix_len,
        new_len == new_range.end - new_range.start - common_prefix_len - common_suffix_len,
        old_idx <= old_len, new_idx <= new_len,
        oc == old_range.start + common_prefix_len + old_idx, nc == new_range.start + common_prefix_len + new_idx,
        // C03: the table is the LCS table of the inner box; what has been reported equal plus what the rest can still yield is constant
        eqs == seg_eqs(rel, lvl, s, o0, n0, oc, nc),
        tbl_lcs(table@, IB),
        eqs + lcs_len(old, oc, oe0 - common_suffix_len, new, nc, ne0 - common_suffix_len) == common_prefix_len + lcs_len(IB),
    decreases (new_len - new_idx) + (old_len - old_idx),
'''.replace('IB', IB)
w = o.after('while new_idx < new_len && old_idx < old_len', INV, start=p, stmt=False)
o.after('{', '''
broadcast use {axiom_pure_index, axiom_pure_eq};
proof { lemma_walk(table@, IB, new_idx as int, old_idx as int); }
'''.replace('IB', IB), start=w, stmt=False, ind='            ')
p = call(o, w, 'd.equal(old_orig_idx, new_orig_idx, 1)?;', 'Ev::Equal(old_orig_idx, new_orig_idx, 1)', 'oc = oc + 1; nc = nc + 1;',
         extra='assert(eqv(old, old_orig_idx as int, new, new_orig_idx as int)); assert(relk(rel, old_orig_idx as int, new_orig_idx as int, 0));')
p = call(o, p, 'd.delete(old_orig_idx, 1, new_orig_idx)?;', 'Ev::Delete(old_orig_idx, 1, new_orig_idx)', 'oc = oc + 1;')
p = call(o, p, 'd.insert(old_orig_idx, new_orig_idx, 1)?;', 'Ev::Insert(old_orig_idx, new_orig_idx, 1)', 'nc = nc + 1;')
o.before('if old_idx < old_len {', '''
proof { assert(opt ==> eqs == common_prefix_len + lcs_len(IB)); }   // the walk has used up one side (no deadline: there was a table)
'''.replace('IB', IB), start=p)

p = call(o, p, 'd.delete(', 'Ev::Delete((old_range.start + common_prefix_len + old_idx) as usize, (old_len - old_idx) as usize, (new_range.start + common_prefix_len + new_idx) as usize)', 'oc = oc + (old_len - old_idx);')
p = call(o, p, 'd.insert(', 'Ev::Insert((old_range.start + common_prefix_len + old_idx) as usize, (new_range.start + common_prefix_len + new_idx) as usize, (new_len - new_idx) as usize)', 'nc = nc + (new_len - new_idx);')
p = call(o, p, 'd.equal(', 'Ev::Equal((old_range.start + old_len + common_prefix_len) as usize, (new_range.start + new_len + common_prefix_len) as usize, common_suffix_len)', 'oc = oc + common_suffix_len; nc = nc + common_suffix_len;')
p = finish(o, p, pat='d.finish()', why='if opt { lemma_lcs_strip(old, o0, oe0, new, n0, ne0, common_prefix_len as int, common_suffix_len as int); }')
df = o.find('pub fn diff<Old, New, D>(')
o.before('{', contract('alg_lvl(None)', 'true'), start=df)
o.save()
