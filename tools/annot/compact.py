import sys; sys.path.insert(0, '/verif/tools')
from ann import Overlay, ghost
o = Overlay('/verif/contracts/compact.rs')
o.strip_ghost()

# ---- ghost fields
i = o.find("new: &'new New,", o.find('pub struct Compact<'))
o.lines[i+1:i+1] = ghost('''
hist: Ghost<Seq<Ev>>,   // every successful call received (ghost)
rst0: Ghost<St>,        // checker state the first call is expected from; set by the creator (ghost)
it0: Ghost<Seq<Ev>>,    // the inner hook's history when this adapter was created (ghost)
ist0: Ghost<St>,        // the inner hook's expected state when this adapter was created (ghost)
''', '    ')
i = o.find('pub fn new(d: D')
o.lines[i:i] = ghost('''
pub closed spec fn inner(&self) -> D { self.d }
pub closed spec fn ops_(&self) -> Seq<DiffOp> { self.ops@ }
pub closed spec fn hist_(&self) -> Seq<Ev> { self.hist@ }
pub closed spec fn rst0_(&self) -> St { self.rst0@ }
pub closed spec fn it0_(&self) -> Seq<Ev> { self.it0@ }
pub closed spec fn ist0_(&self) -> St { self.ist0@ }
pub closed spec fn old_(&self) -> &'old Old { self.old }
pub closed spec fn new_(&self) -> &'new New { self.new }
pub open spec fn rel(&self) -> Rel { rel_of(self.old_(), self.new_()) }
/// checker state after everything received
pub open spec fn rst(&self) -> St { run_rel(self.rel(), self.rst0_(), self.hist_()) }
/// the box of what has been received so far
pub open spec fn bcur(&self) -> OBox { OBox { o0: self.rst0_().oc, n0: self.rst0_().nc, oe: self.rst().oc, ne: self.rst().nc } }
/// configuration: established by the creator (ghost assignment of rst0), never changed afterwards
pub open spec fn cfg_ok(&self) -> bool {
    let r0 = self.rst0_(); let i0 = self.ist0_();
    &&& start_ok(r0)
/*L*/    &&& r0.lvl <= 1   // the exactness part of the proof lives in the strict view
    &&& inb(self.old_(), (r0.oc as usize)..(r0.oe as usize)) && inb(self.new_(), (r0.nc as usize)..(r0.ne as usize))
    &&& (self.inner().relies() ==> self.inner().rely_rel() == self.rel() && start_ok0(i0)
            && i0.oc == r0.oc && i0.nc == r0.nc && i0.oe == r0.oe && i0.ne == r0.ne && i0.lvl == (if r0.lvl >= 2 { 2int } else { 0int }))
}
/// the compacted script has been replayed into the inner hook, which has been finished
pub open spec fn done(&self) -> bool {
    let ops = self.ops_(); let r0 = self.rst0_();
    &&& ops_full(self.old_(), self.new_(), ops, self.bcur(), false)
    &&& (r0.lvl >= 2 ==> ops_full(self.old_(), self.new_(), ops, self.bcur(), true))   // [C11]
    &&& esum(ops, ops.len() as int) == self.rst().eqs - r0.eqs
    // every Insert sent on is the last op or sits in front of an Equal it cannot slide across
    &&& ins_stuck(self.rel(), ops)   // [C09]
    &&& self.inner().trace() == evs_of(ops) + fin::<D>()   // the inner hook was fresh
    &&& !self.inner().failed()
    &&& (self.inner().relies() ==> self.inner().rely_st() == run_rel(self.inner().rely_rel(), self.ist0_(), evs_of(ops) + fin::<D>()) && self.inner().rely_st().ok)
}
pub open spec fn inv(&self) -> bool {
    let rst = self.rst();
    &&& rst.ok && self.cfg_ok()
    &&& (!rst.fin ==> self.ops_() == ops_of(self.hist_()) && only_edi(self.hist_()) && !self.inner().failed()
            && self.inner().trace() == Seq::<Ev>::empty() && (self.inner().relies() ==> self.inner().rely_st() == self.ist0_()))
    &&& (rst.fin ==> only_edi(self.hist_().drop_last()) && self.done())
}
/// after creation (the creator then assigns rst0 / ist0 by ghost assignments)
pub open spec fn fresh(&self) -> bool {
    self.hist_() == Seq::<Ev>::empty() && self.ops_() == Seq::<DiffOp>::empty()
}
''', '    ')
n0 = o.find('pub fn new(d: D')
o.before('{', '''
    ensures res.fresh(), res.inner() == d, res.old_() == old, res.new_() == new,
''', start=n0, ind='    ')
i = o.find('new,', o.find('ops: Vec::new(),', n0))
o.lines[i+1:i+1] = ghost('''
hist: Ghost(Seq::empty()), rst0: Ghost(arbitrary()), it0: Ghost(d.trace()), ist0: Ghost(arbitrary()),
''', '            ')
o.before('{', '''
    ensures res == self.inner(),
''', start=o.find('pub fn into_inner(self)'), ind='    ')

im = o.find("DiffHook for Compact<'old, 'new, Old, New, D>")
i = o.find('type Error = D::Error;', im)
o.lines[i+1:i+1] = ghost('''
open spec fn trace(&self) -> Seq<Ev> { self.hist_() }
open spec fn failed(&self) -> bool { self.inner().failed() }
open spec fn last_err(&self) -> Option<Self::Error> { self.inner().last_err() }
open spec fn relies(&self) -> bool { true }
open spec fn rely_rel(&self) -> Rel { self.rel() }
/// the expected state is only acceptable (`ok`) while the adapter's invariant holds
open spec fn rely_st(&self) -> St { St { ok: self.inv(), ..self.rst() } }
open spec fn observes_finish() -> bool { true }
open spec fn replace_is_atomic() -> bool { false }
open spec fn accepts_replace(&self) -> bool { true }
#[verifier::prophetic] open spec fn fobs(&self) -> Seq<Obs<Self::Error>> { self.inner().fobs() }
/// configuration: the creator's ghost assignments, the two sequences and the inner hook's configuration
closed spec fn config(&self) -> Self {
    Compact { d: self.d.config(), ops: arbitrary(), old: self.old, new: self.new, hist: Ghost(Seq::empty()), rst0: self.rst0, it0: Ghost(Seq::empty()), ist0: self.ist0 }
}
''', '    ')
for name, ev in (('equal', 'Ev::Equal(old_index, new_index, len)'), ('delete', 'Ev::Delete(old_index, old_len, new_index)'), ('insert', 'Ev::Insert(old_index, new_index, new_len)')):
    m = o.find('fn %s(' % name, im)
    o.after('{', '''
let ghost pre = *vstd::prelude::old(self);
let ghost e = %s;
proof { reveal(step_rel); }
''' % ev, start=m, stmt=False, ind='        ')
    i = o.find('Ok(())', m)
    o.lines[i:i] = ghost('''
proof {
    self.hist@ = self.hist@.push(e);
    lemma_run_push(pre.rel(), pre.rst0_(), pre.hist_(), e);
    lemma_ops_of_push(pre.hist_(), e);
    lemma_mono(pre.rel(), pre.rst0_(), pre.hist_());
    assert(only_edi(self.hist_())) by {
        assert forall|i: int| 0 <= i < self.hist_().len() implies ((#[trigger] self.hist_()[i]) is Equal || self.hist_()[i] is Delete || self.hist_()[i] is Insert) by {
            if i < pre.hist_().len() { assert(self.hist_()[i] == pre.hist_()[i]); }
        }
    }
}
''', '        ')
m = o.find('fn replace(', im)
o.after('{', '''
proof { reveal(step_rel); }
''', start=m, stmt=False, ind='        ')
o.save()

# =====================================================================================================
o = Overlay('/verif/contracts/compact.rs')
im = o.find("DiffHook for Compact<'old, 'new, Old, New, D>")
m = o.find('fn finish(&mut self)', im)
o.after('{', '''
let ghost pre = *vstd::prelude::old(self);
let ghost rel = pre.rel(); let ghost r0 = pre.rst0_(); let ghost h = pre.hist_(); let ghost bc = pre.bcur();
let ghost irel = pre.inner().rely_rel(); let ghost i0 = pre.ist0_();
proof {
    reveal(step_rel);
    lemma_hist_ops(self.old, self.new, r0, h);
    lemma_mono(rel, r0, h);
    assert(cleanup_pre(self.old, self.new, self.ops@, bc));
}
''', start=m, stmt=False, ind='        ')
i = o.find('match IntoIterator::into_iter(&self.ops) { mut it__ =>', m)
o.lines[i:i] = ghost('''
let ghost ops1 = self.ops@;
let ghost mut k: int = 0;
proof {
    assert(ops_full(self.old, self.new, ops1, bc, false));
    assert(ins_stuck(rel, ops1));   // [C09]
    assert(r0.lvl >= 2 ==> ops_full(self.old, self.new, ops1, bc, true));   // [C11]
    assert(ops1.take(0) =~= Seq::<DiffOp>::empty());
    assert(evs_of(Seq::<DiffOp>::empty()) =~= Seq::<Ev>::empty());
    lemma_run_empty(irel, i0);
    assert(ops1.skip(0) =~= ops1);
}
''', '        ')
o.after('loop', '''
    invariant
        0 <= k <= ops1.len(), self.ops@ == ops1,
        it__.obeys_prophetic_iter_laws(), it__.remaining() == ops1.skip(k).map_values(|x: DiffOp| &x),
        self.hist@ == pre.hist@, self.rst0@ == pre.rst0@, self.ist0@ == pre.ist0@, self.old == pre.old, self.new == pre.new,
        rel == pre.rel(), r0 == pre.rst0_(), h == pre.hist_(), bc == pre.bcur(), irel == pre.inner().rely_rel(), i0 == pre.ist0_(),
        pre == *vstd::prelude::old(self), pre.inv(), wf(pre.rst()),
        ops_full(self.old, self.new, ops1, bc, false),
        r0.lvl >= 2 ==> ops_full(self.old, self.new, ops1, bc, true),   // [C11]
        esum(ops1, ops1.len() as int) == pre.rst().eqs - r0.eqs,
        ins_stuck(rel, ops1),   // [C09]
        self.d.fobs() == pre.inner().fobs(), self.d.config() == pre.inner().config(),
        !self.d.failed(), self.d.relies() == pre.inner().relies(), self.d.rely_rel() == irel, self.d.accepts_replace() == pre.inner().accepts_replace(),
        self.d.trace() == evs_of(ops1.take(k)),
        self.d.relies() ==> self.d.rely_st() == run_rel(irel, i0, evs_of(ops1.take(k))) && wf(self.d.rely_st())
            && self.d.rely_st().oc == bc.o0 + osum(ops1, k) && self.d.rely_st().nc == bc.n0 + nsum(ops1, k)
            && self.d.rely_st().oe == i0.oe && self.d.rely_st().ne == i0.ne && self.d.rely_st().lvl == i0.lvl,
        self.d.relies() ==> i0.oe >= bc.oe && i0.ne >= bc.ne && rel_implies(rel_of(self.old, self.new), irel),
    ensures k == ops1.len(),
    decreases ops1.len() - k,
''', start=i, stmt=False)
j = o.find('op.apply_to_hook(&mut self.d)?;', m)
o.lines[j:j] = ghost('''
let ghost dk = self.d;
proof {
    assert(k < ops1.len() && *op == ops1[k]) by {
        assert(ops1.skip(k).map_values(|x: DiffOp| &x)[0] == &ops1[k]);
    }
    if self.d.relies() { lemma_op_step(self.old, self.new, irel, ops1, k, bc, self.d.rely_st()); }
    assert(!(ops1[k] is Replace)) by { assert(op_ok(self.old, self.new, ops1, k, bc, false)); }
    assert(self.d.fobs() == pre.inner().fobs());
    assert(pre.fobs() == pre.inner().fobs());
}
''', '            ')
j = o.find('op.apply_to_hook(&mut self.d)?;', m)
o.lines[j+1:j+1] = ghost('''
proof {
    assert(ops1.take(k + 1) =~= ops1.take(k).push(ops1[k]));
    lemma_evs_of_push(ops1.take(k), ops1[k]);
    lemma_run_push(irel, i0, evs_of(ops1.take(k)), ev_of(ops1[k]));
    assert(ops1.skip(k + 1) =~= ops1.skip(k).drop_first());
    k = k + 1;
}
''', '            ')
j = o.find('self.d.finish()', m)
o.lines[j:j] = ghost('''
proof {
    assert(k == ops1.len());
    assert(ops1.take(k) =~= ops1);
    let e = Ev::Finish;
    self.hist@ = self.hist@.push(e);
    lemma_run_push(rel, r0, h, e);
    assert(self.hist_().drop_last() =~= h);
    lemma_run_fin::<D>(irel, i0, evs_of(ops1));
    lemma_sums_mono(ops1, 0, ops1.len() as int);
}
''', '        ')
o.save()
