import sys; sys.path.insert(0, '/verif/tools')
from ann import Overlay, ghost
o = Overlay('/verif/contracts/common.rs')
o.strip_ghost()
def contract(rng_o, rng_n, has_deadline):
    dl = 'deadline' if has_deadline else 'None'
    return '''
    requires box_pre(old, %(o)s, new, %(n)s),
        alg == Algorithm::Lcs ==> ((%(o)s.end - %(o)s.start) <= u32::MAX || (%(n)s.end - %(n)s.start) <= u32::MAX),   // lcs table cells are u32
    /*S*/     %(dls)s
    ensures
    /*L*/     cap_post(old, %(o)s, new, %(n)s, res@, false),   // [C02,C09,C10]
    /*S*/     cap_post(old, %(o)s, new, %(n)s, res@, true),    // [C11]
    // C09, last sentence: a pure insertion that is followed by equal items sits at its latest position (its first inserted item
    // differs from the first equal item after it: `new[ins.new_index] == old[eq.old_index]` is false)
    ins_late(rel_of(old, new), res@),   // [C09]
    /*L*/     (%(dln)s && alg != Algorithm::Patience) ==> cap_eqs(old, %(o)s, new, %(n)s, res@, false)
    /*L*/         == lcs_len(old, %(o)s.start as int, %(o)s.end as int, new, %(n)s.start as int, %(n)s.end as int),   // [C03]
    /*L*/     // C02: identical inputs give only Equal ops (none for two empty inputs) - for the minimal algorithms without deadline
    /*L*/     (%(dln)s && alg != Algorithm::Patience && (%(o)s.end - %(o)s.start) == (%(n)s.end - %(n)s.start)
    /*L*/         && (forall|i: int| 0 <= i < %(o)s.end - %(o)s.start ==> #[trigger] relk(rel_of(old, new), %(o)s.start as int, %(n)s.start as int, i)))
    /*L*/         ==> (res@.len() == (if %(o)s.end > %(o)s.start { 1nat } else { 0nat })
    /*L*/              && (%(o)s.end > %(o)s.start ==> res@[0] == DiffOp::Equal { old_index: %(o)s.start, new_index: %(n)s.start, len: (%(o)s.end - %(o)s.start) as usize })),
''' % {'o': rng_o, 'n': rng_n, 'dln': ('deadline is None' if has_deadline else 'true'), 'dls': ('deadline is None || alg == Algorithm::Lcs,   // exactness is claimed without a deadline, and for LCS with any deadline (the Myers give-up path emits an Insert that carries the start of the deleted block)' if has_deadline else 'true,')}
i = o.find('pub fn capture_diff<Old, New>(')
o.before('{', contract('old_range', 'new_range', False), start=i)
i = o.find('pub fn capture_diff_slices<T>(')
o.before('{', contract('(0..old.len())', '(0..new.len())', False), start=i)
i = o.find('pub fn capture_diff_slices_deadline<T>(')
o.before('{', contract('(0..old.len())', '(0..new.len())', True), start=i)
cd = o.find('pub fn capture_diff_deadline<Old, New>(')
o.before('{', contract('old_range', 'new_range', True), start=cd)
i = o.find('diff_deadline(alg, &mut d, old, old_range, new, new_range, deadline).unwrap();', cd)
o.lines[i:i] = ghost('''
let ghost rel = rel_of(old, new);
let ghost os = old_range.start as int; let ghost ns = new_range.start as int; let ghost oe = old_range.end as int; let ghost ne = new_range.end as int;
/*L*/ let ghost lc: int = 1; let ghost lr: int = 0;     // Compact checks carried indices within their run; what it forwards is only cursor-valid
/*S*/ let ghost lc: int = 2; let ghost lr: int = 2;     // exact in, exact out
proof {
    // ghost configuration by the creator: both adapters expect a script for the box that starts at the range starts
    d.d.rst0@ = canon_l(os, ns, oe, ne, lr);
    d.d.rel0@ = rel;
    lemma_run_empty(rel, d.d.rst0_());
    assert(sent::<Capture>(Seq::<Ev>::empty()) + Seq::<Ev>::empty() =~= Seq::<Ev>::empty());
    assert(d.d.inner().trace() =~= Seq::<Ev>::empty());
    assert(d.d.inv());
    d.rst0@ = canon_l(os, ns, oe, ne, lc);
    d.ist0@ = d.d.rely_st();
    lemma_run_empty(rel, d.rst0_());
    assert(ops_of(Seq::<Ev>::empty()) =~= Seq::<DiffOp>::empty());
    assert(d.inv());
}
let ghost d0 = d;
''', '    ')
j = o.find('diff_deadline(alg, &mut d, old, old_range, new, new_range, deadline).unwrap();', cd)
o.lines[j+1:j+1] = ghost('''
proof {
    reveal(step_rel);
    let lvl = lvl_of(alg, deadline);
    let s = choose|q: Seq<Ev>| #[trigger] seg(old, new, lvl, q, os, ns, oe, ne) && d.trace() == d0.trace() + q + fin::<Compact<Old, New, Replace<Capture>>>()
        && (d0.relies() ==> d.rely_st() == run_rel(d0.rely_rel(), d0.rely_st(), q + fin::<Compact<Old, New, Replace<Capture>>>()))
        && ((deadline is None && alg != Algorithm::Patience) ==> seg_eqs(rel, lvl, q, os, ns, oe, ne) == lcs_len(old, os, oe, new, ns, ne));
    lemma_seg_any(rel, rel, lvl, s, os, ns, oe, ne, d0.rely_st());
    lemma_run_fin::<Compact<Old, New, Replace<Capture>>>(rel, d0.rely_st(), s);
    assert(d.rely_st().ok && d.rely_st().fin);
    assert(d.inv() && d.rst().fin && d.done());
    // the inner Replace adapter has been driven by the compacted script and finished
    let rp = d.inner(); let ops1 = d.ops_();
    assert(rp.rely_st().ok);
    assert(rp.inv());
    lemma_run_fin::<Replace<Capture>>(rp.rr(), d.ist0_(), evs_of(ops1));
    assert(rp.rst().fin);
    let cp = rp.inner();
    lemma_sent_atomic::<Capture>(rp.em_());
    assert(cp.trace() =~= rp.em_());
    // the configuration of both adapters is still the one assigned above (start fields never change along a run)
    let r0 = d.rst0_(); let i0 = d.ist0_(); let q0 = rp.rst0_();
    let fc = fin::<Compact<Old, New, Replace<Capture>>>(); let fr = fin::<Replace<Capture>>();
    lemma_mono(d.rel(), r0, d.hist_());
    lemma_mono(rel, d0.rely_st(), s + fc);
    assert(d.rel() == rel);
    assert(r0.oc == os && r0.nc == ns && r0.oe == oe && r0.ne == ne && r0.lvl == lc);
    assert(d.rst().oc == oe && d.rst().nc == ne);
    lemma_mono(rp.rr(), q0, rp.hist_());
    lemma_mono(rp.rr(), i0, evs_of(ops1) + fr);
    assert(rp.rr() == rel);
    assert(q0.oc == os && q0.nc == ns && q0.oe == oe && q0.ne == ne && q0.lvl == lr);
    // what the Replace adapter received adds up to the compacted ops
    lemma_run_ops_acc(rel, i0, ops1);
    lemma_sums_mono(ops1, 0, ops1.len() as int);
    assert(rp.rst().oc == oe && rp.rst().nc == ne);
    let xs = rp.xs();
    assert(xs.ok && xs.oc == oe && xs.nc == ne);
    assert(evs_of(cp.ops_spec()) == rp.em_());
    assert(xs.eqs == seg_eqs(rel, lvl, s, os, ns, oe, ne));   // [C03]
    // C09, last sentence: every Insert of the compacted script is stuck (Compact::done); the Replace adapter, driven by such a
    // script, forwards only pure insertions that sit at their latest position (Replace::c9)
    assert(ins_stuck(rel, ops1));   // [C09]
    lemma_ins_stuck_evs(rel, ops1);
    assert(rp.hist_() =~= evs_of(ops1).push(Ev::Finish));
    assert(rp.late_ok());   // [C09]
    lemma_ev_late_ops(rel, cp.ops_spec());
    if deadline is None && alg != Algorithm::Patience && oe - os == ne - ns
        && (forall|i: int| 0 <= i < oe - os ==> #[trigger] relk(rel, os, ns, i)) {
        lemma_lcs_prefix(old, os, oe, new, ns, ne, oe - os);
        lemma_lcs_empty(old, oe, oe, new, ne, ne);
        lemma_x_only_equal(rel, rp.x0(), rp.em_());
        if rp.em_().len() == 1 { assert(cp.ops_spec()[0] == op_of(rp.em_()[0])) by { lemma_op_of_ev_of(cp.ops_spec()[0]); } }
    }
}
''', '    ')
o.save()
