#!/usr/bin/env python3
"""Ghost lines that carry the exactness (C11) part of a proof are kept only in the `strict` view: add the /*S*/ view tag
to every ghost line that ends with the comment `// [C11]` (run after the generators)."""
import re, sys
for p in sys.argv[1:]:
    out = []
    n = 0
    for l in open(p).read().split('\n'):
        mm = re.match(r'^(\s*/\*@\*/)(\s*)(.*//\s*\[C11\]\s*)$', l)
        if mm and not re.match(r'\s*/\*[SL]\*/', mm.group(2) + mm.group(3)):
            l = mm.group(1) + ' /*S*/' + mm.group(2) + mm.group(3)
            n += 1
        out.append(l)
    open(p, 'w').write('\n'.join(out))
    print(p, 'tagged', n)
