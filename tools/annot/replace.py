import sys; sys.path.insert(0, '/verif/tools')
from ann import Overlay, ghost
o = Overlay('/verif/contracts/replace.rs')
o.strip_ghost()

# ---- helper spec outside the sections: what the inner hook records for a forwarded script
# (kept in the overlay header, written once by hand)

# ---- ghost fields
i = o.find('eq: Option<(usize, usize, usize)>,')
o.lines[i+1:i+1] = ghost('''
hist: Ghost<Seq<Ev>>,   // every successful call received (ghost)
rst0: Ghost<St>,        // checker state the first call is expected from; set by the creator (ghost)
em: Ghost<Seq<Ev>>,     // what has been forwarded to the inner hook (ghost)
it0: Ghost<Seq<Ev>>,    // the inner hook's history when this adapter was created (ghost)
rel0: Ghost<Rel>,       // relation the incoming script is checked against when the inner hook does not rely; set by the creator (ghost)
''', '    ')

i = o.find('impl<D: DiffHook> Replace<D> {')
o.lines[i+1:i+1] = ghost('''
pub closed spec fn inner(&self) -> D { self.d }
pub closed spec fn hist_(&self) -> Seq<Ev> { self.hist@ }
pub closed spec fn em_(&self) -> Seq<Ev> { self.em@ }
pub closed spec fn it0_(&self) -> Seq<Ev> { self.it0@ }
pub closed spec fn rst0_(&self) -> St { self.rst0@ }
pub closed spec fn rel0_(&self) -> Rel { self.rel0@ }
pub closed spec fn p_del(&self) -> Option<(usize, usize, usize)> { self.del }
pub closed spec fn p_ins(&self) -> Option<(usize, usize, usize)> { self.ins }
pub closed spec fn p_eq(&self) -> Option<(usize, usize, usize)> { self.eq }
/// the relation the incoming script is checked against
pub open spec fn rr(&self) -> Rel { if self.inner().relies() { self.inner().rely_rel() } else { self.rel0_() } }
/// weak-checker state after everything received
pub open spec fn rst(&self) -> St { run_rel(self.rr(), self.rst0_(), self.hist_()) }
pub open spec fn x0(&self) -> Xs { xcanon(self.rst0_().oc, self.rst0_().nc, self.rst0_().oe, self.rst0_().ne, self.rst0_().lvl >= 1) }
/// exact-checker state after everything forwarded
pub open spec fn xs(&self) -> Xs { xrun(self.rr(), self.x0(), self.em_()) }
pub open spec fn el(&self) -> int { match self.p_eq() { Some((o, n, l)) => l as int, None => 0 } }
pub open spec fn dl(&self) -> int { match self.p_del() { Some((o, l, n)) => l as int, None => 0 } }
pub open spec fn il(&self) -> int { match self.p_ins() { Some((o, n, l)) => l as int, None => 0 } }
pub open spec fn idle(&self) -> bool { self.p_del() is None && self.p_ins() is None && self.p_eq() is None }
/// I_R: forwarded script ++ pending calls == received script; the forwarded script is exact and in normal form
pub open spec fn core(&self) -> bool {
    let rst = self.rst(); let xs = self.xs(); let r0 = self.rst0_();
    &&& start_ok0(r0)
    &&& rst.ok
    &&& self.inner().trace() == sent::<D>(self.em_()) + (if rst.fin { fin::<D>() } else { Seq::<Ev>::empty() })   // the inner hook was fresh
    &&& !self.inner().failed() && self.inner().accepts_replace()
    &&& xs.ok && xs.oc == rst.oc - self.el() - self.dl() && xs.nc == rst.nc - self.el() - self.il()
    &&& xs.dels == (rst.dels - r0.dels) - self.dl() && xs.inss == (rst.inss - r0.inss) - self.il() && xs.eqs == (rst.eqs - r0.eqs) - self.el()
    &&& (self.p_eq() matches Some((o, n, l)) ==> self.p_del() is None && self.p_ins() is None && l > 0 && o == xs.oc && n == xs.nc && xs.last != 1
            && rst.ro == rst.oc && rst.rn == rst.nc && (rst.lvl >= 1 ==> rst.po <= rst.oc && rst.pn <= rst.nc)
            && (forall|i: int| 0 <= i < l ==> #[trigger] relk(self.rr(), o as int, n as int, i)))
    &&& (self.p_del() matches Some((o, l, n)) ==> l > 0 && o == xs.oc && (rst.lvl >= 1 ==> rst.rn <= n && n <= rst.pn))
    &&& (self.p_ins() matches Some((o, n, l)) ==> l > 0 && n == xs.nc && (rst.lvl >= 1 ==> rst.ro <= o && o <= rst.po))
    &&& ((self.p_del() is Some || self.p_ins() is Some) ==> self.p_eq() is None && xs.last != 2 && rst.ro == xs.oc && rst.rn == xs.nc)
    &&& (rst.fin ==> self.idle())
    &&& (self.inner().relies() ==> self.inner().rely_st().ok && self.inner().rely_st().oc == xs.oc && self.inner().rely_st().nc == xs.nc
            && self.inner().rely_st().oe >= r0.oe && self.inner().rely_st().ne >= r0.ne && (self.inner().rely_st().lvl >= 1 ==> r0.lvl >= 1) && self.inner().rely_st().lvl <= 1
            && (!rst.fin ==> wf(self.inner().rely_st())))
}
/// C09 (latest insertion position), the forwarded script and the pending calls: a forwarded Insert that is directly followed by an Equal
/// (forwarded or pending) cannot slide down across it; a pending pure insertion is the last call received
pub open spec fn late_ok(&self) -> bool {
    let rel = self.rr(); let em = self.em_(); let h = self.hist_();
    &&& ev_late(rel, em)
    &&& (self.p_eq() matches Some((o, n, l)) ==> em.len() > 0 ==> differs_after(rel, em.last(), o))
    &&& (self.p_ins() matches Some((o, n, l)) ==> self.p_del() is None ==> h.len() > 0 && is_ins_at(h.last(), n))
}
/// ... provided the received script has every Insert directly in front of an Equal it cannot slide across (or last): what `Compact` sends
pub open spec fn c9(&self) -> bool { ev_stuck(self.rr(), self.hist_()) ==> self.late_ok() }
pub open spec fn inv(&self) -> bool {
    self.core() && (self.idle() && !self.rst().fin ==> self.hist_().len() == 0 && self.em_().len() == 0)
    && self.c9()   // [C09]
}
/// what `flush_del_ins` forwards for the pending calls
pub open spec fn flushed_ev(del: Option<(usize, usize, usize)>, ins: Option<(usize, usize, usize)>) -> Ev {
    match (del, ins) {
        (Some((o, ol, dn)), Some((io, n, nl))) => Ev::Replace(o, ol, n, nl),
        (Some((o, ol, dn)), None) => Ev::Delete(o, ol, dn),
        (None, Some((io, n, nl))) => Ev::Insert(io, n, nl),
        (None, None) => Ev::Finish,
    }
}
/// after creation (the creator then assigns rst0 by a ghost assignment)
pub open spec fn fresh(&self) -> bool {
    self.hist_() == Seq::<Ev>::empty() && self.em_() == Seq::<Ev>::empty() && self.idle()
}
''', '    ')

n0 = o.find('pub fn new(d: D)')
o.before('{', '''
    ensures res.fresh(), res.inner() == d,
''', start=n0, ind='    ')
i = o.find('eq: None,', n0)
o.lines[i+1:i+1] = ghost('''
hist: Ghost(Seq::empty()), rst0: Ghost(arbitrary()), em: Ghost(Seq::empty()), it0: Ghost(d.trace()), rel0: Ghost(arbitrary()),
''', '            ')
o.before('{', '''
    ensures res == self.inner(),
''', start=o.find('pub fn into_inner(self)'), ind='    ')

FRAME = '''        final(self).hist_() == old(self).hist_(), final(self).rst0_() == old(self).rst0_(), final(self).rel0_() == old(self).rel0_(),
        hook_frame(old(self).inner(), final(self).inner(), res), final(self).inner().fobs() == old(self).inner().fobs(), final(self).inner().config() == old(self).inner().config(),'''

# ---- flush_eq
fe = o.find('fn flush_eq(&mut self)')
o.before('{', '''
    requires old(self).core(), !old(self).rst().fin,
    ensures
''' + FRAME + '''
        res.is_ok() ==> final(self).core() && final(self).p_eq() is None
            && final(self).p_del() == old(self).p_del() && final(self).p_ins() == old(self).p_ins()
            && (old(self).p_eq() is Some ==> final(self).xs().last == 1)
            && (old(self).p_eq() is None ==> final(self).em_() == old(self).em_())
            && (old(self).p_eq() matches Some((o, n, l)) ==> final(self).em_() == old(self).em_().push(Ev::Equal(o, n, l))),   // [C09]
''', start=fe, ind='    ')
i = o.find('self.d.equal(eq_old_index, eq_new_index, eq_len)?', fe)
o.lines[i:i] = ghost('''
let ghost e = Ev::Equal(eq_old_index, eq_new_index, eq_len);
let ghost pre = *vstd::prelude::old(self);
proof {
    lemma_xrun_mono(pre.rr(), pre.x0(), pre.em_());
    lemma_mono(pre.rr(), pre.rst0_(), pre.hist_());
    if self.d.relies() { lemma_step_exact(self.d.rely_rel(), self.d.rely_st(), e); }
}
''', '            ')
j = o.find('Ok(())', fe)
o.lines[j:j] = ghost('''
proof {
    let pre = *vstd::prelude::old(self);
    if pre.p_eq() is Some {
        let e = Ev::Equal(pre.p_eq().unwrap().0, pre.p_eq().unwrap().1, pre.p_eq().unwrap().2);
        self.em@ = self.em@.push(e);
        lemma_xrun_push(pre.rr(), pre.x0(), pre.em_(), e);
        lemma_sent_push::<D>(pre.em_(), e);
        assert(sent::<D>(pre.em_()) + Seq::<Ev>::empty() =~= sent::<D>(pre.em_()));
        assert(sent::<D>(pre.em_()).push(e) =~= (sent::<D>(pre.em_()) + seq![e]) + Seq::<Ev>::empty());
    }
}
''', '        ')


DBG = '''
proof {
    let rst = self.rst(); let xs = self.xs(); let r0 = self.rst0_();
    assert(rst.ok);
    assert(self.inner().trace() == sent::<D>(self.em_()) + (if rst.fin { fin::<D>() } else { Seq::<Ev>::empty() }));
    assert(!self.inner().failed() && self.inner().accepts_replace());
    assert(xs.ok);
    assert(xs.oc == rst.oc - self.el() - self.dl() && xs.nc == rst.nc - self.el() - self.il());
    assert(xs.dels == (rst.dels - r0.dels) - self.dl() && xs.inss == (rst.inss - r0.inss) - self.il() && xs.eqs == (rst.eqs - r0.eqs) - self.el());
    assert(self.p_eq() matches Some((o, n, l)) ==> self.p_del() is None && self.p_ins() is None && l > 0 && o == xs.oc && n == xs.nc && xs.last != 1
            && rst.ro == rst.oc && rst.rn == rst.nc && (rst.lvl >= 1 ==> rst.po <= rst.oc && rst.pn <= rst.nc));
    assert(self.p_eq() matches Some((o, n, l)) ==> (forall|i: int| 0 <= i < l ==> #[trigger] relk(self.rr(), o as int, n as int, i)));
    assert(self.p_del() matches Some((o, l, n)) ==> l > 0 && o == xs.oc && (rst.lvl >= 1 ==> rst.rn <= n && n <= rst.pn));
    assert(self.p_ins() matches Some((o, n, l)) ==> l > 0 && n == xs.nc && (rst.lvl >= 1 ==> rst.ro <= o && o <= rst.po));
    assert((self.p_del() is Some || self.p_ins() is Some) ==> self.p_eq() is None && xs.last != 2 && rst.ro == xs.oc && rst.rn == xs.nc);
    assert(rst.fin ==> self.idle());
    assert(self.inner().relies() ==> self.inner().rely_st().ok && self.inner().rely_st().oc == xs.oc && self.inner().rely_st().nc == xs.nc);
    assert(self.inner().relies() ==> self.inner().rely_st().oe >= r0.oe && self.inner().rely_st().ne >= r0.ne && (self.inner().rely_st().lvl >= 1 ==> r0.lvl >= 1) && self.inner().rely_st().lvl <= 1);
    assert(self.inner().relies() ==> (!rst.fin ==> wf(self.inner().rely_st())));
}
'''

# ---- flush_del_ins
fd = o.find('fn flush_del_ins(&mut self)')
o.before('{', '''
    requires old(self).core(), !old(self).rst().fin,
        // the run of changes is over: carried indices are resolved
        old(self).rst().lvl >= 1 ==> old(self).rst().po <= old(self).rst().oc && old(self).rst().pn <= old(self).rst().nc,
    ensures
''' + FRAME + '''
        res.is_ok() ==> final(self).core() && final(self).p_del() is None && final(self).p_ins() is None && final(self).p_eq() == old(self).p_eq()
            && ((old(self).p_del() is Some || old(self).p_ins() is Some) ==> final(self).xs().last == 2)
            && ((old(self).p_del() is None && old(self).p_ins() is None) ==> final(self).em_() == old(self).em_())
            && ((old(self).p_del() is Some || old(self).p_ins() is Some) ==> final(self).em_() == old(self).em_().push(Self::flushed_ev(old(self).p_del(), old(self).p_ins()))),   // [C09]
''', start=fd, ind='    ')
o.after('{', '''
let ghost pre = *vstd::prelude::old(self);
proof {
    lemma_xrun_mono(pre.rr(), pre.x0(), pre.em_());
    lemma_mono(pre.rr(), pre.rst0_(), pre.hist_());
}
''', start=fd, stmt=False, ind='        ')
def emit(o, start, pat, ev):
    i = o.find(pat, start)
    if o.lines[i].strip().startswith('.replace('):
        i -= 1
    ind = o.indent_of(i)
    pre = ghost('''
let ghost e = %s;
proof { if self.d.relies() { lemma_step_exact(self.d.rely_rel(), self.d.rely_st(), e); } }
''' % ev, ind)
    o.lines[i:i] = pre
    j = o.stmt_end(i + len(pre))
    post = ghost('''
proof {
    self.em@ = self.em@.push(e);
    lemma_xrun_push(pre.rr(), pre.x0(), pre.em_(), e);
    lemma_sent_push::<D>(pre.em_(), e);
    assert(sent::<D>(pre.em_()) + Seq::<Ev>::empty() =~= sent::<D>(pre.em_()));
    assert(sent::<D>(pre.em_()) + sent_ev::<D>(e) =~= (sent::<D>(pre.em_()) + sent_ev::<D>(e)) + Seq::<Ev>::empty());
    assert(seq![e] =~= Seq::<Ev>::empty().push(e));
}
''', ind)
    o.lines[j+1:j+1] = post
    return j + 1 + len(post)
p = emit(o, fd, '.replace(del_old_index, del_old_len, ins_new_index, ins_new_len)?;', 'Ev::Replace(del_old_index, del_old_len, ins_new_index, ins_new_len)')
p = emit(o, p, 'self.d.delete(del_old_index, del_old_len, del_new_index)?;', 'Ev::Delete(del_old_index, del_old_len, del_new_index)')
p = emit(o, p, 'self.d.insert(ins_old_index, ins_new_index, ins_new_len)?;', 'Ev::Insert(ins_old_index, ins_new_index, ins_new_len)')

i = o.find('Ok(())', fd)
o.lines[i:i] = ghost(DBG, '        ')
# ---- the DiffHook impl
im = o.find('impl<D: DiffHook> DiffHook for Replace<D> {')
i = o.find('type Error = D::Error;', im)
o.lines[i+1:i+1] = ghost('''
closed spec fn trace(&self) -> Seq<Ev> { self.hist_() }
closed spec fn failed(&self) -> bool { self.inner().failed() }
closed spec fn last_err(&self) -> Option<Self::Error> { self.inner().last_err() }
closed spec fn relies(&self) -> bool { true }
closed spec fn rely_rel(&self) -> Rel { self.rr() }
/// the expected state is only acceptable (`ok`) while the adapter's invariant holds
closed spec fn rely_st(&self) -> St { St { ok: self.inv(), ..self.rst() } }
closed spec fn observes_finish() -> bool { true }
closed spec fn replace_is_atomic() -> bool { true }
/// `replace` on the Replace adapter (a pass-through that does not flush pending deletes/inserts) is outside
/// the verified envelope: no verified caller can call it
closed spec fn accepts_replace(&self) -> bool { false }
#[verifier::prophetic] open spec fn fobs(&self) -> Seq<Obs<Self::Error>> { self.inner().fobs() }
/// configuration: the creator's ghost assignments and the inner hook's configuration
closed spec fn config(&self) -> Self {
    Replace { d: self.d.config(), del: None, ins: None, eq: None, hist: Ghost(Seq::empty()), em: Ghost(Seq::empty()), it0: Ghost(Seq::empty()), rst0: self.rst0, rel0: self.rel0 }
}
''', '    ')

def method(o, name, ev, flushes_first):
    m = o.find('fn %s(' % name, im)
    o.after('{', '''
let ghost pre = *vstd::prelude::old(self);
let ghost e = %s;
proof {
    reveal(step_rel);
    lemma_mono(pre.rr(), pre.rst0_(), pre.hist_());
    lemma_xrun_mono(pre.rr(), pre.x0(), pre.em_());
}
''' % ev, start=m, stmt=False, ind='        ')
    return m

m = method(o, 'equal', 'Ev::Equal(old_index, new_index, len)', 'flush_del_ins')
o.after('self.flush_del_ins()?;', '''
let ghost mid = *self;
''', start=m)
i = o.find('Ok(())', m)
o.lines[i:i] = ghost('''
proof {
    self.hist@ = self.hist@.push(e);
    lemma_run_push(pre.rr(), pre.rst0_(), pre.hist_(), e);
    assert(mid.rr() == pre.rr() && self.rr() == pre.rr());
    if mid.p_eq() is Some {
        let eo = mid.p_eq().unwrap().0; let en = mid.p_eq().unwrap().1; let elen = mid.p_eq().unwrap().2;
        assert forall|i: int| 0 <= i < elen + len implies #[trigger] relk(self.rr(), eo as int, en as int, i) by {
            if i >= elen { assert(relk(pre.rr(), old_index as int, new_index as int, i - elen)); }
            else { assert(relk(mid.rr(), eo as int, en as int, i)); }
        }
    }
}
''' + DBG + '''
proof {   // [C09]
    if ev_stuck(self.rr(), self.hist_()) {
        lemma_ev_stuck_prefix(pre.rr(), pre.hist_(), e);
        assert(pre.late_ok());
        if pre.p_del() is Some || pre.p_ins() is Some { lemma_ev_late_push(pre.rr(), pre.em_(), Self::flushed_ev(pre.p_del(), pre.p_ins())); }
        assert(self.late_ok());   // [C09]
    }
}
''', '        ')
m = method(o, 'delete', 'Ev::Delete(old_index, old_len, new_index)', 'flush_eq')
i = o.find('Ok(())', m)
o.lines[i:i] = ghost('''
proof {
    self.hist@ = self.hist@.push(e);
    lemma_run_push(pre.rr(), pre.rst0_(), pre.hist_(), e);
    assert(self.core());
}
proof {   // [C09]
    if ev_stuck(self.rr(), self.hist_()) {
        lemma_ev_stuck_prefix(pre.rr(), pre.hist_(), e);
        assert(pre.late_ok());
        if pre.p_eq() is Some { lemma_ev_late_push(pre.rr(), pre.em_(), Ev::Equal(pre.p_eq().unwrap().0, pre.p_eq().unwrap().1, pre.p_eq().unwrap().2)); }
        assert(self.late_ok());   // [C09]
    }
}
''', '        ')
m = method(o, 'insert', 'Ev::Insert(old_index, new_index, new_len)', 'flush_eq')
i = o.find('Ok(())', m)
o.lines[i:i] = ghost('''
proof {
    self.hist@ = self.hist@.push(e);
    lemma_run_push(pre.rr(), pre.rst0_(), pre.hist_(), e);
    assert(self.core());
}
proof {   // [C09]
    if ev_stuck(self.rr(), self.hist_()) {
        lemma_ev_stuck_prefix(pre.rr(), pre.hist_(), e);
        assert(pre.late_ok());
        if pre.p_eq() is Some { lemma_ev_late_push(pre.rr(), pre.em_(), Ev::Equal(pre.p_eq().unwrap().0, pre.p_eq().unwrap().1, pre.p_eq().unwrap().2)); }
        assert(self.late_ok());   // [C09]
    }
}
''', '        ')
m = o.find('fn finish(', im)
o.after('{', '''
let ghost pre = *vstd::prelude::old(self);
let ghost e = Ev::Finish;
proof {
    reveal(step_rel);
    lemma_mono(pre.rr(), pre.rst0_(), pre.hist_());
    lemma_xrun_mono(pre.rr(), pre.x0(), pre.em_());
}
''', start=m, stmt=False, ind='        ')
i = o.find('self.d.finish()', m)
o.lines[i:i] = ghost('''
let ghost mid = *self;
''', '        ')
i = o.find('self.d.finish()', m)
# finish is the tail expression: the ghost update of hist has to happen before the call (on the
# error path the trait promises nothing about trace)
o.lines[i:i] = ghost('''
proof {
    self.hist@ = self.hist@.push(e);
    lemma_run_push(pre.rr(), pre.rst0_(), pre.hist_(), e);
}
proof {   // [C09]
    if ev_stuck(self.rr(), self.hist_()) {
        lemma_ev_stuck_prefix(pre.rr(), pre.hist_(), e);
        assert(pre.late_ok());
        let em1 = if pre.p_eq() is Some { pre.em_().push(Ev::Equal(pre.p_eq().unwrap().0, pre.p_eq().unwrap().1, pre.p_eq().unwrap().2)) } else { pre.em_() };
        if pre.p_eq() is Some { lemma_ev_late_push(pre.rr(), pre.em_(), Ev::Equal(pre.p_eq().unwrap().0, pre.p_eq().unwrap().1, pre.p_eq().unwrap().2)); }
        if pre.p_del() is Some || pre.p_ins() is Some { lemma_ev_late_push(pre.rr(), em1, Self::flushed_ev(pre.p_del(), pre.p_ins())); }
        assert(self.late_ok());   // [C09]
    }
}
''', '        ')
o.save()
