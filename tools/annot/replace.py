import sys; sys.path.insert(0, '/verif/tools')
from ann import Overlay, ghost
o = Overlay('/verif/contracts/replace.rs')
o.strip_ghost()

# ---- ghost fields
i = o.find('eq: Option<(usize, usize, usize)>,')
o.lines[i+1:i+1] = ghost('''
hist: Ghost<Seq<Ev>>,   // every call received (ghost)
rst0: Ghost<St>,        // checker state the first call is expected from; set by the creator (ghost)
em: Ghost<Seq<Ev>>,     // what has been forwarded to the inner hook (ghost)
it0: Ghost<Seq<Ev>>,    // the inner hook's history when this adapter was created (ghost)
''', '    ')

# ---- spec vocabulary of the adapter
i = o.find('impl<D: DiffHook> Replace<D> {')
o.lines[i+1:i+1] = ghost('''
pub closed spec fn inner(&self) -> D { self.d }
pub closed spec fn hist_(&self) -> Seq<Ev> { self.hist@ }
pub closed spec fn em_(&self) -> Seq<Ev> { self.em@ }
pub closed spec fn it0_(&self) -> Seq<Ev> { self.it0@ }
pub closed spec fn rst0_(&self) -> St { self.rst0@ }
pub closed spec fn p_del(&self) -> Option<(usize, usize, usize)> { self.del }
pub closed spec fn p_ins(&self) -> Option<(usize, usize, usize)> { self.ins }
pub closed spec fn p_eq(&self) -> Option<(usize, usize, usize)> { self.eq }
/// the relation the incoming script is checked against
pub open spec fn rr(&self) -> Rel { if self.inner().relies() { self.inner().rely_rel() } else { rel_true() } }
/// weak-checker state after everything received
pub open spec fn rst(&self) -> St { run_rel(self.rr(), self.rst0_(), self.hist_()) }
/// exact-checker state after everything forwarded
pub open spec fn xs(&self) -> Xs { xrun(self.rr(), xcanon(self.rst0_().oc, self.rst0_().nc, self.rst0_().oe, self.rst0_().ne), self.em_()) }
pub open spec fn el(&self) -> int { match self.p_eq() { Some((o, n, l)) => l as int, None => 0 } }
pub open spec fn dl(&self) -> int { match self.p_del() { Some((o, l, n)) => l as int, None => 0 } }
pub open spec fn il(&self) -> int { match self.p_ins() { Some((o, n, l)) => l as int, None => 0 } }
/// I_R: forwarded script ++ pending calls == received script (exactly, in normal form)
pub open spec fn inv(&self) -> bool {
    let rst = self.rst(); let xs = self.xs(); let r0 = self.rst0_();
    &&& wf(r0) && r0.oe <= usize::MAX && r0.ne <= usize::MAX
    &&& self.inner().trace() == self.it0_() + self.em_()
    &&& xs.ok && xs.oc == rst.oc - self.el() - self.dl() && xs.nc == rst.nc - self.el() - self.il()
    &&& xs.dels == (rst.dels - r0.dels) - self.dl() && xs.inss == (rst.inss - r0.inss) - self.il() && xs.eqs == (rst.eqs - r0.eqs) - self.el()
    &&& (self.p_eq() matches Some((o, n, l)) ==> self.p_del() is None && self.p_ins() is None && l > 0 && o == xs.oc && n == xs.nc && xs.last != 1
            && (forall|i: int| 0 <= i < l ==> #[trigger] relk(self.rr(), o as int, n as int, i)))
    &&& (self.p_del() matches Some((o, l, n)) ==> l > 0 && o == xs.oc && rst.rn <= n && n <= rst.pn)
    &&& (self.p_ins() matches Some((o, n, l)) ==> l > 0 && n == xs.nc && rst.ro <= o && o <= rst.po)
    &&& ((self.p_del() is Some || self.p_ins() is Some) ==> self.p_eq() is None && xs.last != 2 && rst.ro == xs.oc && rst.rn == xs.nc)
    &&& ((self.p_del() is None && self.p_ins() is None && self.p_eq() is None) ==> xs.last != 1 || rst.ro < rst.oc || rst.rn < rst.nc)
    &&& (self.inner().relies() ==> wf(self.inner().rely_st()) && self.inner().rely_st().oc == xs.oc && self.inner().rely_st().nc == xs.nc
            && self.inner().rely_st().oe >= r0.oe && self.inner().rely_st().ne >= r0.ne)
}
/// what a creator has to establish (by ghost assignment of rst0) before the first call
pub open spec fn fresh(&self) -> bool {
    self.hist_() == Seq::<Ev>::empty() && self.em_() == Seq::<Ev>::empty() && self.it0_() == self.inner().trace()
    && self.p_del() is None && self.p_ins() is None && self.p_eq() is None
}
''', '    ')

n0 = o.find('pub fn new(d: D)')
o.before('{', '''
    ensures res.fresh(), res.inner() == d,
''', start=n0, ind='    ')
i = o.find('eq: None,', n0)
o.lines[i+1:i+1] = ghost('''
hist: Ghost(Seq::empty()), rst0: Ghost(arbitrary()), em: Ghost(Seq::empty()), it0: Ghost(d.trace()),
''', '            ')
o.before('{', '''
    ensures res == self.inner(),
''', start=o.find('pub fn into_inner(self)'), ind='    ')

# ---- flush_eq: forwards the pending Equal (if any)
fe = o.find('fn flush_eq(&mut self)')
o.before('{', '''
    requires old(self).inv(), old(self).rst().ok, !old(self).inner().failed(),
        old(self).p_eq() is Some ==> true,
    ensures
        final(self).hist_() == old(self).hist_(), final(self).rst0_() == old(self).rst0_(), final(self).it0_() == old(self).it0_(),
        final(self).p_del() == old(self).p_del(), final(self).p_ins() == old(self).p_ins(), final(self).p_eq() is None,
        hook_frame(old(self).inner(), final(self).inner(), res),
        res.is_ok() ==> final(self).inv() && (old(self).p_eq() is Some ==> final(self).xs().last == 1) && (old(self).p_eq() is None ==> final(self).xs().last == old(self).xs().last),
''', start=fe, ind='    ')
i = o.find('self.d.equal(eq_old_index, eq_new_index, eq_len)?', fe)
o.lines[i:i] = ghost('''
let ghost e = Ev::Equal(eq_old_index, eq_new_index, eq_len);
let ghost pre = *self;
proof {
    lemma_xrun_mono(pre.rr(), xcanon(pre.rst0_().oc, pre.rst0_().nc, pre.rst0_().oe, pre.rst0_().ne), pre.em_());
    lemma_mono(pre.rr(), pre.rst0_(), pre.hist_());
    if self.d.relies() { lemma_step_exact(self.d.rely_rel(), self.d.rely_st(), e); }
}
''', '            ')
j = o.find('self.d.equal(eq_old_index, eq_new_index, eq_len)?', fe)
o.lines[j+1:j+1] = ghost('''
proof {
    self.em@ = self.em@.push(e);
    lemma_xrun_push(pre.rr(), xcanon(pre.rst0_().oc, pre.rst0_().nc, pre.rst0_().oe, pre.rst0_().ne), pre.em_(), e);
    assert(pre.it0_() + pre.em_().push(e) =~= (pre.it0_() + pre.em_()).push(e));
}
''', '            ')

# ---- flush_del_ins
fd = o.find('fn flush_del_ins(&mut self)')
o.before('{', '''
    requires old(self).inv(), old(self).rst().ok, !old(self).inner().failed(),
        // the run of changes is over: carried indices are resolved
        old(self).rst().po <= old(self).rst().oc, old(self).rst().pn <= old(self).rst().nc,
    ensures
        final(self).hist_() == old(self).hist_(), final(self).rst0_() == old(self).rst0_(), final(self).it0_() == old(self).it0_(),
        final(self).p_del() is None, final(self).p_ins() is None, final(self).p_eq() == old(self).p_eq(),
        hook_frame(old(self).inner(), final(self).inner(), res),
        res.is_ok() ==> final(self).inv_flushed(),
''', start=fd, ind='    ')
o.save()
