# contracts (requires/ensures only) of the three compaction functions; loop invariants and proofs are added separately
import sys; sys.path.insert(0, '/verif/tools')
from ann import Overlay, ghost
import sys
path = sys.argv[1] if len(sys.argv) > 1 else '/verif/contracts/cleanup.rs'
assumed = len(sys.argv) > 2 and sys.argv[2] == 'assumed'
o = Overlay(path)
i = o.find('pub fn cleanup_diff_ops<Old, New>(')
have = any('pub open spec fn cleanup_pre' in l for l in o.lines)
if not have:
    o.lines[i:i] = ghost('''
/// the op list is a complete cursor-valid script for some box whose items may be indexed
pub open spec fn cleanup_pre<Old: Index<usize> + ?Sized, New: Index<usize> + ?Sized>(old: &Old, new: &New, ops: Seq<DiffOp>, b: OBox) -> bool
  where New::Output: PartialEq<Old::Output>
{
    ops_full(old, new, ops, b, false) && inb(old, (b.o0 as usize)..(b.oe as usize)) && inb(new, (b.n0 as usize)..(b.ne as usize))
}
/// what every compaction step preserves, for every box the input is a script for:
/// cursor-wise validity (C02, C10), exactness of carried indices (C11), and the number of equal items (C10, C03)
pub open spec fn cleanup_post<Old: Index<usize> + ?Sized, New: Index<usize> + ?Sized>(old: &Old, new: &New, ops0: Seq<DiffOp>, ops1: Seq<DiffOp>) -> bool
  where New::Output: PartialEq<Old::Output>
{
    (forall|b: OBox| #[trigger] ops_full(old, new, ops0, b, false) ==> ops_full(old, new, ops1, b, false))
    && esum(ops1, ops1.len() as int) == esum(ops0, ops0.len() as int)
}
pub open spec fn cleanup_post_exact<Old: Index<usize> + ?Sized, New: Index<usize> + ?Sized>(old: &Old, new: &New, ops0: Seq<DiffOp>, ops1: Seq<DiffOp>) -> bool
  where New::Output: PartialEq<Old::Output>
{
    forall|b: OBox| #[trigger] ops_full(old, new, ops0, b, true) ==> ops_full(old, new, ops1, b, true)
}
''')
def contract(fn_head, extra_req='', extra_ens=''):
    i = o.find(fn_head)
    if assumed:
        o.lines[i:i] = ghost('#[verifier::external_body]  // TEMPORARY stub while the proof in contracts/cleanup.rs is being written')
        i = o.find(fn_head)
    o.before('{', '''
    requires exists|b: OBox| #[trigger] cleanup_pre(old, new, vstd::prelude::old(ops)@, b),%s
    ensures
        cleanup_post(old, new, vstd::prelude::old(ops)@, final(ops)@),
        cleanup_post_exact(old, new, vstd::prelude::old(ops)@, final(ops)@),   // [C11]%s
''' % (extra_req, extra_ens), start=i)
contract('pub fn cleanup_diff_ops<Old, New>(')
PTR_REQ = '''
        pointer < vstd::prelude::old(ops)@.len(),
        op_tag(vstd::prelude::old(ops)@[pointer as int]) == DiffTag::Insert || op_tag(vstd::prelude::old(ops)@[pointer as int]) == DiffTag::Delete,'''
PTR_ENS = '''
        res < final(ops)@.len(), op_tag(final(ops)@[res as int]) == op_tag(vstd::prelude::old(ops)@[pointer as int]),'''
contract('fn shift_diff_ops_up<Old, New>(', PTR_REQ, PTR_ENS)
contract('fn shift_diff_ops_down<Old, New>(', PTR_REQ, PTR_ENS)
o.save()
