import sys; sys.path.insert(0, '/verif/tools')
from ann import Overlay
o = Overlay('/verif/contracts/myers.rs')
o.strip_ghost()

# ---- struct V and its contracts
i = o.find('impl V {')
o.lines[i+1:i+1] = __import__('ann').ghost('''
pub closed spec fn wf(&self) -> bool {
    1 <= self.offset && self.v.len() == 2 * self.offset && self.v.len() <= isize::MAX
}
pub closed spec fn at(&self, k: int) -> usize { self.v@[k + self.offset] }
pub closed spec fn off(&self) -> int { self.offset as int }
pub closed spec fn vv(&self) -> Seq<usize> { self.v@ }
''', '    ')
o.before('{', '''
    requires 1 <= max_d, 2 * max_d <= isize::MAX,
    ensures res.wf(), res.offset == max_d,
''', start=o.find('fn new(max_d: usize)'), ind='    ')
o.before('{', '''
    ensures res == self.v.len(),
''', start=o.find('fn len(&self)'), ind='    ')

i = o.find('impl Index<isize> for V {')
o.lines[i:i] = __import__('ann').ghost('''
impl IndexSpecImpl<isize> for V {
    closed spec fn index_req(&self, index: &isize) -> bool {
        0 <= *index + self.offset < self.v.len() && *index + self.offset <= isize::MAX
    }
}
''')
o.before('{', '''
    ensures *res == self.at(index as int),
''', start=o.find('fn index(&self, index: isize)'), ind='    ')
o.before('{', '''
    ensures *res == old(self).at(index as int),
        final(self).off() == old(self).off(),
        final(self).vv() == old(self).vv().update(index + old(self).off(), *final(res)),
''', start=o.find('fn index_mut(&mut self, index: isize)'), ind='    ')

i = o.find('fn max_d(len1: usize, len2: usize)')
o.lines[i:i] = __import__('ann').ghost('''
pub open spec fn max_d_spec(len1: int, len2: int) -> int { (len1 + len2 + 1) / 2 + 1 }
''')
o.before('{', '''
    requires len1 + len2 + 1 <= usize::MAX,
    ensures res == max_d_spec(len1 as int, len2 as int),
''', start=o.find('fn max_d(len1: usize, len2: usize)'))
o.before('{', '''
    ensures res.0.start == range.start, res.0.end == at, res.1.start == at, res.1.end == range.end,
''', start=o.find('fn split_at(range: Range<usize>, at: usize)'))

# ---- find_middle_snake: assumed contract (Myers' middle-snake theorem), bounded Kani stand-in
i = o.find('fn find_middle_snake<Old, New>(')
o.lines[i:i] = __import__('ann').ghost('''
spec fn v_ok(v: &V, or: Range<usize>, nr: Range<usize>) -> bool {
    v.wf() && v.offset >= max_d_spec(or.end - or.start, nr.end - nr.start)
}
#[verifier::external_body]  // assumed contract (Myers' middle-snake theorem); bounded Kani stand-in, see DESIGN.md
''')
o.before('{', '''
    requires
        box_pre(old, old_range, new, new_range), old_range.start < old_range.end, new_range.start < new_range.end,
        v_ok(vstd::prelude::old(vf), old_range, new_range), v_ok(vstd::prelude::old(vb), old_range, new_range),
    ensures
        final(vf).wf(), final(vf).offset == vstd::prelude::old(vf).offset, final(vb).wf(), final(vb).offset == vstd::prelude::old(vb).offset,
        res matches Some((x, y)) ==> old_range.start <= x <= old_range.end && new_range.start <= y <= new_range.end,
        // when the first and the last pair of the box differ (conquer has stripped them) the split is a proper one
        res matches Some((x, y)) ==> (!eqv(old, old_range.start as int, new, new_range.start as int) && !eqv(old, old_range.end - 1, new, new_range.end - 1))
            ==> !(x == old_range.start && y == new_range.start) && !(x == old_range.end && y == new_range.end),
        dl_expired(deadline) ==> res is None,
        deadline is None ==> res is Some,
        // C03, Myers' theorem (assumed with the rest of this contract): the middle snake lies on an optimal path, so the split is optimal
        deadline is None ==> (res matches Some((x, y)) ==>
            lcs_len(old, old_range.start as int, old_range.end as int, new, new_range.start as int, new_range.end as int)
                == lcs_len(old, old_range.start as int, x as int, new, new_range.start as int, y as int) + lcs_len(old, x as int, old_range.end as int, new, y as int, new_range.end as int)),
''', start=o.find('fn find_middle_snake<Old, New>('))

# ---- conquer
c0 = o.find('fn conquer<Old, New, D>(')
o.lines[c0:c0] = __import__('ann').ghost('#[verifier::rlimit(80)]')
c0 = o.find('fn conquer<Old, New, D>(')
o.before('{', '''
    requires
        diff_pre(*vstd::prelude::old(d), old, old_range, new, new_range, alg_lvl(deadline)),
        v_ok(vstd::prelude::old(vf), old_range, new_range), v_ok(vstd::prelude::old(vb), old_range, new_range),
    ensures
        err_post(*vstd::prelude::old(d), *final(d), res),
        (*final(d)).fobs() == (*vstd::prelude::old(d)).fobs(),
        (*final(d)).config() == (*vstd::prelude::old(d)).config(),
        seg_post(*vstd::prelude::old(d), *final(d), old, old_range, new, new_range, alg_lvl(deadline), deadline is None, Seq::<Ev>::empty(), res.is_ok()),
        final(vf).wf(), final(vf).offset == vstd::prelude::old(vf).offset, final(vb).wf(), final(vb).offset == vstd::prelude::old(vb).offset,
    decreases (old_range.end - old_range.start) + (new_range.end - new_range.start),
''', start=c0)
IB = 'old, o0 + common_prefix_len, oe0 - common_suffix_len, new, n0 + common_prefix_len, ne0 - common_suffix_len'   # the box without common prefix / suffix
o.after('{', '''
broadcast use {axiom_pure_index, axiom_pure_eq};
let ghost rel = rel_of(old, new); let ghost lvl = alg_lvl(deadline);
let ghost o0 = old_range.start as int; let ghost n0 = new_range.start as int;
let ghost oe0 = old_range.end as int; let ghost ne0 = new_range.end as int;
let ghost d0 = *d; let ghost t0 = d.trace(); let ghost rs0 = d.rely_st(); let ghost r1 = d.rely_rel();
let ghost mut s: Seq<Ev> = Seq::empty();
let ghost mut oc: int = o0; let ghost mut nc: int = n0;
let ghost opt = deadline is None;      // C03: no deadline => the script is optimal
let ghost mut eqs: int = 0;            // number of items reported equal so far
proof { lemma_seg_empty(rel, lvl, o0, n0); lemma_run_empty(r1, rs0); assert(t0 + s =~= t0); assert(alg_inv(*d, d0, t0, s, rel, lvl, rs0, o0, n0, oc, nc)); }
proof { assert(eqs == seg_eqs(rel, lvl, s, o0, n0, oc, nc)); }
''', start=c0, stmt=False, ind='    ')

def call(o, start, pat, ev, adv, nth=1):
    """ghost lines around the hook call at the line matching pat"""
    i = o.find(pat, start, nth)
    ind = o.indent_of(i)
    import ann
    pre = ann.ghost('''
proof { let e = %s; if d0.relies() { pre_call(rel, r1, lvl, s, e, o0, n0, oc, nc, rs0); } }
''' % ev, ind)
    o.lines[i:i] = pre
    j = o.stmt_end(i + len(pre))
    post = ann.ghost('''
proof { let e = %s; post_call(rel, r1, lvl, s, e, o0, n0, oc, nc, rs0); assert((t0 + s).push(e) =~= t0 + s.push(e)); s = s.push(e); %s
    assert(alg_inv(*d, d0, t0, s, rel, lvl, rs0, o0, n0, oc, nc)); eqs = eqs + ev_eqs(e); assert(eqs == seg_eqs(rel, lvl, s, o0, n0, oc, nc)); }
''' % (ev, adv), ind)
    o.lines[j+1:j+1] = post
    return j + 1 + len(post)

p = call(o, c0, 'd.equal(old_range.start, new_range.start, common_prefix_len)?;',
     'Ev::Equal(old_range.start, new_range.start, common_prefix_len)', 'oc = oc + common_prefix_len; nc = nc + common_prefix_len;')
p = call(o, p, 'd.delete(old_range.start, old_range.len(), new_range.start)?;',
     'Ev::Delete(old_range.start, (old_range.end - old_range.start) as usize, new_range.start)', 'oc = oc + (old_range.end - old_range.start);')
p = call(o, p, 'd.insert(old_range.start, new_range.start, new_range.len())?;',
     'Ev::Insert(old_range.start, new_range.start, (new_range.end - new_range.start) as usize)', 'nc = nc + (new_range.end - new_range.start);')

# the two recursive calls
for which, rng in (('old_a', 'a'), ('old_b', 'b')):
    i = o.find('conquer(d, old, %s, new, new_%s, vf, vb, deadline)?;' % (which, rng), p)
    ind = o.indent_of(i)
    import ann
    pre = ann.ghost('''
let ghost tm = d.trace(); let ghost rm = d.rely_st(); let ghost dm = *d;
proof { if d0.relies() { lemma_seg_any(rel, r1, lvl, s, o0, n0, oc, nc, rs0); lemma_mono(r1, rs0, s); } }
''', ind)
    o.lines[i:i] = pre
    j = i + len(pre)
    post = ann.ghost('''
proof {
    let sa = choose|q: Seq<Ev>| #[trigger] seg(old, new, lvl, q, old_%(r)s.start as int, new_%(r)s.start as int, old_%(r)s.end as int, new_%(r)s.end as int)
        && d.trace() == tm + q + Seq::<Ev>::empty() && (dm.relies() ==> d.rely_st() == run_rel(dm.rely_rel(), rm, q))
        && (opt ==> seg_eqs(rel, lvl, q, old_%(r)s.start as int, new_%(r)s.start as int, old_%(r)s.end as int, new_%(r)s.end as int)
                == lcs_len(old, old_%(r)s.start as int, old_%(r)s.end as int, new, new_%(r)s.start as int, new_%(r)s.end as int));
    lemma_seg_concat(rel, lvl, s, sa, o0, n0, oc, nc, old_%(r)s.end as int, new_%(r)s.end as int);
    lemma_run_concat(r1, rs0, s, sa);
    assert((t0 + s) + sa + Seq::<Ev>::empty() =~= t0 + (s + sa));
    eqs = eqs + seg_eqs(rel, lvl, sa, oc, nc, old_%(r)s.end as int, new_%(r)s.end as int);
    s = s + sa; oc = old_%(r)s.end as int; nc = new_%(r)s.end as int;
    assert(alg_inv(*d, d0, t0, s, rel, lvl, rs0, o0, n0, oc, nc)); assert(eqs == seg_eqs(rel, lvl, s, o0, n0, oc, nc));%(x)s
}
''' % {'r': rng, 'x': ('\n    assert(opt ==> eqs == common_prefix_len + lcs_len(%s));   // the split is optimal (find_middle_snake)' % IB) if rng == 'b' else ''}, ind)
    o.lines[j+1:j+1] = post
    p = j + 1 + len(post)

p = call(o, p, 'd.delete(', 'Ev::Delete(old_range.start, (old_range.end - old_range.start) as usize, new_range.start)', 'oc = oc + (old_range.end - old_range.start);')
p = call(o, p, 'd.insert(', 'Ev::Insert(old_range.start, new_range.start, (new_range.end - new_range.start) as usize)', 'nc = nc + (new_range.end - new_range.start);')
o.before('if common_suffix_len > 0 {', '''
proof {   // the one-sided leaves report nothing equal and an empty side has lcs 0; the fallback needs a deadline
    if opt && (o0 + common_prefix_len >= oe0 - common_suffix_len || n0 + common_prefix_len >= ne0 - common_suffix_len) { lemma_lcs_empty(IB); }
    assert(opt ==> eqs == common_prefix_len + lcs_len(IB));
}
'''.replace('IB', IB), start=p)
p = call(o, p, 'd.equal(common_suffix.0, common_suffix.1, common_suffix_len)?;',
     'Ev::Equal(common_suffix.0, common_suffix.1, common_suffix_len)', 'oc = oc + common_suffix_len; nc = nc + common_suffix_len;')
i = o.find('Ok(())', p)
o.lines[i:i] = __import__('ann').ghost('''
proof {
    assert(alg_inv(*d, d0, t0, s, rel, lvl, rs0, o0, n0, oc, nc));
    assert(oc == oe0 && nc == ne0);
    assert(t0 + s + Seq::<Ev>::empty() =~= t0 + s);
    assert(seg(old, new, lvl, s, o0, n0, oe0, ne0));
    if opt { lemma_lcs_strip(old, o0, oe0, new, n0, ne0, common_prefix_len as int, common_suffix_len as int); }
    assert(opt ==> eqs == lcs_len(old, o0, oe0, new, n0, ne0));
}
''', '    ')

# ---- diff_deadline / diff
dd = o.find('pub fn diff_deadline<Old, New, D>(')
o.before('{', '''
    requires diff_pre(*vstd::prelude::old(d), old, old_range, new, new_range, alg_lvl(deadline)),
    ensures
        err_post(*vstd::prelude::old(d), *final(d), res),
        (*final(d)).fobs() == (*vstd::prelude::old(d)).fobs(),
        (*final(d)).config() == (*vstd::prelude::old(d)).config(),
        seg_post(*vstd::prelude::old(d), *final(d), old, old_range, new, new_range, alg_lvl(deadline), deadline is None, fin::<D>(), res.is_ok()),
''', start=dd)
i = o.find('d.finish()', dd)
o.lines[i:i] = __import__('ann').ghost('''
proof {
    let lvl = alg_lvl(deadline);
    let d0 = *vstd::prelude::old(d);
    let sa = choose|q: Seq<Ev>| #[trigger] seg(old, new, lvl, q, old_range.start as int, new_range.start as int, old_range.end as int, new_range.end as int)
        && d.trace() == d0.trace() + q + Seq::<Ev>::empty() && (d0.relies() ==> d.rely_st() == run_rel(d0.rely_rel(), d0.rely_st(), q))
        && (deadline is None ==> seg_eqs(rel_of(old, new), lvl, q, old_range.start as int, new_range.start as int, old_range.end as int, new_range.end as int)
                == lcs_len(old, old_range.start as int, old_range.end as int, new, new_range.start as int, new_range.end as int));
    if d0.relies() { lemma_seg_any(rel_of(old, new), d0.rely_rel(), lvl, sa, old_range.start as int, new_range.start as int, old_range.end as int, new_range.end as int, d0.rely_st()); }
    assert(d0.trace() + sa + Seq::<Ev>::empty() + fin::<D>() =~= d0.trace() + sa + fin::<D>());
    assert(sa + Seq::<Ev>::empty() =~= sa);
    lemma_run_fin::<D>(d0.rely_rel(), d0.rely_st(), sa);
}
''', '    ')
df = o.find('pub fn diff<Old, New, D>(')
o.before('{', '''
    requires diff_pre(*vstd::prelude::old(d), old, old_range, new, new_range, alg_lvl(None)),
    ensures
        err_post(*vstd::prelude::old(d), *final(d), res),
        (*final(d)).fobs() == (*vstd::prelude::old(d)).fobs(),
        (*final(d)).config() == (*vstd::prelude::old(d)).config(),
        seg_post(*vstd::prelude::old(d), *final(d), old, old_range, new, new_range, alg_lvl(None), true, fin::<D>(), res.is_ok()),
''', start=df)
o.save()
