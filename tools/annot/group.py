"""(Re)generate the ghost lines inside the `group_diff_ops` section of contracts/group.rs.
Development convenience (see tools/README.md): the overlay file is the source of truth."""
import sys; sys.path.insert(0, '/verif/tools')
from ann import Overlay, ghost
o = Overlay('/verif/contracts/group.rs')
fn = o.find('pub fn group_diff_ops(')
o.strip_ghost('pub fn group_diff_ops(')
fn = o.find('pub fn group_diff_ops(')

o.before('{', '''
    requires group_pre(ops@, n as int),
    ensures
        // (c) no changes, no groups
        !has_change(ops@) ==> res@.len() == 0,
        // (a)+(b) the groups are exactly the runs between the splitting points
        has_change(ops@) ==> exists|c: Seq<int>| grouped(ops@, n as int, deep(res@), c),
        // (c) no group consists of Equal ops only
        forall|j: int| 0 <= j < res@.len() ==> has_change(#[trigger] res@[j]@),
''', start=fn, ind='')
o.after('{', '''
let ghost ops0 = ops@; let ghost ni = n as int;
''', start=fn, stmt=False, ind='    ')
o.before('let mut pending_group = Vec::new();', '''
proof {
    if has_change(ops0) { let i = choose|i: int| 0 <= i < ops0.len() && !is_eq(#[trigger] ops0[i]); }
}
''', start=fn)
o.after('let mut rv = Vec::new();', '''
// pins the element types for the ghost lines below (rustc infers them only from the later pushes)
proof { let _ = (pin_groups(&rv), pin_group(&pending_group)); }
''', start=fn, stmt=False)
i = o.find('if let Some(DiffOp::Equal { len, .. }) = ops.last_mut() {', fn)
o.lines[i:i] = ghost('''
let ghost opsf = ops@;
assert(opsf.len() == ops0.len());
assert(opsf[0] == trimmed_op(ops0, ni, 0));
assert(forall|i: int| 1 <= i < opsf.len() ==> opsf[i] == ops0[i]);
''', '    ')
o.before('match IntoIterator::into_iter(ops.into_iter()) { mut it__ =>', '''
let ghost ops1 = ops@;
assert(ops1.len() == ops0.len());
assert forall|i: int| 0 <= i < ops1.len() implies #[trigger] ops1[i] == trimmed_op(ops0, ni, i) by {
    if i == 0 {} else if i == ops0.len() - 1 {} else {}
}
let ghost mut k: int = 0; let ghost mut lo: int = -1; let ghost mut c: Seq<int> = Seq::empty();
''', start=fn)
o.after('loop', '''
    invariant
        ni == n as int, group_pre(ops0, ni), ops0.len() > 0, ops1.len() == ops0.len(),
        forall|i: int| 0 <= i < ops1.len() ==> #[trigger] ops1[i] == trimmed_op(ops0, ni, i),
        0 <= k <= ops0.len(), -1 <= lo < k || (k == 0 && lo == -1),
        it__.obeys_prophetic_iter_laws(), it__.remaining() == ops1.skip(k),
        cuts_upto(ops0, ni, c, k),
        lo == (if c.len() == 0 { -1 } else { c.last() }),
        rv@.len() == c.len(),
        forall|j: int| 0 <= j < c.len() ==> (#[trigger] rv@[j])@ == group_between(ops0, ni, if j == 0 { -1 } else { c[j - 1] }, c[j]),
        forall|j: int| 0 <= j < c.len() ==> has_change((#[trigger] rv@[j])@),
        pending_group@ == group_open(ops0, ni, lo, k),
    ensures k == ops0.len(),
    decreases ops0.len() - k,
''', start=fn, stmt=False)
o.after('let op = match Iterator::next(&mut it__)', '''
assert(op == ops1[k]);
assert(it__.remaining() == ops1.skip(k + 1));
''', start=fn, stmt=False)
o.before('continue;', '''
proof {
    assert(is_split(ops0, ni, k));
    assert(ops1[k] == ops0[k]);
    let cn = c.push(k);
    assert(rv@[c.len() as int]@ == group_between(ops0, ni, lo, k));
    lemma_c12_group_has_change(ops0, ni, lo, k);
    assert(pending_group@ == group_open(ops0, ni, k, k + 1));
    assert(cuts_upto(ops0, ni, cn, k + 1)) by {
        assert forall|i: int| 0 <= i < k + 1 && #[trigger] is_split(ops0, ni, i) implies cn.contains(i) by {
            if i == k { assert(cn[c.len() as int] == k); } else { assert(c.contains(i)); let j = choose|j: int| 0 <= j < c.len() && c[j] == i; assert(cn[j] == i); }
        }
    }
    c = cn; lo = k; k = k + 1;
}
''', start=fn)
o.after('pending_group.push(op);', '''
proof {
    assert(!is_split(ops0, ni, k));
    assert(pending_group@ == group_open(ops0, ni, lo, k + 1));
    k = k + 1;
}
''', start=fn, stmt=False)
i = o.find('if pending_group.len() == 0 ||', fn)
o.lines[i:i] = ghost('''
proof {
    assert(pending_group@ == group_between(ops0, ni, lo, k));
    if has_change(ops0) {
        lemma_c12_group_has_change(ops0, ni, lo, k);
        let p = choose|p: int| 0 <= p < pending_group@.len() && !is_eq(#[trigger] pending_group@[p]);
    } else {
        assert(is_eq(ops0[0]));
        if ops0.len() > 1 { assert(!is_eq(ops0[1])); }
        if c.len() > 0 { assert(is_split(ops0, ni, c[0])); assert(!is_eq(ops0[c[0] + 1])); }
        assert(pending_group@[0] == trimmed_op(ops0, ni, 0));
    }
}
let ghost rv_pre = rv@; let ghost pend = pending_group@;
let ghost dropped = pend.len() == 0 || (pend.len() == 1 && is_eq(pend[0]));
''', '    ')
o.before('rv', '''
proof {
    if dropped {
        assert(rv@ == rv_pre);
        assert(!has_change(ops0));
    } else {
        assert(rv@.len() == rv_pre.len() + 1 && rv@.last()@ == pend);
        assert(has_change(ops0));
        let groups = deep(rv@);
        assert forall|j: int| 0 <= j < groups.len() implies
            #[trigger] groups[j] == group_between(ops0, ni, cut_at(ops0, c, j - 1), cut_at(ops0, c, j)) by {
            if j < c.len() { assert(groups[j] == rv_pre[j]@); }
        }
        assert(grouped(ops0, ni, groups, c));
    }
}
''', start=i + 20, nth=1)
o.save()
