import sys, re; sys.path.insert(0, '/verif/tools')
from ann import Overlay, ghost
o = Overlay('/verif/contracts/hook.rs')
# strip ghost lines of the trait section only
a = o.find('pub trait DiffHook: Sized {')
b = o.find('//@@ end', a, code_only=False)
o.lines = [l for k, l in enumerate(o.lines) if not (a <= k < b and l.lstrip().startswith('/*@*/'))]
a = o.find('pub trait DiffHook: Sized {')
i = o.find('type Error;', a)
o.lines[i+1:i+1] = ghost('''
spec fn trace(&self) -> Seq<Ev>;                 // history of successful calls received
spec fn failed(&self) -> bool;                   // a call has returned Err
spec fn last_err(&self) -> Option<Self::Error>;  // the error of that call
spec fn relies(&self) -> bool;                   // does this hook depend on being driven by a valid script?
spec fn rely_rel(&self) -> Rel;                  // the equality relation it expects the script to respect
spec fn rely_st(&self) -> St;                    // the checker state it expects the next event to be valid from
spec fn observes_finish() -> bool;               // does `finish` leave a trace (false for the no-op default)
spec fn replace_is_atomic() -> bool;             // `replace` records one Replace event (overriding hooks) / Delete+Insert (default)
spec fn accepts_replace(&self) -> bool;          // may `replace` be called (false for the Replace adapter: outside the verified envelope)
spec fn config(&self) -> Self;                   // the part of the hook that no call changes (adapters: their configuration); framed by every call
#[verifier::prophetic]
spec fn fobs(&self) -> Seq<Obs<Self::Error>>;    // prophecy: what the hooks borrowed inside this value (outermost first) will look like when the borrows end;
                                                 // no call re-seats such a borrow, so it never changes (lets callers resolve `&mut` hooks stored in adapters)
''', '    ')
O = '(*old(self))'
F = '(*final(self))'
PRE = "hook_pre_c(%s.failed(), %s.relies(), %s.rely_rel(), %s.rely_st(), %%s)" % (O, O, O, O)
FRAME = "hook_frame_c(%s.relies(), %s.relies(), %s.rely_rel(), %s.rely_rel(), %s.accepts_replace(), %s.accepts_replace(), %s.failed(), %s.last_err(), res)" % (O, F, O, F, O, F, F, F)
def contract(ev):
    return '''
    requires %s,
    ensures %s,
        FOBS,
        res.is_ok() ==> %s.trace() == %s.trace().push(%s),
        res.is_ok() ==> %s.rely_st() == step_rel(%s.rely_rel(), %s.rely_st(), %s),
''' % (PRE % ev, FRAME, F, O, ev, F, O, O, ev)
def semi_after(name):
    j = o.find('fn %s(' % name, a)
    return o.find(';', j)
for name, ev in (('equal', 'Ev::Equal(old_index, new_index, len)'), ('delete', 'Ev::Delete(old_index, old_len, new_index)'), ('insert', 'Ev::Insert(old_index, new_index, new_len)')):
    k = semi_after(name)
    o.lines[k:k] = ghost(contract(ev), '    ')
RE = 'Ev::Replace(old_index, old_len, new_index, new_len)'
k = semi_after('replace')
o.lines[k:k] = ghost('''
    requires %s, %s.accepts_replace(),
    ensures %s,
        FOBS,
        res.is_ok() ==> %s.trace() == (if Self::replace_is_atomic() { %s.trace().push(%s) }
            else { %s.trace().push(Ev::Delete(old_index, old_len, new_index)).push(Ev::Insert(old_index, new_index, new_len)) }),
        res.is_ok() ==> %s.rely_st() == step_rel(%s.rely_rel(), %s.rely_st(), %s),
''' % (PRE % RE, O, FRAME, F, O, RE, O, F, O, O, RE), '    ')
k = semi_after('finish')
o.lines[k:k] = ghost('''
    requires !%s.failed(), %s.relies() ==> wf(%s.rely_st()),
    ensures %s,
        FOBS,
        res.is_ok() ==> %s.trace() == %s.trace() + (if Self::observes_finish() { seq![Ev::Finish] } else { Seq::<Ev>::empty() }),
        res.is_ok() ==> %s.rely_st() == (if Self::observes_finish() { step_rel(%s.rely_rel(), %s.rely_st(), Ev::Finish) } else { %s.rely_st() }),
''' % (O, O, O, FRAME, F, O, F, O, O, O), '    ')
o.lines = [l.replace('FOBS,', '(*final(self)).fobs() == (*old(self)).fobs(), (*final(self)).config() == (*old(self)).config(),') for l in o.lines]
o.save()
