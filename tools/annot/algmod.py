import sys; sys.path.insert(0, '/verif/tools')
from ann import Overlay, ghost
o = Overlay('/verif/contracts/algmod.rs')
o.strip_ghost()
LCSB = "alg == Algorithm::Lcs ==> ((old_range.end - old_range.start) <= u32::MAX || (new_range.end - new_range.start) <= u32::MAX),   // lcs table cells are u32"
CONTRACT = '''
    requires diff_pre(*vstd::prelude::old(d), old, old_range, new, new_range),
        ''' + LCSB + '''
    ensures
        err_post(*vstd::prelude::old(d), *final(d), res),
        seg_post(*vstd::prelude::old(d), *final(d), old, old_range, new, new_range, fin::<D>(), res.is_ok()),
'''
for name in ('pub fn diff<Old, New, D>(', 'pub fn diff_deadline<Old, New, D>('):
    i = o.find(name)
    o.before('{', CONTRACT, start=i)
SL = '''
    requires diff_pre(*vstd::prelude::old(d), old, 0..old.len(), new, 0..new.len()),
        alg == Algorithm::Lcs ==> (old.len() <= u32::MAX || new.len() <= u32::MAX),
    ensures
        err_post(*vstd::prelude::old(d), *final(d), res),
        seg_post(*vstd::prelude::old(d), *final(d), old, 0..old.len(), new, 0..new.len(), fin::<D>(), res.is_ok()),
'''
for name in ('pub fn diff_slices<D, T>(', 'pub fn diff_slices_deadline<D, T>('):
    i = o.find(name)
    o.before('{', SL, start=i)
o.save()
