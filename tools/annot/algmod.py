import sys; sys.path.insert(0, '/verif/tools')
from ann import Overlay, ghost
o = Overlay('/verif/contracts/algmod.rs')
o.strip_ghost()
LCSB = "alg == Algorithm::Lcs ==> ((old_range.end - old_range.start) <= u32::MAX || (new_range.end - new_range.start) <= u32::MAX),   // lcs table cells are u32"
# C03: Myers and LCS are optimal when no deadline can cut the search short; patience is not (it only anchors on unique items)
def contract(lv, opt):
    return (lambda t: t.replace('LVL', lv).replace('OPT', opt))('''
    requires diff_pre(*vstd::prelude::old(d), old, old_range, new, new_range, LVL),
        ''' + LCSB + '''
    ensures
        err_post(*vstd::prelude::old(d), *final(d), res),
        seg_post(*vstd::prelude::old(d), *final(d), old, old_range, new, new_range, LVL, OPT, fin::<D>(), res.is_ok()),
''')
for name, lv, opt in (('pub fn diff<Old, New, D>(', 'lvl_of(alg, None)', 'alg != Algorithm::Patience'),
                      ('pub fn diff_deadline<Old, New, D>(', 'lvl_of(alg, deadline)', 'deadline is None && alg != Algorithm::Patience')):
    i = o.find(name)
    o.before('{', contract(lv, opt), start=i)
def sl(lv, opt):
    return '''
    requires diff_pre(*vstd::prelude::old(d), old, 0..old.len(), new, 0..new.len(), LVL),
        alg == Algorithm::Lcs ==> (old.len() <= u32::MAX || new.len() <= u32::MAX),
    ensures
        err_post(*vstd::prelude::old(d), *final(d), res),
        seg_post(*vstd::prelude::old(d), *final(d), old, 0..old.len(), new, 0..new.len(), LVL, OPT, fin::<D>(), res.is_ok()),
'''.replace('LVL', lv).replace('OPT', opt)
for name, lv, opt in (('pub fn diff_slices<D, T>(', 'lvl_of(alg, None)', 'alg != Algorithm::Patience'),
                      ('pub fn diff_slices_deadline<D, T>(', 'lvl_of(alg, deadline)', 'deadline is None && alg != Algorithm::Patience')):
    i = o.find(name)
    o.before('{', sl(lv, opt), start=i)
o.save()
