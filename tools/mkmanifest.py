#!/usr/bin/env python3
"""Regenerate MANIFEST.json from contracts/properties.json + tools/manifest_meta.json."""
import json, os
ROOT = os.path.dirname(os.path.dirname(os.path.abspath(__file__)))
props = [json.loads(l) for l in open(os.path.join(ROOT, 'properties.jsonl'))]
cfg = json.load(open(os.path.join(ROOT, 'contracts', 'properties.json')))
meta = json.load(open(os.path.join(ROOT, 'tools', 'manifest_meta.json')))
checks = []
for p in props:
    pid = p['id']
    if pid not in cfg:
        continue
    m = meta['checks'][pid]
    checks.append({
        'property_id': pid,
        'quick_cmd': './check %s --tier quick' % pid,
        'thorough_cmd': './check %s --tier thorough' % pid,
        'evidence_file': '/verif/evidence/%s.json' % pid,
        'replay_cmd_template': './check %s --replay {path}' % pid,
        'engine': 'verus-contracts',
        'level_claimed': {'category': m.get('category', 'proof'), 'text': m['text'], 'design_ref': m.get('design_ref', 'DESIGN.md section 5 ' + pid)},
        'level_note': m['note'],
        'technique': m.get('technique', 'contract-based deductive verification (Verus) of the real functions, extracted from /repo on every run'),
    })
na = [{'property_id': p['id'], 'reason': meta['not_applicable'][p['id']]} for p in props if p['id'] not in cfg]
man = {
    'version': 1,
    'setup_cmd': meta['setup_cmd'],
    'hooks': meta['hooks'],
    'engines': meta['engines'],
    'checks': checks,
    'not_applicable': na,
    'notes': meta['notes'],
}
json.dump(man, open(os.path.join(ROOT, 'MANIFEST.json'), 'w'), indent=1)
print('checks:', [c['property_id'] for c in checks], 'n/a:', [n['property_id'] for n in na])
