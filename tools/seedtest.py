#!/usr/bin/env python3
"""seedtest.py [--inplace] <worktree> <k> <name> <checks...>
Validate a seeded change (seed<k>.diff + seed<k>_demo.rs in <worktree>) on a scratch worktree of /repo:
the suite passes with it, the demo fails with it and passes without it.  Then run the given checks against the
change: default = against the patched scratch worktree (VERIF_REPO), --inplace = with the patch applied to /repo
itself (undone straight afterwards).  Results go to /verif/seeded/<name>/."""
import json, os, shutil, subprocess, sys, time
args = sys.argv[1:]
inplace = False
if args[0] == '--inplace':
    inplace = True; args = args[1:]
wt, k, name = args[0], args[1], args[2]
checks = args[3:]
ROOT = os.path.dirname(os.path.dirname(os.path.abspath(__file__)))
OUT = '/verif'   # results are always collected in the live tree
diff = os.path.join(wt, 'seed%s.diff' % k)
demo = os.path.join(wt, 'seed%s_demo.rs' % k)
note = os.path.join(wt, 'seed%s.md' % k)
d = os.path.join(OUT, 'seeded', name)
if not os.path.exists(diff) and os.path.exists(os.path.join(d, 'patch.diff')):
    diff, demo, note = os.path.join(d, 'patch.diff'), os.path.join(d, 'demo.rs'), os.path.join(d, 'description.md')
scr = '/tmp/seedval_%d' % os.getpid()
def sh(cmd, cwd=None, timeout=3600, env=None):
    p = subprocess.run(cmd, shell=True, cwd=cwd, stdout=subprocess.PIPE, stderr=subprocess.STDOUT, text=True, timeout=timeout, env=env)
    return p.returncode, p.stdout
meta = {'name': name, 'k': k, 'ran': []}
res = {}
try:
    rc, out = sh('git -C /repo worktree add -q --detach %s HEAD' % scr)
    assert rc == 0, out
    env = 'CARGO_TARGET_DIR=%s/target' % scr
    rc, out = sh('git apply %s' % diff, cwd=scr); assert rc == 0, 'patch does not apply: ' + out
    rc, out = sh('%s cargo test --offline 2>&1 | grep -E "^test result|FAILED|^error" ' % env, cwd=scr)
    suite_ok = 'FAILED' not in out and 'error' not in out and out.count('test result: ok') >= 2
    meta['ran'].append({'cmd': 'cargo test --offline (patched scratch worktree)', 'ok': suite_ok, 'out': out[-400:]})
    os.makedirs(os.path.join(scr, 'tests'), exist_ok=True)
    shutil.copy(demo, os.path.join(scr, 'tests', 'seed_demo.rs'))
    rc1, out1 = sh('%s cargo test --offline --test seed_demo 2>&1 | tail -15' % env, cwd=scr)
    demo_fails = 'test result: FAILED' in out1 or 'panicked' in out1
    meta['ran'].append({'cmd': 'cargo test --test seed_demo (patched)', 'fails': demo_fails, 'out': out1[-600:]})
    rc, out = sh('git apply -R %s' % diff, cwd=scr); assert rc == 0, out
    rc2, out2 = sh('%s cargo test --offline --test seed_demo 2>&1 | tail -6' % env, cwd=scr)
    demo_passes = 'test result: ok' in out2
    meta['ran'].append({'cmd': 'cargo test --test seed_demo (pristine)', 'passes': demo_passes, 'out': out2[-300:]})
    meta['confirmed'] = bool(suite_ok and demo_fails and demo_passes)
    print(name, 'confirmed:', meta['confirmed'], [(r['cmd'][:28], r.get('ok', r.get('fails', r.get('passes')))) for r in meta['ran']])
    if not meta['confirmed']:
        print(json.dumps(meta, indent=1)[-1500:])
        sys.exit(1)
    os.remove(os.path.join(scr, 'tests', 'seed_demo.rs'))
    shutil.rmtree(os.path.join(scr, 'target'), ignore_errors=True)
    if inplace:
        rc, out = sh('git -C /repo status --porcelain'); assert out.strip() == '', 'repo not clean: ' + out
        rc, out = sh('git -C /repo apply %s' % diff); assert rc == 0, out
        cenv = dict(os.environ, VERIF_EVIDENCE_DIR='/tmp/seed_evidence')
        how = 'git -C /repo apply patch.diff; ./check <id>; git -C /repo checkout -- .'
    else:
        rc, out = sh('git apply %s' % diff, cwd=scr); assert rc == 0, out
        cenv = dict(os.environ, VERIF_REPO=scr, VERIF_EVIDENCE_DIR='/tmp/seed_evidence')
        how = 'VERIF_REPO=<patched scratch worktree of /repo> ./check <id>'
    try:
        for c in checks:
            t0 = time.time()
            rc, out = sh('./check %s --tier quick' % c, cwd=ROOT, env=cenv)
            lines = [l for l in out.split('\n') if l.startswith(('VIOLATION', 'UNDECIDED', 'OK', 'KNOWN-FINDING', 'property'))]
            res[c] = {'rc': rc, 'lines': [l[:300] for l in lines[:8]], 'wall_s': round(time.time() - t0, 1)}
            print('  ', c, 'rc=%d' % rc, ' | '.join(lines)[:300])
    finally:
        if inplace:
            sh('git -C /repo checkout -- .')
    meta['how_checks_were_run'] = how
finally:
    sh('git -C /repo worktree remove --force %s' % scr)
    shutil.rmtree(scr, ignore_errors=True)
# merge with earlier runs of other checks against the same stored change (each result carries the /verif commit it was run with)
try:
    commit = subprocess.run('git -C %s rev-parse --short HEAD' % ROOT, shell=True, stdout=subprocess.PIPE, text=True).stdout.strip()
except Exception:
    commit = '?'
for c in res:
    res[c]['verif_commit'] = commit
prev = {}
try:
    prev = json.load(open(os.path.join(d, 'meta.json'))).get('checks', {})
except Exception:
    pass
for c, r in prev.items():
    if c not in res:
        res[c] = r
meta['checks'] = res
meta['detected_by'] = [c for c, r in res.items() if r['rc'] == 1]
meta['undecided_by'] = [c for c, r in res.items() if r['rc'] == 2]
os.makedirs(d, exist_ok=True)
if os.path.abspath(diff) != os.path.abspath(os.path.join(d, 'patch.diff')):
    shutil.copy(diff, os.path.join(d, 'patch.diff'))
    shutil.copy(demo, os.path.join(d, 'demo.rs'))
    if os.path.exists(note):
        shutil.copy(note, os.path.join(d, 'description.md'))
json.dump(meta, open(os.path.join(d, 'meta.json'), 'w'), indent=1)
print('  stored', d, 'detected_by', meta['detected_by'], 'undecided_by', meta['undecided_by'])
