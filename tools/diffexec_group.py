#!/usr/bin/env python3
"""Differential execution of the rewrite rules R5 and R6 on `group_diff_ops`.

Extracts the function from the repo's working tree twice (no rewrite / rw=R5,R6), wraps both
texts (renamed group_orig / group_rw) together with the real `DiffOp` enum text of src/types.rs
(serde attributes and doc comments removed) into one Rust program, compiles it with rustc in a
scratch directory under /var/tmp (removed afterwards) and compares the two results on every op
list of up to 6 ops (every op kind per position, run lengths in {0,1,2,3,5}; indices made
contiguous) and every n in 0..=3.

exit 0: identical results on every case; 1: a difference; 2: tool trouble.
"""
import os
import re
import shutil
import subprocess
import sys
import tempfile

HERE = os.path.dirname(os.path.abspath(__file__))
sys.path.insert(0, HERE)
import vxbuild    # noqa: E402
import rewrites   # noqa: E402

REPO = os.environ.get('VERIF_REPO', '/repo')

DRIVER = r'''
const LENS: [usize; 5] = [0, 1, 2, 3, 5];

// kind 0 Equal, 1 Delete, 2 Insert, 3 Replace (both sides get the run length)
fn build(kinds: &[usize], lens: &[usize]) -> Vec<DiffOp> {
    let mut o = 0usize;
    let mut n = 0usize;
    let mut v = Vec::new();
    for (k, l) in kinds.iter().zip(lens.iter()) {
        let l = *l;
        match *k {
            0 => { v.push(DiffOp::Equal { old_index: o, new_index: n, len: l }); o += l; n += l; }
            1 => { v.push(DiffOp::Delete { old_index: o, old_len: l, new_index: n }); o += l; }
            2 => { v.push(DiffOp::Insert { old_index: o, new_index: n, new_len: l }); n += l; }
            _ => { v.push(DiffOp::Replace { old_index: o, old_len: l, new_index: n, new_len: l }); o += l; n += l; }
        }
    }
    v
}

fn main() {
    let mut cases: u64 = 0;
    let mut lists: u64 = 0;
    for count in 0..=6usize {
        let mut total = 1usize;
        for _ in 0..count { total *= 4 * LENS.len(); }
        for code in 0..total {
            let mut c = code;
            let mut kinds = Vec::with_capacity(count);
            let mut lens = Vec::with_capacity(count);
            for _ in 0..count {
                let d = c % (4 * LENS.len());
                c /= 4 * LENS.len();
                kinds.push(d % 4);
                lens.push(LENS[d / 4]);
            }
            let ops = build(&kinds, &lens);
            lists += 1;
            for n in 0..=3usize {
                let a = group_orig(ops.clone(), n);
                let b = group_rw(ops.clone(), n);
                cases += 1;
                if a != b {
                    println!("DIFFERENCE n={} ops={:?}\n  orig={:?}\n  rw  ={:?}", n, ops, a, b);
                    println!("cases={} (stopped at the first difference)", cases);
                    std::process::exit(1);
                }
            }
        }
    }
    println!("cases={} op_lists={} (all op lists of 0..=6 ops x kinds {{Equal,Delete,Insert,Replace}} x run lengths {{0,1,2,3,5}}, n in 0..=3): identical", cases, lists);
}
'''


def strip_attrs(lines):
    out = []
    for l in lines:
        s = l.strip()
        if s.startswith('///') or s.startswith('#[cfg_attr') or s.startswith('#[serde'):
            continue
        out.append(l)
    return out


def main():
    try:
        enum_lines, _, _, _ = vxbuild.extract_item(REPO, 'src/types.rs', [r'^pub enum DiffOp'], {'rw': ''}, ())
        enum_lines = strip_attrs(enum_lines)
        if not any('derive' in l and 'PartialEq' in l and 'Clone' in l and 'Debug' in l for l in enum_lines):
            raise RuntimeError("DiffOp lost its derive(Debug, PartialEq, Clone)")
        orig, _, _, n0 = vxbuild.extract_item(REPO, 'src/common.rs', [r'^pub fn group_diff_ops'], {'rw': ''}, ())
        rw, _, _, n1 = vxbuild.extract_item(REPO, 'src/common.rs', [r'^pub fn group_diff_ops'], {'rw': 'R5,R6'}, ())
    except (vxbuild.BuildError, rewrites.RewriteError, RuntimeError, OSError) as e:
        print("diffexec_group: extraction failed: %s" % e)
        return 2
    if n0 or orig == rw or not any(x.startswith('R5 ') for x in n1) or not any(x.startswith('R6 ') for x in n1):
        print("diffexec_group: the rewrites did not fire as expected: %r" % (n1,))
        return 2
    for note in n1:
        print("rewrite: " + note)

    def rename(lines, name):
        text = '\n'.join(lines)
        text, k = re.subn(r'\bpub fn group_diff_ops\b', 'fn ' + name, text, count=1)
        if k != 1:
            raise RuntimeError("cannot rename group_diff_ops")
        return text

    try:
        prog = '\n'.join(['#![allow(dead_code, unused_mut, unused_braces, clippy::all)]',
                          '\n'.join(enum_lines), rename(orig, 'group_orig'), rename(rw, 'group_rw'), DRIVER])
    except RuntimeError as e:
        print("diffexec_group: %s" % e)
        return 2
    os.makedirs('/var/tmp', exist_ok=True)
    d = tempfile.mkdtemp(prefix='diffexec_group_', dir='/var/tmp')
    try:
        src = os.path.join(d, 'main.rs')
        with open(src, 'w') as f:
            f.write(prog)
        exe = os.path.join(d, 'main')
        r = subprocess.run(['rustc', '--edition', '2018', '-O', '-o', exe, src], capture_output=True, text=True, timeout=600)
        if r.returncode != 0:
            print("diffexec_group: rustc failed:\n" + r.stderr[-3000:])
            return 2
        r = subprocess.run([exe], capture_output=True, text=True, timeout=3600)
        sys.stdout.write(r.stdout)
        if r.returncode == 0 and 'identical' in r.stdout:
            return 0
        if r.returncode == 1 and 'DIFFERENCE' in r.stdout:
            return 1
        print("diffexec_group: driver ended with status %d:\n%s" % (r.returncode, r.stderr[-2000:]))
        return 2
    except (OSError, subprocess.TimeoutExpired) as e:
        print("diffexec_group: %s" % e)
        return 2
    finally:
        shutil.rmtree(d, ignore_errors=True)


if __name__ == '__main__':
    sys.exit(main())
