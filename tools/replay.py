"""Replay stage (DESIGN.md 2.6): after an obligation failed, search for a concrete failing input on
the real crate with the executable twin of the property's checker (bounded, plain Rust, compiled
against /repo's working tree in a scratch directory that is removed afterwards).  The search never
turns a pass into a failure and never suppresses a failed obligation."""
import json
import os
import uuid
import shutil
import subprocess
import sys
import time

HERE = os.path.dirname(os.path.abspath(__file__))
ROOT = os.path.dirname(HERE)
REPO = os.environ.get('VERIF_REPO', '/repo')
OUT = os.path.join(ROOT, 'replays')


def run_harness(mode, timeout=600, hooks=False, tier='quick'):
    """build + run the replay harness for `mode`; returns dict(found, witness, log)"""
    src = os.path.join(ROOT, 'replay', 'src', 'main.rs')
    if not os.path.exists(src):
        return {'found': False, 'witness': None, 'log': 'no replay harness'}
    scratch = os.path.join(os.environ.get('VERIF_SCRATCH', '/var/tmp'), 'verif-replay-%d-%s' % (os.getpid(), uuid.uuid4().hex[:8]))
    try:
        os.makedirs(os.path.join(scratch, 'src'), exist_ok=True)
        shutil.copy(src, os.path.join(scratch, 'src', 'main.rs'))
        feats = '"text", "inline", "bytes"' if os.path.exists(os.path.join(REPO, 'src/text/inline.rs')) else ''
        with open(os.path.join(scratch, 'Cargo.toml'), 'w') as f:
            f.write('[package]\nname = "replay"\nversion = "0.1.0"\nedition = "2018"\n[dependencies]\n'
                    'similar = { path = "%s", default-features = false, features = ["text", "bytes"] }\n[workspace]\n'
                    '[profile.release]\nopt-level = 2\ndebug = false\noverflow-checks = true\ndebug-assertions = true\n' % REPO)
        lock = os.path.join(REPO, 'Cargo.lock')
        env = dict(os.environ, CARGO_TARGET_DIR=os.path.join(scratch, 'target'), CARGO_NET_OFFLINE='true')
        rf = env.get('RUSTFLAGS', '')
        # the replay runs the code as shipped (guard OFF) unless VERIF_REPLAY_HOOKS=1
        hook = ' --cfg similar_verif' if (hooks or os.environ.get('VERIF_REPLAY_HOOKS') == '1') else ''
        env['RUSTFLAGS'] = (rf + hook + ' -Awarnings').strip()
        p = subprocess.run(['cargo', 'run', '--release', '--offline', '-q', '--', mode] + (['thorough'] if tier == 'thorough' else []), cwd=scratch, env=env,
                           stdout=subprocess.PIPE, stderr=subprocess.PIPE, text=True, timeout=timeout)
        log = (p.stdout[-6000:] + '\n' + p.stderr[-3000:]).strip()
        found = False
        witness = None
        for line in p.stdout.split('\n'):
            if line.startswith('WITNESS '):
                found = True
                witness = line[len('WITNESS '):]
                break
        if p.returncode not in (0, 1) and not found:
            # a panic of the harness process itself is a failing input too if it names one
            for line in (p.stdout + p.stderr).split('\n'):
                if line.startswith('CURRENT '):
                    witness = line[len('CURRENT '):] + '  (process aborted: %s)' % p.stderr.strip().split('\n')[-1][:200]
                    found = True
        return {'found': found, 'witness': witness, 'log': log, 'rc': p.returncode}
    except subprocess.TimeoutExpired:
        return {'found': False, 'witness': None, 'log': 'replay search timed out'}
    except Exception as e:  # never let the replay stage hide the violation
        return {'found': False, 'witness': None, 'log': 'replay harness error: %r' % (e,)}
    finally:
        shutil.rmtree(scratch, ignore_errors=True)


def make(pid, cfg, violations, results):
    os.makedirs(OUT, exist_ok=True)
    path = os.path.join(OUT, '%s-%d.json' % (pid, int(time.time())))
    obl = []
    for unit, fd in violations:
        if isinstance(fd, dict):
            obl.append({'unit': unit, 'standin': fd})
            continue
        obl.append({
            'unit': unit, 'function': fd.fn, 'obligation': fd.message,
            'at': ['%s %s:%s | %s' % (lab, (org[1] if org else '?'), (org[2] if org else '?'), src) for lab, ln, org, src in fd.labels],
            'verus_output': fd.rendered,
        })
    search = None
    witness = None
    for unit, fd in violations:
        if isinstance(fd, dict) and fd.get('witness'):
            witness = fd['witness']
    mode = cfg.get('replay_mode')
    if witness is None and mode and os.environ.get('VERIF_NO_REPLAY') != '1':
        # properties with a known finding on the shipped code (K1) search with the repair hook ON, so that the known
        # finding's own witnesses cannot confirm an unrelated failed obligation
        search = run_harness(mode, hooks=bool(cfg.get('replay_hooks')))
        if search['found']:
            witness = search['witness']
    doc = {'property': pid, 'failed_obligations': obl, 'replay_mode': mode, 'replay_hooks': bool(cfg.get('replay_hooks')),
           'failing_input': witness, 'search': search,
           'note': 'failing_input is a concrete input replayed on the real crate; null means the bounded search found none '
                   '(the failed obligation above is still the reported violation)'}
    json.dump(doc, open(path, 'w'), indent=1)
    return path


def found_input(path):
    try:
        return json.load(open(path)).get('failing_input') is not None
    except Exception:
        return False


def rerun(path):
    doc = json.load(open(path))
    mode = doc.get('replay_mode')
    print('replaying', path, 'mode', mode)
    for o in doc.get('failed_obligations', []):
        print(' failed obligation:', o.get('function'), '-', o.get('obligation'))
    if not mode:
        print('no executable replay for this property; see the recorded verifier output')
        return 1
    r = run_harness(mode, hooks=bool(doc.get('replay_hooks')))
    print(r['log'][-3000:])
    if r['found']:
        print('REPRODUCED', r['witness'])
        return 1
    print('not reproduced on the current tree')
    return 0
