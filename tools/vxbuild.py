"""Build a Verus input file from a contract overlay and /repo's current working tree.

Overlay format (contracts/<unit>.rs) - a complete Verus file in which the sections

    //@@ item <repo file> :: <header regex> [:: <header regex> ...] [key=value ...]
    ...code lines (as in /repo, after the declared rewrites) and ghost lines...
    //@@ end

hold text that is re-extracted from /repo on every build.  A *ghost line* starts (after
indentation) with the marker `/*@*/`; every other line inside a section is a *code line*
and is only used to align the ghost lines with the current source: the code that reaches
Verus is always the text of /repo's working tree (after the declared rewrite rules), never
the overlay's copy.  `//@@ include <file>` splices another overlay file.

Keys:  drop=<regex>   remove sub-items (methods) whose header matches
       only=<regex>   keep only sub-items whose header matches
       rw=R1,R2,...   rewrite rules to apply (see rewrites.py)
       cfg=<name>     keep lines guarded by #[cfg(<name>)] (default: dropped)
       cfgoff=<name>  treat #[cfg(<name>)] as off for this item even in a view built with --cfg <name>
"""
import difflib
import os
import re

import rustscan
import rewrites

GHOST = "/*@*/"


class BuildError(Exception):
    pass


def is_ghost(line):
    return line.lstrip().startswith(GHOST)


def norm(line):
    return re.sub(r'\s+', ' ', line.strip())


def read_lines(path):
    with open(path) as f:
        return f.read().split('\n')


def extract_item(repo, relfile, path, opts, cfgs):
    """Return (lines, first_line_no, dropped_notes, rewrite_notes)."""
    fpath = os.path.join(repo, relfile)
    if not os.path.exists(fpath):
        raise BuildError("lost anchor: file %s does not exist" % relfile)
    text = open(fpath).read()
    mask = rustscan.code_mask(text)
    try:
        item = rustscan.find_item(text, path, mask)
    except KeyError as e:
        raise BuildError("lost anchor: %s in %s" % (e, relfile))
    # line-align: from the start of the header's line to the end of the last line
    ls = text.rfind('\n', 0, item.hstart) + 1
    if text[ls:item.hstart].strip():
        ls = item.hstart
    le = text.find('\n', item.end)
    if le < 0:
        le = len(text)
    first_line = rustscan.line_of(text, ls)
    # leading derive attributes are kept (they generate code); all other leading
    # attributes and doc comments are dropped
    pre = []
    for mm in re.finditer(r'#\[derive\([^\]]*\)\]', text[item.start:item.hstart]):
        pre.append(mm.group(0))
    notes = []
    seg = text[ls:le]
    # sub-item filtering
    drop = opts.get('drop')
    only = opts.get('only')
    removed = []
    if (drop or only) and item.body_open is not None:
        subs = rustscan.scan_items(text, item.body_open + 1, item.end - 1, mask)
        for s in subs:
            kill = False
            if drop and re.search(drop, s.header):
                kill = True
            if only and not re.search(only, s.header):
                kill = True
            if kill:
                removed.append(s)
    lines = seg.split('\n')
    origin = [first_line + k for k in range(len(lines))]
    if removed:
        keep = [True] * len(lines)
        for s in removed:
            a = rustscan.line_of(text, s.start) - first_line
            b = rustscan.line_of(text, s.end - 1) - first_line
            # also remove the doc comment lines immediately above
            while a > 0 and re.match(r'\s*(///|//!|#\[)', lines[a - 1]):
                a -= 1
            for k in range(a, b + 1):
                keep[k] = False
            notes.append("dropped sub-item `%s` (%s:%d-%d)" % (s.header[:70], relfile, first_line + a, first_line + b))
        lines = [l for l, k in zip(lines, keep) if k]
        origin = [o for o, k in zip(origin, keep) if k]
    # cfg-guarded statement lines:  `#[cfg(NAME)]` on its own line guards the next statement/block
    cfgoff = [c for c in opts.get('cfgoff', '').split(',') if c]
    if cfgoff and any(c in cfgs for c in cfgoff):
        notes.append("cfg(%s) treated as off for this item (cfgoff): that hook is exercised by the replay stand-in only" % ','.join(cfgoff))
    lines, origin, cfgnotes = rewrites.apply_cfg(lines, origin, [c for c in cfgs if c not in cfgoff], relfile)
    notes += cfgnotes
    # doc comments inside are harmless; leading derives re-attached
    if pre:
        lines = pre + lines
        origin = [first_line] * len(pre) + origin
    rules = [r for r in opts.get('rw', '').split(',') if r]
    rwnotes = []
    for r in rules:
        lines, origin, n = rewrites.apply(r, lines, origin, repo, relfile)
        rwnotes += n
    return lines, origin, notes, rwnotes


def merge(overlay, src, drop_disturbed=False):
    """overlay: section lines (code + ghost); src: current (rewritten) source lines.

    Returns (merged_lines, tags, disturbed) where tags[i] is ('g', overlay_idx) or
    ('c', src_idx) and disturbed is the number of ghost lines whose neighbouring code
    line is not matched verbatim in the current source.
    """
    code_idx = [i for i, l in enumerate(overlay) if not is_ghost(l)]
    ocode = [norm(overlay[i]) for i in code_idx]
    scode = [norm(l) for l in src]
    n, m = len(ocode), len(scode)
    # attach each ghost line to the next code line (index into ocode; n == end)
    attach = []
    k = 0
    for i, l in enumerate(overlay):
        if is_ghost(l):
            attach.append((i, k))
        else:
            k += 1
    pos = {}
    matched = [False] * (n + 1)
    matched[n] = True
    inplace = [True] * (n + 1)      # code line i kept its place (matched, or edited in place line for line)
    ins_before = [False] * (n + 1)  # new source lines were inserted right before overlay code line i
    sm = difflib.SequenceMatcher(None, ocode, scode, autojunk=False)
    for tag, i1, i2, j1, j2 in sm.get_opcodes():
        if tag == 'equal':
            for d in range(i2 - i1):
                pos[i1 + d] = j1 + d
                matched[i1 + d] = True
        elif tag == 'replace':
            if i2 - i1 == j2 - j1:
                for d in range(i2 - i1):
                    pos[i1 + d] = j1 + d
            else:
                for i in range(i1, i2):
                    pos[i] = j1 if i == i1 else j2
                    inplace[i] = False
                ins_before[i2] = True
        elif tag == 'delete':
            for i in range(i1, i2):
                pos[i] = j1
                inplace[i] = False
            ins_before[i2] = True
        elif tag == 'insert':
            ins_before[i1] = True
    pos[n] = m
    by_pos = {}
    disturbed = 0
    structural = 0
    dist_set = set()
    for oi, k in attach:
        by_pos.setdefault(pos[k], []).append(oi)
        prev_ok = matched[k - 1] if k > 0 else True
        if not (matched[k] and prev_ok):
            disturbed += 1
            dist_set.add(oi)
        # the hint's position relative to the code is no longer certain: lines were added, removed or re-flowed next to it
        if ins_before[k] or not inplace[k] or (k > 0 and not inplace[k - 1]):
            structural += 1
    # a disturbed ghost line taints the whole run of consecutive ghost lines it belongs to
    if drop_disturbed and dist_set:
        for oi, k in attach:
            if any((o2 in dist_set) and k2 == k for o2, k2 in attach):
                dist_set.add(oi)
    # pure renames of locals: if every edited-in-place code line differs from its old text only by identifier tokens,
    # consistently (old name -> new name), the old name no longer occurs in the new code and the new name did not occur
    # in the old code, the ghost lines of this section follow the rename (a renamed local must not cost the proof)
    ren = _rename_map(ocode, scode, sm)
    out, tags = [], []
    for j in range(m + 1):
        for oi in by_pos.get(j, []):
            if drop_disturbed and oi in dist_set:
                continue
            gl = overlay[oi]
            for old_name, new_name in ren.items():
                gl = re.sub(r'(?<![\w.])%s\b' % re.escape(old_name), new_name, gl) if old_name in gl else gl
            out.append(gl)
            tags.append(('g', oi))
        if j < m:
            out.append(src[j])
            tags.append(('c', j))
    drift = sum(1 for t, i1, i2, j1, j2 in sm.get_opcodes() if t != 'equal' for _ in range(max(i2 - i1, j2 - j1)))
    # (no module-level state here: units are built in parallel threads)
    return out, tags, disturbed, drift, structural


_IDENT = re.compile(r'[A-Za-z_][A-Za-z0-9_]*|\d+|\S')
_RESERVED = set('old final res self Self true false let mut fn if else match while loop for in return break continue as ref move pub use mod impl trait struct enum type where const static unsafe dyn crate super'.split())


def _rename_map(ocode, scode, sm):
    ren = {}
    ok = True
    for tag, i1, i2, j1, j2 in sm.get_opcodes():
        if tag == 'equal':
            continue
        if tag != 'replace' or i2 - i1 != j2 - j1:
            continue   # structural changes are handled elsewhere; they do not define renames
        for d in range(i2 - i1):
            a, b = _IDENT.findall(ocode[i1 + d]), _IDENT.findall(scode[j1 + d])
            if len(a) != len(b):
                continue
            for x, y in zip(a, b):
                if x == y:
                    continue
                if not (re.match(r'[A-Za-z_]\w*$', x) and re.match(r'[A-Za-z_]\w*$', y)) or x in _RESERVED or y in _RESERVED:
                    ok = False
                    continue
                if ren.get(x, y) != y:
                    ok = False
                ren[x] = y
    if not ok or not ren:
        return {}
    old_text, new_text = '\n'.join(ocode), '\n'.join(scode)
    out = {}
    for x, y in ren.items():
        # a rename, not a swap to another existing variable
        if re.search(r'\b%s\b' % re.escape(x), new_text) or re.search(r'\b%s\b' % re.escape(y), old_text):
            continue
        out[x] = y
    return out


def parse_directive(line):
    mm = re.match(r'\s*//@@\s+(\w+)\s*(.*)$', line)
    if not mm:
        return None
    return mm.group(1), mm.group(2).strip()


def parse_item_args(arg):
    opts = {}
    toks = arg.split()
    # trailing key=value tokens
    while toks and re.match(r'^(drop|only|rw|cfg|cfgoff|props)=', toks[-1]):
        k, v = toks.pop().split('=', 1)
        opts[k] = v
    spec = ' '.join(toks)
    parts = [p.strip() for p in spec.split(' :: ')]
    relfile, path = parts[0], parts[1:]
    return relfile, path, opts


class Built:
    def __init__(self):
        self.lines = []
        self.origin = []      # per line: ('repo', file, line) | ('contract', file, line)
        self.items = []       # dicts: spec, file, start_line, end_line (build file), disturbed, drift, notes
        self.errors = []      # BuildError messages (lost anchors)
        self.rewrites = []
        self.dropped = []


def build(unit_path, repo, cfgs=(), drop_disturbed=False):
    b = Built()
    b.drop_disturbed = drop_disturbed
    _build_file(unit_path, repo, cfgs, b, depth=0)
    _auto_consts(b, repo)
    return b


def _auto_consts(b, repo):
    """module-level `const` / `static` items of the source files that the extracted code names but no overlay section
    extracts are appended verbatim (a refactoring that introduces a named constant must not make the unit unbuildable)"""
    files = sorted(set(it['file'] for it in b.items if not it.get('lost')))
    text_now = '\n'.join(b.lines)
    for relfile in files:
        fpath = os.path.join(repo, relfile)
        if not os.path.exists(fpath):
            continue
        text = open(fpath).read()
        try:
            items = rustscan.scan_items(text)
        except Exception:
            continue
        for it in items:
            mm = re.match(r'(?:pub(?:\([^)]*\))?\s+)?(const|static)\s+(?:mut\s+)?([A-Z_][A-Z0-9_]*)\b', it.header)
            if not mm:
                continue
            name = mm.group(2)
            if not re.search(r'\b%s\b' % name, text_now) or re.search(r'\b(const|static)\s+(mut\s+)?%s\b' % name, text_now):
                continue
            first = rustscan.line_of(text, it.start)
            seg = text[it.start:it.end].split('\n')
            b.lines.append('verus! {   // auto-included module-level item named by extracted code')
            b.origin.append(('contract', 'tools/vxbuild.py', 0))
            for k, l in enumerate(seg):
                b.lines.append(l)
                b.origin.append(('repo', relfile, first + k))
            b.lines.append('}')
            b.origin.append(('contract', 'tools/vxbuild.py', 0))
            b.dropped.append("auto-included module-level `%s %s` (%s:%d), named by extracted code and not part of any overlay section" % (mm.group(1), name, relfile, first))
            text_now = '\n'.join(b.lines)


VIEW_TAG = re.compile(r'^(\s*/\*@\*/\s*)/\*([SL])\*/ ?')


def view_filter(lines, cfgs):
    """ghost lines tagged /*S*/ are kept only in the `strict` view, /*L*/ only in the lax view"""
    strict = 'strict' in cfgs
    out = []
    for l in lines:
        mm = VIEW_TAG.match(l)
        if mm:
            if (mm.group(2) == 'S') != strict:
                continue
            l = mm.group(1) + l[mm.end():]
        out.append(l)
    return out


def _build_file(path, repo, cfgs, b, depth):
    if depth > 5:
        raise BuildError("include depth")
    lines = view_filter(read_lines(path), cfgs)
    rel = os.path.relpath(path, os.path.dirname(os.path.dirname(os.path.abspath(__file__))))
    i = 0
    while i < len(lines):
        d = parse_directive(lines[i])
        if d is None:
            b.lines.append(lines[i])
            b.origin.append(('contract', rel, i + 1))
            i += 1
            continue
        kind, arg = d
        if kind == 'include':
            inc = os.path.join(os.path.dirname(path), arg)
            _build_file(inc, repo, cfgs, b, depth + 1)
            i += 1
        elif kind == 'item':
            j = i + 1
            while j < len(lines) and not (parse_directive(lines[j]) or ('', ''))[0] == 'end':
                j += 1
            if j >= len(lines):
                raise BuildError("%s:%d: //@@ item without //@@ end" % (rel, i + 1))
            section = lines[i + 1:j]
            relfile, ipath, opts = parse_item_args(arg)
            info = {'spec': arg, 'file': relfile, 'path': ipath, 'start': len(b.lines) + 1,
                    'disturbed': 0, 'structural': 0, 'drift': 0, 'lost': None, 'opts': opts}
            b.lines.append('// >>> %s' % arg)
            b.origin.append(('contract', rel, i + 1))
            try:
                src, origin, notes, rwnotes = extract_item(repo, relfile, ipath, opts, cfgs)
                out, tags, disturbed, drift, structural = merge(section, src, getattr(b, 'drop_disturbed', False))
                # round trip: the non-ghost lines of the merged text are exactly the source lines
                if [l for l, t in zip(out, tags) if t[0] == 'c'] != src:
                    raise BuildError("round-trip check failed for %s" % arg)
                for l, t in zip(out, tags):
                    b.lines.append(l)
                    if t[0] == 'c':
                        b.origin.append(('repo', relfile, origin[t[1]]))
                    else:
                        b.origin.append(('contract', rel, i + 2 + t[1]))
                info['disturbed'] = disturbed
                # functions that exist in the current source of this section but not in the overlay's copy: new helpers
                # (they have no contract, so a caller's failed obligation says nothing about the caller)
                fn_names = lambda ls: set(re.findall(r'\bfn\s+([A-Za-z_]\w*)', '\n'.join(l for l in ls if not is_ghost(l))))
                info['new_fns'] = sorted(fn_names(src) - fn_names(section))
                b.new_fns = sorted(set(getattr(b, 'new_fns', [])) | set(info['new_fns']))
                # callees named in the current source of this section but not in the overlay's copy (a call that was not
                # there when the proof was written: its contract - if it has one - was never part of this proof)
                callee_names = lambda ls: set(re.findall(r'(?<![\w!])([A-Za-z_]\w*)\s*(?:::<[^>()]*>)?\(', '\n'.join(re.sub(r'//.*$', '', l) for l in ls if not is_ghost(l))))
                info['new_callees'] = sorted(callee_names(src) - callee_names(section) - set(['if', 'while', 'match', 'for', 'return', 'Some', 'Ok', 'Err', 'None', 'loop', 'in', 'as', 'fn']))
                b.new_fns = sorted(set(b.new_fns) | set(info['new_callees']))
                info['structural'] = structural
                info['drift'] = drift
                b.dropped += notes
                b.rewrites += rwnotes
            except (BuildError, rewrites.RewriteError) as e:
                # a rewrite rule that meets a shape it does not know is a lost anchor (tool trouble), never a verdict
                info['lost'] = str(e)
                b.errors.append(str(e))
                # keep the overlay's copy out: emit nothing (callers see the lost anchor)
            b.lines.append('// <<< %s' % arg)
            b.origin.append(('contract', rel, j + 1))
            info['end'] = len(b.lines)
            b.items.append(info)
            i = j + 1
        elif kind == 'end':
            raise BuildError("%s:%d: stray //@@ end" % (rel, i + 1))
        else:
            # other directives (props etc.) are kept as comments for the reporter
            b.lines.append(lines[i])
            b.origin.append(('contract', rel, i + 1))
            i += 1


def sync(path, repo, cfgs=()):
    """Rewrite the item sections of an overlay file with the current merged text (code lines
    refreshed from /repo, ghost lines kept).  Development helper; never used by the checks."""
    lines = read_lines(path)
    out = []
    i = 0
    changed = 0
    while i < len(lines):
        d = parse_directive(lines[i])
        if d and d[0] == 'item':
            j = i + 1
            while j < len(lines) and not (parse_directive(lines[j]) or ('', ''))[0] == 'end':
                j += 1
            section = lines[i + 1:j]
            relfile, ipath, opts = parse_item_args(d[1])
            src, origin, notes, rwnotes = extract_item(repo, relfile, ipath, opts, cfgs)
            merged, tags, disturbed, drift, _structural = merge(section, src)
            if merged != section:
                changed += 1
            out.append(lines[i])
            out += merged
            out.append(lines[j])
            i = j + 1
        else:
            out.append(lines[i])
            i += 1
    with open(path, 'w') as f:
        f.write('\n'.join(out))
    return changed
