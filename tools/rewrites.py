"""The declared rewrite rules (DESIGN.md section 2.3).  Everything the extraction changes in
executable text is here; each rule refuses to fire (raises) on a shape it does not know.
"""
import os
import re

import rustscan


class RewriteError(Exception):
    pass


KNOWN_CFGS = ("similar_verif",)


def _block_end(lines, i):
    """lines[i] starts a statement; return index of its last line (brace/paren balanced,
    ends with ';' or '}' at depth 0)."""
    text = '\n'.join(lines[i:])
    mask = rustscan.code_mask(text)
    depth = 0
    for p, c in enumerate(text):
        if not mask[p]:
            continue
        if c in '([{':
            depth += 1
        elif c in ')]}':
            depth -= 1
            if depth == 0 and c == '}':
                # block statement ends here unless followed by more on the same statement (else)
                rest = text[p + 1:].lstrip()
                if rest.startswith('else'):
                    continue
                return i + text.count('\n', 0, p)
        elif c == ';' and depth == 0:
            return i + text.count('\n', 0, p)
    raise RewriteError("unterminated statement at line %d" % i)


def apply_cfg(lines, origin, cfgs, relfile):
    out, oo, notes = [], [], []
    i = 0
    while i < len(lines):
        mm = re.match(r'\s*#\[cfg\((\w+)\)\]\s*$', lines[i])
        if mm and mm.group(1) in KNOWN_CFGS:
            j = _block_end(lines, i + 1)
            if mm.group(1) in cfgs:
                notes.append("cfg(%s) ON: kept %s:%d-%d" % (mm.group(1), relfile, origin[i + 1], origin[j]))
                out += lines[i + 1:j + 1]
                oo += origin[i + 1:j + 1]
            else:
                notes.append("cfg(%s) off: dropped %s:%d-%d" % (mm.group(1), relfile, origin[i], origin[j]))
            i = j + 1
            continue
        mm = re.match(r'\s*#\[cfg\(not\((\w+)\)\)\]\s*$', lines[i])
        if mm and mm.group(1) in KNOWN_CFGS:
            j = _block_end(lines, i + 1)
            if mm.group(1) not in cfgs:
                out += lines[i + 1:j + 1]
                oo += origin[i + 1:j + 1]
            else:
                notes.append("cfg(not(%s)) with %s ON: dropped %s:%d-%d" % (mm.group(1), mm.group(1), relfile, origin[i], origin[j]))
            i = j + 1
            continue
        out.append(lines[i])
        oo.append(origin[i])
        i += 1
    return out, oo, notes


def apply(rule, lines, origin, repo, relfile):
    fn = RULES.get(rule)
    if fn is None:
        raise RewriteError("unknown rewrite rule %s" % rule)
    return fn(lines, origin, repo, relfile)


def _close_line(lines, i):
    """lines[i] ends with '{' opening a block; return index of the line holding its '}'."""
    text = '\n'.join(lines[i:])
    mask = rustscan.code_mask(text)
    # last code '{' on the first line
    first_nl = text.find('\n')
    if first_nl < 0:
        first_nl = len(text)
    p = max(k for k in range(first_nl) if mask[k] and text[k] == '{')
    q = rustscan.match_close(text, mask, p)
    return i + text.count('\n', 0, q)


def r1_stepby(lines, origin, repo, relfile):
    """for k in (-d..=d).rev().step_by(2) { B }  ->  let mut k = d; while k >= -d { B; k -= 2; }"""
    out, oo, notes = list(lines), list(origin), []
    pat = re.compile(r'^(\s*)for (\w+) in \(-(\w+)\.\.=(\w+)\)\.rev\(\)\.step_by\(2\) \{\s*$')
    i = 0
    while i < len(out):
        mm = pat.match(out[i])
        if mm and mm.group(3) == mm.group(4):
            ind, k, d = mm.group(1), mm.group(2), mm.group(3)
            j = _close_line(out, i)
            body = '\n'.join(out[i + 1:j])
            if re.search(r'\bcontinue\b', body):
                raise RewriteError("R1: loop body contains `continue` (%s:%d)" % (relfile, oo[i]))
            if out[j].strip() != '}':
                raise RewriteError("R1: unexpected loop close %r" % out[j])
            out[i] = "%slet mut %s = %s; while %s >= -%s {" % (ind, k, d, k, d)
            out[j] = "%s%s -= 2; }" % (ind, k)
            notes.append("R1 %s:%d `for %s in (-%s..=%s).rev().step_by(2)` -> while loop" % (relfile, oo[i], k, d, d))
        elif 'step_by' in out[i] and rustscan.code_mask(out[i])[out[i].find('step_by')]:
            raise RewriteError("R1: unknown step_by shape at %s:%d: %s" % (relfile, oo[i], out[i].strip()))
        i += 1
    return out, oo, notes


def r2_refpat(lines, origin, repo, relfile):
    """while let Some(&x) = E {  ->  while let Some(x__r) = E { let x = *x__r;
    (also the form produced by R8, where the brace is on the next line)"""
    out, oo, notes = [], [], []
    pat = re.compile(r'^(\s*)while let Some\(&(\w+)\) = (.*?)( \{)?\s*$')
    i = 0
    while i < len(lines):
        l, o = lines[i], origin[i]
        mm = pat.match(l)
        if mm:
            ind, x, e, brace = mm.groups()
            if brace:
                out.append("%swhile let Some(%s__r) = %s { let %s = *%s__r;" % (ind, x, e, x, x))
                oo.append(o)
            else:
                if i + 1 >= len(lines) or lines[i + 1].strip() != '{':
                    raise RewriteError("R2: `while let Some(&%s)` head without body brace at %s:%d" % (x, relfile, o))
                out.append("%swhile let Some(%s__r) = %s" % (ind, x, e))
                oo.append(o)
                out.append(lines[i + 1])
                oo.append(origin[i + 1])
                out.append("%s    let %s = *%s__r;" % (ind, x, x))
                oo.append(o)
                i += 1
            notes.append("R2 %s:%d `Some(&%s)` pattern -> deref binding" % (relfile, o, x))
        else:
            if re.search(r'while let Some\(&', l):
                raise RewriteError("R2: unknown `while let Some(&` shape at %s:%d" % (relfile, o))
            out.append(l)
            oo.append(o)
        i += 1
    return out, oo, notes


def r2t_refpat_tuple(lines, origin, repo, relfile):
    """if let Some((&x, y)) = E {  ->  if let Some((x__r, y)) = E { let x = *x__r;
    (reference pattern inside a tuple pattern, e.g. `slice.split_first()`; x must be Copy, which rustc
    checks on the rewritten text as well since `*x__r` moves out of a shared reference otherwise)"""
    out, oo, notes = [], [], []
    pat = re.compile(r'^(\s*)if let Some\(\(&(\w+), (\w+)\)\) = (.*) \{\s*$')
    for l, o in zip(lines, origin):
        mm = pat.match(l)
        if mm:
            ind, x, y, e = mm.groups()
            out.append("%sif let Some((%s__r, %s)) = %s { let %s = *%s__r;" % (ind, x, y, e, x, x))
            notes.append("R2t %s:%d `Some((&%s, %s))` pattern -> deref binding" % (relfile, o, x, y))
        else:
            if re.search(r'Some\(\(&', l) and not l.strip().startswith('//'):
                raise RewriteError("R2t: unknown `Some((&..` pattern shape at %s:%d: %s" % (relfile, o, l.strip()))
            out.append(l)
        oo.append(o)
    return out, oo, notes


def r3_debug_assert(lines, origin, repo, relfile):
    """debug_assert_eq!(a, b);  ->  assert(a == b);   (becomes a proof obligation)"""
    out, oo, notes = [], [], []
    pat = re.compile(r'^(\s*)debug_assert_eq!\((.*)\);\s*$')
    for l, o in zip(lines, origin):
        mm = pat.match(l)
        if mm:
            args = _split_top(mm.group(2))
            if len(args) != 2:
                raise RewriteError("R3: debug_assert_eq! with %d args at %s:%d" % (len(args), relfile, o))
            out.append("%sassert(%s == %s);" % (mm.group(1), args[0].strip(), args[1].strip()))
            notes.append("R3 %s:%d debug_assert_eq! -> assert (proved)" % (relfile, o))
        else:
            if 'debug_assert' in l and not l.strip().startswith('//'):
                raise RewriteError("R3: unknown debug_assert shape at %s:%d" % (relfile, o))
            out.append(l)
        oo.append(o)
    return out, oo, notes


def _split_top(s):
    parts, depth, cur = [], 0, ''
    for c in s:
        if c in '([{':
            depth += 1
        elif c in ')]}':
            depth -= 1
        if c == ',' and depth == 0:
            parts.append(cur)
            cur = ''
        else:
            cur += c
    if cur.strip():
        parts.append(cur)
    return parts


NOOP_DEFAULTS = ("equal", "delete", "insert", "finish")
ALL_DEFAULTS = NOOP_DEFAULTS + ("replace",)


def _trait_defaults(repo):
    """Text (lines) of the DiffHook default methods, taken from hook.rs of the current tree."""
    text = open(os.path.join(repo, 'src/algorithms/hook.rs')).read()
    mask = rustscan.code_mask(text)
    tr = rustscan.find_item(text, [r'^pub trait DiffHook\b'], mask)
    subs = rustscan.scan_items(text, tr.body_open + 1, tr.end - 1, mask)
    res = {}
    for s in subs:
        mm = re.match(r'fn (\w+)', s.header)
        if mm and s.body_open is not None:
            ls = text.rfind('\n', 0, s.hstart) + 1
            first = rustscan.line_of(text, ls)
            seg = text[ls:s.end].split('\n')
            res[mm.group(1)] = (seg, first)
    return res


def r4_trait(lines, origin, repo, relfile):
    """In `trait DiffHook`: drop the no-op default bodies of equal/delete/insert/finish
    (signature kept, `;` instead of the body).  The default `replace` body stays."""
    text = '\n'.join(lines)
    mask = rustscan.code_mask(text)
    tr = rustscan.find_item(text, [r'trait DiffHook\b'], mask)
    subs = rustscan.scan_items(text, tr.body_open + 1, tr.end - 1, mask)
    out, oo, notes = list(lines), list(origin), []
    kill = []
    for s in subs:
        mm = re.match(r'fn (\w+)', s.header)
        if mm and mm.group(1) in ALL_DEFAULTS and s.body_open is not None:
            body = text[s.body_open + 1:s.end - 1]
            # the rule only fires on a body that is a no-op: `let _ = x;`* `Ok(())`
            # (the default `replace` body is not a no-op; it is dropped here as well and verified where it is inlined)
            stripped = re.sub(r'let _ = \w+;', '', body)
            if mm.group(1) != 'replace' and stripped.split() != ['Ok(())']:
                raise RewriteError("R4: default body of DiffHook::%s is not a no-op any more" % mm.group(1))
            a = text.count('\n', 0, s.body_open)
            bb = text.count('\n', 0, s.end - 1)
            kill.append((a, bb, mm.group(1)))
    for a, bb, name in sorted(kill, reverse=True):
        head = out[a]
        p = head.rfind('{')
        out[a] = head[:p].rstrip()
        ind = re.match(r'\s*', out[bb]).group(0)
        out[a + 1:bb + 1] = [ind + ';']
        oo[a + 1:bb + 1] = [oo[bb]]
        notes.append("R4 %s: default body of DiffHook::%s dropped from the trait declaration (it is inlined, and verified, in every in-crate impl that does not override it)" % (relfile, name))
    return out, oo, notes


def r4_inline(lines, origin, repo, relfile):
    """In an `impl DiffHook for X` block: append the text of every no-op default method the
    impl does not override (what rustc's default-method resolution selects)."""
    text = '\n'.join(lines)
    mask = rustscan.code_mask(text)
    items = rustscan.scan_items(text, 0, len(text), mask)
    impls = [it for it in items if it.kind == 'impl' and re.search(r'\bDiffHook for\b', it.header)]
    if len(impls) != 1:
        raise RewriteError("R4i: expected exactly one `impl DiffHook for` in %s" % relfile)
    im = impls[0]
    have = set()
    for s in rustscan.scan_items(text, im.body_open + 1, im.end - 1, mask):
        mm = re.match(r'fn (\w+)', s.header)
        if mm:
            have.add(mm.group(1))
    defaults = _trait_defaults(repo)
    out, oo, notes = list(lines), list(origin), []
    close = text.count('\n', 0, im.end - 1)
    add, addo = [], []
    for name in ALL_DEFAULTS:
        if name not in have:
            seg, first = defaults[name]
            # drop the leading #[inline(always)] attribute lines and doc comments of the default
            add += [''] + seg
            addo += [first] + [first + k for k in range(len(seg))]
            notes.append("R4i %s: default DiffHook::%s (hook.rs:%d) inlined" % (relfile, name, first))
    out[close:close] = add
    oo[close:close] = addo
    return out, oo, notes


def r7_derive(lines, origin, repo, relfile):
    """#[derive(A, B, ..)]: keep only the traits Verus can derive (Clone, Copy, PartialEq, Eq, Default)."""
    keep = ("Clone", "Copy", "PartialEq", "Eq", "Default")
    out, oo, notes = [], [], []
    for l, o in zip(lines, origin):
        mm = re.match(r'^(\s*)#\[derive\(([^)]*)\)\]\s*$', l)
        if mm:
            names = [x.strip() for x in mm.group(2).split(',') if x.strip()]
            kept = [x for x in names if x in keep]
            if kept != names:
                notes.append("R7 %s:%d derive(%s) -> derive(%s)" % (relfile, o, ', '.join(names), ', '.join(kept)))
            if kept:
                out.append("%s#[derive(%s)]" % (mm.group(1), ', '.join(kept)))
                oo.append(o)
            continue
        out.append(l)
        oo.append(o)
    return out, oo, notes


def r0_name_return(lines, origin, repo, relfile):
    """fn f(..) -> T   ->   fn f(..) -> (res: T)     (Verus needs a name for the result; no semantics)"""
    text = '\n'.join(lines)
    mask = rustscan.code_mask(text)
    edits = []
    braces = []

    def walk(lo, hi):
        for it in rustscan.scan_items(text, lo, hi, mask):
            if it.kind == 'fn':
                if it.body_open is not None:
                    braces.append(it.body_open)
                mm = re.compile(r'\bfn\s+\w+').search(text, it.hstart, it.end)
                p = mm.end()
                while text[p].isspace():
                    p += 1
                if text[p] == '<':
                    depth = 0
                    while True:
                        if mask[p]:
                            if text[p] == '<':
                                depth += 1
                            elif text[p] == '>' and text[p - 1] != '-':
                                depth -= 1
                                if depth == 0:
                                    p += 1
                                    break
                        p += 1
                    while text[p].isspace():
                        p += 1
                if text[p] != '(':
                    raise RewriteError("R0: cannot find parameter list of %s" % it.header[:40])
                q = rustscan.match_close(text, mask, p) + 1
                m2 = re.compile(r'\s*->\s*').match(text, q)
                if not m2:
                    continue
                ts = m2.end()
                hdr_end = it.body_open if it.body_open is not None else it.end - 1
                # return type ends at `where` (depth 0) or at the body / `;`
                te = hdr_end
                d = 0
                k = ts
                while k < hdr_end:
                    if mask[k]:
                        c = text[k]
                        if c in '([<':
                            d += 1
                        elif c in ')]' or (c == '>' and text[k - 1] != '-'):
                            d -= 1
                        elif d == 0 and re.compile(r'\bwhere\b').match(text, k):
                            te = k
                            break
                    k += 1
                ty = text[ts:te]
                tys = ty.rstrip()
                if tys.startswith('(') and re.match(r'\(\s*\w+\s*:', tys):
                    continue
                edits.append((ts, ts + len(tys), '(res: %s)' % tys, rustscan.line_of(text, ts)))
            elif it.kind in ('impl', 'trait', 'mod') and it.body_open is not None:
                walk(it.body_open + 1, it.end - 1)

    walk(0, len(text))
    notes = []
    nres = len(edits)
    # the body brace of every fn goes on its own line (whitespace only), so that spec clauses can
    # be spliced between the signature and the body
    nbr = 0
    for a in braces:
        ls = text.rfind('\n', 0, a) + 1
        if text[ls:a].strip():
            ind = re.match(r'\s*', text[ls:a]).group(0)
            # find indentation of the line that starts the fn header
            edits.append((a, a + 1, '\n' + '@@IND@@{', 0))
            nbr += 1
    for a, b, rep, ln in sorted(edits, reverse=True):
        if rep.startswith('\n@@IND@@'):
            # indentation: that of the closing brace of this body
            q = rustscan.match_close(text, mask, a)
            ls = text.rfind('\n', 0, q) + 1
            ind = re.match(r'[ \t]*', text[ls:q + 1]).group(0) if not text[ls:q].strip() else re.match(r'[ \t]*', text[text.rfind('\n', 0, a) + 1:a]).group(0)
            text = text[:a].rstrip(' ') + '\n' + ind + '{' + text[b:]
        else:
            if '\n' in text[a:b]:
                rep = rep.replace('\n', ' ') + '\n' * text[a:b].count('\n')
            text = text[:a] + rep + text[b:]
        # mask must be recomputed lazily: offsets before `a` are unaffected because edits are applied
        # from the end of the text backwards
    if nres or nbr:
        notes.append("R0 %s: %d function result(s) named `res` (`-> T` -> `-> (res: T)`), %d body brace(s) moved to their own line" % (relfile, nres, nbr))
    out = text.split('\n')
    # origins: a moved brace line inherits the origin of the line it was split from
    oo = []
    src_i = 0
    src_lines = lines
    k = 0
    for ln in out:
        if k < len(src_lines) and (ln.strip() == '{' and src_lines[k].strip() != '{'):
            oo.append(origin[k - 1] if k > 0 else origin[0])
            continue
        oo.append(origin[k] if k < len(origin) else origin[-1])
        k += 1
    if k != len(src_lines):
        raise RewriteError("R0: origin bookkeeping failed (%d vs %d)" % (k, len(src_lines)))
    return out, oo, notes


def r0n_nested_fn_brace(lines, origin, repo, relfile):
    """A nested `fn f(..) {` (an fn item inside a fn body, result-less, header on one line): body brace on
    its own line (whitespace only), so that requires/ensures can be spliced in.  Apply after R0 (which has
    already moved the braces of all fns it knows; it does not descend into fn bodies)."""
    out, oo, notes = [], [], []
    pat = re.compile(r'^(\s+)fn \w+\([^{};]*\) \{\s*$')
    for l, o in zip(lines, origin):
        mm = pat.match(l)
        if mm:
            out.append(l.rstrip()[:-1].rstrip())
            oo.append(o)
            out.append(mm.group(1) + '{')
            oo.append(o)
            notes.append("R0n %s:%d nested fn: body brace moved to its own line" % (relfile, o))
        else:
            out.append(l)
            oo.append(o)
    return out, oo, notes


def r9_iter_inherent(lines, origin, repo, relfile):
    """impl<G> Iterator for X<..> where .. { type Item = I; fn next(&mut self) -> Option<Self::Item> { B } }
         ->  impl<G> X<..> where .. { fn next(&mut self) -> Option<I> { B } }
    The body B is untouched.  Verus does not let a trait-method implementation declare `requires`; as an
    inherent method the same body is verified against a contract with a precondition (the iterator's
    well-formedness, established by its constructor and preserved by `next`).  Refuses anything but an
    impl block consisting of exactly `type Item = ..;` and `fn next(&mut self) -> Option<Self::Item>`."""
    text = '\n'.join(lines)
    mask = rustscan.code_mask(text)
    items = rustscan.scan_items(text, 0, len(text), mask)
    impls = [it for it in items if it.kind == 'impl']
    if len(impls) != 1 or not re.match(r'impl(<[^{]*?>)? Iterator for ', impls[0].header):
        raise RewriteError("R9: expected exactly one `impl<..> Iterator for X` in the section (%s)" % relfile)
    im = impls[0]
    subs = rustscan.scan_items(text, im.body_open + 1, im.end - 1, mask)
    heads = [re.sub(r'\s+', ' ', x.header.strip()) for x in subs]
    tys = [h for h in heads if h.startswith('type ')]
    fns = [h for h in heads if re.match(r'fn ', h)]
    if len(subs) != 2 or len(tys) != 1 or len(fns) != 1:
        raise RewriteError("R9: impl block is not {type Item; fn next} (%s): %r" % (relfile, heads))
    if not re.match(r'fn next\(&mut self\) -> Option<Self::Item>$', fns[0]):
        raise RewriteError("R9: unexpected method shape %r (%s)" % (fns[0], relfile))
    out, oo, notes = [], [], []
    item_ty = None
    hdr_done = False
    for l, o in zip(lines, origin):
        mm = re.match(r'^(\s*)type Item = (.*);\s*$', l)
        if mm and item_ty is None:
            item_ty = mm.group(2).strip()
            continue                      # the associated type line is dropped
        if not hdr_done and re.match(r'^\s*impl\b.*\bIterator for ', l):
            l2 = re.sub(r'\bIterator for ', '', l, count=1)
            out.append(l2); oo.append(o); hdr_done = True
            continue
        if re.search(r'\bSelf::Item\b', l):
            if item_ty is None or not re.match(r'^\s*fn next\(&mut self\) -> Option<Self::Item>', l):
                raise RewriteError("R9: `Self::Item` outside the `fn next` signature at %s:%d" % (relfile, o))
            l = l.replace('Self::Item', item_ty)
        out.append(l); oo.append(o)
    if item_ty is None or not hdr_done:
        raise RewriteError("R9: header / `type Item` line not found on single lines (%s)" % relfile)
    notes.append("R9 %s:%d `impl Iterator for ..` verified as an inherent impl (`type Item = %s` substituted into `fn next`); body unchanged" % (relfile, origin[0], item_ty))
    return out, oo, notes


def r8_loop_brace(lines, origin, repo, relfile):
    """while C {  /  for P in E {  /  loop {   ->  body brace on its own line (whitespace only), so
    that invariants can be spliced between the loop head and its body"""
    text = '\n'.join(lines)
    mask = rustscan.code_mask(text)
    cuts = []
    for mm in re.finditer(r'\b(while|for|loop)\b', text):
        p = mm.start()
        if not mask[p]:
            continue
        # must start a statement: preceded (ignoring spaces) by ; { } or line start, or a label / `let mut k = d;`
        q = p - 1
        while q >= 0 and text[q] in ' \t':
            q -= 1
        if q >= 0 and text[q] not in ';{}\n:':
            continue
        if mm.group(1) == 'for' and re.match(r'for\s*<', text[p:]):
            continue
        k = mm.end()
        depth = 0
        while k < len(text):
            if mask[k]:
                c = text[k]
                if c in '([':
                    depth += 1
                elif c in ')]':
                    depth -= 1
                elif c == '{' and depth == 0:
                    break
                elif c == ';' and depth == 0:
                    k = -1
                    break
            k += 1
        if k < 0 or k >= len(text):
            continue
        ls = text.rfind('\n', 0, k) + 1
        if text[ls:k].strip():
            kw_ls = text.rfind('\n', 0, p) + 1
            ind = re.match(r'[ \t]*', text[kw_ls:]).group(0)
            cuts.append((k, ind))
    out_text = text
    for k, ind in sorted(cuts, reverse=True):
        out_text = out_text[:k].rstrip(' ') + '\n' + ind + '{' + out_text[k + 1:]
    out = out_text.split('\n')
    oo = []
    k = 0
    for ln in out:
        if k < len(lines) and ln.strip() == '{' and lines[k].strip() != '{':
            oo.append(origin[k - 1] if k > 0 else origin[0])
            continue
        oo.append(origin[k] if k < len(origin) else origin[-1])
        k += 1
    if k != len(lines):
        raise RewriteError("R8: origin bookkeeping failed")
    notes = ["R8 %s: %d loop body brace(s) moved to their own line" % (relfile, len(cuts))] if cuts else []
    return out, oo, notes


def _balanced(s):
    """s is bracket-balanced at every prefix and has no code `=>` / `;` at depth 0."""
    mask = rustscan.code_mask(s)
    depth = 0
    for p, c in enumerate(s):
        if not mask[p]:
            continue
        if c in '([{':
            depth += 1
        elif c in ')]}':
            depth -= 1
            if depth < 0:
                return False
        elif depth == 0 and (c == ';' or s.startswith('=>', p)):
            return False
    return depth == 0


def r5_slice_match(lines, origin, repo, relfile):
    """match &v[..] { &[] | &[P { .. }] => A, _ => B }
         ->  if v.len() == 0 || (v.len() == 1 && matches!(v[0], P { .. })) { A } else { B }
    Only this shape: scrutinee `&IDENT[..]`, first arm `&[] | &[PATH { .. }]` (empty / one-element
    slice patterns, no bindings, no guard), second and last arm `_`, one line per arm."""
    head = re.compile(r'^(\s*)match &(\w+)\[\.\.\] \{\s*$')
    arm1 = re.compile(r'^(\s*)&\[\] \| &\[((?:\w+::)*\w+) \{ \.\. \}\] => (.+?),?\s*$')
    arm2 = re.compile(r'^(\s*)_ => (.+?),?\s*$')
    out, oo, notes = [], [], []
    i = 0
    while i < len(lines):
        l = lines[i]
        mm = head.match(l)
        if mm is None:
            cm = rustscan.code_mask(l)
            for bad in re.finditer(r'\bmatch\s*&.*\[\s*\.\.\s*\]|&\[[^\]]*\]\s*(\||=>)', l):
                if cm[bad.start()]:
                    raise RewriteError("R5: unknown slice-match shape at %s:%d: %s" % (relfile, origin[i], l.strip()))
            out.append(l)
            oo.append(origin[i])
            i += 1
            continue
        ind, v = mm.group(1), mm.group(2)
        if i + 3 >= len(lines):
            raise RewriteError("R5: truncated match at %s:%d" % (relfile, origin[i]))
        m1, m2 = arm1.match(lines[i + 1]), arm2.match(lines[i + 2])
        if m1 is None or m2 is None or lines[i + 3] != ind + '}':
            raise RewriteError("R5: `match &%s[..]` at %s:%d is not the known two-arm shape "
                               "(`&[] | &[P { .. }] => A,` / `_ => B,` / `}`)" % (v, relfile, origin[i]))
        pat, a, b = m1.group(2), m1.group(3), m2.group(2)
        if not _balanced(a) or not _balanced(b):
            raise RewriteError("R5: arm bodies at %s:%d-%d are not single balanced expressions" % (relfile, origin[i + 1], origin[i + 2]))
        ind2 = m1.group(1)
        out += ["%sif %s.len() == 0 || (%s.len() == 1 && matches!(%s[0], %s { .. })) {" % (ind, v, v, v, pat),
                ind2 + a,
                ind + "} else {",
                ind2 + b,
                ind + "}"]
        oo += [origin[i], origin[i + 1], origin[i + 2], origin[i + 2], origin[i + 3]]
        notes.append("R5 %s:%d `match &%s[..] { &[] | &[%s { .. }] => A, _ => B }` -> "
                     "`if %s.len() == 0 || (%s.len() == 1 && matches!(%s[0], %s { .. })) { A } else { B }` (slice patterns)"
                     % (relfile, origin[i], v, pat, v, v, v, pat))
        i += 4
    return out, oo, notes


def r6_for_continue(lines, origin, repo, relfile, all_for=False):
    """for x in E { B }   where `continue` occurs in B (and targets this loop)
         ->  match IntoIterator::into_iter(E) { mut it__ =>
             loop {
                 let x = match Iterator::next(&mut it__) { Some(v__) => v__, None => break };
                 B
             } }
    (the desugaring of `for` given in the Rust reference, "Iterator loops").  `for` loops without
    `continue` are left alone.  Only: one-line head with an identifier pattern, no label, no loop
    nested in B, unlabelled `continue;`, closing brace on its own line."""
    text = '\n'.join(lines)
    mask = rustscan.code_mask(text)
    loops = []
    for mm in re.finditer(r'\b(while|for|loop)\b', text):
        p = mm.start()
        if not mask[p]:
            continue
        q = p - 1
        while q >= 0 and text[q] in ' \t':
            q -= 1
        if q >= 0 and text[q] not in ';{}\n:':
            continue
        if mm.group(1) == 'for' and re.match(r'for\s*<', text[p:]):
            continue
        k, depth = mm.end(), 0
        while k < len(text):
            if mask[k]:
                c = text[k]
                if c in '([':
                    depth += 1
                elif c in ')]':
                    depth -= 1
                elif c == '{' and depth == 0:
                    break
                elif c == ';' and depth == 0:
                    k = -1
                    break
            k += 1
        if k < 0 or k >= len(text):
            continue
        loops.append((p, mm.group(1), k, rustscan.match_close(text, mask, k)))
    targets = []
    for mm in re.finditer(r'\bcontinue\b', text):
        c = mm.start()
        if not mask[c]:
            continue
        encl = [lp for lp in loops if lp[2] < c < lp[3]]
        ln = origin[text.count('\n', 0, c)]
        if not encl:
            raise RewriteError("R6: `continue` outside any loop at %s:%d" % (relfile, ln))
        inner = max(encl, key=lambda lp: lp[2])
        if inner[1] != 'for':
            continue
        if not re.match(r'continue\s*;', text[c:]):
            raise RewriteError("R6: labelled or value `continue` at %s:%d" % (relfile, ln))
        if inner not in targets:
            targets.append(inner)
    if all_for:
        targets = [lp for lp in loops if lp[1] == 'for']
    if not targets:
        return list(lines), list(origin), []
    if re.search(r'\b(it__|v__)\b', text):
        raise RewriteError("R6: the names it__/v__ are already used in %s" % relfile)
    out, oo, notes = list(lines), list(origin), []
    pat = re.compile(r'^(\s*)for (\w+|\(\w+(?:, \w+)*\)) in (.+) \{\s*$') if all_for else re.compile(r'^(\s*)for (\w+) in (.+) \{\s*$')
    for p, kw, k, close in sorted(targets, reverse=True):
        a, b = text.count('\n', 0, p), text.count('\n', 0, close)
        where = "%s:%d" % (relfile, origin[a])
        mm = pat.match(lines[a])
        if mm is None or text.count('\n', 0, k) != a or not _balanced(mm.group(3)):
            raise RewriteError("R6: `for` loop with `continue` at %s is not `for IDENT in EXPR {` on one line" % where)
        if lines[b].strip() != '}':
            raise RewriteError("R6: loop at %s does not close with `}` on its own line" % where)
        if any(k < lp[2] and lp[3] < close for lp in loops):
            # a nested loop is harmless for the desugaring itself (unlabelled break/continue inside it target the inner
            # loop before and after); labels would not be
            if not all_for or re.search(r"'\w+\s*:\s*(loop|while|for)\b|\b(break|continue)\s+'", text[k:close]):
                raise RewriteError("R6: loop at %s contains a nested loop" % where)
        if a + 1 >= b:
            raise RewriteError("R6: empty loop body at %s" % where)
        ind, x, e = mm.groups()
        ind2 = re.match(r'\s*', lines[a + 1]).group(0)
        if len(ind2) <= len(ind):
            ind2 = ind + '    '
        new = ["%smatch IntoIterator::into_iter(%s) { mut it__ =>" % (ind, e),
               "%sloop {" % ind,
               "%slet %s = match Iterator::next(&mut it__) { Some(v__) => v__, None => break };" % (ind2, x)]
        out[b] = ind + '} }'
        out[a:a + 1] = new
        oo[a:a + 1] = [origin[a]] * 3
        notes.append("R6 %s `for %s in %s { .. continue .. }` -> `match IntoIterator::into_iter(%s) { mut it__ => loop { "
                     "let %s = match Iterator::next(&mut it__) { Some(v__) => v__, None => break }; .. } }` "
                     "(Rust reference desugaring of `for`; Verus has no `continue` in `for`)" % (where, x, e, e, x))
    return out, oo, notes


def rshadow(lines, origin, repo, relfile):
    """fn NAME(  ->  fn NAME__shadow(   for the first fn of the item: a second, separately verified copy of a
    function whose own contract is assumed (used to verify the body up to an internal assertion)"""
    out = list(lines)
    for i, l in enumerate(out):
        mm = re.search(r'\bfn (\w+)', l)
        if mm and rustscan.code_mask(l)[mm.start()]:
            out[i] = l[:mm.start(1)] + mm.group(1) + '__shadow' + l[mm.end(1):]
            return out, list(origin), ["RSHADOW %s:%d fn %s verified a second time as %s__shadow (body check of a function whose contract is assumed)" % (relfile, origin[i], mm.group(1), mm.group(1))]
    raise RewriteError("RSHADOW: no fn found")


def r10_option_closure(lines, origin, repo, relfile):
    """RECV.and_then(|p| BODY)  ->  match (RECV) { Some(p) => BODY, None => None }
    RECV.map(|p| BODY)          ->  match (RECV) { Some(p) => Some(BODY), None => None }
    (the definitions of Option::and_then / Option::map, beta-reduced: Verus knows nothing about the result of a
    closure that carries no spec, and a code line cannot carry one).  Fires only where the call is the tail of a
    scrutinee (`let PAT = RECV.f(|p| BODY)` + ` {` / `;` / end of line, or the receiver of an outer rewritten call), RECV is a
    postfix chain of paths / method calls, BODY is a single expression without `return`, `?`, `|`, braces or `;`.
    Line structure is unchanged."""
    text = '\n'.join(lines)
    notes = []
    n_done = 0
    while True:
        mask = rustscan.code_mask(text)
        hits = [mm for mm in re.finditer(r'\.(and_then|map)\(\|\s*(\w+)\s*\|\s*', text) if mask[mm.start()]]
        if not hits:
            break
        mm = hits[-1]
        kind, var = mm.group(1), mm.group(2)
        # closure body: up to the parenthesis closing the call
        op = text.index('(', mm.start())
        depth, k = 0, op
        while k < len(text):
            if mask[k]:
                if text[k] in '([{':
                    depth += 1
                elif text[k] in ')]}':
                    depth -= 1
                    if depth == 0:
                        break
            k += 1
        if k >= len(text):
            raise RewriteError("R10: unterminated call at %s" % relfile)
        body = text[mm.end():k]
        if re.search(r'\breturn\b|\?|\||[{};]|\n', body):
            raise RewriteError("R10: closure body `%s` is not a plain expression (%s)" % (body.strip(), relfile))
        # what follows the call must end the scrutinee
        rest = text[k + 1:]
        if not re.match(r'[ \t]*(\{[ \t]*)?(\n|$)|[ \t]*\n[ \t]*\{|\)[ \t]*\{|;[ \t]*(\n|$)', rest) and not rest.lstrip(' \t').startswith(') {'):
            raise RewriteError("R10: `.%s(|%s| ..)` is not the tail of a scrutinee at %s: `%s`" % (kind, var, relfile, rest[:30]))
        # receiver: postfix chain scanned backwards from the dot
        q = mm.start()
        while True:
            r = q - 1
            while r >= 0 and text[r] in ' \t\n':
                r -= 1
            if r < 0:
                raise RewriteError("R10: no receiver")
            if text[r] == ')':
                depth, j = 0, r
                while j >= 0:
                    if mask[j]:
                        if text[j] in ')]}':
                            depth += 1
                        elif text[j] in '([{':
                            depth -= 1
                            if depth == 0:
                                break
                    j -= 1
                if j < 0:
                    raise RewriteError("R10: unbalanced receiver")
                r = j - 1
            m2 = re.search(r'([A-Za-z_][\w:]*)$', text[:r + 1])
            if not m2:
                raise RewriteError("R10: unknown receiver shape at %s: `%s`" % (relfile, text[max(0, r - 20):r + 1]))
            start = m2.start()
            t = start - 1
            while t >= 0 and text[t] in ' \t\n':
                t -= 1
            if t >= 0 and text[t] == '.':
                q = t
                continue
            break
        before = text[:start].rstrip(' \t\n')
        if not (before.endswith('=') and not before.endswith('==')) and not before.endswith('match ('):
            raise RewriteError("R10: receiver of `.%s` does not start a scrutinee at %s: `%s`" % (kind, relfile, before[-30:]))
        recv = text[start:mm.start()]
        arm = body.strip() if kind == 'and_then' else 'Some(%s)' % body.strip()
        # a receiver spread over several lines keeps its line breaks; the match arms go where the call was
        text = text[:start] + 'match (' + recv + ') { Some(%s) => %s, None => None }' % (var, arm) + text[k + 1:]
        n_done += 1
        ln = origin[text.count('\n', 0, start)] if text.count('\n', 0, start) < len(origin) else origin[-1]
        notes.append("R10 %s:%d `.%s(|%s| %s)` -> match on the receiver (definition of Option::%s)" % (relfile, ln, kind, var, body.strip(), kind))
    out = text.split('\n')
    if len(out) != len(lines):
        raise RewriteError("R10: line structure changed")
    return out, list(origin), notes


def r6a_for_all(lines, origin, repo, relfile):
    """R6 applied to every `for` loop of the item (Verus offers no name for the ghost iterator of a `for` over
    a slice/Vec reference unless the loop is written in its desugared form)"""
    out, oo, notes = r6_for_continue(lines, origin, repo, relfile, all_for=True)
    return out, oo, [n.replace('R6 ', 'R6a ', 1) for n in notes]


RULES = {
    'R6a': r6a_for_all,
    'R10': r10_option_closure,
    'RSHADOW': rshadow,
    'R8': r8_loop_brace,
    'R9': r9_iter_inherent,
    'R0': r0_name_return,
    'R0n': r0n_nested_fn_brace,
    'R1': r1_stepby,
    'R2': r2_refpat,
    'R2t': r2t_refpat_tuple,
    'R3': r3_debug_assert,
    'R4': r4_trait,
    'R4i': r4_inline,
    'R5': r5_slice_match,
    'R6': r6_for_continue,
    'R7': r7_derive,
}


# ---------------------------------------------------------------------------------------------------------
# Rules for the tokenizers of src/text/abstraction.rs (unit `tok`, property C06).  Appended; the rules above
# are unchanged.
# ---------------------------------------------------------------------------------------------------------

def _code_hits(line, regex):
    """matches of regex in `line` that start in code (not in a comment / literal)"""
    cm = rustscan.code_mask(line)
    return [mm for mm in re.finditer(regex, line) if cm[mm.start()]]


def _postfix_chain(s):
    """s is a plain postfix chain: IDENT(.IDENT | (ARGS))*  with balanced brackets and no operators at depth 0"""
    s = s.strip()
    if not _balanced(s) or not re.match(r'[A-Za-z_]\w*', s):
        return False
    mask = rustscan.code_mask(s)
    depth = 0
    for p, c in enumerate(s):
        if not mask[p]:
            return False            # no literals / comments inside a receiver
        if c in '([':
            depth += 1
        elif c in ')]':
            depth -= 1
        elif depth == 0 and not (c.isalnum() or c in '_.'):
            return False
    return True


def r11_peekable(lines, origin, repo, relfile):
    """let mut X = RECV.peekable();  ->  let mut X = iter_peekable(RECV);
    `Iterator::peekable` is a provided trait method, to which Verus cannot attach a specification; the call is
    routed through the one-line wrapper `iter_peekable` (declared in the overlay, body `it.peekable()`), which
    carries the assumed contract of `Iterator::peekable`.  Only: a `let` statement on one line whose initialiser
    is a plain postfix chain ending in `.peekable()`."""
    out, oo, notes = [], [], []
    pat = re.compile(r'^(\s*let (?:mut )?\w+ = )(.+)\.peekable\(\);\s*$')
    if any(_code_hits(l, r'\biter_peekable\b') for l in lines):
        raise RewriteError("R11: the name iter_peekable is already used in %s" % relfile)
    for l, o in zip(lines, origin):
        hits = _code_hits(l, r'\.\s*peekable\b')
        if hits:
            mm = pat.match(l)
            if mm is None or len(hits) != 1 or not _postfix_chain(mm.group(2)):
                raise RewriteError("R11: unknown `.peekable()` shape at %s:%d: %s" % (relfile, o, l.strip()))
            out.append("%siter_peekable(%s);" % (mm.group(1), mm.group(2)))
            notes.append("R11 %s:%d `%s.peekable()` -> `iter_peekable(%s)` (wrapper with body `it.peekable()`; carries the "
                         "assumed contract of the provided trait method Iterator::peekable)" % (relfile, o, mm.group(2).strip(), mm.group(2).strip()))
        else:
            out.append(l)
        oo.append(o)
    return out, oo, notes


def r12_map_or(lines, origin, repo, relfile):
    """if RECV.map_or(LIT, |x| BODY) {  ->  if match (RECV) { Some(x) => BODY, None => LIT } {
    (the definition of Option::map_or, beta-reduced; Verus knows nothing about the result of a closure without a
    spec).  Only: the whole condition of an `if` on one line; RECV a plain postfix chain; the default LIT a
    `true` / `false` / integer literal (so that evaluating it lazily instead of eagerly changes nothing); BODY a
    single expression without `return`, `?`, `|`, braces, `;`."""
    out, oo, notes = [], [], []
    pat = re.compile(r'^(\s*(?:\} else )?if )(.+)\.map_or\((true|false|\d+), \|(\w+)\| (.+)\) \{\s*$')
    for l, o in zip(lines, origin):
        hits = _code_hits(l, r'\.\s*map_or\b')
        if hits:
            mm = pat.match(l)
            if mm is None or len(hits) != 1:
                raise RewriteError("R12: unknown `.map_or(..)` shape at %s:%d: %s" % (relfile, o, l.strip()))
            head, recv, lit, var, body = mm.groups()
            if not _postfix_chain(recv) or not _balanced(body) or re.search(r'\breturn\b|\?|\||[{};]', body):
                raise RewriteError("R12: receiver / closure body not a plain expression at %s:%d: %s" % (relfile, o, l.strip()))
            out.append("%smatch (%s) { Some(%s) => %s, None => %s } {" % (head, recv, var, body, lit))
            notes.append("R12 %s:%d `%s.map_or(%s, |%s| %s)` -> match on the receiver (definition of Option::map_or)"
                         % (relfile, o, recv.strip(), lit, var, body))
        else:
            out.append(l)
        oo.append(o)
    return out, oo, notes


def r13_refpat_tuple_while(lines, origin, repo, relfile):
    """while let Some(&(P1, .., Pn)) = E {  ->  while let Some(t__r) = E { let (P1, .., Pn) = *t__r;
    (each Pi `_` or an identifier; also the form produced by R8, where the brace is on the next line).  Reference
    patterns are unsupported; the tuple must be Copy, which rustc checks on the rewritten text as well since `*t__r`
    moves out of a shared reference otherwise."""
    out, oo, notes = [], [], []
    pat = re.compile(r'^(\s*)while let Some\(&\(((?:_|\w+)(?:, (?:_|\w+))*)\)\) = (.*?)( \{)?\s*$')
    if any(_code_hits(l, r'\bt__r\b') for l in lines):
        raise RewriteError("R13: the name t__r is already used in %s" % relfile)
    i = 0
    while i < len(lines):
        l, o = lines[i], origin[i]
        mm = pat.match(l)
        if mm:
            ind, pats, e, brace = mm.groups()
            if not _balanced(e):
                raise RewriteError("R13: scrutinee not a balanced expression at %s:%d" % (relfile, o))
            if brace:
                out.append("%swhile let Some(t__r) = %s { let (%s) = *t__r;" % (ind, e, pats))
                oo.append(o)
            else:
                if i + 1 >= len(lines) or lines[i + 1].strip() != '{':
                    raise RewriteError("R13: `while let Some(&(..))` head without body brace at %s:%d" % (relfile, o))
                out.append("%swhile let Some(t__r) = %s" % (ind, e))
                oo.append(o)
                out.append(lines[i + 1])
                oo.append(origin[i + 1])
                out.append("%s    let (%s) = *t__r;" % (ind, pats))
                oo.append(o)
                i += 1
            notes.append("R13 %s:%d `Some(&(%s))` pattern -> `Some(t__r)` + `let (%s) = *t__r;` (deref binding)" % (relfile, o, pats, pats))
        else:
            if _code_hits(l, r'Some\(&\('):
                raise RewriteError("R13: unknown `Some(&(` pattern shape at %s:%d: %s" % (relfile, o, l.strip()))
            out.append(l)
            oo.append(o)
        i += 1
    return out, oo, notes


RULES.update({
    'R11': r11_peekable,
    'R12': r12_map_or,
    'R13': r13_refpat_tuple_while,
})
