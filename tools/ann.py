"""Tiny helper for writing ghost lines into an overlay file (development convenience only)."""
import re

G = '/*@*/ '


def ghost(block, ind=''):
    out = []
    for l in block.strip('\n').split('\n'):
        out.append(ind + G + l if l.strip() else ind + G.rstrip())
    return out


class Overlay:
    def __init__(self, path):
        self.path = path
        self.lines = open(path).read().split('\n')

    def save(self):
        open(self.path, 'w').write('\n'.join(self.lines))

    def find(self, pat, start=0, nth=1, code_only=True):
        k = 0
        for i in range(start, len(self.lines)):
            l = self.lines[i]
            if code_only and (l.lstrip().startswith('/*@*/') or l.lstrip().startswith('//@@')):
                continue
            if pat in l:
                k += 1
                if k == nth:
                    return i
        raise KeyError("anchor %r (nth=%d) not found after line %d" % (pat, nth, start))

    def stmt_end(self, i):
        """last line of the statement starting at line i (balanced, ends with ; or { or })"""
        depth = 0
        for j in range(i, len(self.lines)):
            l = re.sub(r'//.*$', '', self.lines[j])
            l = re.sub(r'"([^"\\]|\\.)*"', '""', l)
            for c in l:
                if c in '([{':
                    depth += 1
                elif c in ')]}':
                    depth -= 1
            if depth <= 0 and (l.rstrip().endswith(';') or l.rstrip().endswith('}') or l.rstrip().endswith('{')):
                return j
            if depth > 0 and l.rstrip().endswith('{') and depth == 1 and not any(c in l for c in '('):
                return j
        return i

    def indent_of(self, i):
        return re.match(r'\s*', self.lines[i]).group(0)

    def before(self, pat, block, start=0, nth=1, ind=None):
        i = self.find(pat, start, nth)
        ind = self.indent_of(i) if ind is None else ind
        self.lines[i:i] = ghost(block, ind)
        return i

    def after(self, pat, block, start=0, nth=1, ind=None, stmt=True):
        i = self.find(pat, start, nth)
        j = self.stmt_end(i) if stmt else i
        ind = self.indent_of(i) if ind is None else ind
        self.lines[j + 1:j + 1] = ghost(block, ind)
        return j + 1

    def strip_ghost(self, start_pat=None, end_pat=None):
        """remove all ghost lines between two code anchors (to redo an annotation)"""
        a = self.find(start_pat) if start_pat else 0
        b = self.find(end_pat, a + 1) if end_pat else len(self.lines)
        keep = [l for k, l in enumerate(self.lines) if not (a <= k < b and l.lstrip().startswith('/*@*/'))]
        self.lines = keep
