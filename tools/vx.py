#!/usr/bin/env python3
"""vx - build a unit from /repo's working tree, run Verus on it, map the results.

    vx.py build  <unit> [--cfg NAME]
    vx.py verify <unit> [--cfg NAME] [--fn NAME] [--rlimit N] [--raw]

`verify` is the development front end; the property checks use run_unit() from here.
"""
import hashlib
import json
import os
import re
import subprocess
import sys
import time

HERE = os.path.dirname(os.path.abspath(__file__))
ROOT = os.path.dirname(HERE)
sys.path.insert(0, HERE)
import rustscan   # noqa: E402
import vxbuild    # noqa: E402
import rewrites   # noqa: E402

REPO = os.environ.get('VERIF_REPO', '/repo')
BUILD = os.path.join(ROOT, 'build') if REPO == '/repo' else os.path.join(ROOT, 'build', 'alt_' + hashlib.md5(REPO.encode()).hexdigest()[:8])
CACHE = os.path.join(ROOT, '.cache')
VERUS = os.environ.get('VERIF_VERUS', 'verus')
THREADS = int(os.environ.get('VERIF_THREADS', '8'))

SEMANTIC = (
    'postcondition not satisfied',
    'precondition not satisfied',
    'assertion failed',
    'invariant not satisfied',
    'possible arithmetic underflow/overflow',
    'possible division by zero',
    'unreachable',
    'decreases not satisfied',
    'could not prove termination',
    'loop invariant not satisfied',
    'failed this postcondition',
    'failed precondition',
    'index out of bounds',
    'possible bit shift underflow/overflow',
    'cannot show invariant holds',
    'might not be allowed',
)
TOOLISH = (
    'rlimit', 'resource limit', 'timed out', 'not supported', 'unsupported', 'internal error',
    'panicked', 'cannot find', 'mismatched types', 'expected', 'syntax',
)


class FnInfo:
    def __init__(self):
        self.name = ''
        self.qual = ''
        self.mode = 'exec'
        self.start = 0
        self.end = 0
        self.body_start = 0
        self.external_body = False
        self.requires = []
        self.ensures = []
        self.invariants = 0
        self.asserts = 0
        self.decreases = 0
        self.calls = 0
        self.has_body = True
        self.repo_lines = 0


def build_unit(unit, cfgs=(), repo=None, drop_disturbed=False):
    repo = repo or REPO
    path = os.path.join(ROOT, 'contracts', unit + '.rs')
    b = vxbuild.build(path, repo, cfgs, drop_disturbed)
    os.makedirs(BUILD, exist_ok=True)
    tag = unit + ('@' + '+'.join(cfgs) if cfgs else '')
    out = os.path.join(BUILD, tag.replace('@', '__').replace('+', '_') + ('__nohints' if drop_disturbed else '') + '.rs')
    text = '\n'.join(b.lines)
    tmp = out + '.%d.tmp' % os.getpid()
    with open(tmp, 'w') as f:
        f.write(text)
    os.replace(tmp, out)
    b.path = out
    b.text = text
    b.tag = tag
    return b


def fn_table(text):
    """Functions in the verus! block of a build file, with clause counts."""
    mask = rustscan.code_mask(text)
    blocks = []
    for mm in re.finditer(r'verus!\s*\{', text):
        if mask[mm.start()]:
            o = mm.end() - 1
            blocks.append((o, rustscan.match_close(text, mask, o)))
    fns = []

    def walk(lo, hi, qual):
        for it in rustscan.scan_items(text, lo, hi, mask, verus=True):
            if it.kind == 'fn':
                f = FnInfo()
                mm = re.search(r'\bfn (\w+)', it.header)
                f.name = mm.group(1) if mm else '?'
                f.qual = (qual + '::' if qual else '') + f.name
                pre = text[it.start:it.hstart]
                f.external_body = 'external_body' in pre or 'verifier::external' in pre
                hdr = it.header[:mm.start()] if mm else ''
                f.mode = 'spec' if re.search(r'\bspec\b', hdr) else ('proof' if re.search(r'\bproof\b', hdr) else 'exec')
                f.start = rustscan.line_of(text, it.hstart)
                f.end = rustscan.line_of(text, it.end - 1)
                f.has_body = it.body_open is not None
                f.body_start = rustscan.line_of(text, it.body_open) if f.has_body else f.end
                hdr_end = it.body_open if f.has_body else it.end
                f.requires = _clauses(text, mask, it.hstart, hdr_end, 'requires')
                f.ensures = _clauses(text, mask, it.hstart, hdr_end, 'ensures')
                f.decreases = len(_clauses(text, mask, it.hstart, hdr_end, 'decreases'))
                if f.has_body:
                    body = rustscan._strip_comments(text, mask, it.body_open, it.end)
                    f.invariants = sum(len(x) for x in _all_clause_blocks(text, mask, it.body_open, it.end, 'invariant'))
                    f.asserts = len(re.findall(r'\bassert\s*(\(|forall\b)', body))
                    f.body_text = body
                fns.append(f)
            elif it.kind in ('impl', 'trait', 'mod') and it.body_open is not None:
                mm = re.search(r'\bfor ((?:&\s*(?:\'\w+\s+)?(?:mut\s+)?)?[A-Za-z_][\w]*)', it.header)
                if it.kind == 'impl' and mm:
                    tr = re.search(r'impl(?:<.*?>)?\s+([\w:]+)(?:<.*>)?\s+for\b', it.header)
                    q = (tr.group(1) + ' for ' if tr else '') + re.sub(r'\s+', '', mm.group(1))
                elif it.kind == 'impl':
                    mm2 = re.search(r'impl(?:<[^{]*?>)?\s+([A-Za-z_]\w*)', it.header)
                    q = mm2.group(1) if mm2 else 'impl'
                else:
                    mm2 = re.search(r'\b(?:trait|mod) (\w+)', it.header)
                    q = mm2.group(1) if mm2 else it.kind
                walk(it.body_open + 1, it.end - 1, (qual + '::' if qual else '') + q)

    for o, c in blocks:
        walk(o + 1, c, '')
    return fns


CLAUSE_KW = ('requires', 'ensures', 'decreases', 'recommends', 'invariant', 'invariant_except_break',
             'opens_invariants', 'no_unwind', 'returns', 'via', 'when', 'default_ensures')


def _find_kw(text, mask, lo, hi, kw):
    res = []
    for mm in re.finditer(r'\b%s\b' % kw, text[lo:hi]):
        p = lo + mm.start()
        if mask[p]:
            res.append(p)
    return res


def _clause_block(text, mask, p, hi):
    """p points at a clause keyword; return list of (clause_text, offset) split at top-level commas,
    ending at the next clause keyword / body brace at depth 0."""
    mm = re.compile(r'\w+').match(text, p)
    q = mm.end()
    depth = 0
    cur_start = q
    out = []
    while q < hi:
        if mask[q]:
            c = text[q]
            if c in '([':
                q = rustscan.match_close(text, mask, q) + 1
                continue
            if c == '{':
                # a brace at depth 0 inside a clause: `match e { .. }` / `({ .. })` is in parens.
                # it is the body brace iff what precedes (ignoring space) ends a clause
                prev = text[cur_start:q].strip()
                if prev == '' or prev.endswith(','):
                    break
                if re.search(r'\bmatch\b[^{]*$', prev) or re.search(r'\b(if|else)\b[^{]*$', prev):
                    q = rustscan.match_close(text, mask, q) + 1
                    continue
                break
            if c == ',':
                out.append((text[cur_start:q].strip(), cur_start))
                cur_start = q + 1
            else:
                mk = re.compile(r'\b(%s)\b' % '|'.join(CLAUSE_KW)).match(text, q)
                if mk and (q == 0 or not (text[q - 1].isalnum() or text[q - 1] == '_')):
                    break
        q += 1
    last = text[cur_start:q].strip()
    if last:
        out.append((last, cur_start))
    return out


def _clean(cl):
    out = []
    for t, off in cl:
        t2 = re.sub(r'/\*.*?\*/', ' ', t, flags=re.S)
        t2 = re.sub(r'//[^\n]*', ' ', t2)
        t2 = re.sub(r'\s+', ' ', t2).strip()
        if t2:
            out.append((t2, off))
    return out


def _clauses(text, mask, lo, hi, kw):
    ps = _find_kw(text, mask, lo, hi, kw)
    out = []
    for p in ps:
        out += _clean(_clause_block(text, mask, p, hi))
    return out


def _all_clause_blocks(text, mask, lo, hi, kw):
    return [_clean(_clause_block(text, mask, p, hi)) for p in _find_kw(text, mask, lo, hi, kw)]


def count_obligations(fns):
    """Syntactic obligation count per verified (non-external) function with a body:
    one per ensures clause, two per invariant clause (entry, preservation), one per
    assert, one per decreases, one per requires clause of each contracted callee at each
    call site, plus one implicit safety obligation (overflow / bounds / unreachable)."""
    by_name = {}
    for f in fns:
        by_name.setdefault(f.name, []).append(f)
    total = {}
    for f in fns:
        if f.external_body or not f.has_body or f.mode == 'spec':
            if f.mode == 'spec' and f.has_body and f.decreases:
                total[f.qual] = 1
            continue
        n = len(f.ensures) + 2 * f.invariants + f.asserts + f.decreases + 1
        body = getattr(f, 'body_text', '')
        for name, cands in by_name.items():
            req = max(len(c.requires) for c in cands)
            if req == 0:
                continue
            k = len(re.findall(r'(?<![\w])%s\s*(?:::<[^(]*>)?\(' % re.escape(name), body))
            if name == f.name and k > 0 and f.mode != 'exec':
                pass
            n += k * req
        total[f.qual] = n
    return total


def run_verus(path, rlimit=None, only_fn=None, extra=()):
    cmd = [VERUS, path, '--output-json', '--time', '--error-format=json', '--triggers-mode', 'silent',
           '--num-threads', str(THREADS)]
    if '--multiple-errors' not in extra:
        cmd += ['--multiple-errors', '50']
    if rlimit:
        cmd += ['--rlimit', str(rlimit)]
    if only_fn:
        cmd += ['--verify-root', '--verify-function', only_fn]
    cmd += list(extra)
    t0 = time.time()
    p = subprocess.run(cmd, stdout=subprocess.PIPE, stderr=subprocess.PIPE, text=True, cwd=BUILD)
    wall = time.time() - t0
    res = {'cmd': ' '.join(cmd), 'wall_s': wall, 'rc': p.returncode, 'json': None, 'diags': [], 'stderr_tail': ''}
    try:
        start = p.stdout.find('{')
        res['json'] = json.loads(p.stdout[start:]) if start >= 0 else None
    except Exception:
        res['json'] = None
    other = []
    for line in p.stderr.split('\n'):
        line = line.strip()
        if line.startswith('{'):
            try:
                d = json.loads(line)
                res['diags'].append(d)
                continue
            except Exception:
                pass
        if line:
            other.append(line)
    res['stderr_tail'] = '\n'.join(other[-30:])
    return res


def cached_verus(path, text, rlimit=None, only_fn=None, extra=()):
    if os.environ.get('VERIF_NOCACHE') == '1' or only_fn:
        r = run_verus(path, rlimit, only_fn, extra)
        r['cache'] = 'off'
        return r
    os.makedirs(CACHE, exist_ok=True)
    key = hashlib.sha256(('%s|%s|%s|' % (rlimit, extra, _verus_version()) + text).encode()).hexdigest()[:24]
    cp = os.path.join(CACHE, key + '.json')
    if os.path.exists(cp):
        try:
            r = json.load(open(cp))
            r['cache'] = 'hit'
            return r
        except Exception:
            pass
    r = run_verus(path, rlimit, only_fn, extra)
    r['cache'] = 'miss'
    # only cache runs in which Verus itself completed (it produced its JSON)
    if r['json'] is not None:
        tmp = cp + '.%d.tmp' % os.getpid()
        json.dump(r, open(tmp, 'w'))
        os.replace(tmp, cp)
    return r


_VV = None


def _verus_version():
    global _VV
    if _VV is None:
        try:
            _VV = subprocess.run([VERUS, '--version'], stdout=subprocess.PIPE, text=True).stdout.split('Version:')[1].split()[0]
        except Exception:
            _VV = 'unknown'
    return _VV


class Finding:
    """One failed obligation (or tool problem) mapped back to the build file, /repo and a function."""
    def __init__(self):
        self.kind = ''        # semantic | tool
        self.message = ''
        self.fn = None        # qualified function name
        self.line = 0         # build-file line of the primary span
        self.origin = None    # ('repo'|'contract', file, line)
        self.labels = []      # [(label, build_line, origin, source_text)]
        self.rendered = ''
        self.tags = []        # property tags found on the clause lines: [C11] etc.


def classify(msg):
    m = msg.lower()
    for s in SEMANTIC:
        if s in m:
            return 'semantic'
    return 'tool'


def map_findings(b, res, fns):
    lines = b.lines
    out = []

    def fn_at(line):
        best = None
        for f in fns:
            if f.start <= line <= f.end:
                if best is None or f.start >= best.start:
                    best = f
        return best

    for d in res['diags']:
        lvl = d.get('level')
        if lvl not in ('error',):
            continue
        msg = d.get('message', '')
        if msg.startswith('aborting due to') or 'previous error' in msg:
            continue
        f = Finding()
        f.message = msg
        f.kind = classify(msg)
        f.rendered = d.get('rendered', '')
        spans = d.get('spans', [])
        prim = [s for s in spans if s.get('is_primary')] or spans
        for s in spans:
            ln = s.get('line_start', 0)
            org = b.origin[ln - 1] if 0 < ln <= len(b.origin) else None
            src = lines[ln - 1].strip() if 0 < ln <= len(lines) else ''
            f.labels.append((s.get('label') or '', ln, org, src))
            f.tags += re.findall(r'\[(C\d\d(?:,C\d\d)*)\]', src)
            for lab in (s.get('label') or '',):
                if classify(lab) == 'semantic':
                    f.kind = 'semantic' if f.kind != 'tool' or classify(msg) == 'semantic' else f.kind
        if prim:
            f.line = prim[0].get('line_start', 0)
            f.origin = b.origin[f.line - 1] if 0 < f.line <= len(b.origin) else None
        # attribute to a function: the innermost function containing any span that lies in a body;
        # a "precondition not satisfied" has its primary span at the call site.
        cand = None
        for s in prim + spans:
            fi = fn_at(s.get('line_start', 0))
            if fi is not None and not fi.external_body and fi.has_body and s.get('line_start', 0) >= fi.body_start:
                cand = fi
                break
        if cand is None:
            for s in prim + spans:
                fi = fn_at(s.get('line_start', 0))
                if fi is not None:
                    cand = fi
                    break
        f.fn = cand.qual if cand else None
        # flatten tags
        tags = []
        for t in f.tags:
            tags += t.split(',')
        f.tags = sorted(set(tags))
        out.append(f)
    return out


def run_unit(unit, cfgs=(), rlimit=None, only_fn=None, repo=None, extra=(), drop_disturbed=False):
    """Build + verify.  Returns dict with build info, function table, findings, per-fn SMT times."""
    b = build_unit(unit, cfgs, repo, drop_disturbed)
    fns = fn_table(b.text)
    res = cached_verus(b.path, b.text, rlimit, only_fn, extra)
    findings = map_findings(b, res, fns)
    times = {}
    ok = {}
    js = res.get('json') or {}
    try:
        for mt in js['times-ms']['smt']['smt-run-module-times']:
            for fb in mt.get('function-breakdown', []):
                name = fb['function'].split('::', 1)[1] if '::' in fb['function'] else fb['function']
                times[name] = times.get(name, 0) + fb.get('time-micros', 0) / 1e6
                ok[name] = ok.get(name, True) and fb.get('success', False)
    except Exception:
        pass
    vr = js.get('verification-results', {}) if js else {}
    return {'unit': unit, 'tag': b.tag, 'build': b, 'hints_dropped': drop_disturbed, 'fns': fns, 'res': res, 'findings': findings,
            'smt_s': times, 'fn_ok': ok, 'verified': vr.get('verified'), 'errors': vr.get('errors'),
            'vir_error': vr.get('encountered-vir-error'),
            'completed': bool(js) and not vr.get('encountered-vir-error') and vr.get('verified') is not None}


def fmt_origin(o):
    if not o:
        return '?'
    return '%s:%d' % (o[1] if o[0] == 'contract' else '/repo/' + o[1], o[2])


def main(argv):
    import argparse
    ap = argparse.ArgumentParser()
    ap.add_argument('cmd', choices=['build', 'verify', 'fns', 'sync'])
    ap.add_argument('unit')
    ap.add_argument('--cfg', action='append', default=[])
    ap.add_argument('--fn')
    ap.add_argument('--rlimit', type=int)
    ap.add_argument('--raw', action='store_true')
    ap.add_argument('--extra', action='append', default=[])
    a = ap.parse_args(argv)
    if a.cmd == 'sync':
        path = os.path.join(ROOT, 'contracts', a.unit + '.rs')
        print('sections changed:', vxbuild.sync(path, REPO, tuple(a.cfg)))
        return 0
    if a.cmd == 'build':
        b = build_unit(a.unit, tuple(a.cfg))
        print('built', b.path, len(b.lines), 'lines')
        for it in b.items:
            print('  item %-70s drift=%d disturbed=%d %s' % (it['spec'][:70], it['drift'], it['disturbed'], it['lost'] or ''))
        for n in b.rewrites + b.dropped:
            print('  note:', n)
        return 0
    if a.cmd == 'fns':
        b = build_unit(a.unit, tuple(a.cfg))
        fns = fn_table(b.text)
        ob = count_obligations(fns)
        for f in fns:
            print('%-60s %-5s %s req=%d ens=%d inv=%d as=%d obl=%s' % (f.qual, f.mode, 'EXT' if f.external_body else '   ', len(f.requires), len(f.ensures), f.invariants, f.asserts, ob.get(f.qual)))
        print('total obligations', sum(ob.values()))
        return 0
    os.environ.setdefault('VERIF_NOCACHE', '1')
    r = run_unit(a.unit, tuple(a.cfg), a.rlimit, a.fn, extra=a.extra)
    b = r['build']
    for it in b.items:
        if it['drift'] or it['disturbed'] or it['lost']:
            print('  item %-60s drift=%d disturbed=%d %s' % (it['spec'][:60], it['drift'], it['disturbed'], it['lost'] or ''))
    print('verus: verified=%s errors=%s wall=%.1fs completed=%s' % (r['verified'], r['errors'], r['res']['wall_s'], r['completed']))
    for f in r['findings']:
        print('--- [%s] %s   fn=%s  at %s (build:%d) tags=%s' % (f.kind, f.message, f.fn, fmt_origin(f.origin), f.line, f.tags))
        for lab, ln, org, src in f.labels:
            print('      %-40s build:%-5d %-40s | %s' % (lab[:40], ln, fmt_origin(org), src[:110]))
        if a.raw:
            print(f.rendered)
    if not r['res']['json']:
        print(r['res']['stderr_tail'])
    slow = sorted(r['smt_s'].items(), key=lambda kv: -kv[1])[:8]
    print('slowest:', ', '.join('%s %.1fs' % kv for kv in slow))
    return 0 if (r['completed'] and not r['findings']) else 1


if __name__ == '__main__':
    sys.exit(main(sys.argv[1:]))
