#!/bin/sh
# second batch of seeded changes (run from a snapshot via `vp run`)
cd "$(dirname "$0")/.."
python3 tools/seedtest.py /tmp/wt_C08 2 C08-2 C08
for k in 1 2 3; do python3 tools/seedtest.py /tmp/wt_C01 $k C01-$k C01 C07 C08; done
for k in 1 2 3; do python3 tools/seedtest.py /tmp/wt_C10 $k C10-$k C10 C01; done
for k in 1 2 3; do python3 tools/seedtest.py /tmp/wt_C02 $k C02-$k C01 C10; done
for k in 1 2 3; do python3 tools/seedtest.py /tmp/wt_C03 $k C03-$k C01; done
for k in 1 2 3; do python3 tools/seedtest.py /tmp/wt_C09 $k C09-$k C01 C10; done
for k in 1 2 3; do python3 tools/seedtest.py /tmp/wt_C11 $k C11-$k C01 C10; done
