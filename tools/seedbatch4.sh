#!/bin/sh
# every stored seed against the check of the property it was written to break (current checks, quick tier);
# earlier results for the other checks are kept in the meta files
cd "$(dirname "$0")/.."
for c in C01 C02 C03 C07 C08 C09 C10 C11 C12 C13; do ./check $c > /dev/null 2>&1; done
for d in /verif/seeded/C*/; do
  n=$(basename $d)
  own=${n%-*}
  python3 tools/seedtest.py /nonexistent 0 $n $own
done
