"""Token-aware scanner for Rust source text: brace matching and item location.

Only what the extractor needs: it never parses expressions.  It understands line and
(nested) block comments, string / raw string / byte string literals, char literals vs
lifetimes, so that braces, parentheses and semicolons inside them are ignored.
"""
import re

OPEN = "([{"
CLOSE = ")]}"


def code_mask(text):
    """Return a bytearray m with m[i] == 1 iff text[i] is code (not comment/literal)."""
    n = len(text)
    m = bytearray(n)
    i = 0
    while i < n:
        c = text[i]
        if c == '/' and i + 1 < n and text[i + 1] == '/':
            j = text.find('\n', i)
            i = n if j < 0 else j
            continue
        if c == '/' and i + 1 < n and text[i + 1] == '*':
            depth = 1
            i += 2
            while i < n and depth:
                if text.startswith('/*', i):
                    depth += 1
                    i += 2
                elif text.startswith('*/', i):
                    depth -= 1
                    i += 2
                else:
                    i += 1
            continue
        if c == '"' or (c in 'br' and _is_str_start(text, i)):
            i = _skip_string(text, i)
            continue
        if c == "'":
            j = _skip_char_or_lifetime(text, i)
            if j is not None:
                i = j
                continue
            # lifetime: mark the quote as code and go on
            m[i] = 1
            i += 1
            continue
        m[i] = 1
        i += 1
    return m


def _is_str_start(text, i):
    # b"..", r"..", r#".."#, br".."  (identifier chars before mean it is part of an ident)
    if i > 0 and (text[i - 1].isalnum() or text[i - 1] == '_'):
        return False
    return re.match(r'(b?r#*"|b")', text[i:i + 12]) is not None


def _skip_string(text, i):
    n = len(text)
    mm = re.match(r'(b?r)(#*)"', text[i:i + 40])
    if mm:
        hashes = mm.group(2)
        end = text.find('"' + hashes, i + len(mm.group(0)))
        return n if end < 0 else end + 1 + len(hashes)
    if text[i] == 'b':
        i += 1
    i += 1
    while i < n:
        if text[i] == '\\':
            i += 2
        elif text[i] == '"':
            return i + 1
        else:
            i += 1
    return n


def _skip_char_or_lifetime(text, i):
    # 'x'  '\n'  '\u{..}'  vs  'a (lifetime)
    mm = re.match(r"'(\\u\{[0-9a-fA-F_]+\}|\\x[0-9a-fA-F]{2}|\\.|[^\\'\n])'", text[i:i + 16])
    if mm:
        return i + len(mm.group(0))
    return None


def match_close(text, mask, i):
    """text[i] is an opening bracket (code); return index of its matching close."""
    depth = 0
    n = len(text)
    j = i
    while j < n:
        if mask[j]:
            c = text[j]
            if c in OPEN:
                depth += 1
            elif c in CLOSE:
                depth -= 1
                if depth == 0:
                    return j
        j += 1
    raise ValueError("unbalanced bracket at offset %d" % i)


BODY_KINDS = ("fn", "impl", "trait", "mod", "enum", "struct", "union", "macro_rules")
QUALS = ("pub", "unsafe", "async", "const", "extern", "default")
VERUS_QUALS = ("open", "closed", "spec", "proof", "exec", "broadcast", "uninterp", "tracked", "ghost")
ITEM_START = re.compile(r'(#|\}|pub\b|fn\b|spec\b|proof\b|open\b|closed\b|exec\b|impl\b|trait\b|struct\b|enum\b|mod\b|use\b|type\b|const\b|static\b|broadcast\b|uninterp\b|unsafe\b|macro_rules\b|assume_specification\b|global\b|tracked\b|extern\b)')
KINDS = BODY_KINDS + ("use", "type", "static", "const", "let")


class Item:
    __slots__ = ("kind", "header", "start", "hstart", "body_open", "end", "text")

    def __repr__(self):
        return "<Item %s %r %d..%d>" % (self.kind, self.header[:60], self.start, self.end)


def _collapse(s):
    return re.sub(r'\s+', ' ', s).strip()


def scan_items(text, lo=0, hi=None, mask=None, verus=False):
    """Items directly inside text[lo:hi] (a file, or the inside of a mod/impl/trait body)."""
    if hi is None:
        hi = len(text)
    if mask is None:
        mask = code_mask(text)
    items = []
    i = lo
    while i < hi:
        # skip whitespace / comments to find start of leading trivia
        while i < hi and (not mask[i] or text[i].isspace()):
            # comments are non-code; whitespace is code per mask but skip
            i += 1
        if i >= hi:
            break
        start = i
        # leading attributes  #[...]  and #![...]
        j = i
        while True:
            while j < hi and (not mask[j] or text[j].isspace()):
                j += 1
            if j < hi and text[j] == '#' and mask[j]:
                k = j + 1
                if k < hi and text[k] == '!':
                    k += 1
                while k < hi and text[k].isspace():
                    k += 1
                if k < hi and text[k] == '[':
                    j = match_close(text, mask, k) + 1
                    continue
            break
        if j >= hi:
            break
        hstart = j
        # read qualifiers and the kind keyword
        k = j
        kind = None
        while True:
            mm = re.compile(r'\s*([A-Za-z_][A-Za-z0-9_]*!?)').match(text, k)
            if not mm:
                break
            w = mm.group(1)
            if w in ("pub",):
                k = mm.end()
                # pub(crate)
                mm2 = re.compile(r'\s*\(').match(text, k)
                if mm2:
                    k = match_close(text, mask, mm2.end() - 1) + 1
                continue
            if w == "extern":
                k = mm.end()
                mm2 = re.compile(r'\s*"[^"]*"').match(text, k)
                if mm2:
                    k = mm2.end()
                continue
            if w == "const":
                # `const fn` vs `const X: T = ..;`
                mm2 = re.compile(r'\s*(fn|unsafe|async|extern)\b').match(text, mm.end())
                if mm2:
                    k = mm.end()
                    continue
                kind = "const"
                break
            if w in ("unsafe", "async", "default") or (verus and w in VERUS_QUALS):
                k = mm.end()
                continue
            if verus and w == "assume_specification":
                kind = "assume_specification"
                break
            if w == "macro_rules!":
                kind = "macro_rules"
                break
            if w in KINDS:
                kind = w
                break
            break
        # find the end of the item
        p = hstart
        end = None
        body_open = None
        while p < hi:
            if mask[p]:
                c = text[p]
                if c == ';':
                    end = p + 1
                    break
                if c in "([":
                    p = match_close(text, mask, p) + 1
                    continue
                if c == '{':
                    q = match_close(text, mask, p)
                    if kind in BODY_KINDS:
                        if verus and kind == "fn":
                            # spec clauses may contain `match e { .. }`: the body is the last
                            # depth-0 brace group, i.e. the one followed by a new item / end
                            r = q + 1
                            while r < hi and (not mask[r] or text[r].isspace()):
                                r += 1
                            if r < hi and not ITEM_START.match(text, r):
                                p = q + 1
                                continue
                        body_open = p
                        end = q + 1
                        break
                    p = q + 1
                    continue
            p += 1
        if end is None:
            end = hi
        it = Item()
        it.kind = kind or "?"
        it.start = start
        it.hstart = hstart
        it.body_open = body_open
        it.end = end
        hdr_end = body_open if body_open is not None else end
        it.header = _collapse(_strip_comments(text, mask, hstart, hdr_end))
        it.text = text[start:end]
        items.append(it)
        i = end
    return items


def _strip_comments(text, mask, lo, hi):
    out = []
    i = lo
    while i < hi:
        if mask[i]:
            out.append(text[i])
            i += 1
        else:
            # literal or comment: keep literals (start with quote / r / b), drop comments
            j = i
            while j < hi and not mask[j]:
                j += 1
            seg = text[i:j]
            if seg.startswith('//') or seg.startswith('/*'):
                out.append(' ')
            else:
                out.append(seg)
            i = j
    return ''.join(out)


def find_item(text, path, mask=None):
    """path: list of regexes; all but the last select containers (mod/impl/trait).

    Returns (item, lo, hi) offsets of the selected item inside text.  Raises KeyError.
    """
    if mask is None:
        mask = code_mask(text)
    lo, hi = 0, len(text)
    item = None
    for depth, pat in enumerate(path):
        cands = [it for it in scan_items(text, lo, hi, mask) if re.search(pat, it.header)]
        if not cands:
            raise KeyError("no item matching %r (level %d)" % (pat, depth))
        if len(cands) > 1:
            raise KeyError("%d items match %r: %s" % (len(cands), pat, [c.header[:50] for c in cands]))
        item = cands[0]
        if depth + 1 < len(path):
            if item.body_open is None:
                raise KeyError("item %r has no body" % pat)
            lo, hi = item.body_open + 1, item.end - 1
    return item


def line_of(text, off):
    return text.count('\n', 0, off) + 1
