#!/usr/bin/env python3
"""check <property> [--tier quick|thorough] [--replay FILE]

Decides one property on /repo's current working tree (DESIGN.md section 2.5 / 9):
  exit 0  every obligation mapped to the property is discharged (known findings are printed)
  exit 1  an obligation that is not a listed known finding failed  -> VIOLATION line
  exit 2  tool trouble (lost anchor, unsupported construct, rlimit, internal error): undecided
"""
import concurrent.futures as cf
import json
import os
import re
import sys
import time

HERE = os.path.dirname(os.path.abspath(__file__))
ROOT = os.path.dirname(HERE)
sys.path.insert(0, HERE)
import vx           # noqa: E402
import rustscan     # noqa: E402

PROPS = json.load(open(os.path.join(ROOT, 'contracts', 'properties.json')))
KNOWN = os.path.join(ROOT, 'known_findings.txt')


def load_known():
    known, fixed = [], []
    if os.path.exists(KNOWN):
        for line in open(KNOWN):
            line = line.strip()
            if not line or line.startswith('#'):
                continue
            if line.startswith('fixed:'):
                fixed.append(line)
                continue
            if line.startswith('known:'):
                kv = dict(re.findall(r'(\w+)=(\S+)', line.split('::')[0]))
                kv['text'] = line.split('::', 1)[1].strip() if '::' in line else ''
                known.append(kv)
    return known, fixed


def props_of_fn(unit_text, qual):
    """properties a function carries, from `//@@ props <regex> : C01 C02` directives"""
    res = set()
    for mm in re.finditer(r'^//@@ props (.+?) : (.*)$', unit_text, flags=re.M):
        if re.search(mm.group(1), qual):
            res |= set(mm.group(2).split())
    return res


def fn_disturbed(b, f, key='disturbed'):
    """does the function overlap an item section in which ghost lines sat next to changed code?
    key='structural': next to code that was added, removed or re-flowed (not merely edited in place)"""
    if f is None:
        return False
    for it in b.items:
        if it.get(key) and it['start'] <= f.end and f.start <= it.get('end', 0):
            return True
    return False


def calls_new_fn(b, f):
    """does the function call something that is new in the source of its section: a new helper (no overlay counterpart,
    hence no contract) or a callee (function / method name) the section did not call when its proof was written?"""
    names = getattr(b, 'new_fns', [])
    if f is None or not names:
        return None
    body = '\n'.join(l for l in b.lines[f.start - 1:f.end] if not l.lstrip().startswith('/*@*/'))
    for n in names:
        if re.search(r'\b%s\s*\(' % re.escape(n), body) and not re.search(r'\bfn\s+%s\b' % re.escape(n), body):
            return n
    return None


def repo_lines_of(b, f):
    return sum(1 for ln in range(f.start, f.end + 1) if b.origin[ln - 1][0] == 'repo')


def vacuity_text(b, fns, targets):
    """copy of the build text in which every target function gets two reachability probes, `assert(false)` at the
    entry of its body and before its last top-level statement; both must FAIL (a probe that verifies means the point
    is unreachable: contradictory precondition, or a contradictory assumed contract of something called before it).
    Returns (text, {build line of probe: (function, kind)})."""
    text = b.text
    mask = rustscan.code_mask(text)
    line_off = [0]
    for i, c in enumerate(text):
        if c == '\n':
            line_off.append(i + 1)
    edits = []
    for f in fns:
        if f.qual not in targets:
            continue
        # body braces
        p = line_off[f.body_start - 1]
        q = text.find('{', p)
        while q >= 0 and not mask[q]:
            q = text.find('{', q + 1)
        if q < 0:
            continue
        close = rustscan.match_close(text, mask, q)
        # start of the last top-level statement of the body
        depth = 0
        last = None
        k = q + 1
        expect = True
        while k < close:
            if mask[k]:
                c = text[k]
                if expect and not c.isspace():
                    last = k
                    expect = False
                if c in '([{':
                    depth += 1
                elif c in ')]}':
                    depth -= 1
                    if depth == 0 and c == '}':
                        expect = True
                elif c == ';' and depth == 0:
                    expect = True
            k += 1
        edits.append((q + 1, ' proof { if vac_flag__(0) { assert(false); } } /*VAC-ENTRY %s*/ ' % f.qual))
        if last is not None and last > q + 1:
            # ghost lines start with the marker comment: step over it
            ls = text.rfind('\n', 0, last) + 1
            edits.append((ls, 'proof { assert(false); } /*VAC-END %s*/\n' % f.qual))
    for off, ins in sorted(edits, reverse=True):
        text = text[:off] + ins + text[off:]
    # an uninterpreted flag keeps the entry probe from cutting off the rest of the body (a failed assert is assumed afterwards)
    text = text + '\nverus! { pub uninterp spec fn vac_flag__(i: int) -> bool; }\n'
    return text


def run_vacuity(r, targets):
    """one extra Verus run per unit; returns (result, {function: True if some probe VERIFIED (= vacuous)})"""
    b = r['build']
    fns = r['fns']
    text = vacuity_text(b, fns, targets)
    path = b.path.replace('.rs', '__vac.rs')
    tmp = path + '.%d.tmp' % os.getpid()
    open(tmp, 'w').write(text)
    os.replace(tmp, path)
    res = vx.cached_verus(path, text, extra=('--multiple-errors', '400'))
    js = res.get('json') or {}
    vr = js.get('verification-results', {}) if js else {}
    if not js or vr.get('encountered-vir-error') or vr.get('verified') is None:
        return res, None
    lines = text.split('\n')
    probes = {}
    for i, l in enumerate(lines):
        for mm in re.finditer(r'/\*VAC-(ENTRY|END) (.*?)\*/', l):
            probes[(mm.group(2), mm.group(1))] = i + 1
    failed = set()
    for d in res['diags']:
        if d.get('level') != 'error' or 'assertion failed' not in d.get('message', ''):
            continue
        for sp in d.get('spans', []):
            ln = sp.get('line_start', 0)
            for key, pl in probes.items():
                if pl == ln:
                    failed.add(key)
    ok = {}
    for (q, kind), pl in probes.items():
        if (q, kind) not in failed:
            ok[q] = True          # a probe verified: the point is unreachable
        else:
            ok.setdefault(q, False)
    return res, ok


def vname(qual, table):
    """the key of `table` (Verus' function-breakdown names) for a function of our table, or None"""
    if qual in table:
        return qual
    q2 = re.sub(r'(^|::)[\w:]+ for ', r'\1', qual)       # `mod::Trait for Type::m` -> `mod::Type::m`
    if q2 in table:
        return q2
    meth = qual.rsplit('::', 1)[-1]
    cands = [k for k in table if 'impl&%' in k and k.rsplit('::', 1)[-1] == meth]
    if '&' in qual and len(cands) == 1:
        return cands[0]
    return None


def main(argv):
    import argparse
    ap = argparse.ArgumentParser()
    ap.add_argument('prop')
    ap.add_argument('--tier', default=os.environ.get('VERIF_TIER', 'quick'))
    ap.add_argument('--replay')
    a = ap.parse_args(argv)
    pid = a.prop
    if pid not in PROPS:
        print('unknown or unclaimed property', pid)
        return 2
    if a.replay:
        import replay
        return replay.rerun(a.replay)
    cfg = PROPS[pid]
    seed = int(os.environ.get('VERIF_SEED', '0') or 0)
    t0 = time.time()
    known, fixed = load_known()
    units = cfg['units']           # [[unit, [cfgs]], ...]
    results = []
    with cf.ThreadPoolExecutor(max_workers=4) as ex:
        futs = [ex.submit(vx.run_unit, u, tuple(c)) for u, c in units]
        for fu in futs:
            results.append(fu.result())

    # A unit whose overlay no longer fits the source (ghost lines next to changed code) and that Verus cannot
    # even parse / type-check is rebuilt without the disturbed proof hints (DESIGN.md 2.2): the contracts stay,
    # the hints attached to the edited statements go; what then fails is classified by the replay stage.
    for k, r in enumerate(results):
        b = r['build']
        disturbed = sum(i['disturbed'] for i in b.items)
        toolish = (not r['completed']) or any(f.kind == 'tool' for f in r['findings'])
        if disturbed and toolish:
            u, c = units[k]
            r2 = vx.run_unit(u, tuple(c), drop_disturbed=True)
            r2['first_pass_trouble'] = [f.message[:160] for f in r['findings'] if f.kind == 'tool'][:3]
            results[k] = r2

    forced_replay = None
    tool_findings = []
    trouble = []        # exit-2 reasons
    standin_notes = []  # bounded stand-ins that did not finish: reported only
    violations = []     # (unit, finding)
    weak_violations = []  # failed obligations in functions whose proof hints were lost: need a replayed input
    known_hits = []
    fn_rows = []
    obligations = 0
    failed_obl = 0
    smt_total = 0.0
    trusted = []
    carried = []
    samples = []
    dropped, rewrites_notes = [], []
    verus_cmds = []
    vac_futs = []

    with cf.ThreadPoolExecutor(max_workers=4) as ex:
        for r in results:
            b = r['build']
            unit_text = b.text
            fns = r['fns']
            mine = [f for f in fns if pid in props_of_fn(unit_text, f.qual)]
            mine_t = set(f.qual for f in mine if f.mode == 'exec' and f.has_body and not f.external_body)
            # the pass itself covers every verified exec function of the unit (so that its result is shared by all
            # properties served by the unit); only the property's own functions are reported
            targets = set(f.qual for f in fns if f.mode == 'exec' and f.has_body and not f.external_body)
            if mine_t:
                vac_futs.append((r, mine_t, ex.submit(run_vacuity, r, targets)))
        vac = [(r, t, fu.result()) for r, t, fu in vac_futs]

    for r in results:
        b = r['build']
        unit_text = b.text
        fns = r['fns']
        verus_cmds.append(r['res']['cmd'])
        dropped += b.dropped
        rewrites_notes += b.rewrites
        if b.errors:
            for e in b.errors:
                trouble.append('unit %s: %s' % (r['tag'], e))
        if not r['completed']:
            # Verus did not get as far as verifying: front-end error (unsupported construct, type error ..)
            msgs = [f.message for f in r['findings'] if f.kind == 'tool'][:3]
            trouble.append('unit %s: Verus did not complete: %s' % (r['tag'], '; '.join(msgs) or r['res']['stderr_tail'][-300:]))
        ob = vx.count_obligations(fns)
        mine = [f for f in fns if pid in props_of_fn(unit_text, f.qual)]
        if not mine:
            trouble.append('unit %s: no function carries %s (lost anchors?)' % (r['tag'], pid))
        minenames = set(f.qual for f in mine)
        for f in mine:
            rl = repo_lines_of(b, f)
            kind = 'A' if f.external_body else ('V' if f.has_body and f.mode != 'spec' else 'S')
            if f.external_body:
                trusted.append('assumed contract (external_body): %s [%s]' % (f.qual, r['tag']))
            if kind == 'V':
                obligations += ob.get(f.qual, 0)
                smt_total += r['smt_s'].get(vname(f.qual, r['smt_s']) or '', 0.0)
            fn_rows.append({'unit': r['tag'], 'fn': f.qual, 'how': kind, 'mode': f.mode, 'repo_lines': rl,
                            'obligations': ob.get(f.qual, 0) if kind == 'V' else 0,
                            'smt_s': round(r['smt_s'].get(vname(f.qual, r['smt_s']) or '', 0.0), 3)})
            if kind == 'V' and rl > 0 and len(samples) < 6:
                for cl, _ in (f.ensures[:1] or []):
                    samples.append({'function': f.qual, 'unit': r['tag'], 'kind': 'postcondition', 'clause': cl[:300]})
        for fd in r['findings']:
            relevant = (fd.fn in minenames) if fd.fn else False
            if fd.tags:
                relevant = (pid in fd.tags or any(t in fd.tags for t in cfg.get('also_tags', []))) and relevant
            if not relevant and fd.fn is None and fd.kind == 'tool':
                relevant = True
            if not relevant:
                continue
            fobj = next((f for f in fns if f.qual == fd.fn), None)
            has_repo = fobj is not None and repo_lines_of(b, fobj) > 0
            if fd.kind == 'tool':
                tool_findings.append((r['tag'], fd))
                continue
            if not has_repo:
                trouble.append('unit %s: proof infrastructure lemma %s failed: %s' % (r['tag'], fd.fn, fd.message[:120]))
                continue
            failed_obl += 1
            hit = None
            for k in known:
                if k.get('property') == pid and k.get('unit', r['tag']) == r['tag'] and re.search(k.get('fn', '.*'), fd.fn or '') \
                        and (('clause' not in k) or any(k['clause'] in (src or '') or k['clause'] in (lab or '') for lab, ln, org, src in fd.labels)):
                    hit = k
                    break
            if hit:
                known_hits.append((hit, r['tag'], fd))
            elif (r.get('hints_dropped') and fn_disturbed(b, fobj)) or fn_disturbed(b, fobj, 'structural') or calls_new_fn(b, fobj):
                # (or the function now calls a helper that is new in the source and therefore has no contract)
                # proof hints in this function are no longer reliably placed (lines added / removed / re-flowed next to
                # them, or hints dropped): a failed obligation counts only if the replay finds a failing input
                weak_violations.append((r['tag'], fd))
            else:
                violations.append((r['tag'], fd))

    known_fns = set((u, fd.fn) for h, u, fd in known_hits if fd is not None)
    for u, fd in tool_findings:
        if 'rlimit' in fd.message.lower() and (u, fd.fn) in known_fns:
            continue   # the solver gave up while searching for the proof of an obligation that is a listed known finding
        trouble.append('unit %s fn %s: %s' % (u, fd.fn, fd.message[:200]))

    # vacuity: every targeted exec function must FAIL `ensures false`
    vac_checked = 0
    vac_exempt = []
    for r, targets, (vres, vok) in vac:
        if vok is None:
            trouble.append('unit %s: vacuity pass did not complete (%s)' % (r['tag'], (vres or {}).get('stderr_tail', '')[-200:]))
            continue
        for t in sorted(targets):
            if t in vok:
                vac_checked += 1
                if vok[t] and t in cfg.get('vacuous_ok', {}):
                    vac_exempt.append('%s: %s' % (t, cfg['vacuous_ok'][t]))
                elif vok[t]:
                    trouble.append('unit %s: VACUOUS contract: %s verifies `ensures false` (contradictory precondition)' % (r['tag'], t))
            else:
                # function not in the breakdown: cannot confirm
                pass

    # bounded stand-ins for assumed contracts / undecided clauses (never counted as proved): Kani harnesses on the real
    # functions (tools/standins.py) and the exhaustive small-scope replay harness (replay/src/main.rs)
    standins = []

    def run_standin(s):
        if s.get('kind') == 'replay':
            import replay
            t1 = time.time()
            rr = replay.run_harness(s['mode'], timeout=s.get('timeout', 900 if a.tier != 'thorough' else 3600), hooks=bool(s.get('hooks')), tier=a.tier)
            last = [l for l in (rr.get('log') or '').split('\n') if l.startswith(('NONE', 'WITNESS'))]
            out = {'name': s['name'], 'kind': 'replay (bounded exhaustive enumeration on the real crate)', 'covers': s.get('covers', ''),
                   'outcome': 'fail' if rr['found'] else ('pass' if last else 'error'), 'bound': (last[-1][:300] if last else ''),
                   'witness': rr.get('witness'), 'wall_s': round(time.time() - t1, 1), 'detail': '' if last else (rr.get('log') or '')[-300:]}
        else:
            import standins as si
            out = si.run(s, a.tier)
            out['covers'] = s.get('covers', '')
        return out

    todo = [s for s in cfg.get('standins', []) if not (a.tier == 'quick' and s.get('tier') == 'thorough')]
    import concurrent.futures as cfut
    with cfut.ThreadPoolExecutor(max_workers=max(1, min(4, len(todo)))) as ex:
        outs = list(ex.map(run_standin, todo))
    for s, out in zip(todo, outs):
        standins.append(out)
        if out['outcome'] == 'fail' and s.get('expected') == 'fail':
            kf = [k for k in known if k.get('property') == pid and k.get('standin') == s['name']]
            if kf:
                known_hits.append((kf[0], 'standin:' + s['name'], None))
            else:
                violations.append(('standin:' + s['name'], out))
        elif out['outcome'] == 'fail':
            violations.append(('standin:' + s['name'], out))
        elif s.get('expected') == 'fail' and out['outcome'] == 'pass':
            pass   # a known finding that no longer reproduces is not an alarm
        elif out['outcome'] in ('inconclusive', 'error'):
            if s.get('kind') == 'kani':
                # a bounded stand-in that ran out of time/memory (or no longer compiles against edited code) decides
                # nothing either way: it is reported, it never changes the verdict of the deductive part
                standin_notes.append('stand-in %s did not finish (%s): its bounded coverage is missing from this run' % (s['name'], str(out.get('detail', out['outcome']))[:200]))
            else:
                trouble.append('stand-in %s: %s' % (s['name'], out.get('detail', out['outcome'])))

    # failed obligations in functions that lost proof hints count only if the replay finds a failing input
    if weak_violations and not violations:
        import replay
        rp = replay.make(pid, cfg, weak_violations, results)
        if replay.found_input(rp):
            violations = weak_violations
            forced_replay = rp
        else:
            for u, fd in weak_violations:
                trouble.append('unit %s fn %s: %s - but proof hints sit next to code that was added, removed or re-flowed, or a new helper without a contract is called (their placement / the callee is '
                               'no longer certain) and the bounded replay found no failing input: undecided (see %s)' % (u, fd.fn, fd.message, rp))
    elif weak_violations:
        violations += weak_violations

    wall = time.time() - t0
    # obligations that fail as listed known findings are reported separately: `obligations` counts what this run
    # requires to be discharged
    known_obl = len([1 for h, u, fd in known_hits if fd is not None])
    obligations = obligations - known_obl
    discharged = obligations - (failed_obl - known_obl)
    rc = 0
    lines = []
    for hit, unit, fd in known_hits:
        if fd is None:
            lines.append('KNOWN-FINDING: property=%s %s (%s)' % (pid, hit.get('text', ''), unit))
        else:
            lines.append('KNOWN-FINDING: property=%s %s (obligation: %s in %s, unit %s)' % (pid, hit.get('text', ''), fd.message, fd.fn, unit))
    replay_path = None
    if violations:
        import replay
        replay_path = forced_replay or replay.make(pid, cfg, violations, results)
        tail = '' if replay.found_input(replay_path) else ' no-failing-input-found'
        lines.append('VIOLATION property=%s replay=%s%s' % (pid, replay_path, tail))
        rc = 1
    elif trouble:
        rc = 2

    ev = {
        'property_id': pid, 'tier': a.tier if a.tier in ('quick', 'thorough') else 'quick', 'seed': seed,
        'level': cfg.get('level', 'proof'),
        'coverage': {
            'obligations': obligations, 'discharged': max(discharged, 0),
            'checker_cmd': ' && '.join(sorted(set(verus_cmds))),
            'trusted_base': sorted(set(trusted + cfg.get('trusted_base', []) + scan_trusted(results))),
            'functions_under_contract': fn_rows,
            'obligation_rule': 'per verified function: 1 per ensures clause, 2 per loop-invariant clause, 1 per assert, 1 per decreases, '
                               '1 per requires clause of each contracted callee per call site, 1 implicit safety obligation '
                               '(overflow/bounds/unreachable); counted syntactically from the spliced file of this run',
            'samples': samples,
            'verus': {'units': [{'unit': r['tag'], 'verified': r['verified'], 'errors': r['errors'], 'cache': r['res'].get('cache'),
                                 'wall_s': round(r['res']['wall_s'], 2),
                                 'overlay_drift_lines': sum(i['drift'] for i in r['build'].items),
                                 'ghost_lines_disturbed': sum(i['disturbed'] for i in r['build'].items),
                                 'ghost_lines_next_to_structural_change': sum(i.get('structural', 0) for i in r['build'].items)} for r in results],
                      'smt_seconds_for_property_functions': round(smt_total, 2), 'backend': 'Verus %s / Z3' % vx._verus_version()},
            'vacuity': {'functions_checked_with_ensures_false': vac_checked, 'exempt_unsatisfiable_by_design': vac_exempt},
            'extraction': {'rewrites': sorted(set(rewrites_notes)), 'dropped': sorted(set(dropped))},
            'standins': standins,
            'clauses_not_decided': cfg.get('undecided', []),
            'clauses_decided': cfg.get('decided', []),
            'known_findings_hit': [h.get('text', '') for h, _, _ in known_hits],
            'obligations_failing_as_known_findings': known_obl,
            'tool_trouble': trouble,
            'standins_not_finished': standin_notes,
        },
        'assumptions': cfg.get('assumptions', []),
        'wall_s': round(wall, 2),
        'violations': len(violations),
    }
    evdir = os.environ.get('VERIF_EVIDENCE_DIR', os.path.join(ROOT, 'evidence'))
    os.makedirs(evdir, exist_ok=True)
    evp = os.path.join(evdir, pid + '.json')
    tmp = evp + '.%d.tmp' % os.getpid()
    json.dump(ev, open(tmp, 'w'), indent=1)
    os.replace(tmp, evp)

    print('property %s tier=%s: %d obligations, %d discharged, %d functions under contract, %.1fs' % (
        pid, a.tier, obligations, max(discharged, 0), len(fn_rows), wall))
    for t in trouble:
        print('UNDECIDED:', t)
    for t in standin_notes:
        print('NOTE:', t)
    for l in lines:
        print(l)
    if rc == 0:
        print('OK property=%s' % pid)
    return rc


def scan_trusted(results):
    """mechanical scan of the spliced files for everything that is assumed rather than proved"""
    out = []
    for r in results:
        for i, l in enumerate(r['build'].lines):
            s = l.strip()
            if s.startswith('//') and not s.startswith('/*@*/'):
                continue
            for pat in ('assume(', 'admit(', 'assume_specification', 'external_type_specification', 'external_fn_specification'):
                if pat in s:
                    out.append('%s: %s  [%s:%d]' % (pat.rstrip('('), re.sub(r'\s+', ' ', s)[:140], r['tag'], i + 1))
            if 'external_body' in s and 'verifier::' in s:
                nxt = ' '.join(x.strip() for x in r['build'].lines[i + 1:i + 4])
                nxt = re.sub(r'/\*@\*/\s*', '', nxt)
                mm = re.search(r'((?:pub(?:\([^)]*\))?\s+)?(?:broadcast\s+)?(?:proof\s+)?fn\s+\w+|struct\s+\w+)', nxt)
                if mm and 'proof' in mm.group(1):
                    out.append('axiom (external_body proof fn): %s' % re.sub(r'\s+', ' ', nxt)[:140])
                elif mm and 'fn ' in mm.group(1) and not any(
                        org and org[0] == 'repo' and re.search(r'\bfn\s+\w+', ll)
                        for ll, org in zip(r['build'].lines[i + 1:i + 4], r['build'].origin[i + 1:i + 4])):
                    # a ghost-line function (wrapper / stub of a dependency), not a function of /repo
                    out.append('assumed wrapper/stub (external_body, not /repo code): %s' % re.sub(r'\s+', ' ', nxt)[:140])
    return out


if __name__ == '__main__':
    try:
        rc = main(sys.argv[1:])
    except SystemExit:
        raise
    except BaseException as e:   # an internal error of the machinery is tool trouble (exit 2), never a verdict
        import traceback
        traceback.print_exc()
        print('UNDECIDED: internal error of the checking machinery: %r' % (e,))
        rc = 2
    sys.exit(rc)
