#!/bin/sh
# every claimed check in the thorough tier (evidence goes to a scratch dir so the committed quick-tier evidence stays)
cd "$(dirname "$0")/.."
export VERIF_EVIDENCE_DIR=${VERIF_EVIDENCE_DIR:-/var/tmp/verif-evidence-thorough}
rc=0
for id in $(python3 -c "import json;print(' '.join(c['property_id'] for c in json.load(open('MANIFEST.json'))['checks']))"); do
  s=$(date +%s); ./check $id --tier thorough > /tmp/check_thorough_$id.log 2>&1; r=$?
  echo "[$id rc=$r $(( $(date +%s) - s ))s] $(grep -E '^property|^NOTE' /tmp/check_thorough_$id.log | tr '\n' ' ' | cut -c1-300)"
  [ $r -ne 0 ] && rc=1
done
exit $rc
