#!/bin/sh
# every stored seed against every claimed check (from a snapshot via `vp run`); unchanged units hit the result cache
cd "$(dirname "$0")/.."
CHECKS="C01 C02 C03 C05 C07 C08 C09 C10 C11 C12 C13 C04 C17"
# warm the cache on the unchanged tree
for c in $CHECKS; do ./check $c > /dev/null 2>&1; done
for d in /verif/seeded/*/; do
  n=$(basename $d)
  python3 tools/seedtest.py /nonexistent 0 $n $CHECKS
done
