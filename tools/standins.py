#!/usr/bin/env python3
"""Bounded Kani stand-ins (and the complete loop-free Kani harnesses) for contracts the Verus
side ASSUMES (`external_body`) on the real `similar` code.

    run(spec: dict, tier: str) -> dict          # called by tools/check.py
    python3 tools/standins.py <name> [--tier quick|thorough] [--keep] [--list]

What run() does
---------------
1. copies the CURRENT working tree of the crate (env VERIF_REPO, default /repo; `target/` and
   `.git/` excluded) to a fresh scratch dir under $VERIF_SCRATCH (default /var/tmp) - never under
   /repo or /verif - and copies /repo's Cargo.lock along;
2. appends the harness module text /verif/kani/<file> to the module file that owns the target
   function in the copy (`inject`), because Kani reaches private functions only from inside their
   module (stand-alone projects, key `project`, are copied as they are instead);
3. runs ONE `cargo kani -j <jobs> --output-into-files --harness-timeout ...` for the harnesses of the
   tier, in its own session/process group, with RLIMIT_AS = mem_gb on every cbmc process (prlimit within
   1 s of its start; 4*mem_gb on the rest of the tree) and an overall wall timeout; the whole process group is killed afterwards; harnesses that
   were lost WITHOUT a verdict because the kani driver died under them (e.g. somebody's `pkill cbmc`)
   are re-run once inside the same wall budget (`"retried": true` in their row);
4. classifies every harness from its own result file (NOT from Kani's exit code):
     pass          `VERIFICATION:- SUCCESSFUL`
     fail          `VERIFICATION:- FAILED` AND at least one check with `Status: FAILURE` that is a
                   contract clause or a safety check of the real code (panic/overflow/bounds)
     undetermined  only unwinding assertions / unsupported constructs failed (bound too small)
     timeout       Kani's per-harness timeout ("CBMC timed out") or the overall timeout
     crashed       "CBMC failed" without a failed check (out of memory under the cap, solver abort)
     no-result     no result file (overall timeout hit first, or nothing was run)
   (Kani prints `VERIFICATION:- FAILED` for timeouts and crashes too - those are never "fail".)
5. if harnesses failed, re-runs the cheapest of them (Kani refuses --concrete-playback together
   with --jobs, and playback costs 2-4x the plain run) with `--concrete-playback print` to get concrete
   values (the `witness`); a time-boxed best effort, the verdict does not depend on it;
6. removes the scratch dir (with its target/) in a `finally` block.

Result
------
    {"name", "outcome": "pass"|"fail"|"inconclusive"|"error", "bound": str, "tier": str,
     "harnesses": [{"name", "result", "seconds", ["failed_checks"]}...], "detail": str,
     "wall_s": float, "witness": str|None, "peak_cbmc_rss_mb": int|None,
     "expected": "pass"|"fail", "as_expected": bool, "cmd": str}
  outcome "fail"          only if some harness is "fail" (see 4.)
  outcome "inconclusive"  no harness failed, but at least one did not finish / was undetermined
  outcome "error"         the copy did not compile (e.g. the target function was renamed, so the
                          harness no longer compiles), cargo/kani missing, bad spec ...
  An entry with `"expected": "fail"` (a registered KNOWN FINDING, e.g. ratio_unbounded = K2) is run
  and reported exactly the same way (outcome "fail" + witness); `as_expected` tells the caller.

Spec keys (contracts/properties.json `standins` entries; everything but name/kind/target has a
default taken from REGISTRY, looked up by `standin`, then `name`, then `target`)
---------------------------------------------------------------------------------
  name        free label, echoed in the result
  kind        "kani" (only kind handled here)
  target      function under contract (find_middle_snake, common_prefix_len, get_diff_ratio, ...)
  tier        "quick" | "thorough" | absent - the smallest tier in which check.py runs the entry
  standin     REGISTRY key to take defaults from (optional)
  file        harness file under /verif/kani/ that is appended to `inject`
  inject      path (relative to the crate root) of the module file that owns the target
  module      Rust path of the harness module (harness names are matched `--exact` as
              <module>::<harness>)
  project     instead of file/inject/module-in-crate: directory under /verif/kani/ holding a
              stand-alone cargo project (no copy of the crate is made)
  harnesses   {"quick": [names], "thorough": [names]}; a tier that is absent falls back to "quick"
  bound       {"quick": str, "thorough": str} human-readable statement of what the tier covers
  expected    "pass" (default) | "fail" (known finding: the harness is expected to fail today)
  jobs        parallel CBMC processes (default 6, hard cap 6)
  mem_gb      RLIMIT_AS per cbmc process in GiB (default 10); all other processes of the run get 4x that
  harness_timeout_s   {"quick": s, "thorough": s} per harness (Kani --harness-timeout)
  wall_timeout_s      {"quick": s, "thorough": s} for the whole cargo kani invocation
  witness_layout      how to read the concrete-playback values (order of the kani::any() calls)
  cargo_args  extra arguments for cargo kani (e.g. ["--features", "text"])
"""
import json
import os
import re
import resource
import shutil
import signal
import subprocess
import sys
import tempfile
import threading
import time

HERE = os.path.dirname(os.path.abspath(__file__))
VERIF = os.path.dirname(HERE)
KANI_DIR = os.path.join(VERIF, 'kani')
MAX_JOBS = 6


def _sizes(lo, hi):
    return [(n, m) for n in range(lo, hi + 1) for m in range(lo, hi + 1)]


_SNAKE_QUICK = ['snake_basic_%d_%d' % p for p in _sizes(1, 3)] + ['snake_bigv_2_2']
_SNAKE_THOROUGH = (['snake_full_%d_%d' % p for p in _sizes(1, 4)]
                   + ['snake_basic_5_5', 'snake_basic_2_5', 'snake_basic_5_2',
                      'snake_bigv_3_2', 'snake_stale_2_2', 'snake_stale_3_3'])

REGISTRY = {
    'snake': {
        'kind': 'kani', 'target': 'find_middle_snake',
        'file': 'snake.rs', 'inject': 'src/algorithms/myers.rs', 'module': 'algorithms::myers::verif_harness',
        'harnesses': {'quick': _SNAKE_QUICK, 'thorough': _SNAKE_THOROUGH},
        'bound': {
            'quick': 'find_middle_snake on the real code, one harness per concrete box size (n,m), all 1<=n,m<=3 (9 harnesses) plus 2x2 with '
                     'V made for a larger outer box (max_d(n+3,m+2)); '
                     'contents symbolic over a 3-symbol alphabet; box at offsets 1 (old) / 2 (new) inside slices of length n+2 / m+3 '
                     'with symbolic padding; vf, vb = V::new(max_d(n,m)); deadline None.  Clauses: (i) no panic/overflow/out-of-bounds, '
                     '(ii) Some((x,y)) inside the closed box, (iii) first and last pair differ => split is not a corner, '
                     '(iv) deadline None => Some, (vi) len/offset of vf, vb unchanged.  NOT covered: (v) optimal split and arbitrary stale '
                     'vf/vb contents (thorough tier), '
                     'expired-deadline clause (Instant cannot be built symbolically), boxes larger than 3x3, alphabets > 3.',
            'thorough': 'find_middle_snake on the real code, one harness per concrete box size: clauses (i)-(vi) incl. (v) '
                        'lcs(box) == lcs(left) + lcs(right) against an in-harness DP for all 1<=n,m<=4 (16 harnesses); clauses (i)-(iv),(vi) '
                        'for 5x5, 2x5, 5x2; V made for a larger outer box (max_d(n+3,m+2)) for 3x2; the same with arbitrary stale '
                        'cell contents in vf/vb for 2x2, 3x3.  Contents symbolic over 3 symbols, box at non-zero offsets, deadline None.  '
                        'NOT covered: expired-deadline clause, larger boxes, alphabets > 3.',
        },
        'harness_timeout_s': {'quick': 240, 'thorough': 1500},
        'wall_timeout_s': {'quick': 400, 'thorough': 5400},
        'witness_layout': 'kani::any() order: old[0..n+2) then new[0..m+3) (u8 symbols); the box is old[1..1+n) x new[2..2+m); '
                          'stale harnesses: then the cells of vf.v, then of vb.v',
    },
    'affix': {
        'kind': 'kani', 'target': 'common_prefix_len, common_suffix_len',
        'file': 'affix.rs', 'inject': 'src/algorithms/utils.rs', 'module': 'algorithms::utils::verif_harness_affix',
        'harnesses': {'quick': ['affix_prefix', 'affix_suffix']},
        'bound': {
            'quick': 'common_prefix_len / common_suffix_len on the real code: both lookups are &[u8] slices of symbolic length 0..=4 over a '
                     '3-symbol alphabet, both ranges symbolic with start <= end <= len (all sub-ranges incl. empty ones).  Clauses: no panic/'
                     'overflow/out-of-bounds; r == 0 || r fits into both ranges; the first/last r pairs are equal; maximality.  '
                     'NOT covered: slices longer than 4, start > end (callers guarantee start <= end), Index impls other than slices.',
        },
        'harness_timeout_s': {'quick': 200, 'thorough': 200},
        'wall_timeout_s': {'quick': 300, 'thorough': 300},
        'witness_layout': 'kani::any() order: old[0..4), old.len(), new[0..4), new.len(), old_range.start, old_range.end, new_range.start, new_range.end',
    },
    'ratio': {
        'kind': 'kani', 'target': 'get_diff_ratio',
        'file': 'ratio.rs', 'inject': 'src/common.rs', 'module': 'common::verif_harness_ratio',
        'harnesses': {'quick': ['ratio_range', 'ratio_one_iff']},
        'bound': {
            'quick': 'COMPLETE (not bounded) for the f32 expression of get_diff_ratio: all usize (matches, old_len, new_len) with matches <= '
                     'min(old_len, new_len) and old_len + new_len not overflowing: 0.0 <= r <= 1.0; and for old_len + new_len <= 2^24: '
                     'r == 1.0 <=> 2*matches == old_len + new_len.  The op slice is the 1-element array [Equal{len: matches}] (the sum over '
                     'longer slices is the Verus side); its iterator is unwound completely (unwind 3, unwinding assertion on).',
        },
        'harness_timeout_s': {'quick': 300, 'thorough': 300},
        'wall_timeout_s': {'quick': 400, 'thorough': 400},
        'witness_layout': 'kani::any() order: matches, old_len, new_len',
    },
    'ratio_unbounded': {
        'kind': 'kani', 'target': 'get_diff_ratio', 'expected': 'fail',
        'file': 'ratio.rs', 'inject': 'src/common.rs', 'module': 'common::verif_harness_ratio',
        'harnesses': {'quick': ['ratio_unbounded']},
        'bound': {
            'quick': 'COMPLETE for all usize (matches, old_len, new_len) with matches <= min(old_len, new_len), no overflow: '
                     'r == 1.0 <=> 2*matches == old_len + new_len WITHOUT the 2^24 bound.  Expected to FAIL on the current tree '
                     '(known finding K2: f32 rounding, e.g. matches = old_len = 2^24, new_len = 2^24+1 gives 1.0).',
        },
        'harness_timeout_s': {'quick': 300, 'thorough': 300},
        'wall_timeout_s': {'quick': 400, 'thorough': 400},
        'witness_layout': 'kani::any() order: matches, old_len, new_len',
    },
    'iterslices': {
        'kind': 'kani', 'target': 'iter_slices',
        'file': 'iterslices.rs', 'inject': 'src/types.rs', 'module': 'types::verif_harness_slices',
        'harnesses': {'quick': ['iter_slices_exact', 'iter_slices_reach']},
        'bound': {
            'quick': 'COMPLETE (not bounded) for DiffOp::iter_slices: the real generic function instantiated at an abstract recording '
                     'sequence (Index<Range<usize>> returns which side was indexed with which range); all four op kinds, ALL usize values of '
                     'old_index / new_index / old_len / new_len with index + len not overflowing; next() called three times (the function is '
                     'loop-free, no unwinding bound).  Clauses: Equal / Delete / Insert yield exactly one slice with their tag over exactly '
                     'their index range on the proper side, Replace yields its Delete slice then its Insert slice, nothing follows; no panic/'
                     'overflow.  NOT covered: Index<Range<usize>> impls that are not functions of (sequence, range).',
        },
        'harness_timeout_s': {'quick': 300, 'thorough': 300},
        'wall_timeout_s': {'quick': 400, 'thorough': 400},
        'witness_layout': 'kani::any() order: kind (0 Equal, 1 Delete, 2 Insert, 3 Replace), old_index, new_index, old_len, new_len',
    },
    'r1equiv': {
        'kind': 'kani', 'target': 'rewrite rule R1 (tools/rewrites.py)',
        'project': 'r1equiv', 'module': 'verif_harness_r1',
        'harnesses': {'quick': ['r1_same_k_sequence']},
        'bound': {
            'quick': 'stand-alone: for every d in 0..=64 the k sequence of `for k in (-d..=d).rev().step_by(2)` equals that of '
                     '`let mut k = d; while k >= -d { ..; k -= 2; }` (same length d+1, same elements, same order); complete for that '
                     'range (unwind 67, unwinding assertion on).  find_middle_snake only reaches d < max_d(n,m).',
        },
        'harness_timeout_s': {'quick': 300, 'thorough': 300},
        'wall_timeout_s': {'quick': 400, 'thorough': 400},
        'witness_layout': 'kani::any() order: d',
    },
}

# failed-check descriptions that say "the bound/tool was not enough", not "the contract is violated"
_UNDETERMINED_DESC = re.compile(r'unwinding assertion|not currently supported|is not supported|unsupported|'
                                r'recursion unwinding|Kani does not support', re.I)


def resolve(spec):
    """overlay `spec` on the registry entry it refers to"""
    base = None
    for key in (spec.get('standin'), spec.get('name')):
        if key and key in REGISTRY:
            base = REGISTRY[key]
            break
    if base is None and spec.get('target') and not (spec.get('file') or spec.get('project')):
        t = spec['target'].split('::')[-1]
        for k, v in REGISTRY.items():
            if t in [x.strip() for x in v['target'].split(',')] and v.get('expected', 'pass') == spec.get('expected', 'pass'):
                base = v
                break
    out = dict(base or {})
    out.update(spec)
    return out


def _pick(d, tier, default=None):
    if isinstance(d, dict):
        return d.get(tier, d.get('quick', default))
    return d if d is not None else default


def _copy_crate(repo, dst):
    def ignore(d, names):
        if os.path.abspath(d) == os.path.abspath(repo):
            return [n for n in names if n in ('target', '.git')]
        return []
    shutil.copytree(repo, dst, symlinks=True, ignore=ignore)


def _pgid_members(pgid):
    pids = []
    for p in os.listdir('/proc'):
        if not p.isdigit():
            continue
        try:
            with open('/proc/%s/stat' % p) as f:
                st = f.read()
            rest = st[st.rindex(')') + 2:].split()
            if int(rest[2]) == pgid:  # field 5 = pgrp
                pids.append((int(p), st[st.index('(') + 1:st.rindex(')')]))
        except (OSError, ValueError, IndexError):
            pass
    return pids


def _kill_group(pgid):
    for sig in (signal.SIGTERM, signal.SIGKILL):
        try:
            os.killpg(pgid, sig)
        except (ProcessLookupError, PermissionError):
            return
        for _ in range(20):
            if not _pgid_members(pgid):
                return
            time.sleep(0.1)


class _Runner:
    """one cargo kani invocation in its own session with wall timeout, memory caps and RSS sampling.

    Memory: every `cbmc` process gets RLIMIT_AS = mem_gb, set with prlimit(2) by the sampler thread within
    a second of its start (a cbmc needs many seconds before it holds gigabytes).  Everything else in the
    tree (kani-driver, kani-compiler, goto-*) only gets the outer cap 4*mem_gb at exec time: with the tight
    cap on the whole tree kani-driver itself aborts ("memory allocation of N bytes failed") when it runs six
    larger harnesses, which loses the harnesses in flight."""

    def __init__(self, cmd, cwd, mem_gb, wall_s):
        self.cmd, self.cwd, self.mem_gb, self.wall_s = cmd, cwd, mem_gb, wall_s
        self.peak_rss_kb = 0
        self.peak_other = (0, '')
        self.timed_out = False
        self.out = ''
        self.rc = None

    def _limits(self):
        os.setsid()
        lim = int(4 * self.mem_gb * (1 << 30))
        resource.setrlimit(resource.RLIMIT_AS, (lim, lim))

    def _sample(self, pgid, stop):
        capped = set()
        lim = int(self.mem_gb * (1 << 30))
        while not stop.wait(1.0):
            for pid, comm in _pgid_members(pgid):
                is_cbmc = (comm == 'cbmc')
                if is_cbmc and pid not in capped:
                    try:
                        resource.prlimit(pid, resource.RLIMIT_AS, (lim, lim))
                        capped.add(pid)
                    except (OSError, ValueError):
                        pass
                try:
                    with open('/proc/%d/status' % pid) as f:
                        for line in f:
                            if line.startswith('VmHWM:'):
                                kb = int(line.split()[1])
                                if is_cbmc:
                                    self.peak_rss_kb = max(self.peak_rss_kb, kb)
                                elif kb > self.peak_other[0]:
                                    self.peak_other = (kb, comm)
                                break
                except (OSError, ValueError):
                    pass

    def run(self):
        env = dict(os.environ)
        env['CARGO_NET_OFFLINE'] = 'true'
        env.setdefault('CARGO_TERM_COLOR', 'never')
        logf = tempfile.TemporaryFile(mode='w+')
        p = subprocess.Popen(self.cmd, cwd=self.cwd, env=env, stdin=subprocess.DEVNULL, stdout=logf,
                             stderr=subprocess.STDOUT, preexec_fn=self._limits)
        pgid = p.pid
        stop = threading.Event()
        t = threading.Thread(target=self._sample, args=(pgid, stop), daemon=True)
        t.start()
        try:
            try:
                p.wait(timeout=self.wall_s)
            except subprocess.TimeoutExpired:
                self.timed_out = True
        finally:
            stop.set()
            _kill_group(pgid)  # also reaps cbmc children that outlive cargo-kani
            try:
                p.wait(timeout=10)
            except subprocess.TimeoutExpired:
                pass
            t.join(timeout=3)
        self.rc = p.returncode
        logf.seek(0)
        self.out = logf.read()
        logf.close()
        return self


_CHECK_RE = re.compile(r'^Check \d+: (?P<id>[^\n]+?)[ \t]*\n\s*- Status: (?P<st>\w+)\s*\n\s*- Description: "(?P<desc>.*)"\s*\n\s*- Location: (?P<loc>.*)$', re.M)


def _parse_harness(text, timeout_s):
    """-> (result, seconds, failed_checks, note)"""
    if text is None:
        return 'no-result', None, [], 'no result file'
    secs = None
    m = re.search(r'Verification Time: ([0-9.]+)s', text)
    if m:
        secs = round(float(m.group(1)), 1)
    failed = [{'check': c.group('id'), 'description': c.group('desc').strip('"'), 'location': c.group('loc').strip()}
              for c in _CHECK_RE.finditer(text) if c.group('st') == 'FAILURE']
    if not failed:  # terse form
        for c in re.finditer(r'^Failed Checks: (.*)\n File: (.*)$', text, re.M):
            failed.append({'check': '', 'description': c.group(1).strip().strip('"'), 'location': c.group(2).strip()})
    if 'VERIFICATION:- SUCCESSFUL' in text:
        return 'pass', secs, [], ''
    if 'CBMC timed out' in text:
        return 'timeout', float(timeout_s), [], 'per-harness timeout of %ss' % timeout_s
    if 'VERIFICATION:- FAILED' in text:
        real = [f for f in failed if not _UNDETERMINED_DESC.search(f['description'])]
        if real:
            return 'fail', secs, real, ''
        if failed:
            return 'undetermined', secs, failed, 'only unwinding/unsupported-construct checks failed: ' + '; '.join(sorted(set(f['description'] for f in failed)))[:300]
        tail = ' '.join(text.strip().splitlines()[-4:])[:300]
        oom = re.search(r'out of memory|bad_alloc|Cannot allocate|memory|status 6\b|status 9\b|status 137|status 134', text, re.I)
        return 'crashed', secs, [], ('CBMC failed without a failed check (%s): %s' % ('abort/kill: most likely the per-cbmc memory cap' if oom else 'crash', tail))
    return 'no-result', secs, [], 'no verdict in the result file'


def _playback_values(out):
    """concrete-playback unit tests printed by Kani -> {harness: [values in kani::any() order]}"""
    res = {}
    for m in re.finditer(r'Concrete playback unit test for `([^`]+)`:\s*```(.*?)```', out, re.S):
        vals = re.findall(r'^\s*// (.+)$', m.group(2), re.M)
        chk = re.search(r'/// Check for `[^`]*`: "*([^"\n]*)', m.group(2))
        res.setdefault(m.group(1), []).append((chk.group(1).strip() if chk else '', [v.strip() for v in vals]))
    return res


def _fmt_val(v):
    m = re.match(r'^(-?\d+)(ul|l|u|)$', v)
    return m.group(1) if m else v


def run(spec, tier='quick'):
    t0 = time.time()
    tier = tier if tier in ('quick', 'thorough') else 'quick'
    s = resolve(spec)
    name = s.get('name', '?')
    res = {'name': name, 'outcome': 'error', 'bound': _pick(s.get('bound'), tier, ''), 'tier': tier, 'harnesses': [],
           'detail': '', 'wall_s': 0.0, 'witness': None, 'peak_cbmc_rss_mb': None,
           'expected': s.get('expected', 'pass'), 'as_expected': False, 'cmd': '', 'target': s.get('target')}
    scratch = None
    try:
        if s.get('kind', 'kani') != 'kani':
            res['detail'] = 'unsupported kind %r' % s.get('kind')
            return res
        harnesses = list(_pick(s.get('harnesses'), tier, []) or [])
        if not harnesses or not (s.get('project') or (s.get('file') and s.get('inject'))):
            res['detail'] = 'bad spec: no harnesses for tier %s, or neither project nor file+inject given (no registry entry matched)' % tier
            return res
        if shutil.which('cargo') is None:
            res['detail'] = 'cargo not found'
            return res
        repo = os.environ.get('VERIF_REPO', '/repo')
        base = os.environ.get('VERIF_SCRATCH', '/var/tmp')
        for forbidden in ('/repo', VERIF, os.path.abspath(repo)):
            if os.path.abspath(base) == forbidden or os.path.abspath(base).startswith(forbidden + os.sep):
                res['detail'] = 'scratch base %s must not be under %s' % (base, forbidden)
                return res
        os.makedirs(base, exist_ok=True)
        scratch = tempfile.mkdtemp(prefix='verif-standin-%s-' % re.sub(r'\W', '_', name), dir=base)
        work = os.path.join(scratch, 'crate')

        # 1./2. scratch copy + harness module
        if s.get('project'):
            shutil.copytree(os.path.join(KANI_DIR, s['project']), work,
                            ignore=lambda d, names: [n for n in names if n == 'target'])
        else:
            if not os.path.isdir(repo):
                res['detail'] = 'crate dir %s not found' % repo
                return res
            _copy_crate(repo, work)
            for lock in (os.path.join(repo, 'Cargo.lock'), '/repo/Cargo.lock'):
                if os.path.exists(lock) and not os.path.exists(os.path.join(work, 'Cargo.lock')):
                    shutil.copy(lock, os.path.join(work, 'Cargo.lock'))
            owner = os.path.join(work, s['inject'])
            if not os.path.exists(owner):
                res['outcome'] = 'error'
                res['detail'] = 'owning module file %s does not exist in %s (moved/renamed?)' % (s['inject'], repo)
                return res
            with open(os.path.join(KANI_DIR, s['file'])) as f:
                text = f.read()
            with open(owner) as f:
                own_lines = f.read().count('\n')
            with open(owner, 'a') as f:
                f.write('\n' + text)
            # a reported line L > own_lines of `inject` is line L - own_lines - 1 of kani/<file>
            res['line_map'] = '%s: lines 1..%d are the real file, line L beyond that is kani/%s line L-%d' % (
                s['inject'], own_lines, s['file'], own_lines + 1)

        # 3. one cargo kani run
        jobs = max(1, min(int(s.get('jobs', MAX_JOBS)), MAX_JOBS, len(harnesses)))
        mem_gb = float(s.get('mem_gb', 10))
        h_to = int(_pick(s.get('harness_timeout_s'), tier, 300))
        w_to = int(_pick(s.get('wall_timeout_s'), tier, 600))
        mod = s.get('module', '')
        full = [(mod + '::' + h) if mod else h for h in harnesses]
        outdir = os.path.join(work, 'result_output_dir')
        rows_by = {}
        started = set()
        peak = 0
        peak_other = (0, '')
        log = ''
        timed_out = False
        todo = list(zip(harnesses, full))
        deadline = time.time() + w_to
        # pass 0 = the run; pass 1 = ONE retry of harnesses that were lost without a verdict because the kani
        # driver (or their cbmc) died under them, e.g. killed from outside - not of timeouts/fails/crash verdicts
        for attempt in (0, 1):
            left = int(deadline - time.time())
            if not todo or left < 30:
                break
            cmd = ['cargo', 'kani', '-j', str(max(1, min(jobs, len(todo)))), '--output-format', 'terse', '-Z', 'unstable-options',
                   '--harness-timeout', '%ds' % h_to, '--output-into-files', '--exact']
            for _, fq in todo:
                cmd += ['--harness', fq]
            cmd += list(s.get('cargo_args', []))
            if attempt == 0:
                res['cmd'] = 'CARGO_NET_OFFLINE=true ' + ' '.join(cmd) + '   # RLIMIT_AS %g GiB per cbmc (%g GiB other processes), wall %ds' % (mem_gb, 4 * mem_gb, w_to)
            r = _Runner(cmd, work, mem_gb, left).run()
            peak = max(peak, r.peak_rss_kb)
            if r.peak_other[0] > peak_other[0]:
                peak_other = r.peak_other
            log += r.out + '\n'
            timed_out = r.timed_out
            started |= set(re.findall(r'Checking harness (\S+?)\.\.\.', r.out))
            lost = []
            for h, fq in todo:
                p = os.path.join(outdir, fq)
                text = None
                if os.path.exists(p):
                    with open(p, errors='replace') as f:
                        text = f.read()
                    os.remove(p)
                result, secs, failed, note = _parse_harness(text, h_to)
                if result == 'no-result':
                    if r.timed_out:
                        result, note = 'timeout', ('overall wall timeout of %ds hit %s' % (w_to, 'while it was running' if fq in started else 'before it was started'))
                    elif fq in started:
                        result, note = 'crashed', 'started but left no result file (kani driver ended early, rc=%s): %s' % (
                            r.rc, ' '.join(r.out.strip().splitlines()[-3:])[-300:])
                        lost.append((h, fq))
                    elif started:
                        note = 'never started (kani driver ended early, rc=%s)' % r.rc
                        lost.append((h, fq))
                row = {'name': h, 'result': result, 'seconds': secs}
                if failed:
                    row['failed_checks'] = failed
                if note:
                    row['note'] = note
                if attempt:
                    row['retried'] = True
                rows_by[h] = row
            todo = lost
        with open(os.path.join(scratch, 'kani.log'), 'w') as f:  # only survives with VERIF_KEEP_SCRATCH / --keep
            f.write(log)
        rows = [rows_by[h] for h in harnesses if h in rows_by]

        class _R:  # what the code below needs of the (last) run
            pass
        r = _R()
        r.out, r.timed_out, r.rc = log, timed_out, None
        res['harnesses'] = rows

        compiled = bool(started) or os.path.isdir(outdir)
        if not compiled and not r.timed_out:
            errs = [l for l in r.out.splitlines() if re.match(r'\s*error', l)]
            nomatch = re.search(r'no harnesses matched|No proof harnesses', r.out, re.I)
            res['outcome'] = 'error'
            if nomatch:
                res['detail'] = 'kani found none of the requested harnesses: ' + nomatch.group(0)
            elif errs:
                res['detail'] = ('the scratch copy with the harness module does not compile (function renamed / signature changed?): '
                                 + ' | '.join(errs[:6]))[:1500]
            else:
                res['detail'] = ('cargo kani ended (rc=%s) without running a harness: ' % r.rc + ' '.join(r.out.strip().splitlines()[-6:]))[:1500]
            return res

        fails = [x for x in rows if x['result'] == 'fail']
        open_ = [x for x in rows if x['result'] not in ('pass', 'fail')]

        # 5. witness for failed harnesses (best effort, time-boxed)
        if fails:
            lines = []
            for x in fails:
                for fc in x['failed_checks'][:8]:
                    lines.append('%s: FAILED "%s" at %s' % (x['name'], fc['description'], fc['location']))
            wit = None
            try:
                # --concrete-playback is incompatible with --jobs (and slow): the cheapest failed harness only
                cheapest = sorted(fails, key=lambda x: x['seconds'] if x['seconds'] is not None else 1e9)[:1]
                fq_fail = [(mod + '::' + x['name']) if mod else x['name'] for x in cheapest]
                cmd2 = ['cargo', 'kani', '--output-format', 'terse', '-Z', 'unstable-options',
                        '--harness-timeout', '%ds' % h_to, '-Z', 'concrete-playback', '--concrete-playback', 'print', '--exact']
                for h in fq_fail:
                    cmd2 += ['--harness', h]
                cmd2 += list(s.get('cargo_args', []))
                r2 = _Runner(cmd2, work, mem_gb, min(w_to, 2 * h_to + 60)).run()
                log += r2.out
                peak = max(peak, r2.peak_rss_kb)
                vals = _playback_values(r2.out)
                parts = []
                for h, tests in vals.items():
                    for chk, v in tests[:3]:
                        parts.append('%s (violates "%s"): [%s]' % (h.split('::')[-1], chk, ', '.join(_fmt_val(z) for z in v)))
                if parts:
                    wit = '; '.join(parts)
                    if s.get('witness_layout'):
                        wit += '   (' + s['witness_layout'] + ')'
            except Exception as e:  # the verdict does not depend on the witness
                lines.append('(concrete playback not available: %s)' % e)
            res['witness'] = wit or ('no concrete values available; failed checks: ' + ' | '.join(lines))[:2000]
            res['outcome'] = 'fail'
            res['detail'] = ' | '.join(lines)[:3000]
        elif open_:
            res['outcome'] = 'inconclusive'
            res['detail'] = '; '.join('%s: %s%s' % (x['name'], x['result'], (' (' + x['note'] + ')') if x.get('note') else '') for x in open_)[:3000]
        else:
            res['outcome'] = 'pass'
            res['detail'] = '%d/%d harnesses verified' % (len(rows), len(rows))
        if open_ and fails:
            res['detail'] += ' || not finished: ' + ', '.join('%s=%s' % (x['name'], x['result']) for x in open_)
        res['peak_cbmc_rss_mb'] = int(peak / 1024) if peak else None
        res['peak_other_rss_mb'] = [int(peak_other[0] / 1024), peak_other[1]] if peak_other[0] else None
        with open(os.path.join(scratch, 'kani.log'), 'w') as f:
            f.write(log)
        return res
    except Exception as e:  # never let a tool problem look like a verdict
        res['outcome'] = 'error'
        res['detail'] = 'standins.py: %s: %s' % (type(e).__name__, e)
        return res
    finally:
        if scratch and not os.environ.get('VERIF_KEEP_SCRATCH'):
            shutil.rmtree(scratch, ignore_errors=True)
        elif scratch:
            res['scratch'] = scratch
        res['wall_s'] = round(time.time() - t0, 1)
        exp = res['expected']
        res['as_expected'] = (res['outcome'] == exp)


def main(argv):
    import argparse
    ap = argparse.ArgumentParser(description='run one registered Kani stand-in and print the result dict as JSON')
    ap.add_argument('name', nargs='?')
    ap.add_argument('--tier', choices=['quick', 'thorough'], default='quick')
    ap.add_argument('--list', action='store_true', help='list the registry')
    ap.add_argument('--harness', action='append', help='run only these harnesses of the entry (debugging)')
    ap.add_argument('--keep', action='store_true', help='keep the scratch dir (debugging)')
    a = ap.parse_args(argv)
    if a.list or not a.name:
        for k, v in REGISTRY.items():
            print('%-16s target=%s expected=%s tiers=%s' % (k, v['target'], v.get('expected', 'pass'),
                                                            {t: len(h) for t, h in v['harnesses'].items()}))
        return 0
    if a.name not in REGISTRY:
        print(json.dumps({'name': a.name, 'outcome': 'error', 'detail': 'unknown stand-in; known: ' + ', '.join(REGISTRY)}))
        return 2
    spec = {'name': a.name, 'kind': 'kani', 'target': REGISTRY[a.name]['target']}
    if a.harness:
        spec['harnesses'] = {'quick': a.harness, 'thorough': a.harness}
    if a.keep:
        os.environ['VERIF_KEEP_SCRATCH'] = '1'
    out = run(spec, a.tier)
    print(json.dumps(out, indent=1))
    return {'pass': 0, 'fail': 1}.get(out['outcome'], 2)


if __name__ == '__main__':
    sys.exit(main(sys.argv[1:]))
