#!/bin/sh
# run every claimed check on the current tree and validate the evidence files (used before committing)
cd /verif
rc=0
for id in $(python3 -c "import json;print(' '.join(c['property_id'] for c in json.load(open('MANIFEST.json'))['checks']))"); do
  ./check $id --tier ${1:-quick} > /tmp/check_$id.log 2>&1; r=$?
  tail -3 /tmp/check_$id.log | sed "s/^/[$id rc=$r] /"
  [ $r -ne 0 ] && rc=1
  python3-vt -c "
import json,jsonschema,sys
e=json.load(open('evidence/$id.json'))
jsonschema.validate(e, json.load(open('/root/.vp/EVIDENCE.schema.json')))
c=e['coverage']
assert c['obligations']==c['discharged'] or e.get('violations',0)>0 or c.get('known_findings_hit'), (c['obligations'],c['discharged'])
" || { echo "[$id] EVIDENCE INVALID"; rc=1; }
done
python3-vt -c "
import json,jsonschema
jsonschema.validate(json.load(open('MANIFEST.json')), json.load(open('/root/.vp/MANIFEST.schema.json')))
print('manifest ok')"
exit $rc
