//! Replay harness: bounded exhaustive search, through the PUBLIC API of the real `similar` crate,
//! for a concrete input violating one property.  `replay <MODE>` prints
//!   `WITNESS <description>`        (exit 1) on the first violation, or
//!   `NONE <mode> cases=<n> ...`    (exit 0) when the whole bounded space was explored.
//! Every checker below is an executable twin of the property STATEMENT (properties.jsonl), written
//! from the statement and not from the crate's behaviour.  Every call into the crate runs under
//! `catch_unwind`; a panic inside the crate is itself a witness.
//!
//! Bounds (chosen so that each mode stays well under 60 s in release mode):
//!   C01  alphabet {0,1,2}, |old|,|new| <= 6, 3 algorithms; embedded arrays (offsets 2 / 3), guarded
//!        Index wrapper, extracted slices
//!   C07  alphabet {0,1,2}, |old|,|new| <= 6, deadline already expired at entry; work after expiry on 6 shapes
//!   C07clock  (crate built with --cfg similar_verif) time runs out at every deadline check k
//!   C08  alphabet {0,1,2}, |old|,|new| <= 4, 6 hook stacks, 2 hook kinds, every failure index k
//!   C02  alphabet {0,1,2}, |old|,|new| <= 5, deadline none/expired, slices + sub-ranges + TextDiff
//!   C03  alphabet {0,1,2} len <= 6 and alphabet {0,1} len <= 8, Myers + LCS
//!   C09  alphabet {0,1,2}, |old|,|new| <= 6, deadline none/expired
//!   C10  alphabet {0,1}, |old|,|new| <= 3, ALL valid input scripts with all carried indices
//!   C11  alphabet {0,1,2}, |old|,|new| <= 5, slices and embedded sub-ranges
//!   C12  alternating exact op lists, <= 8 ops, equal lens {1,2,3,5,8}, 6 change shapes, n in 0..=3
//!   C13  alphabet {0,1,2}, |old|,|new| <= 5 captured ops + synthetic ops + TextDiff (chars)
//!   C05  lines {a,b,c}, <= 4 lines, optional missing final newline, radius 0..=2
//!   C04 / C17  texts over {a,b,' ','\n'} of length <= 4, lines/words/chars tokenizers
use std::ops::{Index, Range};
use std::panic::{self, AssertUnwindSafe};
use std::sync::Mutex;
use std::time::{Duration, Instant};

use similar::algorithms::{diff_deadline, Capture, Compact, DiffHook, NoFinishHook, Replace};
use similar::utils::{self as sutils, TextDiffRemapper};
use similar::DiffableStr;
use similar::{
    capture_diff_deadline, capture_diff_slices_deadline, get_diff_ratio, group_diff_ops, Algorithm,
    Change, ChangeTag, DiffOp, TextDiff,
};

static C08_EXPIRED: std::sync::atomic::AtomicBool = std::sync::atomic::AtomicBool::new(false);
static THOROUGH: std::sync::atomic::AtomicBool = std::sync::atomic::AtomicBool::new(false);
/// enumeration bound: `q` in the quick tier, `q + 1` in the thorough tier (`replay <MODE> thorough`)
fn bd(q: usize) -> usize {
    if THOROUGH.load(std::sync::atomic::Ordering::Relaxed) { q + 1 } else { q }
}

const ALGS: [Algorithm; 3] = [Algorithm::Myers, Algorithm::Patience, Algorithm::Lcs];
const ERR_BASE: usize = 1000;

// ---------------------------------------------------------------------------------------------
// panic capture
// ---------------------------------------------------------------------------------------------
static LAST_PANIC: Mutex<Option<String>> = Mutex::new(None);

fn install_panic_hook() {
    panic::set_hook(Box::new(|info| {
        let msg = if let Some(s) = info.payload().downcast_ref::<&str>() {
            s.to_string()
        } else if let Some(s) = info.payload().downcast_ref::<String>() {
            s.clone()
        } else {
            "<non-string panic payload>".to_string()
        };
        let loc = info.location().map(|l| format!(" at {}:{}", l.file(), l.line())).unwrap_or_default();
        if let Ok(mut g) = LAST_PANIC.lock() {
            *g = Some(format!("{}{}", msg, loc));
        }
    }));
}

/// run `f` (a call into the crate); a panic becomes `Err(message)`
fn guard<T>(f: impl FnOnce() -> T) -> Result<T, String> {
    match panic::catch_unwind(AssertUnwindSafe(f)) {
        Ok(v) => Ok(v),
        Err(_) => {
            let m = LAST_PANIC.lock().ok().and_then(|mut g| g.take()).unwrap_or_else(|| "?".into());
            Err(format!("PANIC inside the crate: {}", m))
        }
    }
}

// ---------------------------------------------------------------------------------------------
// recording hooks
// ---------------------------------------------------------------------------------------------
#[derive(Clone, Copy, Debug, PartialEq, Eq)]
enum Call {
    Equal(usize, usize, usize),           // old_index, new_index, len
    Delete(usize, usize, usize),          // old_index, old_len, new_index
    Insert(usize, usize, usize),          // old_index, new_index, new_len
    Replace(usize, usize, usize, usize),  // old_index, old_len, new_index, new_len
    Finish,
}

/// Records every call; the call with index `fail_at` returns `Err(ERR_BASE + fail_at)`
/// (later calls, which must not happen, are still recorded and return Ok).
#[derive(Default)]
struct Rec {
    calls: Vec<Call>,
    fail_at: Option<usize>,
}

impl Rec {
    fn hit(&mut self, c: Call) -> Result<(), usize> {
        let k = self.calls.len();
        self.calls.push(c);
        if Some(k) == self.fail_at {
            Err(ERR_BASE + k)
        } else {
            Ok(())
        }
    }
}

impl DiffHook for Rec {
    type Error = usize;
    fn equal(&mut self, o: usize, n: usize, len: usize) -> Result<(), usize> {
        self.hit(Call::Equal(o, n, len))
    }
    fn delete(&mut self, o: usize, ol: usize, n: usize) -> Result<(), usize> {
        self.hit(Call::Delete(o, ol, n))
    }
    fn insert(&mut self, o: usize, n: usize, nl: usize) -> Result<(), usize> {
        self.hit(Call::Insert(o, n, nl))
    }
    fn replace(&mut self, o: usize, ol: usize, n: usize, nl: usize) -> Result<(), usize> {
        self.hit(Call::Replace(o, ol, n, nl))
    }
    fn finish(&mut self) -> Result<(), usize> {
        self.hit(Call::Finish)
    }
}

/// Same as `Rec` but does NOT override `replace` (uses the trait's default).
#[derive(Default)]
struct RecNoReplace(Rec);

impl DiffHook for RecNoReplace {
    type Error = usize;
    fn equal(&mut self, o: usize, n: usize, len: usize) -> Result<(), usize> {
        self.0.hit(Call::Equal(o, n, len))
    }
    fn delete(&mut self, o: usize, ol: usize, n: usize) -> Result<(), usize> {
        self.0.hit(Call::Delete(o, ol, n))
    }
    fn insert(&mut self, o: usize, n: usize, nl: usize) -> Result<(), usize> {
        self.0.hit(Call::Insert(o, n, nl))
    }
    fn finish(&mut self) -> Result<(), usize> {
        self.0.hit(Call::Finish)
    }
}

trait TestHook: DiffHook<Error = usize> + Sized {
    const NAME: &'static str;
    fn make(fail_at: Option<usize>) -> Self;
    fn into_calls(self) -> Vec<Call>;
}
impl TestHook for Rec {
    const NAME: &'static str = "hook overriding replace";
    fn make(fail_at: Option<usize>) -> Self {
        Rec { calls: vec![], fail_at }
    }
    fn into_calls(self) -> Vec<Call> {
        self.calls
    }
}
impl TestHook for RecNoReplace {
    const NAME: &'static str = "hook NOT overriding replace";
    fn make(fail_at: Option<usize>) -> Self {
        RecNoReplace(Rec { calls: vec![], fail_at })
    }
    fn into_calls(self) -> Vec<Call> {
        self.0.calls
    }
}

/// Index wrapper that panics when an element outside the requested range is read.
struct Guarded<'a> {
    data: &'a [u32],
    range: Range<usize>,
    side: &'static str,
}
impl<'a> Index<usize> for Guarded<'a> {
    type Output = u32;
    fn index(&self, i: usize) -> &u32 {
        if i < self.range.start || i >= self.range.end {
            panic!("{} sequence read at index {} outside the requested range {:?}", self.side, i, self.range);
        }
        &self.data[i]
    }
}

// ---------------------------------------------------------------------------------------------
// input enumeration helpers
// ---------------------------------------------------------------------------------------------
/// all sequences over {0..alpha-1} with length 0..=max_len, shortest first
fn seqs(alpha: u32, max_len: usize) -> Vec<Vec<u32>> {
    let mut all: Vec<Vec<u32>> = vec![vec![]];
    let mut layer: Vec<Vec<u32>> = vec![vec![]];
    for _ in 0..max_len {
        let mut next = Vec::new();
        for s in &layer {
            for a in 0..alpha {
                let mut t = s.clone();
                t.push(a);
                next.push(t);
            }
        }
        all.extend(next.iter().cloned());
        layer = next;
    }
    all
}

/// embeds `s` at a non-zero offset between sentinels.  The sentinel right before and right after the
/// range has the same value (9) on both sides, so an algorithm reading across the range border
/// would see "equal" items there and produce an observably wrong script.
fn embed_old(s: &[u32]) -> (Vec<u32>, Range<usize>) {
    let mut v = vec![5, 9];
    v.extend_from_slice(s);
    v.extend_from_slice(&[9, 6]);
    (v, 2..2 + s.len())
}
fn embed_new(s: &[u32]) -> (Vec<u32>, Range<usize>) {
    let mut v = vec![7, 8, 9];
    v.extend_from_slice(s);
    v.extend_from_slice(&[9, 4]);
    (v, 3..3 + s.len())
}

fn expired_deadline() -> Instant {
    let now = Instant::now();
    match now.checked_sub(Duration::from_secs(1)) {
        Some(t) => t,
        None => {
            std::thread::sleep(Duration::from_millis(2));
            now
        }
    }
}

fn op_call(op: &DiffOp) -> Call {
    match *op {
        DiffOp::Equal { old_index, new_index, len } => Call::Equal(old_index, new_index, len),
        DiffOp::Delete { old_index, old_len, new_index } => Call::Delete(old_index, old_len, new_index),
        DiffOp::Insert { old_index, new_index, new_len } => Call::Insert(old_index, new_index, new_len),
        DiffOp::Replace { old_index, old_len, new_index, new_len } => {
            Call::Replace(old_index, old_len, new_index, new_len)
        }
    }
}
fn ops_calls(ops: &[DiffOp]) -> Vec<Call> {
    ops.iter().map(op_call).collect()
}

// ---------------------------------------------------------------------------------------------
// the edit-script validity checker (C01 / C02 / C07 / C10 / C11 share it)
// ---------------------------------------------------------------------------------------------
#[derive(Clone, Copy, PartialEq)]
enum Carried {
    Ignore,    // C02: only own-side indices
    WithinRun, // C01: carried index inside the run of changes, exact when the op stands alone
    Exact,     // C11: carried index == cursor
}
#[derive(Clone, Copy, PartialEq)]
enum Fin {
    Ignore,
    OnceAndLast,
    Never,
}
#[derive(Clone, Copy)]
struct Rules {
    carried: Carried,
    finish: Fin,
    nonempty: bool,
}

fn check_script(
    calls: &[Call],
    old: &[u32],
    or: Range<usize>,
    new: &[u32],
    nr: Range<usize>,
    rules: Rules,
) -> Result<(), String> {
    let (mut oi, mut nj) = (or.start, nr.start);
    let (mut run_o, mut run_n) = (oi, nj);
    let mut run: Vec<(usize, bool, usize)> = Vec::new(); // (call idx, is_delete, carried index)
    let mut finishes = 0usize;
    let mut replay: Vec<u32> = Vec::new();

    fn close_run(run: &mut Vec<(usize, bool, usize)>, run_o: usize, run_n: usize, oi: usize, nj: usize) -> Result<(), String> {
        let alone = run.len() == 1;
        for &(k, is_del, idx) in run.iter() {
            let (lo, hi, what) = if is_del { (run_n, nj, "new_index carried by the delete") } else { (run_o, oi, "old_index carried by the insert") };
            if idx < lo || idx > hi {
                return Err(if alone {
                    format!("call #{}: {} is {} but the op stands alone and the current position is {} (clause: exactly the current position when it stands alone)", k, what, idx, lo)
                } else {
                    format!("call #{}: {} is {} but its run of changes spans {}..={} on that side (clause: carried position lies within the run of changes)", k, what, idx, lo, hi)
                });
            }
        }
        run.clear();
        Ok(())
    }

    for (k, c) in calls.iter().enumerate() {
        if finishes > 0 && rules.finish != Fin::Ignore {
            return Err(format!("call #{} {:?} arrives after finish (clause: no other call after finish)", k, c));
        }
        match *c {
            Call::Finish => {
                finishes += 1;
            }
            Call::Equal(o, n, len) => {
                if rules.carried == Carried::WithinRun {
                    close_run(&mut run, run_o, run_n, oi, nj)?;
                }
                if len == 0 && rules.nonempty {
                    return Err(format!("call #{}: empty Equal (clause: nothing empty)", k));
                }
                if o != oi || n != nj {
                    return Err(format!("call #{} {:?} does not start at the current position old={} new={} (clause: each call starts exactly where the previous one stopped)", k, c, oi, nj));
                }
                if o + len > or.end || n + len > nr.end {
                    return Err(format!("call #{} {:?} runs past the requested ranges {:?}/{:?}", k, c, or, nr));
                }
                for d in 0..len {
                    if old[o + d] != new[n + d] {
                        return Err(format!("call #{} {:?}: old[{}]={} != new[{}]={} (clause: equal segments are element-wise equal)", k, c, o + d, old[o + d], n + d, new[n + d]));
                    }
                    replay.push(old[o + d]);
                }
                oi += len;
                nj += len;
                run_o = oi;
                run_n = nj;
            }
            Call::Delete(o, ol, n) => {
                if ol == 0 && rules.nonempty {
                    return Err(format!("call #{}: empty Delete (clause: nothing empty)", k));
                }
                if o != oi {
                    return Err(format!("call #{} {:?} does not start at the current old position {} (clause: starts where the previous one stopped)", k, c, oi));
                }
                if o + ol > or.end {
                    return Err(format!("call #{} {:?} runs past the requested old range {:?}", k, c, or));
                }
                if rules.carried == Carried::Exact && n != nj {
                    return Err(format!("call #{} {:?}: carried new_index {} != number of new items consumed before it + range start = {}", k, c, n, nj));
                }
                run.push((k, true, n));
                oi += ol;
            }
            Call::Insert(o, n, nl) => {
                if nl == 0 && rules.nonempty {
                    return Err(format!("call #{}: empty Insert (clause: nothing empty)", k));
                }
                if n != nj {
                    return Err(format!("call #{} {:?} does not start at the current new position {} (clause: starts where the previous one stopped)", k, c, nj));
                }
                if n + nl > nr.end {
                    return Err(format!("call #{} {:?} runs past the requested new range {:?}", k, c, nr));
                }
                if rules.carried == Carried::Exact && o != oi {
                    return Err(format!("call #{} {:?}: carried old_index {} != number of old items consumed before it + range start = {}", k, c, o, oi));
                }
                run.push((k, false, o));
                replay.extend_from_slice(&new[n..n + nl]);
                nj += nl;
            }
            Call::Replace(o, ol, n, nl) => {
                if (ol == 0 || nl == 0) && rules.nonempty {
                    return Err(format!("call #{} {:?}: Replace with an empty side (clause: nothing empty)", k, c));
                }
                if o != oi || n != nj {
                    return Err(format!("call #{} {:?} does not start at the current position old={} new={}", k, c, oi, nj));
                }
                if o + ol > or.end || n + nl > nr.end {
                    return Err(format!("call #{} {:?} runs past the requested ranges {:?}/{:?}", k, c, or, nr));
                }
                run.push((k, true, n));
                run.push((k, false, o));
                replay.extend_from_slice(&new[n..n + nl]);
                oi += ol;
                nj += nl;
            }
        }
    }
    if rules.carried == Carried::WithinRun {
        close_run(&mut run, run_o, run_n, oi, nj)?;
    }
    if oi != or.end || nj != nr.end {
        return Err(format!("script stops at old={} new={} but the requested ranges end at {}/{} (clause: covers both ranges with nothing missing)", oi, nj, or.end, nr.end));
    }
    if replay[..] != new[nr.clone()] {
        return Err(format!("replaying the callbacks on the old range gives {:?}, not the new range {:?}", replay, &new[nr.clone()]));
    }
    match rules.finish {
        Fin::Ignore => {}
        Fin::OnceAndLast => {
            if finishes != 1 {
                return Err(format!("finish was called {} times (clause: exactly once)", finishes));
            }
        }
        Fin::Never => {
            if finishes != 0 {
                return Err(format!("finish reached the inner hook {} times (clause: the finish-suppressing wrapper forwards everything except finish)", finishes));
            }
        }
    }
    Ok(())
}

/// run one raw algorithm with a recording hook
fn run_raw<O, N>(
    alg: Algorithm,
    old: &O,
    or: Range<usize>,
    new: &N,
    nr: Range<usize>,
    deadline: Option<Instant>,
) -> Result<(Result<(), usize>, Vec<Call>), String>
where
    O: Index<usize, Output = u32> + ?Sized,
    N: Index<usize, Output = u32> + ?Sized,
{
    guard(|| {
        let mut h = Rec::default();
        let r = diff_deadline(alg, &mut h, old, or, new, nr, deadline);
        (r, h.calls)
    })
}

fn shift(calls: &[Call], so: usize, sn: usize) -> Vec<Call> {
    calls
        .iter()
        .map(|c| match *c {
            Call::Equal(o, n, l) => Call::Equal(o + so, n + sn, l),
            Call::Delete(o, l, n) => Call::Delete(o + so, l, n + sn),
            Call::Insert(o, n, l) => Call::Insert(o + so, n + sn, l),
            Call::Replace(o, ol, n, nl) => Call::Replace(o + so, ol, n + sn, nl),
            Call::Finish => Call::Finish,
        })
        .collect()
}

// ---------------------------------------------------------------------------------------------
// C01 / C07
// ---------------------------------------------------------------------------------------------
fn raw_modes(mode: &str, max_len: usize, expired: bool, cases: &mut u64) -> Option<String> {
    let all = seqs(3, max_len);
    let rules = Rules { carried: Carried::WithinRun, finish: if expired { Fin::OnceAndLast } else { Fin::Ignore }, nonempty: true };
    let dl_txt = if expired { "Some(now - 1s) [already expired]" } else { "None" };
    for o in &all {
        let (oa, or) = embed_old(o);
        for n in &all {
            let (na, nr) = embed_new(n);
            for &alg in &ALGS {
                *cases += 1;
                let deadline = if expired { Some(expired_deadline()) } else { None };
                let ctx = |what: &str| {
                    format!("{} alg={:?} old_array={:?} old_range={:?} new_array={:?} new_range={:?} deadline={} ({})", mode, alg, oa, or, na, nr, dl_txt, what)
                };
                // (a) embedded in larger arrays at offsets 2 / 3
                let (res, calls) = match run_raw(alg, &oa[..], or.clone(), &na[..], nr.clone(), deadline) {
                    Ok(x) => x,
                    Err(p) => return Some(format!("{}: {} (clause: no input makes the call panic)", ctx("plain slices, sub-range"), p)),
                };
                if let Err(e) = res {
                    return Some(format!("{}: diff returned Err({}) although the hook never fails; calls={:?}", ctx("sub-range"), e, calls));
                }
                if let Err(e) = check_script(&calls, &oa, or.clone(), &na, nr.clone(), rules) {
                    return Some(format!("{}: calls={:?}: {}", ctx("sub-range"), calls, e));
                }
                // (b) the same through an Index wrapper that refuses reads outside the ranges
                let go = Guarded { data: &oa, range: or.clone(), side: "old" };
                let gn = Guarded { data: &na, range: nr.clone(), side: "new" };
                match run_raw(alg, &go, or.clone(), &gn, nr.clone(), deadline) {
                    Err(p) => return Some(format!("{}: {} (clause: indices are positions inside the caller's ranges / no panic)", ctx("guarded Index wrapper"), p)),
                    Ok((_, gcalls)) => {
                        if let Err(e) = check_script(&gcalls, &oa, or.clone(), &na, nr.clone(), rules) {
                            return Some(format!("{}: calls={:?}: {}", ctx("guarded Index wrapper"), gcalls, e));
                        }
                    }
                }
                // (c) extracted slices, shifted by the range starts, must give the same callbacks
                match run_raw(alg, &o[..], 0..o.len(), &n[..], 0..n.len(), deadline) {
                    Err(p) => return Some(format!("{}: on the extracted slices {:?} / {:?}: {}", ctx("extracted slices"), o, n, p)),
                    Ok((_, scalls)) => {
                        if let Err(e) = check_script(&scalls, o, 0..o.len(), n, 0..n.len(), rules) {
                            return Some(format!("{} alg={:?} old={:?} new={:?} deadline={}: calls={:?}: {}", mode, alg, o, n, dl_txt, scalls, e));
                        }
                        let sh = shift(&scalls, or.start, nr.start);
                        if sh != calls {
                            return Some(format!("{}: sub-range calls={:?} but extracted slices shifted by the range starts give {:?} (clause: diffing a sub-range equals diffing the extracted slices shifted by the range starts)", ctx("sub-range vs slices"), calls, sh));
                        }
                    }
                }
                // C07 only: the capture pipeline with the expired deadline gives a valid op list (C02 sense)
                if expired {
                    *cases += 1;
                    let ops = match guard(|| capture_diff_deadline(alg, &oa[..], or.clone(), &na[..], nr.clone(), deadline)) {
                        Ok(x) => x,
                        Err(p) => return Some(format!("{}: capture_diff_deadline: {}", ctx("capture"), p)),
                    };
                    let lax = Rules { carried: Carried::Ignore, finish: Fin::Ignore, nonempty: false };
                    if let Err(e) = check_script(&ops_calls(&ops), &oa, or.clone(), &na, nr.clone(), lax) {
                        return Some(format!("{}: capture_diff_deadline ops={:?}: {}", ctx("capture"), ops, e));
                    }
                }
            }
        }
    }
    None
}

fn c01(cases: &mut u64) -> Option<String> {
    if let Some(w) = raw_modes("C01", bd(6), false, cases) {
        return Some(w);
    }
    // the same contract holds on the algorithms' give-up paths (deadline already expired)
    raw_modes("C01", bd(5), true, cases)
}

/// C07: only "expired before the start" can be scheduled through the public API (the algorithms
/// read the clock themselves; there is no injectable clock), so mid-run expiry is not covered here.
fn c07(cases: &mut u64) -> Option<String> {
    if let Some(w) = raw_modes("C07", bd(6), true, cases) {
        return Some(w);
    }
    if let Some(w) = c07_builder_plumbing(cases) {
        return Some(w);
    }
    c07_cost(cases)
}

/// "deadlines ... configured on the text-diff builder ... reach the algorithm": with an already expired deadline the
/// builder must return exactly what capture_diff_slices_deadline returns for the same token slices, below and above
/// the size (100 tokens per side) at which the builder switches to integer-mapped items.
fn c07_builder_plumbing(cases: &mut u64) -> Option<String> {
    // a timeout too large to be added to the clock never expires: same result as no deadline, no panic
    for dur in [Duration::MAX, Duration::from_secs(u64::MAX), Duration::from_secs(u64::MAX / 4)] {
        for alg in [Algorithm::Myers, Algorithm::Patience, Algorithm::Lcs] {
            *cases += 1;
            let (o, nw) = (["a", "b", "c", "d"], ["a", "x", "c", "y", "d"]);
            let with = guard(|| { let mut cfg = TextDiff::configure(); cfg.algorithm(alg).timeout(dur); cfg.diff_slices(&o, &nw).ops().to_vec() });
            let without = guard(|| { let mut cfg = TextDiff::configure(); cfg.algorithm(alg); cfg.diff_slices(&o, &nw).ops().to_vec() });
            match (with, without) {
                (Ok(a), Ok(b)) => if a != b { return Some(format!("C07 TextDiffConfig::timeout({:?}) alg={:?}: ops {:?} differ from the ops without a deadline {:?} (clause: a deadline that never expires gives exactly the result of no deadline)", dur, alg, a, b)); },
                (Err(e), _) | (_, Err(e)) => return Some(format!("C07 TextDiffConfig::timeout({:?}) alg={:?}: {}", dur, alg, e)),
            }
        }
    }
    for &n in &[6usize, 40, 150, 260] {
        for variant in 0..3usize {
            let old: Vec<String> = (0..n).map(|i| format!("t{}", (i * 7 + variant) % 23)).collect();
            let mut new: Vec<String> = old.clone();
            // a handful of scattered changes so that the expired-deadline fallback differs from a full diff
            for k in 0..(n / 5 + 1) {
                let at = (k * 5 + variant) % n;
                new[at] = format!("x{}", k);
            }
            if variant == 1 { new.insert(n / 2, "ins".to_string()); }
            if variant == 2 { new.remove(n / 3); }
            let o: Vec<&str> = old.iter().map(|x| x.as_str()).collect();
            let nw: Vec<&str> = new.iter().map(|x| x.as_str()).collect();
            for alg in [Algorithm::Myers, Algorithm::Patience, Algorithm::Lcs] {
                *cases += 1;
                let past = expired_deadline();
                let via_builder = guard(|| {
                    let mut cfg = TextDiff::configure();
                    cfg.algorithm(alg).deadline(past);
                    cfg.diff_slices(&o, &nw).ops().to_vec()
                });
                let direct = guard(|| similar::capture_diff_slices_deadline(alg, &o, &nw, Some(past)));
                match (via_builder, direct) {
                    (Ok(a), Ok(b)) => {
                        if a != b {
                            return Some(format!(
                                "C07 builder plumbing: alg={:?} tokens={} variant={}: TextDiffConfig::deadline(expired).diff_slices gives {} ops, capture_diff_slices_deadline(expired) gives {} ops (deadline not forwarded); first builder ops {:?}",
                                alg, n, variant, a.len(), b.len(), &a[..a.len().min(3)]
                            ));
                        }
                    }
                    (Err(e), _) | (_, Err(e)) => return Some(format!("C07 builder plumbing: alg={:?} tokens={}: panic {}", alg, n, e)),
                }
            }
        }
    }
    None
}


// ---------------------------------------------------------------------------------------------
// C07: work after expiry (counting items) and, with the cfg(similar_verif) virtual clock, expiry at
// every deadline check
// ---------------------------------------------------------------------------------------------
thread_local! {
    static CMP_ALL: std::cell::Cell<u64> = std::cell::Cell::new(0);
    static CMP_AFTER: std::cell::Cell<u64> = std::cell::Cell::new(0);
}

#[cfg(similar_verif)]
fn clock_expired() -> bool {
    similar::verif_clock::expired()
}
#[cfg(not(similar_verif))]
fn clock_expired() -> bool {
    false
}

/// an item that counts every `==` performed on it (and separately those after the virtual clock ran out)
#[derive(Debug, Clone, Copy, Eq)]
struct Tok(u32);
impl PartialEq for Tok {
    fn eq(&self, other: &Tok) -> bool {
        CMP_ALL.with(|c| c.set(c.get() + 1));
        if clock_expired() {
            CMP_AFTER.with(|c| c.set(c.get() + 1));
        }
        self.0 == other.0
    }
}
impl std::hash::Hash for Tok {
    fn hash<H: std::hash::Hasher>(&self, state: &mut H) {
        self.0.hash(state)
    }
}
impl PartialOrd for Tok {
    fn partial_cmp(&self, other: &Tok) -> Option<std::cmp::Ordering> {
        Some(self.cmp(other))
    }
}
impl Ord for Tok {
    fn cmp(&self, other: &Tok) -> std::cmp::Ordering {
        self.0.cmp(&other.0)
    }
}
fn toks(s: &[u32]) -> Vec<Tok> {
    s.iter().map(|&x| Tok(x)).collect()
}
fn reset_counts() {
    CMP_ALL.with(|c| c.set(0));
    CMP_AFTER.with(|c| c.set(0));
}
fn run_tok(alg: Algorithm, old: &[Tok], new: &[Tok], deadline: Option<Instant>) -> Result<(Result<(), usize>, Vec<Call>), String> {
    guard(|| {
        let mut h = Rec::default();
        let r = diff_deadline(alg, &mut h, old, 0..old.len(), new, 0..new.len(), deadline);
        (r, h.calls)
    })
}
/// "a small constant multiple of N+M": the statement gives no constant; 8 with slack 16 is far above what the
/// algorithms need to unwind (prefix/suffix scans of the pending boxes, one round of the search) and far below
/// a full diff of the shapes used here.
fn work_bound(n: usize, m: usize) -> u64 {
    (8 * (n + m) + 16) as u64
}

fn big_shapes(n: u32) -> Vec<(&'static str, Vec<u32>, Vec<u32>)> {
    vec![
        ("all different", (0..n).collect(), (1000..1000 + n).collect()),
        ("all different, one shared unique item at the end", (0..n).chain(Some(77_777)).collect(), (1000..1000 + n).chain(Some(77_777)).collect()),
        (
            "shared unique item, different block, shared unique item, different tail",
            Some(55_555).into_iter().chain(0..n).chain(Some(77_777)).chain(5000..5050).collect(),
            Some(55_555).into_iter().chain(1000..1000 + n).chain(Some(77_777)).chain(6000..6050).collect(),
        ),
        ("repeated items only", (0..n).map(|i| i % 7).collect(), (0..n).map(|i| (i * 3 + 1) % 5 + 10).collect()),
        ("period 7 against period 5, shared alphabet", (0..n).map(|i| i % 7).collect(), (0..n).map(|i| i % 5).collect()),
        (
            "unique anchors every 10 items, unrelated filler",
            (0..n).map(|i| if i % 10 == 0 { 90_000 + i } else { i % 3 }).collect(),
            (0..n).map(|i| if i % 10 == 0 { 90_000 + i } else { 20 + i % 4 }).collect(),
        ),
    ]
}

/// deadline expired before the start: every comparison happens after expiry
fn c07_cost(cases: &mut u64) -> Option<String> {
    let rules = Rules { carried: Carried::WithinRun, finish: Fin::OnceAndLast, nonempty: true };
    for &sz in &[40u32, 300] {
        for (name, o, n) in big_shapes(sz) {
            let (to, tn) = (toks(&o), toks(&n));
            for &alg in &ALGS {
                *cases += 1;
                reset_counts();
                let dl = Some(expired_deadline());
                let (res, calls) = match run_tok(alg, &to, &tn, dl) {
                    Ok(x) => x,
                    Err(p) => return Some(format!("C07 work after expiry: alg={:?} shape '{}' size {}: {}", alg, name, sz, p)),
                };
                let cmp = CMP_ALL.with(|c| c.get());
                if res.is_err() {
                    return Some(format!("C07 work after expiry: alg={:?} shape '{}' size {}: Err although the hook never fails", alg, name, sz));
                }
                if let Err(e) = check_script(&calls, &o, 0..o.len(), &n, 0..n.len(), rules) {
                    return Some(format!("C07 alg={:?} shape '{}' size {} deadline expired at entry: {}", alg, name, sz, e));
                }
                if cmp > work_bound(o.len(), n.len()) {
                    return Some(format!(
                        "C07 work after expiry: alg={:?} shape '{}' N={} M={} deadline already expired at entry: {} element comparisons > 8*(N+M)+16 = {}",
                        alg, name, o.len(), n.len(), cmp, work_bound(o.len(), n.len())
                    ));
                }
            }
        }
    }
    None
}

#[cfg(not(similar_verif))]
fn c07_clock(_cases: &mut u64, _exact: bool) -> Option<String> {
    eprintln!("mode C07clock needs the crate built with --cfg similar_verif (virtual clock hook)");
    std::process::exit(2);
}

/// with the virtual clock: time runs out at the k-th deadline check, for every k
#[cfg(similar_verif)]
fn c07_clock(cases: &mut u64, exact: bool) -> Option<String> {
    use similar::verif_clock as vc;
    let far = Instant::now() + Duration::from_secs(1_000_000);
    let rules = Rules { carried: Carried::WithinRun, finish: Fin::OnceAndLast, nonempty: true };
    // C11 (exact = true): the captured ops carry exact indices on both sides under every expiry schedule
    let lax = if exact { Rules { carried: Carried::Exact, finish: Fin::Ignore, nonempty: true } } else { Rules { carried: Carried::Ignore, finish: Fin::Ignore, nonempty: false } };
    let small = seqs(3, bd(5));
    let mut inputs: Vec<(String, Vec<u32>, Vec<u32>, bool)> = Vec::new();
    for o in &small {
        for n in &small {
            inputs.push((String::new(), o.clone(), n.clone(), true));
        }
    }
    for (name, o, n) in big_shapes(120) {
        inputs.push((name.to_string(), o, n, false));
    }
    for (name, o, n, every_k) in &inputs {
        let (to, tn) = (toks(o), toks(n));
        for &alg in &ALGS {
            let ctx = |k: &str| format!("C07 virtual clock: alg={:?} {} old={:?} new={:?} time runs out at deadline check {}", alg, name, &o[..o.len().min(12)], &n[..n.len().min(12)], k);
            // (1) a deadline that never expires gives exactly the result of no deadline
            vc::set_fuel(None);
            let base = match run_tok(alg, &to, &tn, None) { Ok(x) => x, Err(p) => { vc::set_fuel(None); return Some(format!("{}: {}", ctx("(no deadline)"), p)) } };
            vc::set_fuel(Some(u64::MAX));
            let never = run_tok(alg, &to, &tn, Some(far));
            let probes = vc::probes();
            vc::set_fuel(None);
            *cases += 1;
            match never {
                Err(p) => return Some(format!("{}: {}", ctx("never"), p)),
                Ok(x) => if x != base {
                    return Some(format!("{}: calls {:?} differ from the calls without a deadline {:?} (clause: a deadline that never expires gives exactly the result of no deadline)", ctx("never"), x.1, base.1));
                }
            }
            // (2) expiry at check k
            let ks: Vec<u64> = if *every_k { (0..probes).collect() } else {
                let mut v = vec![0, 1, 2, 3, probes / 4, probes / 2, probes.saturating_sub(2), probes.saturating_sub(1)];
                v.retain(|&k| k < probes); v.sort(); v.dedup(); v
            };
            for k in ks {
                *cases += 1;
                reset_counts();
                vc::set_fuel(Some(k));
                let r = run_tok(alg, &to, &tn, Some(far));
                let after = CMP_AFTER.with(|c| c.get());
                let did_expire = vc::expired();
                // the capture pipeline under the same schedule
                vc::set_fuel(Some(k));
                let cap = guard(|| capture_diff_deadline(alg, &to[..], 0..to.len(), &tn[..], 0..tn.len(), Some(far)));
                vc::set_fuel(None);
                let ks = format!("{} of {}", k, probes);
                let (res, calls) = match r { Ok(x) => x, Err(p) => return Some(format!("{}: {}", ctx(&ks), p)) };
                if res.is_err() {
                    return Some(format!("{}: Err although the hook never fails", ctx(&ks)));
                }
                if let Err(e) = check_script(&calls, o, 0..o.len(), n, 0..n.len(), rules) {
                    return Some(format!("{}: calls={:?}: {}", ctx(&ks), calls, e));
                }
                if did_expire && after > work_bound(o.len(), n.len()) {
                    return Some(format!("{}: {} element comparisons after expiry > 8*(N+M)+16 = {} (N={} M={})", ctx(&ks), after, work_bound(o.len(), n.len()), o.len(), n.len()));
                }
                // the same schedule with the hook wrapped in the Replace adapter (and in Compact+Replace): what the inner
                // hook receives must still be a valid script, finished once
                for stack in 0..2 {
                    vc::set_fuel(Some(k));
                    let rr = guard(|| {
                        if stack == 0 {
                            let mut d = Replace::new(Rec::default());
                            let r = diff_deadline(alg, &mut d, &to[..], 0..to.len(), &tn[..], 0..tn.len(), Some(far));
                            (r, d.into_inner().calls)
                        } else {
                            let mut d = Compact::new(Replace::new(Rec::default()), &to[..], &tn[..]);
                            let r = diff_deadline(alg, &mut d, &to[..], 0..to.len(), &tn[..], 0..tn.len(), Some(far));
                            (r, d.into_inner().into_inner().calls)
                        }
                    });
                    vc::set_fuel(None);
                    let sname = ["Replace(hook)", "Compact(Replace(hook))"][stack];
                    match rr {
                        Err(p) => return Some(format!("{} through {}: {}", ctx(&ks), sname, p)),
                        Ok((res, calls)) => {
                            if res.is_err() {
                                return Some(format!("{} through {}: Err although the hook never fails", ctx(&ks), sname));
                            }
                            let rl = Rules { carried: Carried::Ignore, finish: Fin::OnceAndLast, nonempty: true };
                            if let Err(e) = check_script(&calls, o, 0..o.len(), n, 0..n.len(), rl) {
                                return Some(format!("{} through {}: the inner hook saw {:?}: {}", ctx(&ks), sname, calls, e));
                            }
                        }
                    }
                }
                match cap {
                    Err(p) => return Some(format!("{}: capture_diff_deadline: {}", ctx(&ks), p)),
                    Ok(ops) => if let Err(e) = check_script(&ops_calls(&ops), o, 0..o.len(), n, 0..n.len(), lax) {
                        return Some(format!("{}: capture_diff_deadline ops={:?}: {}", ctx(&ks), ops, e));
                    }
                }
            }
        }
    }
    None
}


// ---------------------------------------------------------------------------------------------
// C06 tokenizers (str and, on the same bytes, [u8]): lossless partition + documented token shape
// ---------------------------------------------------------------------------------------------
fn c06_is_nl(c: char) -> bool {
    c == '\r' || c == '\n'
}
fn c06_partition(what: &str, input: &[u8], toks: &[&[u8]]) -> Result<(), String> {
    if toks.iter().any(|t| t.is_empty()) {
        return Err(format!("{}: empty token in {:?}", what, toks));
    }
    let cat: Vec<u8> = toks.iter().flat_map(|t| t.iter().copied()).collect();
    if cat != input {
        return Err(format!("{}: concatenation of the tokens {:?} is not the input", what, toks));
    }
    Ok(())
}
/// line tokens over bytes (valid for str and [u8] alike: CR and LF are single bytes in UTF-8)
fn c06_lines(what: &str, toks: &[&[u8]]) -> Result<(), String> {
    for (k, t) in toks.iter().enumerate() {
        let last = k + 1 == toks.len();
        let (body, term): (&[u8], &[u8]) = if t.ends_with(b"\r\n") {
            (&t[..t.len() - 2], &t[t.len() - 2..])
        } else if t.ends_with(b"\n") || t.ends_with(b"\r") {
            (&t[..t.len() - 1], &t[t.len() - 1..])
        } else {
            (&t[..], &t[t.len()..])
        };
        if body.iter().any(|&b| b == b'\r' || b == b'\n') {
            return Err(format!("{}: line token {:?} contains a line break before its terminator", what, t));
        }
        if term.is_empty() && !last {
            return Err(format!("{}: line token {:?} (not the last) lacks a terminator", what, t));
        }
        if term == b"\r" && !last && toks[k + 1].starts_with(b"\n") {
            return Err(format!("{}: CR LF split over two line tokens {:?} / {:?}", what, t, toks[k + 1]));
        }
    }
    Ok(())
}
fn c06_runs(what: &str, toks: &[&str], cls: &dyn Fn(char) -> bool) -> Result<(), String> {
    for (k, t) in toks.iter().enumerate() {
        let c0 = cls(t.chars().next().unwrap());
        if t.chars().any(|c| cls(c) != c0) {
            return Err(format!("{}: token {:?} mixes the two classes", what, t));
        }
        if k + 1 < toks.len() && cls(toks[k + 1].chars().next().unwrap()) == c0 {
            return Err(format!("{}: adjacent tokens {:?} / {:?} are of the same class (runs not maximal)", what, t, toks[k + 1]));
        }
    }
    Ok(())
}
fn c06_str(s: &str) -> Result<(), String> {
    let bytes = s.as_bytes();
    let as_b = |v: &Vec<&str>| -> Vec<Vec<u8>> { v.iter().map(|t| t.as_bytes().to_vec()) .collect() };
    let lines = s.tokenize_lines();
    let lnl = s.tokenize_lines_and_newlines();
    let words = s.tokenize_words();
    let chars = s.tokenize_chars();
    for (name, toks) in [("tokenize_lines", &lines), ("tokenize_lines_and_newlines", &lnl), ("tokenize_words", &words), ("tokenize_chars", &chars)] {
        let tb: Vec<&[u8]> = toks.iter().map(|t| t.as_bytes()).collect();
        c06_partition(&format!("str {:?} {}", s, name), bytes, &tb)?;
    }
    let tb: Vec<&[u8]> = lines.iter().map(|t| t.as_bytes()).collect();
    c06_lines(&format!("str {:?} tokenize_lines", s), &tb)?;
    c06_runs(&format!("str {:?} tokenize_words", s), &words, &|c: char| c.is_whitespace())?;
    c06_runs(&format!("str {:?} tokenize_lines_and_newlines", s), &lnl, &c06_is_nl)?;
    if let Some(t) = chars.iter().find(|t| t.chars().count() != 1) {
        return Err(format!("str {:?} tokenize_chars: token {:?} is not a single scalar value", s, t));
    }
    // the [u8] implementation on the same (valid UTF-8) bytes returns identical tokens
    let b: &[u8] = bytes;
    for (name, st, bt) in [
        ("tokenize_lines", as_b(&lines), b.tokenize_lines()),
        ("tokenize_lines_and_newlines", as_b(&lnl), b.tokenize_lines_and_newlines()),
        ("tokenize_words", as_b(&words), b.tokenize_words()),
        ("tokenize_chars", as_b(&chars), b.tokenize_chars()),
    ] {
        let bt: Vec<Vec<u8>> = bt.iter().map(|t| t.to_vec()).collect();
        if st != bt {
            return Err(format!("{} on {:?}: str tokens {:?} differ from [u8] tokens {:?} on the same valid UTF-8", name, s, st, bt));
        }
    }
    Ok(())
}
fn c06_bytes(b: &[u8]) -> Result<(), String> {
    let lines = b.tokenize_lines();
    for (name, toks) in [("tokenize_lines", &lines), ("tokenize_lines_and_newlines", &b.tokenize_lines_and_newlines()), ("tokenize_words", &b.tokenize_words()), ("tokenize_chars", &b.tokenize_chars())] {
        c06_partition(&format!("[u8] {:?} {}", b, name), b, toks)?;
    }
    c06_lines(&format!("[u8] {:?} tokenize_lines", b), &lines)?;
    for t in b.tokenize_chars() {
        match std::str::from_utf8(t) {
            Ok(x) => if x.chars().count() != 1 { return Err(format!("[u8] {:?} tokenize_chars: token {:?} holds more than one scalar value", b, t)); },
            Err(_) => if t.len() > 3 { return Err(format!("[u8] {:?} tokenize_chars: invalid-sequence token {:?} longer than 3 bytes", b, t)); },
        }
    }
    Ok(())
}
fn c06(cases: &mut u64) -> Option<String> {
    let alpha: [char; 15] = ['a', ' ', '\n', '\r', '\u{a0}', '\u{e9}', '\u{2028}', '\u{3000}', '\u{85}', '\u{301}', '\u{1f600}', '\u{b}', '\u{c}', '\t', '\0'];
    let mut layer: Vec<String> = vec![String::new()];
    for _len in 0..=bd(4) {
        for s in &layer {
            *cases += 1;
            match guard(|| c06_str(s)) {
                Ok(Ok(())) => {}
                Ok(Err(e)) => return Some(format!("C06 {}", e)),
                Err(p) => return Some(format!("C06 str {:?}: {}", s, p)),
            }
        }
        layer = layer.iter().flat_map(|s| alpha.iter().map(move |c| { let mut t = s.clone(); t.push(*c); t })).collect();
    }
    // a few longer texts: zero-width joiner / flag sequences, mixed terminators, missing final newline
    for s in ["a\u{200d}b \u{1f1e9}\u{1f1ea}\r\n\r\rx\n\ny", "\r\n\r\n", "one two\u{a0}three\u{3000}\u{2028}four\u{85}five\tsix", "e\u{301}\u{301} \u{0} \u{7f}\n"] {
        *cases += 1;
        if let Ok(Err(e)) | Err(e) = guard(|| c06_str(s)).map(|r| r) { return Some(format!("C06 {}", e)); }
    }
    let balpha: [u8; 13] = [b'a', b' ', b'\n', b'\r', 0xC3, 0xA9, 0xFF, 0xE2, 0x80, 0xA8, 0x00, 0x0B, 0x0C];
    let mut layer: Vec<Vec<u8>> = vec![vec![]];
    for _len in 0..=bd(4) {
        for b in &layer {
            *cases += 1;
            match guard(|| c06_bytes(b)) {
                Ok(Ok(())) => {}
                Ok(Err(e)) => return Some(format!("C06 {}", e)),
                Err(p) => return Some(format!("C06 [u8] {:?}: {}", b, p)),
            }
        }
        layer = layer.iter().flat_map(|s| balpha.iter().map(move |c| { let mut t = s.clone(); t.push(*c); t })).collect();
    }
    None
}


// ---------------------------------------------------------------------------------------------
// C05 byte-writer clause: "the byte writer emits every line's bytes unchanged - identical to Display for UTF-8
// input, while Display equals the lossy decoding of the writer's output otherwise"
// ---------------------------------------------------------------------------------------------
fn c05_bytes(cases: &mut u64) -> Option<String> {
    // lines over bytes: 'a', 'b', and an invalid UTF-8 byte; texts of 0..=3 lines, optionally unterminated
    let line_bodies: [&[u8]; 4] = [b"a", b"b", b"\xff", b"a\xfeb"];
    let mut texts: Vec<Vec<u8>> = vec![vec![]];
    let mut layer: Vec<Vec<u8>> = vec![vec![]];
    for _ in 0..bd(3) {
        let mut next = Vec::new();
        for t in &layer {
            for l in &line_bodies {
                let mut x = t.clone();
                x.extend_from_slice(l);
                x.push(b'\n');
                next.push(x);
            }
        }
        texts.extend(next.iter().cloned());
        layer = next;
    }
    let mut unterminated: Vec<Vec<u8>> = texts.iter().filter(|t| !t.is_empty()).map(|t| t[..t.len() - 1].to_vec()).collect();
    texts.append(&mut unterminated);
    for o in &texts {
        for n in &texts {
            for radius in [0usize, 3] {
                for header in [false, true] {
                    *cases += 1;
                    let r = guard(|| {
                        let d = TextDiff::from_lines(&o[..], &n[..]);
                        let mut u = d.unified_diff();
                        u.context_radius(radius);
                        if header { u.header("a", "b"); }
                        let mut out: Vec<u8> = Vec::new();
                        u.to_writer(&mut out).unwrap();
                        let shown = u.to_string();
                        // expected body lines: one per change of every hunk, tag byte + the token's bytes
                        let mut want: Vec<Vec<u8>> = Vec::new();
                        for h in u.iter_hunks() {
                            for ch in h.iter_changes() {
                                let mut l = vec![match ch.tag() { ChangeTag::Equal => b' ', ChangeTag::Delete => b'-', ChangeTag::Insert => b'+' }];
                                l.extend_from_slice(ch.value());
                                want.push(l);
                            }
                        }
                        (out, shown, want)
                    });
                    let ctx = format!("C05 byte writer: TextDiff::from_lines(old={:?}, new={:?}).unified_diff().context_radius({}){}", o, n, radius, if header { ".header(\"a\",\"b\")" } else { "" });
                    let (out, shown, want) = match r { Ok(x) => x, Err(p) => return Some(format!("{}: {}", ctx, p)) };
                    // every change line must appear in the writer's output with its bytes unchanged, in order
                    let mut pos = 0usize;
                    for l in &want {
                        match out[pos..].windows(l.len()).position(|w| w == &l[..]) {
                            Some(k) => pos += k + l.len(),
                            None => return Some(format!("{}: to_writer output {:?} does not contain the change line {:?} with its bytes unchanged (clause: the byte writer emits every line's bytes unchanged)", ctx, out, l)),
                        }
                    }
                    let valid = std::str::from_utf8(o).is_ok() && std::str::from_utf8(n).is_ok();
                    if valid && out != shown.as_bytes() {
                        return Some(format!("{}: to_writer output {:?} differs from Display {:?} on UTF-8 input", ctx, out, shown));
                    }
                    if !valid && shown != String::from_utf8_lossy(&out) {
                        return Some(format!("{}: Display {:?} is not the lossy decoding of the writer's output {:?}", ctx, shown, out));
                    }
                }
            }
        }
    }
    None
}

// ---------------------------------------------------------------------------------------------
// C11 on the ops a text diff stores (run with the K1 repair hook on): both indices of every op are exact
// ---------------------------------------------------------------------------------------------
fn c11_text(cases: &mut u64) -> Option<String> {
    let exact = Rules { carried: Carried::Exact, finish: Fin::Ignore, nonempty: true };
    let small = seqs(3, bd(4));
    let mut inputs: Vec<(String, Vec<u32>, Vec<u32>)> = Vec::new();
    for o in &small {
        for n in &small {
            inputs.push((String::new(), o.clone(), n.clone()));
        }
    }
    for (name, o, n) in large_token_shapes() {
        inputs.push((name.to_string(), o, n));
    }
    for (name, o, n) in &inputs {
        let (ot, nt) = (tokens_to_lines(o), tokens_to_lines(n));
        for &alg in &ALGS {
            *cases += 1;
            let r = guard(|| {
                let d = TextDiff::configure().algorithm(alg).diff_lines(&ot[..], &nt[..]);
                (d.ops().to_vec(), d.grouped_ops(1))
            });
            let ctx = format!("C11 alg={:?} TextDiff::diff_lines {} old tokens {:?}.. ({}), new tokens {:?}.. ({})", alg, name, &o[..o.len().min(8)], o.len(), &n[..n.len().min(8)], n.len());
            match r {
                Err(p) => return Some(format!("{}: {}", ctx, p)),
                Ok((ops, groups)) => {
                    if let Err(e) = check_script(&ops_calls(&ops), o, 0..o.len(), n, 0..n.len(), exact) {
                        return Some(format!("{}: ops {:?}: {} (clause: both indices of every op equal the items consumed by all preceding ops)", ctx, ops, e));
                    }
                    // consumers that compute hunk extents from the first and last op of a group
                    for g in &groups {
                        let (f, l) = (g.first().unwrap(), g.last().unwrap());
                        let (fo, fn_) = (f.old_range().start, f.new_range().start);
                        let (lo, ln) = (l.old_range().end, l.new_range().end);
                        let (so, sn): (usize, usize) = g.iter().fold((0, 0), |a, op| (a.0 + op.old_range().len(), a.1 + op.new_range().len()));
                        if lo - fo != so || ln - fn_ != sn {
                            return Some(format!("{}: group {:?}: extent from first/last op is old {}..{} new {}..{} but the group consumes {} old and {} new items (clause: hunk extents from the first and last op are true coordinates)", ctx, g, fo, lo, fn_, ln, so, sn));
                        }
                    }
                }
            }
        }
    }
    None
}

// ---------------------------------------------------------------------------------------------
// C08 hook protocol
// ---------------------------------------------------------------------------------------------
#[derive(Clone, Copy, Debug, PartialEq)]
enum Stack {
    Plain,          // &mut H handed to the algorithm
    MutRef,         // D = &mut H (the blanket impl for &mut D)
    Replace,        // Replace<H>
    Compact,        // Compact<H>
    CompactReplace, // Compact<Replace<H>>
    NoFinish,       // NoFinishHook<H>
}
const STACKS: [Stack; 6] = [Stack::Plain, Stack::MutRef, Stack::Replace, Stack::Compact, Stack::CompactReplace, Stack::NoFinish];

fn run_stack<H: TestHook>(
    stack: Stack,
    alg: Algorithm,
    old: &[u32],
    new: &[u32],
    fail_at: Option<usize>,
) -> Result<(Result<(), usize>, Vec<Call>), String> {
    guard(|| {
        let (or, nr) = (0..old.len(), 0..new.len());
        // second pass of mode C08: deadline already expired (the algorithms' give-up paths)
        let dl = if C08_EXPIRED.load(std::sync::atomic::Ordering::Relaxed) { Some(expired_deadline()) } else { None };
        match stack {
            Stack::Plain => {
                let mut h = H::make(fail_at);
                let r = diff_deadline(alg, &mut h, old, or, new, nr, dl);
                (r, h.into_calls())
            }
            Stack::MutRef => {
                let mut h = H::make(fail_at);
                let r = {
                    let mut m = &mut h;
                    diff_deadline(alg, &mut m, old, or, new, nr, None)
                };
                (r, h.into_calls())
            }
            Stack::Replace => {
                let mut d = Replace::new(H::make(fail_at));
                let r = diff_deadline(alg, &mut d, old, or, new, nr, dl);
                (r, d.into_inner().into_calls())
            }
            Stack::Compact => {
                let mut d = Compact::new(H::make(fail_at), old, new);
                let r = diff_deadline(alg, &mut d, old, or, new, nr, dl);
                (r, d.into_inner().into_calls())
            }
            Stack::CompactReplace => {
                let mut d = Compact::new(Replace::new(H::make(fail_at)), old, new);
                let r = diff_deadline(alg, &mut d, old, or, new, nr, dl);
                (r, d.into_inner().into_inner().into_calls())
            }
            Stack::NoFinish => {
                let mut d = NoFinishHook::new(H::make(fail_at));
                let r = diff_deadline(alg, &mut d, old, or, new, nr, dl);
                (r, d.into_inner().into_calls())
            }
        }
    })
}

/// expands Replace into Delete + Insert: what a hook that does not override replace must receive
fn expand_replace(calls: &[Call]) -> Vec<Call> {
    let mut out = Vec::new();
    for c in calls {
        match *c {
            Call::Replace(o, ol, n, nl) => {
                out.push(Call::Delete(o, ol, n));
                out.push(Call::Insert(o, n, nl));
            }
            other => out.push(other),
        }
    }
    out
}

fn c08_protocol<H: TestHook>(stack: Stack, alg: Algorithm, o: &[u32], n: &[u32], cases: &mut u64) -> Result<Vec<Call>, String> {
    let ctx = format!("C08 alg={:?} stack={:?} ({}) old={:?} new={:?} deadline={}", alg, stack, H::NAME, o, n, if C08_EXPIRED.load(std::sync::atomic::Ordering::Relaxed) { "Some(already expired)" } else { "None" });
    *cases += 1;
    let (res, calls) = run_stack::<H>(stack, alg, o, n, None).map_err(|p| format!("{}: {}", ctx, p))?;
    if let Err(e) = res {
        return Err(format!("{}: diff returned Err({}) although no hook call failed; calls={:?}", ctx, e, calls));
    }
    let fins = calls.iter().filter(|c| **c == Call::Finish).count();
    if stack == Stack::NoFinish {
        // everything except finish is forwarded: the inner hook still sees a complete valid script
        let rules = Rules { carried: Carried::WithinRun, finish: Fin::Never, nonempty: true };
        check_script(&calls, o, 0..o.len(), n, 0..n.len(), rules).map_err(|e| format!("{}: inner hook saw {:?}: {}", ctx, calls, e))?;
    } else if fins != 1 || calls.last() != Some(&Call::Finish) {
        return Err(format!("{}: calls={:?}: finish called {} times / not last (clause: finish exactly once and no other call after it)", ctx, calls, fins));
    }
    // every failure index k, unique error value per k
    for k in 0..calls.len() {
        *cases += 1;
        let (r, fc) = run_stack::<H>(stack, alg, o, n, Some(k)).map_err(|p| format!("{} failing call index k={}: {}", ctx, k, p))?;
        if fc.len() <= k {
            continue; // the failing call was never reached (cannot happen for a deterministic diff)
        }
        if r != Err(ERR_BASE + k) {
            return Err(format!("{}: hook call #{} ({:?}) returned Err({}) but the diff returned {:?} (clause: the diff returns precisely that error); calls={:?}", ctx, k, fc[k], ERR_BASE + k, r, fc));
        }
        if fc.len() != k + 1 {
            return Err(format!("{}: hook call #{} ({:?}) returned Err({}) but the hook was called again: later calls {:?} (clause: no further call to the hook after an error)", ctx, k, fc[k], ERR_BASE + k, &fc[k + 1..]));
        }
    }
    Ok(calls)
}

fn c08(cases: &mut u64) -> Option<String> {
    // direct forwarding checks of the wrappers (arguments chosen to be pairwise distinct)
    {
        let want = vec![Call::Equal(1, 2, 3), Call::Delete(4, 5, 6), Call::Insert(7, 8, 9), Call::Replace(10, 11, 12, 13)];
        let got = guard(|| {
            let mut w = NoFinishHook::new(Rec::default());
            let r = [w.equal(1, 2, 3), w.delete(4, 5, 6), w.insert(7, 8, 9), w.replace(10, 11, 12, 13), w.finish()];
            (r, w.into_inner().calls)
        });
        match got {
            Err(p) => return Some(format!("C08 NoFinishHook direct calls: {}", p)),
            Ok((r, calls)) => {
                if calls != want || r.iter().any(|x| x.is_err()) {
                    return Some(format!("C08 NoFinishHook(recording hook): after equal(1,2,3) delete(4,5,6) insert(7,8,9) replace(10,11,12,13) finish() the inner hook saw {:?}, results {:?}; expected {:?} and no finish (clause: forwards everything except finish)", calls, r, want));
                }
            }
        }
        // errors are forwarded unchanged
        for k in 0..4 {
            let got = guard(|| {
                let mut w = NoFinishHook::new(Rec { calls: vec![], fail_at: Some(k) });
                [w.equal(1, 2, 3), w.delete(4, 5, 6), w.insert(7, 8, 9), w.replace(10, 11, 12, 13)]
            });
            match got {
                Err(p) => return Some(format!("C08 NoFinishHook direct calls: {}", p)),
                Ok(r) => {
                    for (i, x) in r.iter().enumerate() {
                        let want = if i == k { Err(ERR_BASE + k) } else { Ok(()) };
                        if *x != want {
                            return Some(format!("C08 NoFinishHook: inner call #{} fails with {} but wrapper call #{} returned {:?}", k, ERR_BASE + k, i, x));
                        }
                    }
                }
            }
        }
        // default replace = delete then insert: directly, through &mut, through NoFinishHook, through apply_to_hook
        let want = vec![Call::Delete(10, 11, 12), Call::Insert(10, 12, 13)];
        let variants: Vec<(&str, Result<Vec<Call>, String>)> = vec![
            ("direct", guard(|| { let mut h = RecNoReplace::default(); let _ = h.replace(10, 11, 12, 13); h.0.calls })),
            ("&mut", guard(|| { let mut h = RecNoReplace::default(); { let mut m = &mut h; let _ = DiffHook::replace(&mut m, 10, 11, 12, 13); } h.0.calls })),
            ("NoFinishHook", guard(|| { let mut w = NoFinishHook::new(RecNoReplace::default()); let _ = w.replace(10, 11, 12, 13); w.into_inner().0.calls })),
            ("Replace adapter", guard(|| { let mut w = Replace::new(RecNoReplace::default()); let _ = w.replace(10, 11, 12, 13); w.into_inner().0.calls })),
            ("DiffOp::apply_to_hook", guard(|| { let mut h = RecNoReplace::default(); let _ = DiffOp::Replace { old_index: 10, old_len: 11, new_index: 12, new_len: 13 }.apply_to_hook(&mut h); h.0.calls })),
        ];
        for (name, v) in variants {
            match v {
                Err(p) => return Some(format!("C08 default replace via {}: {}", name, p)),
                Ok(calls) => {
                    if calls != want {
                        return Some(format!("C08 replace(10,11,12,13) via {} on a hook that does not override replace delivered {:?}, expected {:?} (clause: receives a delete followed by an insert)", name, calls, want));
                    }
                }
            }
        }
        // ... and a failing delete suppresses the insert
        let r = guard(|| { let mut h = RecNoReplace(Rec { calls: vec![], fail_at: Some(0) }); let r = h.replace(10, 11, 12, 13); (r, h.0.calls) });
        match r {
            Err(p) => return Some(format!("C08 default replace: {}", p)),
            Ok((r, calls)) => {
                if r != Err(ERR_BASE) || calls.len() != 1 {
                    return Some(format!("C08 default replace with failing delete: returned {:?}, calls {:?} (clause: returns that error, no further call)", r, calls));
                }
            }
        }
    }
    let all = seqs(3, bd(4));
    for expired in [false, true] {
    C08_EXPIRED.store(expired, std::sync::atomic::Ordering::Relaxed);
    for o in &all {
        for n in &all {
            for &alg in &ALGS {
                for &stack in &STACKS {
                    let with = match c08_protocol::<Rec>(stack, alg, o, n, cases) {
                        Ok(c) => c,
                        Err(w) => return Some(w),
                    };
                    let without = match c08_protocol::<RecNoReplace>(stack, alg, o, n, cases) {
                        Ok(c) => c,
                        Err(w) => return Some(w),
                    };
                    if expand_replace(&with) != without {
                        return Some(format!("C08 alg={:?} stack={:?} old={:?} new={:?} deadline {}: hook overriding replace saw {:?}; hook not overriding replace saw {:?}, expected every Replace as Delete followed by Insert", alg, stack, o, n, if expired { "expired" } else { "None" }, with, without));
                    }
                }
            }
        }
    }
    }
    C08_EXPIRED.store(false, std::sync::atomic::Ordering::Relaxed);
    None
}

// ---------------------------------------------------------------------------------------------
// C02 / C03 / C09 / C11: captured op lists
// ---------------------------------------------------------------------------------------------
fn to_text(s: &[u32]) -> String {
    s.iter().map(|&x| (b'a' + x as u8) as char).collect()
}

fn lcs_len(a: &[u32], b: &[u32]) -> usize {
    let mut t = vec![vec![0usize; b.len() + 1]; a.len() + 1];
    for i in 0..a.len() {
        for j in 0..b.len() {
            t[i + 1][j + 1] = if a[i] == b[j] { t[i][j] + 1 } else { t[i][j + 1].max(t[i + 1][j]) };
        }
    }
    t[a.len()][b.len()]
}

/// (equal, deleted, inserted) item counts
fn tally(calls: &[Call]) -> (usize, usize, usize) {
    let (mut e, mut d, mut i) = (0, 0, 0);
    for c in calls {
        match *c {
            Call::Equal(_, _, l) => e += l,
            Call::Delete(_, l, _) => d += l,
            Call::Insert(_, _, l) => i += l,
            Call::Replace(_, ol, _, nl) => {
                d += ol;
                i += nl;
            }
            Call::Finish => {}
        }
    }
    (e, d, i)
}

fn c02_one(ctx: &str, ops: &[DiffOp], old: &[u32], or: Range<usize>, new: &[u32], nr: Range<usize>) -> Result<(), String> {
    let lax = Rules { carried: Carried::Ignore, finish: Fin::Ignore, nonempty: false };
    check_script(&ops_calls(ops), old, or.clone(), new, nr.clone(), lax).map_err(|e| format!("{} ops={:?}: {}", ctx, ops, e))?;
    // inverted: old from new (independent walk)
    let mut back: Vec<u32> = Vec::new();
    for op in ops {
        match *op {
            DiffOp::Equal { new_index, len, .. } => back.extend_from_slice(&new[new_index..new_index + len]),
            DiffOp::Delete { old_index, old_len, .. } | DiffOp::Replace { old_index, old_len, .. } => back.extend_from_slice(&old[old_index..old_index + old_len]),
            DiffOp::Insert { .. } => {}
        }
    }
    if back[..] != old[or.clone()] {
        return Err(format!("{} ops={:?}: applying the inverted ops to new gives {:?}, not old", ctx, ops, back));
    }
    let same = old[or.clone()] == new[nr.clone()];
    if same {
        if ops.iter().any(|op| !matches!(op, DiffOp::Equal { .. })) {
            return Err(format!("{} ops={:?}: identical inputs but a non-Equal op (clause: identical inputs give only Equal ops)", ctx, ops));
        }
        if or.len() == 0 && !ops.is_empty() {
            return Err(format!("{} ops={:?}: two empty inputs but ops are not empty", ctx, ops));
        }
    }
    let ratio = guard(|| get_diff_ratio(ops, or.len(), nr.len())).map_err(|p| format!("{}: get_diff_ratio: {}", ctx, p))?;
    if !(ratio >= 0.0 && ratio <= 1.0) || (ratio == 1.0) != same {
        return Err(format!("{} ops={:?}: get_diff_ratio(ops,{},{}) = {} (clause: ratio in 0..=1 and 1.0 exactly when the inputs are equal; inputs equal: {})", ctx, ops, or.len(), nr.len(), ratio, same));
    }
    Ok(())
}

fn c02(cases: &mut u64) -> Option<String> {
    let all = seqs(3, bd(5));
    for o in &all {
        let (oa, or) = embed_old(o);
        let ot = to_text(o);
        for n in &all {
            let (na, nr) = embed_new(n);
            let nt = to_text(n);
            for &alg in &ALGS {
                for &expired in &[false, true] {
                    *cases += 1;
                    let dl = if expired { Some(expired_deadline()) } else { None };
                    let ctx = format!("C02 alg={:?} old={:?} new={:?} deadline={}", alg, o, n, if expired { "expired" } else { "None" });
                    let ops = match guard(|| capture_diff_slices_deadline(alg, &o[..], &n[..], dl)) {
                        Ok(x) => x,
                        Err(p) => return Some(format!("{} capture_diff_slices_deadline: {}", ctx, p)),
                    };
                    if let Err(e) = c02_one(&format!("{} capture_diff_slices_deadline", ctx), &ops, o, 0..o.len(), n, 0..n.len()) {
                        return Some(e);
                    }
                    let ops = match guard(|| capture_diff_deadline(alg, &oa[..], or.clone(), &na[..], nr.clone(), dl)) {
                        Ok(x) => x,
                        Err(p) => return Some(format!("{} capture_diff_deadline on {:?}[{:?}] / {:?}[{:?}]: {}", ctx, oa, or, na, nr, p)),
                    };
                    if let Err(e) = c02_one(&format!("{} capture_diff_deadline on {:?}[{:?}] / {:?}[{:?}]", ctx, oa, or, na, nr), &ops, &oa, or.clone(), &na, nr.clone()) {
                        return Some(e);
                    }
                    // ops stored in a text diff (char tokens 'a'+item)
                    let r = guard(|| {
                        let mut cfg = TextDiff::configure();
                        cfg.algorithm(alg);
                        if let Some(d) = dl {
                            cfg.deadline(d);
                        }
                        let d = cfg.diff_chars(&ot[..], &nt[..]);
                        (d.ops().to_vec(), d.ratio())
                    });
                    match r {
                        Err(p) => return Some(format!("{} TextDiff diff_chars({:?},{:?}): {}", ctx, ot, nt, p)),
                        Ok((ops, ratio)) => {
                            if let Err(e) = c02_one(&format!("{} TextDiff::diff_chars({:?},{:?}).ops()", ctx, ot, nt), &ops, o, 0..o.len(), n, 0..n.len()) {
                                return Some(e);
                            }
                            if !(ratio >= 0.0 && ratio <= 1.0) || (ratio == 1.0) != (o == n) {
                                return Some(format!("{} TextDiff::ratio() = {} for {:?} vs {:?}", ctx, ratio, ot, nt));
                            }
                        }
                    }
                }
            }
        }
    }
    // ops stored in a text diff ABOVE the size at which the builder maps items to integers (> 100 tokens per side):
    // derived inputs of 101..260 tokens (duplicates, a moved block, inserted / removed / changed tokens)
    for (name, o, n) in big_shapes(130).into_iter().chain(c02_large_shapes()) {
        let os: Vec<String> = o.iter().map(|x| format!("t{}", x)).collect();
        let ns: Vec<String> = n.iter().map(|x| format!("t{}", x)).collect();
        let ov: Vec<&str> = os.iter().map(|x| x.as_str()).collect();
        let nv: Vec<&str> = ns.iter().map(|x| x.as_str()).collect();
        for &alg in &ALGS {
            for &expired in &[false, true] {
                *cases += 1;
                let dl = if expired { Some(expired_deadline()) } else { None };
                let ctx = format!("C02 alg={:?} large text diff '{}' ({} / {} tokens) deadline={}", alg, name, o.len(), n.len(), if expired { "expired" } else { "None" });
                let r = guard(|| {
                    let mut cfg = TextDiff::configure();
                    cfg.algorithm(alg);
                    if let Some(d) = dl {
                        cfg.deadline(d);
                    }
                    let d = cfg.diff_slices(&ov, &nv);
                    (d.ops().to_vec(), d.ratio())
                });
                match r {
                    Err(p) => return Some(format!("{} TextDiffConfig::diff_slices: {}", ctx, p)),
                    Ok((ops, ratio)) => {
                        if let Err(e) = c02_one(&format!("{} TextDiffConfig::diff_slices(..).ops()", ctx), &ops, &o, 0..o.len(), &n, 0..n.len()) {
                            return Some(e);
                        }
                        if !(ratio >= 0.0 && ratio <= 1.0) || (ratio == 1.0) != (o == n) {
                            return Some(format!("{} ratio() = {}", ctx, ratio));
                        }
                    }
                }
            }
        }
    }
    // fewer than 65536 tokens per side but more than 65535 distinct tokens in total (the builder numbers the distinct
    // tokens of BOTH sides with one integer type; round-5 seeds C04-13 / C17-13)
    {
        let o: Vec<u32> = (0..65_000u32).collect();
        let n: Vec<u32> = (0..65_000u32).map(|i| if i < 600 { 100_000 + i } else { i }).collect();
        let os: Vec<String> = o.iter().map(|x| format!("t{}", x)).collect();
        let ns: Vec<String> = n.iter().map(|x| format!("t{}", x)).collect();
        let ov: Vec<&str> = os.iter().map(|x| x.as_str()).collect();
        let nv: Vec<&str> = ns.iter().map(|x| x.as_str()).collect();
        for &alg in &ALGS {
            *cases += 1;
            let ctx = format!("C02 alg={:?} text diff of 65000 distinct tokens with the first 600 rewritten", alg);
            let r = guard(|| {
                let mut cfg = TextDiff::configure();
                cfg.algorithm(alg);
                let d = cfg.diff_slices(&ov, &nv);
                d.ops().to_vec()
            });
            match r {
                Err(p) => return Some(format!("{} TextDiffConfig::diff_slices: {}", ctx, p)),
                Ok(ops) => {
                    if let Err(e) = c02_one(&format!("{} TextDiffConfig::diff_slices(..).ops()", ctx), &ops, &o, 0..o.len(), &n, 0..n.len()) {
                        return Some(e.chars().take(600).collect());
                    }
                }
            }
        }
    }
    None
}

fn c02_large_shapes() -> Vec<(&'static str, Vec<u32>, Vec<u32>)> {
    let base: Vec<u32> = (0..150u32).map(|i| (i * 7) % 23).collect();
    let mut edited = base.clone();
    edited[10] = 900;
    edited.insert(60, 901);
    edited.remove(120);
    let mut moved = base.clone();
    let block: Vec<u32> = moved.drain(20..40).collect();
    moved.splice(100..100, block);
    // runs of equal neighbours: a token equal to its neighbours is inserted / removed inside a run
    let runs: Vec<u32> = (0..140u32).map(|i| if i % 10 < 2 { 5 } else { (i * 7) % 23 }).collect();
    let mut run_longer = runs.clone();
    run_longer.insert(61, 5);
    let mut run_shorter = runs.clone();
    run_shorter.remove(61);
    let mut run_both = run_longer.clone();
    run_both.remove(20);
    run_both.insert(121, 5);
    vec![
        ("a run of equal tokens grows by one", runs.clone(), run_longer),
        ("a run of equal tokens shrinks by one", runs.clone(), run_shorter),
        ("one run shrinks, two runs grow", runs.clone(), run_both),
        ("identical", base.clone(), base.clone()),
        ("one change, one insert, one removal", base.clone(), edited),
        ("moved block", base.clone(), moved),
        ("large old, small new", base.clone(), vec![1, 2, 3]),
        ("small old, large new", vec![3, 2, 1], base.clone()),
        ("large old, empty new", base.clone(), vec![]),
    ]
}

fn c03(cases: &mut u64) -> Option<String> {
    let spaces = [seqs(3, bd(6)), seqs(2, bd(8))];
    for all in &spaces {
        for o in all {
            let (oa, or) = embed_old(o);
            for n in all {
                let (na, nr) = embed_new(n);
                let l = lcs_len(o, n);
                let want = o.len() + n.len() - 2 * l;
                for &alg in &[Algorithm::Myers, Algorithm::Lcs] {
                    *cases += 1;
                    let ctx = format!("C03 alg={:?} old={:?} new={:?} (embedded at {:?}/{:?}) LCS length L={}", alg, o, n, or, nr, l);
                    let calls = match run_raw(alg, &oa[..], or.clone(), &na[..], nr.clone(), None) {
                        Ok((_, c)) => c,
                        Err(p) => return Some(format!("{}: {}", ctx, p)),
                    };
                    let (_, d, i) = tally(&calls);
                    if d + i != want {
                        return Some(format!("{}: raw callbacks {:?} delete {} + insert {} = {} items, minimum is N+M-2L = {}", ctx, calls, d, i, d + i, want));
                    }
                    let ops = match guard(|| capture_diff_deadline(alg, &oa[..], or.clone(), &na[..], nr.clone(), None)) {
                        Ok(x) => x,
                        Err(p) => return Some(format!("{} capture: {}", ctx, p)),
                    };
                    let (e, d, i) = tally(&ops_calls(&ops));
                    if d + i != want || e != l {
                        return Some(format!("{}: captured ops {:?} delete {} + insert {} items (minimum {}), Equal total {} (L = {})", ctx, ops, d, i, want, e, l));
                    }
                    if o.len() + n.len() > 0 {
                        let ratio = get_diff_ratio(&ops, o.len(), n.len());
                        let exact = 2.0 * l as f64 / (o.len() + n.len()) as f64;
                        if (ratio as f64 - exact).abs() > 1e-6 {
                            return Some(format!("{}: ratio {} != 2L/(N+M) = {}", ctx, ratio, exact));
                        }
                    }
                }
            }
        }
    }
    // larger inputs (edit distances in the hundreds): minimality of the raw Myers / LCS streams and of the captured ops
    let big: Vec<(&str, Vec<u32>, Vec<u32>)> = vec![
        ("600 vs 600, every second item shared", (0..600u32).map(|i| if i % 2 == 0 { i } else { 10_000 + i }).collect(), (0..600u32).map(|i| if i % 2 == 0 { i } else { 20_000 + i }).collect()),
        ("700 vs 500, period 7 against period 5", (0..700u32).map(|i| i % 7).collect(), (0..500u32).map(|i| i % 5).collect()),
        ("400 unrelated vs 450 unrelated with a shared block of 50", (0..400u32).collect(), (1000..1200u32).chain(100..150).chain(2000..2200).collect()),
        ("900 items, 300 scattered single-item changes", (0..900u32).collect(), (0..900u32).map(|i| if i % 3 == 1 { 50_000 + i } else { i }).collect()),
    ];
    for (name, o, n) in &big {
        let l = lcs_len(o, n);
        let want = o.len() + n.len() - 2 * l;
        for &alg in &[Algorithm::Myers, Algorithm::Lcs] {
            *cases += 1;
            let ctx = format!("C03 alg={:?} '{}' N={} M={} LCS length L={}", alg, name, o.len(), n.len(), l);
            let calls = match run_raw(alg, &o[..], 0..o.len(), &n[..], 0..n.len(), None) {
                Ok((_, c)) => c,
                Err(p) => return Some(format!("{}: {}", ctx, p)),
            };
            let (_, d, i) = tally(&calls);
            if d + i != want {
                return Some(format!("{}: raw callbacks delete {} + insert {} = {} items, minimum is N+M-2L = {}", ctx, d, i, d + i, want));
            }
            let ops = match guard(|| capture_diff_deadline(alg, &o[..], 0..o.len(), &n[..], 0..n.len(), None)) {
                Ok(x) => x,
                Err(p) => return Some(format!("{} capture: {}", ctx, p)),
            };
            let (e, d, i) = tally(&ops_calls(&ops));
            if d + i != want || e != l {
                return Some(format!("{}: captured ops delete {} + insert {} items (minimum {}), Equal total {} (L = {})", ctx, d, i, want, e, l));
            }
        }
    }
    None
}

/// normal form of C09
fn check_normal_form(ops: &[DiffOp], new: &[u32]) -> Result<(), String> {
    let is_eq = |op: &DiffOp| matches!(op, DiffOp::Equal { .. });
    let mut nj_known: Option<usize> = None; // new cursor, walked (not trusting carried indices)
    for (k, op) in ops.iter().enumerate() {
        let empty = match *op {
            DiffOp::Equal { len, .. } => len == 0,
            DiffOp::Delete { old_len, .. } => old_len == 0,
            DiffOp::Insert { new_len, .. } => new_len == 0,
            DiffOp::Replace { old_len, new_len, .. } => old_len == 0 || new_len == 0,
        };
        if empty {
            return Err(format!("op #{} {:?} is empty (clause: no op is empty)", k, op));
        }
        if k + 1 < ops.len() {
            let nx = &ops[k + 1];
            if is_eq(op) == is_eq(nx) {
                return Err(format!("ops #{} {:?} and #{} {:?} do not alternate (clause: Equal and non-Equal ops strictly alternate; a deletion adjacent to an insertion is one Replace)", k, op, k + 1, nx));
            }
        }
        // walk the new side using own-side indices only
        let (nstart, nlen) = match *op {
            DiffOp::Equal { new_index, len, .. } => (Some(new_index), len),
            DiffOp::Insert { new_index, new_len, .. } | DiffOp::Replace { new_index, new_len, .. } => (Some(new_index), new_len),
            DiffOp::Delete { .. } => (None, 0),
        };
        let cur = nstart.or(nj_known);
        if let (DiffOp::Insert { new_len, .. }, Some(DiffOp::Equal { new_index: eq_new, .. })) = (op, ops.get(k + 1)) {
            if let Some(c) = cur {
                let _ = new_len;
                if c < new.len() && *eq_new < new.len() && new[c] == new[*eq_new] {
                    return Err(format!("op #{} {:?} is a pure insertion followed by {:?}; its first inserted item new[{}]={} equals the first equal item new[{}]={} so it could sit later (clause: a pure insertion followed by equal items sits at its latest position)", k, op, ops[k + 1], c, new[c], eq_new, new[*eq_new]));
                }
            }
        }
        nj_known = cur.map(|c| c + nlen);
    }
    Ok(())
}

/// token sequences for text diffs above the 100-token switch of the builder (as line texts)
fn large_token_shapes() -> Vec<(&'static str, Vec<u32>, Vec<u32>)> {
    let mut v: Vec<(&'static str, Vec<u32>, Vec<u32>)> = big_shapes(130).into_iter().chain(c02_large_shapes()).collect();
    // changes next to a long common head / tail: `.. a b <tail>` vs `.. b a b b <tail>`
    let head: Vec<u32> = (0..60u32).map(|i| 100 + i).collect();
    let tail: Vec<u32> = (0..60u32).map(|i| if i == 0 { 2 } else { 300 + i }).collect();
    let mk = |mid: &[u32]| -> Vec<u32> { head.iter().copied().chain(mid.iter().copied()).chain(tail.iter().copied()).collect() };
    v.push(("insertion in front of a long common tail that starts with the inserted item", mk(&[1, 2]), mk(&[2, 1, 2, 2])));
    v.push(("deletion in front of a long common tail", mk(&[1, 2, 2, 7]), mk(&[1, 7])));
    v.push(("different lengths with a long common suffix", mk(&[1, 2, 3, 4, 5]), mk(&[9])));
    v
}
fn tokens_to_lines(t: &[u32]) -> String {
    t.iter().map(|x| format!("w{}\n", x)).collect()
}

fn c09(cases: &mut u64) -> Option<String> {
    // "TextDiff::ops" is an observation point of C09 too: line diffs above the 100-token switch
    for (name, o, n) in large_token_shapes() {
        let (ot, nt) = (tokens_to_lines(&o), tokens_to_lines(&n));
        for &alg in &ALGS {
            *cases += 1;
            let ops = match guard(|| TextDiff::configure().algorithm(alg).diff_lines(&ot[..], &nt[..]).ops().to_vec()) {
                Ok(x) => x,
                Err(p) => return Some(format!("C09 alg={:?} large line diff '{}': {}", alg, name, p)),
            };
            if let Err(e) = check_normal_form(&ops, &n) {
                return Some(format!("C09 alg={:?} TextDiff::diff_lines '{}' ({} / {} lines) ops={:?}: {}", alg, name, o.len(), n.len(), ops, e));
            }
        }
    }
    let all = seqs(3, bd(6));
    for o in &all {
        for n in &all {
            for &alg in &ALGS {
                for &expired in &[false, true] {
                    *cases += 1;
                    let dl = if expired { Some(expired_deadline()) } else { None };
                    let ctx = format!("C09 alg={:?} old={:?} new={:?} deadline={} capture_diff_slices_deadline", alg, o, n, if expired { "expired" } else { "None" });
                    let ops = match guard(|| capture_diff_slices_deadline(alg, &o[..], &n[..], dl)) {
                        Ok(x) => x,
                        Err(p) => return Some(format!("{}: {}", ctx, p)),
                    };
                    if let Err(e) = check_normal_form(&ops, n) {
                        return Some(format!("{} ops={:?}: {}", ctx, ops, e));
                    }
                }
            }
        }
    }
    None
}

fn c11(cases: &mut u64) -> Option<String> {
    let all = seqs(3, bd(5));
    let exact = Rules { carried: Carried::Exact, finish: Fin::Ignore, nonempty: false };
    // what exactness of the captured ops rests on (and what does not pass through the compaction swap of known finding
    // K1): the RAW callback stream of every algorithm without a deadline, and of LCS also with an expired deadline,
    // carries exact indices on both sides
    for o in &all {
        let (oa, or) = embed_old(o);
        for n in &all {
            let (na, nr) = embed_new(n);
            for &alg in &ALGS {
                for expired in [false, true] {
                    if expired && alg != Algorithm::Lcs {
                        continue;
                    }
                    *cases += 1;
                    let dl = if expired { Some(expired_deadline()) } else { None };
                    match run_raw(alg, &oa[..], or.clone(), &na[..], nr.clone(), dl) {
                        Err(p) => return Some(format!("C11 raw alg={:?} old={:?}[{:?}] new={:?}[{:?}]: {}", alg, oa, or, na, nr, p)),
                        Ok((_, calls)) => if let Err(e) = check_script(&calls, &oa, or.clone(), &na, nr.clone(), exact) {
                            return Some(format!("C11 raw callbacks of alg={:?} deadline={} old={:?}[{:?}] new={:?}[{:?}]: {:?}: {} (the captured ops take their carried indices from these callbacks)", alg, if expired { "expired" } else { "None" }, oa, or, na, nr, calls, e));
                        },
                    }
                }
            }
        }
    }
    for o in &all {
        let (oa, or) = embed_old(o);
        for n in &all {
            let (na, nr) = embed_new(n);
            for &alg in &ALGS {
                *cases += 1;
                let ops = match guard(|| capture_diff_slices_deadline(alg, &o[..], &n[..], None)) {
                    Ok(x) => x,
                    Err(p) => return Some(format!("C11 alg={:?} old={:?} new={:?}: {}", alg, o, n, p)),
                };
                if let Err(e) = check_script(&ops_calls(&ops), o, 0..o.len(), n, 0..n.len(), exact) {
                    return Some(format!("C11 alg={:?} capture_diff_slices old={:?} new={:?} ops={:?}: {} (clause: both indices of every op equal the items consumed by all preceding ops plus the range start)", alg, o, n, ops, e));
                }
                let ops = match guard(|| capture_diff_deadline(alg, &oa[..], or.clone(), &na[..], nr.clone(), None)) {
                    Ok(x) => x,
                    Err(p) => return Some(format!("C11 alg={:?} old={:?}[{:?}] new={:?}[{:?}]: {}", alg, oa, or, na, nr, p)),
                };
                if let Err(e) = check_script(&ops_calls(&ops), &oa, or.clone(), &na, nr.clone(), exact) {
                    return Some(format!("C11 alg={:?} capture_diff old={:?}[{:?}] new={:?}[{:?}] ops={:?}: {}", alg, oa, or, na, nr, ops, e));
                }
            }
        }
    }
    None
}

// ---------------------------------------------------------------------------------------------
// C10: all valid scripts through Compact / Replace / both
// ---------------------------------------------------------------------------------------------
#[derive(Clone, Copy, Debug)]
enum Step {
    Eq(usize),
    Del(usize),
    Ins(usize),
}

/// all step structures of valid scripts from (i,j) to the ends (unit and multi-item steps, any order)
fn gen_structs(old: &[u32], new: &[u32], i: usize, j: usize, cur: &mut Vec<Step>, out: &mut Vec<Vec<Step>>) {
    if i == old.len() && j == new.len() {
        out.push(cur.clone());
        return;
    }
    let mut len = 1;
    while i + len <= old.len() && j + len <= new.len() && old[i + len - 1] == new[j + len - 1] {
        cur.push(Step::Eq(len));
        gen_structs(old, new, i + len, j + len, cur, out);
        cur.pop();
        len += 1;
    }
    for len in 1..=old.len() - i {
        cur.push(Step::Del(len));
        gen_structs(old, new, i + len, j, cur, out);
        cur.pop();
    }
    for len in 1..=new.len() - j {
        cur.push(Step::Ins(len));
        gen_structs(old, new, i, j + len, cur, out);
        cur.pop();
    }
}

/// calls with exact carried indices + for every Delete/Insert the inclusive interval its carried
/// index may take (the span of its run of changes on the other side)
fn concretize(steps: &[Step]) -> (Vec<Call>, Vec<(usize, usize)>) {
    let mut calls = Vec::new();
    let mut span: Vec<(usize, usize)> = Vec::new();
    let (mut i, mut j) = (0, 0);
    let mut run_start = 0; // index into calls
    let (mut ro, mut rn) = (0, 0);
    let close = |from: usize, to: usize, calls: &Vec<Call>, span: &mut Vec<(usize, usize)>, ro: usize, rn: usize, i: usize, j: usize| {
        for k in from..to {
            span[k] = match calls[k] {
                Call::Delete(..) => (rn, j),
                Call::Insert(..) => (ro, i),
                _ => (0, 0),
            };
        }
    };
    for s in steps {
        match *s {
            Step::Eq(l) => {
                close(run_start, calls.len(), &calls, &mut span, ro, rn, i, j);
                calls.push(Call::Equal(i, j, l));
                span.push((0, 0));
                i += l;
                j += l;
                run_start = calls.len();
                ro = i;
                rn = j;
            }
            Step::Del(l) => {
                calls.push(Call::Delete(i, l, j));
                span.push((0, 0));
                i += l;
            }
            Step::Ins(l) => {
                calls.push(Call::Insert(i, j, l));
                span.push((0, 0));
                j += l;
            }
        }
    }
    close(run_start, calls.len(), &calls, &mut span, ro, rn, i, j);
    (calls, span)
}

fn feed<D: DiffHook>(d: &mut D, script: &[Call]) -> Result<(), D::Error> {
    for c in script {
        match *c {
            Call::Equal(o, n, l) => d.equal(o, n, l)?,
            Call::Delete(o, l, n) => d.delete(o, l, n)?,
            Call::Insert(o, n, l) => d.insert(o, n, l)?,
            Call::Replace(o, ol, n, nl) => d.replace(o, ol, n, nl)?,
            Call::Finish => d.finish()?,
        }
    }
    d.finish()
}

fn c10_check(script: &[Call], old: &[u32], new: &[u32]) -> Result<(), String> {
    let (_, din, iin) = tally(script);
    let outs: [(&str, Result<Vec<DiffOp>, String>); 3] = [
        ("Compact(Capture)", guard(|| {
            let mut d = Compact::new(Capture::new(), old, new);
            feed(&mut d, script).unwrap();
            d.into_inner().into_ops()
        })),
        ("Replace(Capture)", guard(|| {
            let mut d = Replace::new(Capture::new());
            feed(&mut d, script).unwrap();
            d.into_inner().into_ops()
        })),
        ("Compact(Replace(Capture))", guard(|| {
            let mut d = Compact::new(Replace::new(Capture::new()), old, new);
            feed(&mut d, script).unwrap();
            d.into_inner().into_inner().into_ops()
        })),
    ];
    for (which, (name, res)) in outs.iter().enumerate() {
        let ctx = format!("C10 adapter={} old={:?} new={:?} input script={:?} then finish()", name, old, new, script);
        let ops = match res {
            Ok(o) => o,
            Err(p) => return Err(format!("{}: {}", ctx, p)),
        };
        // carried indices of the result are C11's business, except through Replace alone
        let rules = Rules { carried: if which == 1 { Carried::Exact } else { Carried::Ignore }, finish: Fin::Ignore, nonempty: true };
        check_script(&ops_calls(ops), old, 0..old.len(), new, 0..new.len(), rules)
            .map_err(|e| format!("{}: output {:?}: {} (clause: yields a valid edit script for the same sequences{})", ctx, ops, e, if which == 1 { "; through the replace adapter alone carried indices stay exact" } else { "" }))?;
        let (_, dout, iout) = tally(&ops_calls(ops));
        if dout != din || iout != iin {
            return Err(format!("{}: output {:?} deletes {} / inserts {} items, input deletes {} / inserts {} (clause: exactly the same number of deleted and of inserted items)", ctx, ops, dout, iout, din, iin));
        }
        if which == 2 {
            check_normal_form(ops, new).map_err(|e| format!("{}: output {:?}: {} (clause: through both adapters the result is in the normal form of C09)", ctx, ops, e))?;
        }
    }
    Ok(())
}

fn c10(cases: &mut u64) -> Option<String> {
    let all = seqs(2, 3);
    for o in &all {
        for n in &all {
            let mut structs = Vec::new();
            gen_structs(o, n, 0, 0, &mut Vec::new(), &mut structs);
            for st in &structs {
                let (base, span) = concretize(st);
                // odometer over every allowed carried index
                let movable: Vec<usize> = (0..base.len()).filter(|&k| span[k].1 > span[k].0).collect();
                let mut cur: Vec<usize> = movable.iter().map(|&k| span[k].0).collect();
                loop {
                    let mut script = base.clone();
                    for (m, &k) in movable.iter().enumerate() {
                        script[k] = match script[k] {
                            Call::Delete(oi, l, _) => Call::Delete(oi, l, cur[m]),
                            Call::Insert(_, nj, l) => Call::Insert(cur[m], nj, l),
                            c => c,
                        };
                    }
                    *cases += 1;
                    if let Err(w) = c10_check(&script, o, n) {
                        return Some(w);
                    }
                    let mut m = 0;
                    loop {
                        if m == movable.len() {
                            break;
                        }
                        if cur[m] < span[movable[m]].1 {
                            cur[m] += 1;
                            break;
                        }
                        cur[m] = span[movable[m]].0;
                        m += 1;
                    }
                    if m == movable.len() {
                        break;
                    }
                }
            }
        }
    }
    None
}

// ---------------------------------------------------------------------------------------------
// C12 grouping
// ---------------------------------------------------------------------------------------------
/// (old_start, old_end, new_start, new_end) from the op's fields (exact indices assumed)
fn extents(op: &DiffOp) -> (usize, usize, usize, usize) {
    match *op {
        DiffOp::Equal { old_index, new_index, len } => (old_index, old_index + len, new_index, new_index + len),
        DiffOp::Delete { old_index, old_len, new_index } => (old_index, old_index + old_len, new_index, new_index),
        DiffOp::Insert { old_index, new_index, new_len } => (old_index, old_index, new_index, new_index + new_len),
        DiffOp::Replace { old_index, old_len, new_index, new_len } => (old_index, old_index + old_len, new_index, new_index + new_len),
    }
}
fn eq_len(op: &DiffOp) -> Option<usize> {
    if let DiffOp::Equal { len, .. } = *op { Some(len) } else { None }
}

fn check_groups(ops: &[DiffOp], n: usize, groups: &[Vec<DiffOp>]) -> Result<(), String> {
    // the input's changes and the number of equal items before / after each
    let changes: Vec<usize> = (0..ops.len()).filter(|&k| eq_len(&ops[k]).is_none()).collect();
    let before = |ci: usize| -> usize { let mut s = 0; let mut k = changes[ci]; while k > 0 && eq_len(&ops[k - 1]).is_some() { s += eq_len(&ops[k - 1]).unwrap(); k -= 1; } s };
    let after = |ci: usize| -> usize { let mut s = 0; let mut k = changes[ci] + 1; while k < ops.len() && eq_len(&ops[k]).is_some() { s += eq_len(&ops[k]).unwrap(); k += 1; } s };
    if changes.is_empty() && !groups.is_empty() {
        return Err("the op list has no change but groups were returned (clause: no changes means no groups)".into());
    }
    let mut seen = 0usize; // number of input changes met so far
    let mut group_of: Vec<usize> = Vec::new();
    for (gi, g) in groups.iter().enumerate() {
        if g.iter().all(|op| eq_len(op).is_some()) {
            return Err(format!("group #{} {:?} consists of Equal ops only / is empty", gi, g));
        }
        for w in g.windows(2) {
            let (a, b) = (extents(&w[0]), extents(&w[1]));
            if a.1 != b.0 || a.3 != b.2 {
                return Err(format!("group #{}: {:?} is not directly followed by {:?} (clause: each group is a contiguous run of ops)", gi, w[0], w[1]));
            }
        }
        let first_change = seen;
        let mut lead = 0usize;
        let mut gap = 0usize; // equal items since the last change in this group
        let mut met_change = false;
        for op in g {
            if let Some(l) = eq_len(op) {
                if met_change { gap += l } else { lead += l }
                continue;
            }
            if seen >= changes.len() || *op != ops[changes[seen]] {
                return Err(format!("group #{}: change {:?} is not the next change of the input ({:?}) (clause: every non-Equal op exactly once, unchanged and in order)", gi, op, changes.get(seen).map(|&k| ops[k])));
            }
            if met_change {
                let whole = after(seen - 1);
                if gap != whole {
                    return Err(format!("group #{}: interior equal run before {:?} has {} items, the input has {} there (clause: keeps interior equal runs whole)", gi, op, gap, whole));
                }
                if gap > 2 * n {
                    return Err(format!("group #{}: interior equal run of {} items > 2n = {} (clause: interior runs are at most 2n long)", gi, gap, 2 * n));
                }
            }
            met_change = true;
            gap = 0;
            group_of.push(gi);
            seen += 1;
        }
        let trail = gap;
        let (want_lead, want_trail) = (n.min(before(first_change)), n.min(after(seen - 1)));
        if lead != want_lead {
            return Err(format!("group #{} {:?} starts with {} equal items of context, expected min(n={}, available={}) = {}", gi, g, lead, n, before(first_change), want_lead));
        }
        if trail != want_trail {
            return Err(format!("group #{} {:?} ends with {} equal items of context, expected min(n={}, available={}) = {}", gi, g, trail, n, after(seen - 1), want_trail));
        }
    }
    if seen != changes.len() {
        return Err(format!("only {} of the {} changes appear in the groups (clause: every non-Equal op exactly once)", seen, changes.len()));
    }
    for ci in 0..changes.len().saturating_sub(1) {
        let sep = after(ci);
        let split = group_of[ci] != group_of[ci + 1];
        if split != (sep > 2 * n) {
            return Err(format!("changes {:?} and {:?} are separated by {} equal items, 2n = {}, but they are in {} group(s) (clause: different groups exactly when more than 2n equal items separate them)", ops[changes[ci]], ops[changes[ci + 1]], sep, 2 * n, if split { "different" } else { "the same" }));
        }
    }
    Ok(())
}

fn c12_rec(ops: &mut Vec<DiffOp>, oi: usize, nj: usize, left: usize, cases: &mut u64) -> Option<String> {
    for n in 0..=3usize {
        *cases += 1;
        let groups = match guard(|| group_diff_ops(ops.clone(), n)) {
            Ok(g) => g,
            Err(p) => return Some(format!("C12 group_diff_ops(ops={:?}, n={}): {}", ops, n, p)),
        };
        if let Err(e) = check_groups(ops, n, &groups) {
            return Some(format!("C12 group_diff_ops(ops={:?}, n={}) = {:?}: {}", ops, n, groups, e));
        }
    }
    if left == 0 {
        return None;
    }
    let last_is_eq = ops.last().map(|op| eq_len(op).is_some());
    if last_is_eq != Some(true) {
        for &len in &[1usize, 2, 3, 5, 8] {
            ops.push(DiffOp::Equal { old_index: oi, new_index: nj, len });
            let r = c12_rec(ops, oi + len, nj + len, left - 1, cases);
            ops.pop();
            if r.is_some() {
                return r;
            }
        }
    }
    if last_is_eq != Some(false) {
        let shapes: [(usize, usize); 6] = [(1, 0), (3, 0), (0, 1), (0, 2), (1, 1), (2, 3)];
        for &(dl, il) in &shapes {
            let op = if il == 0 {
                DiffOp::Delete { old_index: oi, old_len: dl, new_index: nj }
            } else if dl == 0 {
                DiffOp::Insert { old_index: oi, new_index: nj, new_len: il }
            } else {
                DiffOp::Replace { old_index: oi, old_len: dl, new_index: nj, new_len: il }
            };
            ops.push(op);
            let r = c12_rec(ops, oi + dl, nj + il, left - 1, cases);
            ops.pop();
            if r.is_some() {
                return r;
            }
        }
    }
    None
}

fn c12(cases: &mut u64) -> Option<String> {
    // op lists starting at (0,0) and at unequal non-zero range starts (as sub-range diffs produce them)
    for (oi, nj, depth) in [(0usize, 0usize, 8usize), (3, 1, 6), (1, 4, 6)] {
        if let Some(w) = c12_rec(&mut Vec::new(), oi, nj, depth, cases) {
            return Some(w);
        }
    }
    c12_forwards(cases)
}

/// `TextDiff::grouped_ops(n)` and `Capture::into_grouped_ops(n)` are documented as `group_diff_ops` applied to the
/// stored / captured ops: they must return exactly that, for small diffs and for one very large, almost identical pair
/// (2^23 equal lines and one inserted line)
fn c12_forwards(cases: &mut u64) -> Option<String> {
    let small = seqs(3, bd(4));
    for o in &small {
        for nw in &small {
            for n in 0..=2usize {
                *cases += 1;
                let (ot, nt) = (to_text(o), to_text(nw));
                // a second call with another radius on the SAME TextDiff (state carried between calls)
                let again = guard(|| {
                    let d = TextDiff::from_chars(&ot[..], &nt[..]);
                    let first = d.grouped_ops(n);
                    let _ = d.unified_diff().context_radius(n + 1).to_string();
                    (first, d.grouped_ops(n + 2), group_diff_ops(d.ops().to_vec(), n + 2))
                });
                match again {
                    Err(p) => return Some(format!("C12 grouped_ops twice old={:?} new={:?} n={}: {}", o, nw, n, p)),
                    Ok((_, second, want)) => if second != want {
                        return Some(format!("C12 TextDiff::from_chars({:?},{:?}): after grouped_ops({}) the call grouped_ops({}) returns {:?}, group_diff_ops(ops, {}) = {:?}", ot, nt, n, n + 2, second, n + 2, want));
                    },
                }
                let r = guard(|| {
                    let d = TextDiff::from_chars(&ot[..], &nt[..]);
                    let mut c = Capture::new();
                    similar::algorithms::diff_slices(Algorithm::Myers, &mut c, &o[..], &nw[..]).unwrap();
                    let cap_ops = c.ops().to_vec();
                    (d.grouped_ops(n), group_diff_ops(d.ops().to_vec(), n), c.into_grouped_ops(n), group_diff_ops(cap_ops, n))
                });
                match r {
                    Err(p) => return Some(format!("C12 grouped_ops forwards old={:?} new={:?} n={}: {}", o, nw, n, p)),
                    Ok((a, b, c, d)) => {
                        if a != b {
                            return Some(format!("C12 TextDiff::from_chars({:?},{:?}).grouped_ops({}) = {:?} but group_diff_ops(ops, {}) = {:?}", ot, nt, n, a, n, b));
                        }
                        if c != d {
                            return Some(format!("C12 Capture::into_grouped_ops({}) = {:?} but group_diff_ops(ops, {}) = {:?} (old={:?} new={:?})", n, c, n, d, o, nw));
                        }
                    }
                }
            }
        }
    }
    // very large, almost identical texts (the similarity ratio of such a pair rounds to 1.0 in f32, known finding K2)
    *cases += 1;
    let r = guard(|| {
        let old = "x\n".repeat(1 << 23);
        let mut new = String::with_capacity(old.len() + 8);
        new.push_str(&old[..old.len() / 2]);
        new.push_str("y\n");
        new.push_str(&old[old.len() / 2..]);
        let d = TextDiff::from_lines(&old[..], &new[..]);
        (d.grouped_ops(3), group_diff_ops(d.ops().to_vec(), 3), d.ops().to_vec())
    });
    match r {
        Err(p) => Some(format!("C12 grouped_ops on 2^23 equal lines + 1 inserted line: {}", p)),
        Ok((a, b, ops)) => {
            if a != b {
                return Some(format!("C12 TextDiff::from_lines(2^23 lines \"x\", the same with one line \"y\" inserted in the middle).grouped_ops(3) = {:?} but group_diff_ops(ops, 3) = {:?}", a, b));
            }
            check_groups(&ops, 3, &a).err().map(|e| format!("C12 grouped_ops on 2^23 equal lines + 1 inserted line: groups {:?}: {}", a, e))
        }
    }
}

// ---------------------------------------------------------------------------------------------
// C13 expansion of ops
// ---------------------------------------------------------------------------------------------
type Flat = (ChangeTag, Option<usize>, Option<usize>, u32);

/// what item-wise expansion must yield, from the statement
fn expected_changes(op: &DiffOp, old: &[u32], new: &[u32]) -> Vec<Flat> {
    let mut v = Vec::new();
    match *op {
        DiffOp::Equal { old_index, new_index, len } => {
            for k in 0..len {
                v.push((ChangeTag::Equal, Some(old_index + k), Some(new_index + k), old[old_index + k]));
            }
        }
        DiffOp::Delete { old_index, old_len, .. } => {
            for k in 0..old_len {
                v.push((ChangeTag::Delete, Some(old_index + k), None, old[old_index + k]));
            }
        }
        DiffOp::Insert { new_index, new_len, .. } => {
            for k in 0..new_len {
                v.push((ChangeTag::Insert, None, Some(new_index + k), new[new_index + k]));
            }
        }
        DiffOp::Replace { old_index, old_len, new_index, new_len } => {
            for k in 0..old_len {
                v.push((ChangeTag::Delete, Some(old_index + k), None, old[old_index + k]));
            }
            for k in 0..new_len {
                v.push((ChangeTag::Insert, None, Some(new_index + k), new[new_index + k]));
            }
        }
    }
    v
}

fn c13_op(op: &DiffOp, old: &[u32], new: &[u32]) -> Result<(), String> {
    let ctx = format!("C13 op={:?} old={:?} new={:?}", op, old, new);
    let want = expected_changes(op, old, new);
    let got: Vec<Flat> = guard(|| op.iter_changes(old, new).map(|c: Change<u32>| (c.tag(), c.old_index(), c.new_index(), c.value())).collect())
        .map_err(|p| format!("{} iter_changes: {}", ctx, p))?;
    if got != want {
        return Err(format!("{}: iter_changes yields (tag, old_index, new_index, value) {:?}, expected {:?}", ctx, got, want));
    }
    // slice-wise: the same items as ONE slice (two for Replace: the deleted items, then the inserted items)
    let (_, orr, nrr) = op.as_tag_tuple();
    let want_slices: Vec<(ChangeTag, Vec<u32>)> = match op {
        DiffOp::Equal { .. } => vec![(ChangeTag::Equal, old[orr.clone()].to_vec())],
        DiffOp::Delete { .. } => vec![(ChangeTag::Delete, old[orr.clone()].to_vec())],
        DiffOp::Insert { .. } => vec![(ChangeTag::Insert, new[nrr.clone()].to_vec())],
        DiffOp::Replace { .. } => vec![(ChangeTag::Delete, old[orr.clone()].to_vec()), (ChangeTag::Insert, new[nrr.clone()].to_vec())],
    };
    {
        let flat: Vec<(ChangeTag, u32)> = want_slices.iter().flat_map(|(t, v)| v.iter().map(move |x| (*t, *x))).collect();
        let items: Vec<(ChangeTag, u32)> = want.iter().map(|f| (f.0, f.3)).collect();
        if flat != items {
            return Err(format!("{}: internal: slice twin {:?} and item twin {:?} disagree", ctx, flat, items));
        }
    }
    let got_slices: Vec<(ChangeTag, Vec<u32>)> = guard(|| op.iter_slices(old, new).map(|(t, s): (ChangeTag, &[u32])| (t, s.to_vec())).collect())
        .map_err(|p| format!("{} iter_slices: {}", ctx, p))?;
    if got_slices != want_slices {
        return Err(format!("{}: iter_slices yields {:?}, expected {:?}", ctx, got_slices, want_slices));
    }
    // re-applying the op to a capturing hook reproduces the op
    let back = guard(|| {
        let mut c = Capture::new();
        op.apply_to_hook(&mut c).unwrap();
        c.into_ops()
    })
    .map_err(|p| format!("{} apply_to_hook: {}", ctx, p))?;
    if back != vec![*op] {
        return Err(format!("{}: apply_to_hook on Capture gives {:?}", ctx, back));
    }
    let calls = guard(|| {
        let mut r = Rec::default();
        let _ = op.apply_to_hook(&mut r);
        r.calls
    })
    .map_err(|p| format!("{} apply_to_hook: {}", ctx, p))?;
    if calls != vec![op_call(op)] {
        return Err(format!("{}: apply_to_hook delivered {:?}", ctx, calls));
    }
    Ok(())
}

fn c13(cases: &mut u64) -> Option<String> {
    // synthetic single ops on sequences with pairwise different values (value source is observable)
    let (so, sn): (Vec<u32>, Vec<u32>) = ((10..15).collect(), (20..25).collect());
    for oi in 0..4 {
        for nj in 0..4 {
            for ol in 0..=2 {
                for nl in 0..=2 {
                    // lengths include 0 ("arbitrary in-bounds offsets and lengths")
                    let ops = [
                        DiffOp::Replace { old_index: oi, old_len: ol, new_index: nj, new_len: nl },
                        DiffOp::Delete { old_index: oi, old_len: ol, new_index: nj },
                        DiffOp::Insert { old_index: oi, new_index: nj, new_len: nl },
                        DiffOp::Equal { old_index: oi, new_index: nj, len: ol.min(nl) },
                    ];
                    for op in &ops {
                        *cases += 1;
                        if let Err(w) = c13_op(op, &so, &sn) {
                            return Some(w);
                        }
                    }
                }
            }
        }
    }
    // re-applying a SEQUENCE of ops to one capturing hook reproduces the sequence (adjacent ops of the same kind stay apart)
    for seq in [
        vec![DiffOp::Delete { old_index: 0, old_len: 1, new_index: 0 }, DiffOp::Delete { old_index: 1, old_len: 2, new_index: 0 }],
        vec![DiffOp::Insert { old_index: 0, new_index: 0, new_len: 1 }, DiffOp::Insert { old_index: 0, new_index: 1, new_len: 2 }],
        vec![DiffOp::Equal { old_index: 0, new_index: 0, len: 1 }, DiffOp::Equal { old_index: 1, new_index: 1, len: 1 }],
        vec![DiffOp::Delete { old_index: 0, old_len: 1, new_index: 0 }, DiffOp::Insert { old_index: 1, new_index: 0, new_len: 1 }, DiffOp::Delete { old_index: 1, old_len: 1, new_index: 1 }],
        vec![DiffOp::Replace { old_index: 0, old_len: 1, new_index: 0, new_len: 1 }, DiffOp::Replace { old_index: 1, old_len: 1, new_index: 1, new_len: 1 }],
    ] {
        *cases += 1;
        let back = guard(|| {
            let mut c = Capture::new();
            for op in &seq {
                op.apply_to_hook(&mut c).unwrap();
            }
            c.into_ops()
        });
        match back {
            Err(p) => return Some(format!("C13 apply_to_hook of the sequence {:?} on one Capture: {}", seq, p)),
            Ok(b) => if b != seq { return Some(format!("C13 applying the ops {:?} one after the other to one Capture gives {:?} (clause: re-applying an op to a capturing hook reproduces the op)", seq, b)); },
        }
    }
    let all = seqs(3, bd(5));
    for o in &all {
        let ot = to_text(o);
        for n in &all {
            let nt = to_text(n);
            for &alg in &ALGS {
                *cases += 1;
                let ops = match guard(|| capture_diff_slices_deadline(alg, &o[..], &n[..], None)) {
                    Ok(x) => x,
                    Err(p) => return Some(format!("C13 alg={:?} old={:?} new={:?}: {}", alg, o, n, p)),
                };
                // the whole captured list re-applied to one capturing hook reproduces the list
                match guard(|| { let mut c = Capture::new(); for op in &ops { op.apply_to_hook(&mut c).unwrap(); } c.into_ops() }) {
                    Err(p) => return Some(format!("C13 alg={:?} old={:?} new={:?}: re-applying {:?}: {}", alg, o, n, ops, p)),
                    Ok(b) => if b != ops { return Some(format!("C13 alg={:?} old={:?} new={:?}: re-applying the captured ops {:?} to a Capture gives {:?}", alg, o, n, ops, b)); },
                }
                for op in &ops {
                    if let Err(w) = c13_op(op, o, n) {
                        return Some(format!("{} (op list {:?} from alg {:?})", w, ops, alg));
                    }
                }
                // whole-diff iteration == concatenation of the per-op expansions
                let r = guard(|| {
                    let d = TextDiff::configure().algorithm(alg).diff_chars(&ot[..], &nt[..]);
                    let all_changes: Vec<Change<&str>> = d.iter_all_changes().collect();
                    let per_op: Vec<Change<&str>> = d.ops().iter().flat_map(|op| d.iter_changes(op)).collect();
                    let per_op2: Vec<Change<&str>> = d.ops().iter().flat_map(|op| op.iter_changes(d.old_slices(), d.new_slices())).collect();
                    let ops = d.ops().to_vec();
                    let olds: Vec<String> = d.old_slices().iter().map(|s| s.to_string()).collect();
                    let news: Vec<String> = d.new_slices().iter().map(|s| s.to_string()).collect();
                    let flat = |v: &Vec<Change<&str>>| -> Vec<(ChangeTag, Option<usize>, Option<usize>, String)> { v.iter().map(|c| (c.tag(), c.old_index(), c.new_index(), c.value().to_string())).collect() };
                    (flat(&all_changes), flat(&per_op), flat(&per_op2), ops, olds, news)
                });
                match r {
                    Err(p) => return Some(format!("C13 alg={:?} TextDiff chars {:?} vs {:?}: {}", alg, ot, nt, p)),
                    Ok((a, b, b2, ops, olds, news)) => {
                        if a != b || a != b2 {
                            return Some(format!("C13 alg={:?} TextDiff chars {:?} vs {:?} ops={:?}: iter_all_changes = {:?} but concatenated per-op iter_changes = {:?} / {:?}", alg, ot, nt, ops, a, b, b2));
                        }
                        // and both equal the expansion demanded by the statement
                        let mut want = Vec::new();
                        for op in &ops {
                            for (t, oi, nj, _) in expected_changes(op, o, n) {
                                let val = match t {
                                    ChangeTag::Insert => news[nj.unwrap()].clone(),
                                    _ => olds[oi.unwrap()].clone(),
                                };
                                want.push((t, oi, nj, val));
                            }
                        }
                        if a != want {
                            return Some(format!("C13 alg={:?} TextDiff chars {:?} vs {:?} ops={:?}: iter_all_changes = {:?}, expected {:?}", alg, ot, nt, ops, a, want));
                        }
                    }
                }
            }
        }
    }
    // whole-hunk iteration (AllChangesIter behind UnifiedDiffHunk::iter_changes) over HAND-BUILT op lists, incl. ops
    // that consume nothing (zero-length Delete / Insert / Replace / Equal) in every position: equals the concatenation
    // of the per-op expansions  (round-5 seed C13-13)
    {
        let r = guard(|| {
            let d = TextDiff::from_lines("a\nb\nc\nd\n", "a\nX\nc\nY\n");
            let mut pool: Vec<DiffOp> = Vec::new();
            for i in 0..3usize {
                for l in 0..2usize {
                    pool.push(DiffOp::Equal { old_index: i, new_index: i, len: l });
                    pool.push(DiffOp::Delete { old_index: i, old_len: l, new_index: i });
                    pool.push(DiffOp::Insert { old_index: i, new_index: i + 1, new_len: l });
                    pool.push(DiffOp::Replace { old_index: i, old_len: l, new_index: i, new_len: 1 - l });
                    pool.push(DiffOp::Replace { old_index: i, old_len: l, new_index: i, new_len: l });
                }
            }
            let flat = |v: &Vec<Change<&str>>| -> Vec<(ChangeTag, Option<usize>, Option<usize>, String)> { v.iter().map(|c| (c.tag(), c.old_index(), c.new_index(), c.value().to_string())).collect() };
            let mut lists: Vec<Vec<DiffOp>> = Vec::new();
            for a in &pool { lists.push(vec![*a]); for b in &pool { lists.push(vec![*a, *b]); for c in &pool { lists.push(vec![*a, *b, *c]); } } }
            for ops in lists {
                let want: Vec<Change<&str>> = ops.iter().flat_map(|op| d.iter_changes(op)).collect();
                let hunk = similar::udiff::UnifiedDiffHunk::new(ops.clone(), &d, false);
                let got: Vec<Change<&str>> = hunk.iter_changes().collect();
                if flat(&got) != flat(&want) {
                    return Some(format!("C13 UnifiedDiffHunk::new({:?}, from_lines(\"a\\nb\\nc\\nd\\n\", \"a\\nX\\nc\\nY\\n\")).iter_changes() = {:?}, but the concatenated per-op expansions are {:?}", ops, flat(&got), flat(&want)));
                }
            }
            None
        });
        *cases += 1;
        match r {
            Err(p) => return Some(format!("C13 UnifiedDiffHunk::iter_changes over hand-built op lists: {}", p)),
            Ok(Some(w)) => return Some(w),
            Ok(None) => {}
        }
    }
    None
}

// ---------------------------------------------------------------------------------------------
// C05 unified diff: header numbers, strict application
// ---------------------------------------------------------------------------------------------
/// newline-terminated texts first (shortest first), then the same texts lacking the final newline
fn line_texts() -> Vec<String> {
    let full: Vec<String> = seqs(3, bd(4)).iter().map(|s| s.iter().map(|&x| format!("{}\n", (b'a' + x as u8) as char)).collect()).collect();
    let mut out = full.clone();
    out.extend(full.iter().filter(|t| !t.is_empty()).map(|t| t[..t.len() - 1].to_string()));
    out
}

fn parse_range(s: &str) -> Option<(usize, usize)> {
    let mut it = s.splitn(2, ',');
    let a = it.next()?.parse().ok()?;
    let b = match it.next() {
        Some(x) => x.parse().ok()?,
        None => 1,
    };
    Some((a, b))
}

/// "@@ -a,b +c,d @@" -> ((a,b),(c,d))
fn parse_header(h: &str) -> Option<((usize, usize), (usize, usize))> {
    let body = h.strip_prefix("@@ -")?.strip_suffix(" @@")?;
    let mut it = body.splitn(2, " +");
    let o = parse_range(it.next()?)?;
    let n = parse_range(it.next()?)?;
    Some((o, n))
}

fn split_lines(s: &str) -> Vec<String> {
    s.split_inclusive('\n').map(|x| x.to_string()).collect()
}

fn c05_check(old: &str, new: &str, hunks: &[(String, String)], radius: usize) -> Result<(), String> {
    let (ol, nl) = (split_lines(old), split_lines(new));
    let mut cursor = 0usize;
    let mut out: Vec<String> = Vec::new();
    for (hi, (header, text)) in hunks.iter().enumerate() {
        let ((a, b), (c, d)) = parse_header(header).ok_or_else(|| format!("hunk #{}: header {:?} does not parse as '@@ -a,b +c,d @@'", hi, header))?;
        let mut lines: Vec<(char, String)> = Vec::new();
        let mut it = text.split('\n').collect::<Vec<_>>();
        if it.last() == Some(&"") {
            it.pop();
        }
        if it.first().copied() != Some(&header[..]) {
            return Err(format!("hunk #{}: rendered hunk {:?} does not start with its header {:?}", hi, text, header));
        }
        for l in &it[1..] {
            match l.chars().next() {
                Some(t) if t == ' ' || t == '-' || t == '+' => lines.push((t, format!("{}\n", &l[1..]))),
                Some('\\') => match lines.last_mut() {
                    Some(last) => {
                        last.1.pop();
                    }
                    None => return Err(format!("hunk #{}: no-newline marker without a line", hi)),
                },
                _ => return Err(format!("hunk #{}: body line {:?} has no ' ', '-', '+' prefix", hi, l)),
            }
        }
        // every hunk contains a change, with at most `radius` context lines at its edges, deletions before insertions
        let lead = lines.iter().take_while(|l| l.0 == ' ').count();
        let trail = lines.iter().rev().take_while(|l| l.0 == ' ').count();
        if lead == lines.len() {
            return Err(format!("hunk #{} header {:?} contains no change (clause: every hunk contains a change)", hi, header));
        }
        if lead > radius || trail > radius {
            return Err(format!("hunk #{} header {:?}: {} leading / {} trailing context lines with radius {} (clause: at most radius context lines at its edges)", hi, header, lead, trail, radius));
        }
        if lines.windows(2).any(|w| w[0].0 == '+' && w[1].0 == '-') {
            return Err(format!("hunk #{} header {:?}: an insertion directly precedes a deletion (clause: deletions before insertions)", hi, header));
        }
        let old_count = lines.iter().filter(|l| l.0 != '+').count();
        let new_count = lines.iter().filter(|l| l.0 != '-').count();
        if old_count != b || new_count != d {
            return Err(format!("hunk #{} header {:?}: body has {} old-side and {} new-side lines (clause: counts equal the numbers of old-side and new-side lines in the hunk body)", hi, header, old_count, new_count));
        }
        if (b > 0 && a == 0) || (d > 0 && c == 0) {
            return Err(format!("hunk #{} header {:?}: start line 0 with a non-zero count", hi, header));
        }
        let os = if b == 0 { a } else { a - 1 }; // 0-based index of the first old line the hunk touches
        let ns = if d == 0 { c } else { c - 1 };
        if os < cursor {
            return Err(format!("hunk #{} header {:?}: old start is before the end of the previous hunk (old line {}) (clause: increasing, non-overlapping)", hi, header, cursor));
        }
        if os > ol.len() {
            return Err(format!("hunk #{} header {:?}: old start beyond the old text ({} lines)", hi, header, ol.len()));
        }
        out.extend_from_slice(&ol[cursor..os]);
        cursor = os;
        if out.len() != ns {
            let truth = if d == 0 { out.len() } else { out.len() + 1 };
            return Err(format!("hunk #{} header {:?}: with the old side at line {}, {} new lines precede this hunk, so the new-side start must read {} but the header says {} (clause: start lines are the true positions)", hi, header, a, out.len(), truth, c));
        }
        for (t, content) in &lines {
            if *t != '+' {
                if cursor >= ol.len() || ol[cursor] != *content {
                    return Err(format!("hunk #{} header {:?}: line {:?}{:?} does not match old line {} ({:?}) (clause: every context and '-' line must match the old text at the stated position)", hi, header, t, content, cursor + 1, ol.get(cursor)));
                }
                cursor += 1;
            }
            if *t != '-' {
                out.push(content.clone());
            }
        }
    }
    out.extend_from_slice(&ol[cursor..]);
    if out != nl {
        return Err(format!("applying the hunks to old yields {:?}, not new {:?}", out.concat(), new));
    }
    Ok(())
}

fn c05_render(cfg_alg: Algorithm, expired: bool, o: &str, n: &str, radius: usize) -> Result<(Vec<(String, String)>, Vec<DiffOp>, String), String> {
    guard(|| {
        let mut cfg = TextDiff::configure();
        cfg.algorithm(cfg_alg);
        if expired {
            cfg.deadline(expired_deadline());
        }
        let d = cfg.diff_lines(o, n);
        let hunks: Vec<(String, String)> = d.unified_diff().context_radius(radius).iter_hunks().map(|h| (h.header().to_string(), h.to_string())).collect();
        let whole = d.unified_diff().context_radius(radius).header("a", "b").to_string();
        (hunks, d.ops().to_vec(), whole)
    })
}

fn c05(cases: &mut u64) -> Option<String> {
    // line diffs above the 100-token switch of the builder, and every small text with an expired deadline
    for (name, o, n) in large_token_shapes() {
        let (ot, nt) = (tokens_to_lines(&o), tokens_to_lines(&n));
        for &alg in &ALGS {
            for radius in [0usize, 3] {
                for expired in [false, true] {
                    *cases += 1;
                    match c05_render(alg, expired, &ot, &nt, radius) {
                        Err(p) => return Some(format!("C05 alg={:?} large line diff '{}' radius={}: {}", alg, name, radius, p)),
                        Ok((hunks, _ops, _)) => if let Err(e) = c05_check(&ot, &nt, &hunks, radius) {
                            let headers: Vec<&String> = hunks.iter().map(|h| &h.0).collect();
                            return Some(format!("C05 alg={:?} diff_lines of '{}' ({} / {} lines) radius={} deadline={}: hunk headers {:?}: {}", alg, name, o.len(), n.len(), radius, if expired { "expired" } else { "None" }, headers, e));
                        },
                    }
                }
            }
        }
    }
    for o in &line_texts() {
        for n in &line_texts() {
            for &alg in &ALGS {
                for radius in [0usize, 2] {
                    *cases += 1;
                    match c05_render(alg, true, o, n, radius) {
                        Err(p) => return Some(format!("C05 alg={:?} old={:?} new={:?} radius={} deadline expired: {}", alg, o, n, radius, p)),
                        Ok((hunks, ops, _)) => if let Err(e) = c05_check(o, n, &hunks, radius) {
                            let headers: Vec<&String> = hunks.iter().map(|h| &h.0).collect();
                            return Some(format!("C05 alg={:?} deadline expired: diff_lines(old={:?}, new={:?}).unified_diff().context_radius({}): hunk headers {:?} (ops {:?}): {}", alg, o, n, radius, headers, ops, e));
                        },
                    }
                }
            }
        }
    }
    let texts = line_texts();
    for o in &texts {
        for n in &texts {
            for &alg in &ALGS {
                for radius in 0..=2usize {
                    *cases += 1;
                    let r = guard(|| {
                        let d = TextDiff::configure().algorithm(alg).diff_lines(&o[..], &n[..]);
                        let hunks: Vec<(String, String)> = d.unified_diff().context_radius(radius).iter_hunks().map(|h| (h.header().to_string(), h.to_string())).collect();
                        let whole = d.unified_diff().context_radius(radius).header("a", "b").to_string();
                        (hunks, d.ops().to_vec(), whole)
                    });
                    match r {
                        Err(p) => return Some(format!("C05 alg={:?} old={:?} new={:?} radius={}: {}", alg, o, n, radius, p)),
                        Ok((hunks, ops, whole)) => {
                            if o == n && !whole.is_empty() {
                                return Some(format!("C05 alg={:?} old == new == {:?} radius={}: unified_diff().header(\"a\",\"b\") renders {:?} (clause: equal inputs render as the empty string, no file header)", alg, o, radius, whole));
                            }
                            let joined: String = hunks.iter().map(|h| h.1.clone()).collect();
                            if o != n && whole != format!("--- a\n+++ b\n{}", joined) {
                                return Some(format!("C05 alg={:?} old={:?} new={:?} radius={}: the rendered diff {:?} is not the file header once followed by the hunks {:?}", alg, o, n, radius, whole, joined));
                            }
                            if let Err(e) = c05_check(o, n, &hunks, radius) {
                                let headers: Vec<&String> = hunks.iter().map(|h| &h.0).collect();
                                return Some(format!("C05 TextDiff::configure().algorithm({:?}).diff_lines(old={:?}, new={:?}).unified_diff().context_radius({}): hunk headers {:?} (ops {:?}): {}", alg, o, n, radius, headers, ops, e));
                            }
                        }
                    }
                }
            }
        }
    }
    None
}

// ---------------------------------------------------------------------------------------------
// C04 / C17 text reconstruction, remapper, one-call helpers
// ---------------------------------------------------------------------------------------------
fn small_texts(max_len: usize) -> Vec<String> {
    let chars = ['a', 'b', ' ', '\n'];
    seqs(4, max_len).iter().map(|s| s.iter().map(|&x| chars[x as usize]).collect()).collect()
}

type TextFlat = (ChangeTag, Option<usize>, Option<usize>, String);

fn c04_changes(ctx: &str, old: &str, new: &str, ch: &[TextFlat]) -> Result<(), String> {
    let (mut o, mut n) = (String::new(), String::new());
    let (mut oi, mut nj) = (0usize, 0usize);
    for (k, (tag, ox, nx, val)) in ch.iter().enumerate() {
        let (want_o, want_n) = match tag {
            ChangeTag::Equal => (Some(oi), Some(nj)),
            ChangeTag::Delete => (Some(oi), None),
            ChangeTag::Insert => (None, Some(nj)),
        };
        if *ox != want_o || *nx != want_n {
            return Err(format!("{}: change #{} {:?} has indices old={:?} new={:?}, expected old={:?} new={:?} (clause: indices count tokens consecutively from zero on each side)", ctx, k, tag, ox, nx, want_o, want_n));
        }
        if *tag != ChangeTag::Insert {
            o.push_str(val);
            oi += 1;
        }
        if *tag != ChangeTag::Delete {
            n.push_str(val);
            nj += 1;
        }
    }
    if o != old || n != new {
        return Err(format!("{}: changes {:?}: non-Insert values concatenate to {:?} (old {:?}), non-Delete values to {:?} (new {:?})", ctx, ch, o, old, n, new));
    }
    Ok(())
}

fn c17_slices(ctx: &str, old: &str, new: &str, sl: &[(ChangeTag, String)]) -> Result<(), String> {
    let (mut o, mut n) = (String::new(), String::new());
    for (tag, s) in sl {
        if s.is_empty() {
            return Err(format!("{}: returned an empty slice: {:?} (clause: never return an empty slice)", ctx, sl));
        }
        if *tag != ChangeTag::Insert {
            o.push_str(s);
        }
        if *tag != ChangeTag::Delete {
            n.push_str(s);
        }
    }
    if o != old || n != new {
        return Err(format!("{}: slices {:?}: non-Insert slices give {:?} (old {:?}), non-Delete slices give {:?} (new {:?})", ctx, sl, o, old, n, new));
    }
    Ok(())
}

fn c04(cases: &mut u64) -> Option<String> {
    // a second, shorter alphabet with characters of 1, 2 and 3 bytes (word and whitespace runs of mixed UTF-8 widths)
    let wide: Vec<String> = { let chars = ['a', '\u{e9}', ' ', '\u{3000}']; seqs(4, bd(3)).iter().map(|s| s.iter().map(|&x| chars[x as usize]).collect()).collect() };
    let mut texts = small_texts(4);
    texts.extend(wide.iter().cloned().filter(|t: &String| !t.is_ascii()));
    let own = |v: Vec<(ChangeTag, &str)>| -> Vec<(ChangeTag, String)> { v.into_iter().map(|(t, s)| (t, s.to_string())).collect() };
    for o in &texts {
        for n in &texts {
            for &alg in &ALGS {
                for tok in 0..3 {
                    *cases += 1;
                    let tname = ["lines", "words", "chars"][tok];
                    let ctx = format!("C04/C17 tokenizer={} alg={:?} old={:?} new={:?}", tname, alg, o, n);
                    // the same texts with a deadline that has already expired (the algorithms' give-up paths)
                    *cases += 1;
                    let rx = guard(|| {
                        let mut cfg = TextDiff::configure();
                        cfg.algorithm(alg).deadline(expired_deadline());
                        let d = match tok {
                            0 => cfg.diff_lines(&o[..], &n[..]),
                            1 => cfg.diff_words(&o[..], &n[..]),
                            _ => cfg.diff_chars(&o[..], &n[..]),
                        };
                        d.iter_all_changes().map(|c| (c.tag(), c.old_index(), c.new_index(), c.value().to_string())).collect::<Vec<TextFlat>>()
                    });
                    match rx {
                        Err(p) => return Some(format!("{} deadline expired: {}", ctx, p)),
                        Ok(ch) => if let Err(e) = c04_changes(&format!("{} deadline expired, iter_all_changes", ctx), o, n, &ch) { return Some(e); },
                    }
                    let r = guard(|| {
                        let mut cfg = TextDiff::configure();
                        cfg.algorithm(alg);
                        let d = match tok {
                            0 => cfg.diff_lines(&o[..], &n[..]),
                            1 => cfg.diff_words(&o[..], &n[..]),
                            _ => cfg.diff_chars(&o[..], &n[..]),
                        };
                        let ch: Vec<TextFlat> = d.iter_all_changes().map(|c| (c.tag(), c.old_index(), c.new_index(), c.value().to_string())).collect();
                        let rm = TextDiffRemapper::from_text_diff(&d, &o[..], &n[..]);
                        // per op: remapped slices next to the concatenation of the op's tokens
                        let mut per_op: Vec<(DiffOp, Vec<(ChangeTag, String)>, Vec<(ChangeTag, String)>)> = Vec::new();
                        for op in d.ops() {
                            let got: Vec<(ChangeTag, String)> = rm.iter_slices(op).map(|(t, s)| (t, s.to_string())).collect();
                            let (_, orr, nrr) = op.as_tag_tuple();
                            let oc: String = d.old_slices()[orr.clone()].concat();
                            let nc: String = d.new_slices()[nrr.clone()].concat();
                            let want = match op {
                                DiffOp::Equal { .. } => vec![(ChangeTag::Equal, oc)],
                                DiffOp::Delete { .. } => vec![(ChangeTag::Delete, oc)],
                                DiffOp::Insert { .. } => vec![(ChangeTag::Insert, nc)],
                                DiffOp::Replace { .. } => vec![(ChangeTag::Delete, oc), (ChangeTag::Insert, nc)],
                            };
                            per_op.push((*op, got, want));
                        }
                        (ch, per_op)
                    });
                    let (ch, per_op) = match r {
                        Ok(x) => x,
                        Err(p) => return Some(format!("{}: {}", ctx, p)),
                    };
                    if let Err(e) = c04_changes(&format!("{} iter_all_changes", ctx), o, n, &ch) {
                        return Some(e);
                    }
                    let mut all_slices = Vec::new();
                    for (op, got, want) in &per_op {
                        if got != want {
                            return Some(format!("{}: TextDiffRemapper::iter_slices({:?}) = {:?}, the op's tokens concatenate to {:?}", ctx, op, got, want));
                        }
                        all_slices.extend(got.iter().cloned());
                    }
                    if let Err(e) = c17_slices(&format!("{} TextDiffRemapper", ctx), o, n, &all_slices) {
                        return Some(e);
                    }
                    let helper = guard(|| match tok {
                        0 => own(sutils::diff_lines(alg, &o[..], &n[..])),
                        1 => own(sutils::diff_words(alg, &o[..], &n[..])),
                        _ => own(sutils::diff_chars(alg, &o[..], &n[..])),
                    });
                    match helper {
                        Err(p) => return Some(format!("{} utils::diff_{}: {} (clause: the one-call helpers never panic)", ctx, tname, p)),
                        Ok(sl) => {
                            if let Err(e) = c17_slices(&format!("{} utils::diff_{}", ctx, tname), o, n, &sl) {
                                return Some(e);
                            }
                        }
                    }
                }
            }
        }
    }
    // above the 100-token switch of the builder: reconstruction of both texts from iter_all_changes (line tokens)
    for (name, o, n) in big_shapes(130).into_iter().chain(c02_large_shapes()) {
        // small vocabulary with repeated blank lines, so that runs of equal neighbours occur
        let ot: String = o.iter().map(|x| if x % 5 == 0 { "\n".to_string() } else { format!("w{}\n", x % 11) }).collect();
        let nt: String = n.iter().map(|x| if x % 5 == 0 { "\n".to_string() } else { format!("w{}\n", x % 11) }).collect();
        for &alg in &ALGS {
            *cases += 1;
            let ctx = format!("C04 large line diff '{}' ({} / {} lines) alg={:?}", name, o.len(), n.len(), alg);
            let r = guard(|| {
                let mut cfg = TextDiff::configure();
                cfg.algorithm(alg);
                let d = cfg.diff_lines(&ot[..], &nt[..]);
                d.iter_all_changes().map(|c| (c.tag(), c.old_index(), c.new_index(), c.value().to_string())).collect::<Vec<TextFlat>>()
            });
            match r {
                Err(p) => return Some(format!("{}: {}", ctx, p)),
                Ok(ch) => if let Err(e) = c04_changes(&format!("{} iter_all_changes", ctx), &ot, &nt, &ch) { return Some(e); },
            }
        }
    }
    // more distinct tokens than a 16-bit id can number (the builder maps tokens to integer ids above 100 tokens):
    // once with more than 65535 tokens per side, once with fewer per side but more than 65535 distinct tokens in total
    for huge in 0..2 {
        let ot: String = if huge == 1 { (0..65_000u32).map(|i| format!("L{}\n", i)).collect() } else { (0..70_000u32).map(|i| format!("L{}\n", i)).collect() };
        let nt: String = if huge == 1 { (0..65_000u32).map(|i| if i < 600 { format!("R{}\n", i) } else { format!("L{}\n", i) }).collect() } else { (0..70_000u32).map(|i| if i == 35_000 { "changed\nadded\n".to_string() } else { format!("L{}\n", i) }).collect() };
        for &alg in &ALGS {
            *cases += 1;
            let ctx = format!("C04 line diff of {} alg={:?}", if huge == 1 { "65000 distinct lines with the first 600 rewritten" } else { "70000 distinct lines (line 35000 replaced by two lines)" }, alg);
            let r = guard(|| {
                let mut cfg = TextDiff::configure();
                cfg.algorithm(alg);
                let d = cfg.diff_lines(&ot[..], &nt[..]);
                d.iter_all_changes().map(|c| (c.tag(), c.old_index(), c.new_index(), c.value().to_string())).collect::<Vec<TextFlat>>()
            });
            match r {
                Err(p) => return Some(format!("{}: {}", ctx, p)),
                Ok(ch) => if let Err(e) = c04_changes(&ctx, &ot, &nt, &ch) { return Some(e.chars().take(600).collect()); },
            }
        }
    }
    None
}

// ---------------------------------------------------------------------------------------------
fn main() {
    let mode = std::env::args().nth(1).unwrap_or_default();
    if std::env::args().nth(2).as_deref() == Some("thorough") {
        THOROUGH.store(true, std::sync::atomic::Ordering::Relaxed);
    }
    install_panic_hook();
    let mut cases = 0u64;
    let t0 = Instant::now();
    let (res, bounds) = match &mode[..] {
        "C01" => (c01(&mut cases), "alphabet {0,1,2}, len 0..=6, 3 algorithms x (embedded sub-range, guarded Index, extracted slices); again with an expired deadline for len 0..=5"),
        "C07" => (c07(&mut cases), "alphabet {0,1,2}, len 0..=6, deadline expired at entry, raw algorithms + capture_diff_deadline; builder plumbing; work after expiry <= 8(N+M)+16 on 6 shapes of 40 and 300 items"),
        "C07clock" => (c07_clock(&mut cases, false), "virtual clock (cfg similar_verif): alphabet {0,1,2} len 0..=5 x every deadline check k, plus 6 shapes of 120 items x sampled k; valid script, finish once, never-expiring == no deadline, work after expiry <= 8(N+M)+16"),
        "C05bytes" => (c05_bytes(&mut cases), "[u8] line texts (feature bytes) of 0..=3 lines over {a, b, 0xFF, a 0xFE b}, terminated or not, radius 0/3, header on/off: UnifiedDiff::to_writer keeps every change line's bytes, equals Display on UTF-8, Display is its lossy decoding otherwise"),
        "C06" => (c06(&mut cases), "str: all strings of length 0..=4 over 15 scalars (ASCII, CR, LF, TAB, VT, FF, NUL, NBSP, U+2028, U+3000, U+0085, combining mark, 2- and 4-byte chars) + 4 longer texts; [u8]: all byte strings of length 0..=4 over 13 bytes incl. invalid UTF-8; lines / lines_and_newlines / words / chars; str vs [u8] on the same bytes"),
        "C11clock" => (c07_clock(&mut cases, true), "virtual clock (cfg similar_verif, so the K1 hook is on too): alphabet {0,1,2} len 0..=5 x every deadline check k, plus 6 shapes of 120 items x sampled k: the ops of capture_diff_deadline carry exact indices on both sides (C11) under every expiry schedule"),
        "C11text" => (c11_text(&mut cases), "crate built with --cfg similar_verif (K1 repair hook on): TextDiff line diffs of all token sequences over {0,1,2} len 0..=4 and of 21 shapes of 101..260 tokens (integer-mapping path): exact indices on both sides, group extents from first/last op"),
        "C08" => (c08(&mut cases), "alphabet {0,1,2}, len 0..=4, 6 hook stacks x 2 hook kinds x every failing call index x deadline {none, expired}"),
        "C02" => (c02(&mut cases), "alphabet {0,1,2}, len 0..=5, deadline none/expired, slices + sub-ranges + TextDiff chars; 15 text diffs of 101..260 tokens through the integer-mapping path; one of 65000 distinct tokens with 600 rewritten (more distinct tokens than a 16-bit id)"),
        "C03" => (c03(&mut cases), "alphabet {0,1,2} len 0..=6 and alphabet {0,1} len 0..=8, Myers + LCS, raw + captured; 4 pairs of 400..900 items with edit distances in the hundreds"),
        "C09" => (c09(&mut cases), "alphabet {0,1,2}, len 0..=6, deadline none/expired; TextDiff line diffs of 101..260 lines"),
        "C10" => (c10(&mut cases), "alphabet {0,1}, len 0..=3, all valid scripts x all carried indices x 3 adapter stacks"),
        "C11" => (c11(&mut cases), "alphabet {0,1,2}, len 0..=5, slices + embedded sub-ranges; raw callback streams (all algorithms without deadline, LCS with an expired deadline) + captured ops"),
        "C12" => (c12(&mut cases), "alternating exact op lists up to 8 ops from (0,0) and up to 6 ops from the range starts (3,1) and (1,4), equal lens {1,2,3,5,8}, 6 change shapes, n 0..=3; TextDiff::grouped_ops / Capture::into_grouped_ops == group_diff_ops on char diffs (alphabet {0,1,2}, len 0..=4, n 0..=2) and on 2^23 equal lines + 1 inserted line"),
        "C13" => (c13(&mut cases), "synthetic ops + captured ops for alphabet {0,1,2} len 0..=5 + TextDiff chars"),
        "C05" => (c05(&mut cases), "lines {a,b,c}, 0..=4 lines, optional missing final newline, radius 0..=2, deadline none / expired; 21 line diffs of 101..260 lines"),
        "C04" | "C17" => (c04(&mut cases), "texts over {a,b,space,newline} len 0..=4 and non-ASCII texts over {a, U+00E9, space, U+3000} len 0..=3, lines/words/chars, iter_all_changes (deadline none / expired) + remapper + utils helpers; 15 line diffs of 101..260 lines, one of 70000 distinct lines, one of 65000 lines with 600 rewritten (reconstruction through the integer-mapping path)"),
        _ => {
            eprintln!("usage: replay <C01|C02|C03|C04|C05|C07|C08|C09|C10|C11|C12|C13|C17>");
            std::process::exit(2);
        }
    };
    match res {
        Some(w) => {
            println!("WITNESS {}", w.replace('\n', "\\n"));
            std::process::exit(1);
        }
        None => {
            println!("NONE {} cases={} bounds: {}{} ({:.1}s)", mode, cases, bounds, if bd(0) == 1 { " [thorough tier: every sequence-length bound above is raised by one]" } else { "" }, t0.elapsed().as_secs_f64());
        }
    }
}
