//! Replay harness: bounded exhaustive search, through the PUBLIC API of the real `similar` crate,
//! for a concrete input violating one property.  `replay <MODE>` prints
//!   `WITNESS <description>`        (exit 1) on the first violation, or
//!   `NONE <mode> cases=<n> ...`    (exit 0) when the whole bounded space was explored.
//! Every checker below is an executable twin of the property STATEMENT (properties.jsonl), written
//! from the statement and not from the crate's behaviour.  Every call into the crate runs under
//! `catch_unwind`; a panic inside the crate is itself a witness.
//!
//! Bounds (chosen so that each mode stays well under 60 s in release mode):
//!   C01  alphabet {0,1,2}, |old|,|new| <= 6, 3 algorithms; embedded arrays (offsets 2 / 3), guarded
//!        Index wrapper, extracted slices
//!   C07  alphabet {0,1,2}, |old|,|new| <= 5, deadline already expired at entry
//!   C08  alphabet {0,1,2}, |old|,|new| <= 4, 6 hook stacks, 2 hook kinds, every failure index k
//!   C02  alphabet {0,1,2}, |old|,|new| <= 5, deadline none/expired, slices + sub-ranges + TextDiff
//!   C03  alphabet {0,1,2} len <= 6 and alphabet {0,1} len <= 8, Myers + LCS
//!   C09  alphabet {0,1,2}, |old|,|new| <= 6, deadline none/expired
//!   C10  alphabet {0,1}, |old|,|new| <= 3, ALL valid input scripts with all carried indices
//!   C11  alphabet {0,1,2}, |old|,|new| <= 5, slices and embedded sub-ranges
//!   C12  alternating exact op lists, <= 7 ops, equal lens {1,2,3,5,8}, 6 change shapes, n in 0..=3
//!   C13  alphabet {0,1,2}, |old|,|new| <= 4 captured ops + synthetic ops + TextDiff (chars)
//!   C05  lines {a,b,c}, <= 4 lines, optional missing final newline, radius 0..=2
//!   C04 / C17  texts over {a,b,' ','\n'} of length <= 4, lines/words/chars tokenizers
use std::ops::{Index, Range};
use std::panic::{self, AssertUnwindSafe};
use std::sync::Mutex;
use std::time::{Duration, Instant};

use similar::algorithms::{diff_deadline, Capture, Compact, DiffHook, NoFinishHook, Replace};
use similar::utils::{self as sutils, TextDiffRemapper};
use similar::{
    capture_diff_deadline, capture_diff_slices_deadline, get_diff_ratio, group_diff_ops, Algorithm,
    Change, ChangeTag, DiffOp, TextDiff,
};

const ALGS: [Algorithm; 3] = [Algorithm::Myers, Algorithm::Patience, Algorithm::Lcs];
const ERR_BASE: usize = 1000;

// ---------------------------------------------------------------------------------------------
// panic capture
// ---------------------------------------------------------------------------------------------
static LAST_PANIC: Mutex<Option<String>> = Mutex::new(None);

fn install_panic_hook() {
    panic::set_hook(Box::new(|info| {
        let msg = if let Some(s) = info.payload().downcast_ref::<&str>() {
            s.to_string()
        } else if let Some(s) = info.payload().downcast_ref::<String>() {
            s.clone()
        } else {
            "<non-string panic payload>".to_string()
        };
        let loc = info.location().map(|l| format!(" at {}:{}", l.file(), l.line())).unwrap_or_default();
        if let Ok(mut g) = LAST_PANIC.lock() {
            *g = Some(format!("{}{}", msg, loc));
        }
    }));
}

/// run `f` (a call into the crate); a panic becomes `Err(message)`
fn guard<T>(f: impl FnOnce() -> T) -> Result<T, String> {
    match panic::catch_unwind(AssertUnwindSafe(f)) {
        Ok(v) => Ok(v),
        Err(_) => {
            let m = LAST_PANIC.lock().ok().and_then(|mut g| g.take()).unwrap_or_else(|| "?".into());
            Err(format!("PANIC inside the crate: {}", m))
        }
    }
}

// ---------------------------------------------------------------------------------------------
// recording hooks
// ---------------------------------------------------------------------------------------------
#[derive(Clone, Copy, Debug, PartialEq, Eq)]
enum Call {
    Equal(usize, usize, usize),           // old_index, new_index, len
    Delete(usize, usize, usize),          // old_index, old_len, new_index
    Insert(usize, usize, usize),          // old_index, new_index, new_len
    Replace(usize, usize, usize, usize),  // old_index, old_len, new_index, new_len
    Finish,
}

/// Records every call; the call with index `fail_at` returns `Err(ERR_BASE + fail_at)`
/// (later calls, which must not happen, are still recorded and return Ok).
#[derive(Default)]
struct Rec {
    calls: Vec<Call>,
    fail_at: Option<usize>,
}

impl Rec {
    fn hit(&mut self, c: Call) -> Result<(), usize> {
        let k = self.calls.len();
        self.calls.push(c);
        if Some(k) == self.fail_at {
            Err(ERR_BASE + k)
        } else {
            Ok(())
        }
    }
}

impl DiffHook for Rec {
    type Error = usize;
    fn equal(&mut self, o: usize, n: usize, len: usize) -> Result<(), usize> {
        self.hit(Call::Equal(o, n, len))
    }
    fn delete(&mut self, o: usize, ol: usize, n: usize) -> Result<(), usize> {
        self.hit(Call::Delete(o, ol, n))
    }
    fn insert(&mut self, o: usize, n: usize, nl: usize) -> Result<(), usize> {
        self.hit(Call::Insert(o, n, nl))
    }
    fn replace(&mut self, o: usize, ol: usize, n: usize, nl: usize) -> Result<(), usize> {
        self.hit(Call::Replace(o, ol, n, nl))
    }
    fn finish(&mut self) -> Result<(), usize> {
        self.hit(Call::Finish)
    }
}

/// Same as `Rec` but does NOT override `replace` (uses the trait's default).
#[derive(Default)]
struct RecNoReplace(Rec);

impl DiffHook for RecNoReplace {
    type Error = usize;
    fn equal(&mut self, o: usize, n: usize, len: usize) -> Result<(), usize> {
        self.0.hit(Call::Equal(o, n, len))
    }
    fn delete(&mut self, o: usize, ol: usize, n: usize) -> Result<(), usize> {
        self.0.hit(Call::Delete(o, ol, n))
    }
    fn insert(&mut self, o: usize, n: usize, nl: usize) -> Result<(), usize> {
        self.0.hit(Call::Insert(o, n, nl))
    }
    fn finish(&mut self) -> Result<(), usize> {
        self.0.hit(Call::Finish)
    }
}

trait TestHook: DiffHook<Error = usize> + Sized {
    const NAME: &'static str;
    fn make(fail_at: Option<usize>) -> Self;
    fn into_calls(self) -> Vec<Call>;
}
impl TestHook for Rec {
    const NAME: &'static str = "hook overriding replace";
    fn make(fail_at: Option<usize>) -> Self {
        Rec { calls: vec![], fail_at }
    }
    fn into_calls(self) -> Vec<Call> {
        self.calls
    }
}
impl TestHook for RecNoReplace {
    const NAME: &'static str = "hook NOT overriding replace";
    fn make(fail_at: Option<usize>) -> Self {
        RecNoReplace(Rec { calls: vec![], fail_at })
    }
    fn into_calls(self) -> Vec<Call> {
        self.0.calls
    }
}

/// Index wrapper that panics when an element outside the requested range is read.
struct Guarded<'a> {
    data: &'a [u32],
    range: Range<usize>,
    side: &'static str,
}
impl<'a> Index<usize> for Guarded<'a> {
    type Output = u32;
    fn index(&self, i: usize) -> &u32 {
        if i < self.range.start || i >= self.range.end {
            panic!("{} sequence read at index {} outside the requested range {:?}", self.side, i, self.range);
        }
        &self.data[i]
    }
}

// ---------------------------------------------------------------------------------------------
// input enumeration helpers
// ---------------------------------------------------------------------------------------------
/// all sequences over {0..alpha-1} with length 0..=max_len, shortest first
fn seqs(alpha: u32, max_len: usize) -> Vec<Vec<u32>> {
    let mut all: Vec<Vec<u32>> = vec![vec![]];
    let mut layer: Vec<Vec<u32>> = vec![vec![]];
    for _ in 0..max_len {
        let mut next = Vec::new();
        for s in &layer {
            for a in 0..alpha {
                let mut t = s.clone();
                t.push(a);
                next.push(t);
            }
        }
        all.extend(next.iter().cloned());
        layer = next;
    }
    all
}

/// embeds `s` at a non-zero offset between sentinels.  The sentinel right before and right after the
/// range has the same value (9) on both sides, so an algorithm reading across the range border
/// would see "equal" items there and produce an observably wrong script.
fn embed_old(s: &[u32]) -> (Vec<u32>, Range<usize>) {
    let mut v = vec![5, 9];
    v.extend_from_slice(s);
    v.extend_from_slice(&[9, 6]);
    (v, 2..2 + s.len())
}
fn embed_new(s: &[u32]) -> (Vec<u32>, Range<usize>) {
    let mut v = vec![7, 8, 9];
    v.extend_from_slice(s);
    v.extend_from_slice(&[9, 4]);
    (v, 3..3 + s.len())
}

fn expired_deadline() -> Instant {
    let now = Instant::now();
    match now.checked_sub(Duration::from_secs(1)) {
        Some(t) => t,
        None => {
            std::thread::sleep(Duration::from_millis(2));
            now
        }
    }
}

fn op_call(op: &DiffOp) -> Call {
    match *op {
        DiffOp::Equal { old_index, new_index, len } => Call::Equal(old_index, new_index, len),
        DiffOp::Delete { old_index, old_len, new_index } => Call::Delete(old_index, old_len, new_index),
        DiffOp::Insert { old_index, new_index, new_len } => Call::Insert(old_index, new_index, new_len),
        DiffOp::Replace { old_index, old_len, new_index, new_len } => {
            Call::Replace(old_index, old_len, new_index, new_len)
        }
    }
}
fn ops_calls(ops: &[DiffOp]) -> Vec<Call> {
    ops.iter().map(op_call).collect()
}

// ---------------------------------------------------------------------------------------------
// the edit-script validity checker (C01 / C02 / C07 / C10 / C11 share it)
// ---------------------------------------------------------------------------------------------
#[derive(Clone, Copy, PartialEq)]
enum Carried {
    Ignore,    // C02: only own-side indices
    WithinRun, // C01: carried index inside the run of changes, exact when the op stands alone
    Exact,     // C11: carried index == cursor
}
#[derive(Clone, Copy, PartialEq)]
enum Fin {
    Ignore,
    OnceAndLast,
    Never,
}
#[derive(Clone, Copy)]
struct Rules {
    carried: Carried,
    finish: Fin,
    nonempty: bool,
}

fn check_script(
    calls: &[Call],
    old: &[u32],
    or: Range<usize>,
    new: &[u32],
    nr: Range<usize>,
    rules: Rules,
) -> Result<(), String> {
    let (mut oi, mut nj) = (or.start, nr.start);
    let (mut run_o, mut run_n) = (oi, nj);
    let mut run: Vec<(usize, bool, usize)> = Vec::new(); // (call idx, is_delete, carried index)
    let mut finishes = 0usize;
    let mut replay: Vec<u32> = Vec::new();

    fn close_run(run: &mut Vec<(usize, bool, usize)>, run_o: usize, run_n: usize, oi: usize, nj: usize) -> Result<(), String> {
        let alone = run.len() == 1;
        for &(k, is_del, idx) in run.iter() {
            let (lo, hi, what) = if is_del { (run_n, nj, "new_index carried by the delete") } else { (run_o, oi, "old_index carried by the insert") };
            if idx < lo || idx > hi {
                return Err(if alone {
                    format!("call #{}: {} is {} but the op stands alone and the current position is {} (clause: exactly the current position when it stands alone)", k, what, idx, lo)
                } else {
                    format!("call #{}: {} is {} but its run of changes spans {}..={} on that side (clause: carried position lies within the run of changes)", k, what, idx, lo, hi)
                });
            }
        }
        run.clear();
        Ok(())
    }

    for (k, c) in calls.iter().enumerate() {
        if finishes > 0 && rules.finish != Fin::Ignore {
            return Err(format!("call #{} {:?} arrives after finish (clause: no other call after finish)", k, c));
        }
        match *c {
            Call::Finish => {
                finishes += 1;
            }
            Call::Equal(o, n, len) => {
                if rules.carried == Carried::WithinRun {
                    close_run(&mut run, run_o, run_n, oi, nj)?;
                }
                if len == 0 && rules.nonempty {
                    return Err(format!("call #{}: empty Equal (clause: nothing empty)", k));
                }
                if o != oi || n != nj {
                    return Err(format!("call #{} {:?} does not start at the current position old={} new={} (clause: each call starts exactly where the previous one stopped)", k, c, oi, nj));
                }
                if o + len > or.end || n + len > nr.end {
                    return Err(format!("call #{} {:?} runs past the requested ranges {:?}/{:?}", k, c, or, nr));
                }
                for d in 0..len {
                    if old[o + d] != new[n + d] {
                        return Err(format!("call #{} {:?}: old[{}]={} != new[{}]={} (clause: equal segments are element-wise equal)", k, c, o + d, old[o + d], n + d, new[n + d]));
                    }
                    replay.push(old[o + d]);
                }
                oi += len;
                nj += len;
                run_o = oi;
                run_n = nj;
            }
            Call::Delete(o, ol, n) => {
                if ol == 0 && rules.nonempty {
                    return Err(format!("call #{}: empty Delete (clause: nothing empty)", k));
                }
                if o != oi {
                    return Err(format!("call #{} {:?} does not start at the current old position {} (clause: starts where the previous one stopped)", k, c, oi));
                }
                if o + ol > or.end {
                    return Err(format!("call #{} {:?} runs past the requested old range {:?}", k, c, or));
                }
                if rules.carried == Carried::Exact && n != nj {
                    return Err(format!("call #{} {:?}: carried new_index {} != number of new items consumed before it + range start = {}", k, c, n, nj));
                }
                run.push((k, true, n));
                oi += ol;
            }
            Call::Insert(o, n, nl) => {
                if nl == 0 && rules.nonempty {
                    return Err(format!("call #{}: empty Insert (clause: nothing empty)", k));
                }
                if n != nj {
                    return Err(format!("call #{} {:?} does not start at the current new position {} (clause: starts where the previous one stopped)", k, c, nj));
                }
                if n + nl > nr.end {
                    return Err(format!("call #{} {:?} runs past the requested new range {:?}", k, c, nr));
                }
                if rules.carried == Carried::Exact && o != oi {
                    return Err(format!("call #{} {:?}: carried old_index {} != number of old items consumed before it + range start = {}", k, c, o, oi));
                }
                run.push((k, false, o));
                replay.extend_from_slice(&new[n..n + nl]);
                nj += nl;
            }
            Call::Replace(o, ol, n, nl) => {
                if (ol == 0 || nl == 0) && rules.nonempty {
                    return Err(format!("call #{} {:?}: Replace with an empty side (clause: nothing empty)", k, c));
                }
                if o != oi || n != nj {
                    return Err(format!("call #{} {:?} does not start at the current position old={} new={}", k, c, oi, nj));
                }
                if o + ol > or.end || n + nl > nr.end {
                    return Err(format!("call #{} {:?} runs past the requested ranges {:?}/{:?}", k, c, or, nr));
                }
                run.push((k, true, n));
                run.push((k, false, o));
                replay.extend_from_slice(&new[n..n + nl]);
                oi += ol;
                nj += nl;
            }
        }
    }
    if rules.carried == Carried::WithinRun {
        close_run(&mut run, run_o, run_n, oi, nj)?;
    }
    if oi != or.end || nj != nr.end {
        return Err(format!("script stops at old={} new={} but the requested ranges end at {}/{} (clause: covers both ranges with nothing missing)", oi, nj, or.end, nr.end));
    }
    if replay[..] != new[nr.clone()] {
        return Err(format!("replaying the callbacks on the old range gives {:?}, not the new range {:?}", replay, &new[nr.clone()]));
    }
    match rules.finish {
        Fin::Ignore => {}
        Fin::OnceAndLast => {
            if finishes != 1 {
                return Err(format!("finish was called {} times (clause: exactly once)", finishes));
            }
        }
        Fin::Never => {
            if finishes != 0 {
                return Err(format!("finish reached the inner hook {} times (clause: the finish-suppressing wrapper forwards everything except finish)", finishes));
            }
        }
    }
    Ok(())
}

/// run one raw algorithm with a recording hook
fn run_raw<O, N>(
    alg: Algorithm,
    old: &O,
    or: Range<usize>,
    new: &N,
    nr: Range<usize>,
    deadline: Option<Instant>,
) -> Result<(Result<(), usize>, Vec<Call>), String>
where
    O: Index<usize, Output = u32> + ?Sized,
    N: Index<usize, Output = u32> + ?Sized,
{
    guard(|| {
        let mut h = Rec::default();
        let r = diff_deadline(alg, &mut h, old, or, new, nr, deadline);
        (r, h.calls)
    })
}

fn shift(calls: &[Call], so: usize, sn: usize) -> Vec<Call> {
    calls
        .iter()
        .map(|c| match *c {
            Call::Equal(o, n, l) => Call::Equal(o + so, n + sn, l),
            Call::Delete(o, l, n) => Call::Delete(o + so, l, n + sn),
            Call::Insert(o, n, l) => Call::Insert(o + so, n + sn, l),
            Call::Replace(o, ol, n, nl) => Call::Replace(o + so, ol, n + sn, nl),
            Call::Finish => Call::Finish,
        })
        .collect()
}

// ---------------------------------------------------------------------------------------------
// C01 / C07
// ---------------------------------------------------------------------------------------------
fn raw_modes(mode: &str, max_len: usize, expired: bool, cases: &mut u64) -> Option<String> {
    let all = seqs(3, max_len);
    let rules = Rules { carried: Carried::WithinRun, finish: if expired { Fin::OnceAndLast } else { Fin::Ignore }, nonempty: true };
    let dl_txt = if expired { "Some(now - 1s) [already expired]" } else { "None" };
    for o in &all {
        let (oa, or) = embed_old(o);
        for n in &all {
            let (na, nr) = embed_new(n);
            for &alg in &ALGS {
                *cases += 1;
                let deadline = if expired { Some(expired_deadline()) } else { None };
                let ctx = |what: &str| {
                    format!("{} alg={:?} old_array={:?} old_range={:?} new_array={:?} new_range={:?} deadline={} ({})", mode, alg, oa, or, na, nr, dl_txt, what)
                };
                // (a) embedded in larger arrays at offsets 2 / 3
                let (res, calls) = match run_raw(alg, &oa[..], or.clone(), &na[..], nr.clone(), deadline) {
                    Ok(x) => x,
                    Err(p) => return Some(format!("{}: {} (clause: no input makes the call panic)", ctx("plain slices, sub-range"), p)),
                };
                if let Err(e) = res {
                    return Some(format!("{}: diff returned Err({}) although the hook never fails; calls={:?}", ctx("sub-range"), e, calls));
                }
                if let Err(e) = check_script(&calls, &oa, or.clone(), &na, nr.clone(), rules) {
                    return Some(format!("{}: calls={:?}: {}", ctx("sub-range"), calls, e));
                }
                // (b) the same through an Index wrapper that refuses reads outside the ranges
                let go = Guarded { data: &oa, range: or.clone(), side: "old" };
                let gn = Guarded { data: &na, range: nr.clone(), side: "new" };
                match run_raw(alg, &go, or.clone(), &gn, nr.clone(), deadline) {
                    Err(p) => return Some(format!("{}: {} (clause: indices are positions inside the caller's ranges / no panic)", ctx("guarded Index wrapper"), p)),
                    Ok((_, gcalls)) => {
                        if let Err(e) = check_script(&gcalls, &oa, or.clone(), &na, nr.clone(), rules) {
                            return Some(format!("{}: calls={:?}: {}", ctx("guarded Index wrapper"), gcalls, e));
                        }
                    }
                }
                // (c) extracted slices, shifted by the range starts, must give the same callbacks
                match run_raw(alg, &o[..], 0..o.len(), &n[..], 0..n.len(), deadline) {
                    Err(p) => return Some(format!("{}: on the extracted slices {:?} / {:?}: {}", ctx("extracted slices"), o, n, p)),
                    Ok((_, scalls)) => {
                        if let Err(e) = check_script(&scalls, o, 0..o.len(), n, 0..n.len(), rules) {
                            return Some(format!("{} alg={:?} old={:?} new={:?} deadline={}: calls={:?}: {}", mode, alg, o, n, dl_txt, scalls, e));
                        }
                        let sh = shift(&scalls, or.start, nr.start);
                        if sh != calls {
                            return Some(format!("{}: sub-range calls={:?} but extracted slices shifted by the range starts give {:?} (clause: diffing a sub-range equals diffing the extracted slices shifted by the range starts)", ctx("sub-range vs slices"), calls, sh));
                        }
                    }
                }
                // C07 only: the capture pipeline with the expired deadline gives a valid op list (C02 sense)
                if expired {
                    *cases += 1;
                    let ops = match guard(|| capture_diff_deadline(alg, &oa[..], or.clone(), &na[..], nr.clone(), deadline)) {
                        Ok(x) => x,
                        Err(p) => return Some(format!("{}: capture_diff_deadline: {}", ctx("capture"), p)),
                    };
                    let lax = Rules { carried: Carried::Ignore, finish: Fin::Ignore, nonempty: false };
                    if let Err(e) = check_script(&ops_calls(&ops), &oa, or.clone(), &na, nr.clone(), lax) {
                        return Some(format!("{}: capture_diff_deadline ops={:?}: {}", ctx("capture"), ops, e));
                    }
                }
            }
        }
    }
    None
}

fn c01(cases: &mut u64) -> Option<String> {
    raw_modes("C01", 6, false, cases)
}

/// C07: only "expired before the start" can be scheduled through the public API (the algorithms
/// read the clock themselves; there is no injectable clock), so mid-run expiry is not covered here.
fn c07(cases: &mut u64) -> Option<String> {
    raw_modes("C07", 5, true, cases)
}

// @@PART2@@
