
// ---------------------------------------------------------------------------------------
// Kani stand-in for the ASSUMED Verus contract of `unique` (src/algorithms/utils.rs).
// Appended by tools/standins.py to a scratch copy of src/algorithms/utils.rs.
//
// Bound: lookup is a slice `&[u8]` of concrete length LEN with symbolic contents over SYMS
// symbols, range symbolic with start <= end <= LEN.  (HashMap with RandomState under CBMC is
// expensive: SipHash over symbolic keys, hashbrown's SIMD-group probing, into_iter, sort.)
//
// Contract:
//   (a) returned indices strictly increasing
//   (b) every returned index lies in `range`
//   (c) the item at a returned index occurs exactly once in `range`
//   (d) every index in `range` whose item occurs exactly once in `range` is returned
//   + no panic / overflow / out-of-bounds
// ---------------------------------------------------------------------------------------
#[cfg(kani)]
mod verif_harness_unique {
    use super::*;

    fn occurrences(a: &[u8], r: &Range<usize>, v: u8) -> usize {
        let mut c = 0;
        let mut i = 0;
        while i < a.len() {
            if r.start <= i && i < r.end && a[i] == v {
                c += 1;
            }
            i += 1;
        }
        c
    }

    fn check<const LEN: usize>(syms: u8) {
        let mut a = [0u8; LEN];
        let mut i = 0;
        while i < LEN {
            let v: u8 = kani::any();
            kani::assume(v < syms);
            a[i] = v;
            i += 1;
        }
        let s: usize = kani::any();
        let e: usize = kani::any();
        kani::assume(s <= e && e <= LEN);
        let range = s..e;

        let rv = unique(&a[..], range.clone());

        assert!(rv.len() <= LEN, "b: no more results than items");
        let mut returned = [false; LEN];
        let mut j = 0;
        while j < LEN {
            if j < rv.len() {
                let idx = rv[j].original_index();
                assert!(range.start <= idx && idx < range.end, "b: returned index inside range");
                if j > 0 {
                    assert!(rv[j - 1].original_index() < idx, "a: returned indices strictly increasing");
                }
                if idx < LEN {
                    assert!(*rv[j].value() == a[idx], "value() is lookup[index]");
                    assert!(occurrences(&a, &range, a[idx]) == 1, "c: returned item occurs exactly once in range");
                    returned[idx] = true;
                }
            }
            j += 1;
        }
        let mut k = 0;
        while k < LEN {
            if range.start <= k && k < range.end && occurrences(&a, &range, a[k]) == 1 {
                assert!(returned[k], "d: every item occurring exactly once in range is returned");
            }
            k += 1;
        }
    }

    #[kani::proof]
    #[kani::unwind(5)]
    fn unique_len2_sym2() {
        check::<2>(2);
    }

    #[kani::proof]
    #[kani::unwind(6)]
    fn unique_len3_sym2() {
        check::<3>(2);
    }

    #[kani::proof]
    #[kani::unwind(6)]
    fn unique_len3_sym3() {
        check::<3>(3);
    }
}
