
// ---------------------------------------------------------------------------------------
// Kani harness for the ASSUMED Verus contract of `unique` (src/algorithms/utils.rs).
//
// NOT REGISTERED in tools/standins.py: INFEASIBLE with Kani 0.68 / CBMC 6.11 on this machine
// (probed 2026-10-04): `unique_len2_sym2` (2 items, 2 symbols, symbolic range) hit the 600 s
// harness timeout, and even a 1-item slice (one symbolic u8) with the concrete range 0..1 did
// not get out of symbolic execution in 360 s (HashMap<_, _, RandomState> entry API + SipHash +
// hashbrown into_iter + collect + sort_by_key's smallsort over a Vec of symbolic length).
// The contract of `unique` therefore stays assumed-only.  The file is kept so that the probe can
// be repeated (append to src/algorithms/utils.rs of a scratch copy).
//
// Bound: lookup is a slice `&[u8]` of concrete length LEN with symbolic contents over SYMS
// symbols, range symbolic with start <= end <= LEN.  (HashMap with RandomState under CBMC is
// expensive: SipHash over symbolic keys, hashbrown's SIMD-group probing, into_iter, sort.)
//
// Contract:
//   (a) returned indices strictly increasing
//   (b) every returned index lies in `range`
//   (c) the item at a returned index occurs exactly once in `range`
//   (d) every index in `range` whose item occurs exactly once in `range` is returned
//   + no panic / overflow / out-of-bounds
// ---------------------------------------------------------------------------------------
#[cfg(kani)]
mod verif_harness_unique {
    use super::*;

    fn occurrences(a: &[u8], r: &Range<usize>, v: u8) -> usize {
        let mut c = 0;
        let mut i = 0;
        while i < a.len() {
            if r.start <= i && i < r.end && a[i] == v {
                c += 1;
            }
            i += 1;
        }
        c
    }

    fn check<const LEN: usize>(syms: u8) {
        let mut a = [0u8; LEN];
        let mut i = 0;
        while i < LEN {
            let v: u8 = kani::any();
            kani::assume(v < syms);
            a[i] = v;
            i += 1;
        }
        let s: usize = kani::any();
        let e: usize = kani::any();
        kani::assume(s <= e && e <= LEN);
        let range = s..e;

        let rv = unique(&a[..], range.clone());

        assert!(rv.len() <= LEN, "b: no more results than items");
        let mut returned = [false; LEN];
        let mut j = 0;
        while j < LEN {
            if j < rv.len() {
                let idx = rv[j].original_index();
                assert!(range.start <= idx && idx < range.end, "b: returned index inside range");
                if j > 0 {
                    assert!(rv[j - 1].original_index() < idx, "a: returned indices strictly increasing");
                }
                if idx < LEN {
                    assert!(*rv[j].value() == a[idx], "value() is lookup[index]");
                    assert!(occurrences(&a, &range, a[idx]) == 1, "c: returned item occurs exactly once in range");
                    returned[idx] = true;
                }
            }
            j += 1;
        }
        let mut k = 0;
        while k < LEN {
            if range.start <= k && k < range.end && occurrences(&a, &range, a[k]) == 1 {
                assert!(returned[k], "d: every item occurring exactly once in range is returned");
            }
            k += 1;
        }
    }

    #[kani::proof]
    #[kani::unwind(5)]
    fn unique_len2_sym2() {
        check::<2>(2);
    }

    #[kani::proof]
    #[kani::unwind(6)]
    fn unique_len3_sym2() {
        check::<3>(2);
    }

    #[kani::proof]
    #[kani::unwind(6)]
    fn unique_len3_sym3() {
        check::<3>(3);
    }
}
