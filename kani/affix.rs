
// ---------------------------------------------------------------------------------------
// Kani stand-in for the ASSUMED Verus contracts of `common_prefix_len` / `common_suffix_len`
// (contracts/algutils.rs).  Appended by tools/standins.py to a scratch copy of
// src/algorithms/utils.rs; never added to /repo.
//
// Bound: both lookups are slices `&[u8]` of symbolic length 0..=4 with symbolic contents over a
// 3-symbol alphabet; both ranges are symbolic with `start <= end <= slice.len()` (so empty ranges,
// ranges at a non-zero offset and ranges ending at the slice end are all included).
//
// Contract (callers guarantee start <= end):
//   requires  old_range, new_range in bounds
//   (a) r == 0 || (old_range.start + r <= old_range.end && new_range.start + r <= new_range.end)
//   (b) the first (prefix) / last (suffix) r pairs are equal
//   (c) maximal: if both ranges have an (r+1)-th pair, that pair differs
//   + no panic / overflow / out-of-bounds (Kani default checks)
// ---------------------------------------------------------------------------------------
#[cfg(kani)]
mod verif_harness_affix {
    use super::*;

    const L: usize = 4;

    fn sym_slice(a: &mut [u8; L]) -> usize {
        let mut i = 0;
        while i < L {
            let v: u8 = kani::any();
            kani::assume(v < 3);
            a[i] = v;
            i += 1;
        }
        let len: usize = kani::any();
        kani::assume(len <= L);
        len
    }

    fn sym_range(len: usize) -> Range<usize> {
        let s: usize = kani::any();
        let e: usize = kani::any();
        kani::assume(s <= e && e <= len);
        s..e
    }

    #[kani::proof]
    #[kani::unwind(6)]
    fn affix_prefix() {
        let (mut oa, mut na) = ([0u8; L], [0u8; L]);
        let ol = sym_slice(&mut oa);
        let nl = sym_slice(&mut na);
        let (old, new) = (&oa[..ol], &na[..nl]);
        let or = sym_range(ol);
        let nr = sym_range(nl);

        let r = common_prefix_len(old, or.clone(), new, nr.clone());

        let fits = or.start + r <= or.end && nr.start + r <= nr.end;
        assert!(r == 0 || fits, "a: prefix length fits into both ranges");
        if fits {
            let mut i = 0;
            while i < L {
                if i < r {
                    assert!(new[nr.start + i] == old[or.start + i], "b: the first r pairs are equal");
                }
                i += 1;
            }
            if or.start + r < or.end && nr.start + r < nr.end {
                assert!(new[nr.start + r] != old[or.start + r], "c: maximal (pair r+1 differs)");
            }
        }
    }

    #[kani::proof]
    #[kani::unwind(6)]
    fn affix_suffix() {
        let (mut oa, mut na) = ([0u8; L], [0u8; L]);
        let ol = sym_slice(&mut oa);
        let nl = sym_slice(&mut na);
        let (old, new) = (&oa[..ol], &na[..nl]);
        let or = sym_range(ol);
        let nr = sym_range(nl);

        let r = common_suffix_len(old, or.clone(), new, nr.clone());

        let fits = or.start + r <= or.end && nr.start + r <= nr.end;
        assert!(r == 0 || fits, "a: suffix length fits into both ranges");
        if fits {
            let mut i = 0;
            while i < L {
                if i < r {
                    assert!(new[nr.end - r + i] == old[or.end - r + i], "b: the last r pairs are equal");
                }
                i += 1;
            }
            if or.start + r < or.end && nr.start + r < nr.end {
                assert!(new[nr.end - r - 1] != old[or.end - r - 1], "c: maximal (pair r+1 from the end differs)");
            }
        }
    }
}
