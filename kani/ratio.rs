
// ---------------------------------------------------------------------------------------
// Kani harnesses for the f32 clause of `get_diff_ratio` (src/common.rs).  Appended by
// tools/standins.py to a scratch copy of src/common.rs; never added to /repo.
//
// The function sums the `Equal` lengths of an op slice and evaluates
// `2.0 * matches as f32 / len as f32`.  The integer part (the sum) is proved on the Verus side;
// here the op slice is the 1-element ARRAY `[DiffOp::Equal { len: matches, .. }]` (no Vec), so the
// harness is loop-free apart from the 1-element `.iter().map().sum()`, unwound completely with
// `#[kani::unwind(3)]` (unwinding assertion on).  The harnesses are therefore COMPLETE over the
// stated domain, not bounded samples:
//   ratio_range      all (matches, old_len, new_len) in usize^3 with matches <= min(old_len, new_len)
//                    and old_len + new_len not overflowing:  0.0 <= r <= 1.0
//   ratio_one_iff    additionally old_len + new_len <= 2^24:  r == 1.0  <==>  2*matches == old_len + new_len
//   ratio_unbounded  the same equivalence WITHOUT the 2^24 bound.  EXPECTED TO FAIL on the current
//                    tree: known finding K2 (f32 rounding), e.g. matches = old_len = 2^24,
//                    new_len = 2^24 + 1 gives 1.0.
// ---------------------------------------------------------------------------------------
#[cfg(kani)]
mod verif_harness_ratio {
    use super::*;

    fn domain() -> (usize, usize, usize) {
        let matches: usize = kani::any();
        let old_len: usize = kani::any();
        let new_len: usize = kani::any();
        kani::assume(old_len <= usize::MAX - new_len); // old_len + new_len does not overflow
        kani::assume(matches <= old_len);
        kani::assume(matches <= new_len);
        (matches, old_len, new_len)
    }

    fn ratio(matches: usize, old_len: usize, new_len: usize) -> f32 {
        let ops = [DiffOp::Equal { old_index: 0, new_index: 0, len: matches }];
        get_diff_ratio(&ops, old_len, new_len)
    }

    #[kani::proof]
    #[kani::unwind(3)]
    fn ratio_range() {
        let (matches, old_len, new_len) = domain();
        let r = ratio(matches, old_len, new_len);
        assert!(r >= 0.0, "a: ratio >= 0.0 (and not NaN)");
        assert!(r <= 1.0, "a: ratio <= 1.0 (and not NaN)");
    }

    #[kani::proof]
    #[kani::unwind(3)]
    fn ratio_one_iff() {
        let (matches, old_len, new_len) = domain();
        kani::assume(old_len + new_len <= (1usize << 24));
        let r = ratio(matches, old_len, new_len);
        if 2 * matches == old_len + new_len {
            assert!(r == 1.0, "b: identical totals give exactly 1.0 (len <= 2^24)");
        } else {
            assert!(r != 1.0, "b: 1.0 only when 2*matches == old_len + new_len (len <= 2^24)");
        }
    }

    #[kani::proof]
    #[kani::unwind(3)]
    fn ratio_unbounded() {
        let (matches, old_len, new_len) = domain();
        let r = ratio(matches, old_len, new_len);
        if 2 * matches == old_len + new_len {
            assert!(r == 1.0, "b: identical totals give exactly 1.0 (full domain)");
        } else {
            assert!(r != 1.0, "b: 1.0 only when 2*matches == old_len + new_len (full domain)");
        }
    }
}
