
// ---------------------------------------------------------------------------------------
// Kani stand-in for the ASSUMED Verus contract of `find_middle_snake` (contracts/myers.rs).
// Appended by tools/standins.py to a scratch copy of src/algorithms/myers.rs; never added
// to /repo.  One harness per concrete (n, m); contents symbolic over a 3-symbol alphabet;
// the box sits at a non-zero, different offset in each of two slightly larger slices, the
// padding items are symbolic too.  All CBMC default checks (panic, overflow, bounds,
// unwinding assertions) are on.
//
// Clauses (numbering of DESIGN.md / the task):
//   (i)   no panic / overflow / out-of-bounds              : Kani default checks
//   (ii)  Some((x,y)) => (x,y) inside the closed box
//   (iii) first pair differs && last pair differs => (x,y) is neither corner of the box
//   (iv)  deadline == None => result is Some
//   (v)   lcs(box) == lcs(left box) + lcs(right box)       : `full` harnesses only
//   (vi)  vf.v.len(), vf.offset, vb.v.len(), vb.offset unchanged (and len == 2*offset)
// Not covered: `dl_expired(deadline) ==> None` (an `Instant` cannot be made symbolically:
// `Instant::now` is a syscall).
//
// Harness kinds:
//   snake_basic_N_M        clauses (i)-(iv),(vi); V = V::new(max_d(n,m))
//   snake_bigv_N_M         same, V = V::new(max_d(n+3, m+2)) (V made for a larger outer box,
//                          which is how `conquer` calls it on sub-boxes)
//   snake_stale_N_M        same as bigv, but every cell of vf.v / vb.v holds an arbitrary
//                          usize first (the Verus contract only asks wf + offset >= max_d;
//                          `conquer` re-uses the vectors across recursive calls)
//   snake_full_N_M         clauses (i)-(vi) with an in-harness prefix/suffix LCS table
// ---------------------------------------------------------------------------------------
#[cfg(kani)]
mod verif_harness {
    use super::*;

    const OLD_OFF: usize = 1; // box starts at old[1]
    const NEW_OFF: usize = 2; // box starts at new[2]
    const OLD_PAD: usize = 2; // old.len() == n + 2  (one item before, one after)
    const NEW_PAD: usize = 3; // new.len() == m + 3  (two before, one after)

    fn sym3() -> u8 {
        let v: u8 = kani::any();
        kani::assume(v < 3);
        v
    }

    fn fill(a: &mut [u8]) {
        let mut i = 0;
        while i < a.len() {
            a[i] = sym3();
            i += 1;
        }
    }

    fn make_v(cap_n: usize, cap_m: usize, stale: bool) -> V {
        let mut v = V::new(max_d(cap_n, cap_m));
        if stale {
            let mut i = 0;
            while i < v.v.len() {
                v.v[i] = kani::any();
                i += 1;
            }
        }
        v
    }

    /// clauses (ii), (iii), (iv), (vi); returns the split point
    fn check_basic<const N: usize, const M: usize, const OL: usize, const NL: usize>(
        extra_n: usize,
        extra_m: usize,
        stale: bool,
    ) -> ([u8; OL], [u8; NL], usize, usize) {
        let mut old = [0u8; OL];
        let mut new = [0u8; NL];
        fill(&mut old);
        fill(&mut new);
        let or = OLD_OFF..OLD_OFF + N;
        let nr = NEW_OFF..NEW_OFF + M;
        let mut vf = make_v(N + extra_n, M + extra_m, stale);
        let mut vb = make_v(N + extra_n, M + extra_m, stale);
        let (vf_len, vf_off, vb_len, vb_off) = (vf.v.len(), vf.offset, vb.v.len(), vb.offset);

        let res = find_middle_snake(&old[..], or.clone(), &new[..], nr.clone(), &mut vf, &mut vb, None);

        // (vi)
        assert!(vf.v.len() == vf_len, "vi: vf.v.len() unchanged");
        assert!(vf.offset == vf_off, "vi: vf.offset unchanged");
        assert!(vb.v.len() == vb_len, "vi: vb.v.len() unchanged");
        assert!(vb.offset == vb_off, "vi: vb.offset unchanged");
        assert!(vf.v.len() == 2 * (vf.offset as usize) && vb.v.len() == 2 * (vb.offset as usize), "vi: wf (len == 2*offset)");
        // (iv)
        assert!(res.is_some(), "iv: deadline None => Some");
        let (x, y) = match res {
            Some(p) => p,
            None => (or.start, nr.start), // unreachable when (iv) holds; keeps the rest well defined
        };
        // (ii)
        assert!(or.start <= x && x <= or.end, "ii: x inside old_range (closed)");
        assert!(nr.start <= y && y <= nr.end, "ii: y inside new_range (closed)");
        // (iii)
        let first_differs = new[nr.start] != old[or.start];
        let last_differs = new[nr.end - 1] != old[or.end - 1];
        if first_differs && last_differs {
            assert!(!(x == or.start && y == nr.start), "iii: split is not the top-left corner");
            assert!(!(x == or.end && y == nr.end), "iii: split is not the bottom-right corner");
        }
        (old, new, x, y)
    }

    /// clause (v): pre[i][j] = lcs(old[os..os+i], new[ns..ns+j]), suf[i][j] = lcs(old[os+i..oe], new[ns+j..ne])
    fn check_split<const N: usize, const M: usize, const N1: usize, const M1: usize>(
        old: &[u8],
        new: &[u8],
        x: usize,
        y: usize,
    ) {
        let (os, ns) = (OLD_OFF, NEW_OFF);
        let mut pre = [[0usize; M1]; N1];
        let mut i = 1;
        while i <= N {
            let mut j = 1;
            while j <= M {
                pre[i][j] = if new[ns + j - 1] == old[os + i - 1] {
                    pre[i - 1][j - 1] + 1
                } else if pre[i - 1][j] >= pre[i][j - 1] {
                    pre[i - 1][j]
                } else {
                    pre[i][j - 1]
                };
                j += 1;
            }
            i += 1;
        }
        let mut suf = [[0usize; M1]; N1];
        let mut i = N;
        while i > 0 {
            i -= 1;
            let mut j = M;
            while j > 0 {
                j -= 1;
                suf[i][j] = if new[ns + j] == old[os + i] {
                    suf[i + 1][j + 1] + 1
                } else if suf[i + 1][j] >= suf[i][j + 1] {
                    suf[i + 1][j]
                } else {
                    suf[i][j + 1]
                };
            }
        }
        // x, y are inside the closed box (checked by (ii) just before; guard keeps this index in bounds regardless)
        if os <= x && x <= os + N && ns <= y && y <= ns + M {
            assert!(pre[N][M] == suf[0][0], "v: harness DP self-check (prefix table total == suffix table total)");
            assert!(pre[N][M] == pre[x - os][y - ns] + suf[x - os][y - ns], "v: lcs(box) == lcs(left box) + lcs(right box)");
        }
    }

    macro_rules! snake_basic {
        ($name:ident, $n:expr, $m:expr, $unw:expr) => {
            #[kani::proof]
            #[kani::unwind($unw)]
            fn $name() {
                let _ = check_basic::<$n, $m, { $n + OLD_PAD }, { $m + NEW_PAD }>(0, 0, false);
            }
        };
    }
    macro_rules! snake_bigv {
        ($name:ident, $n:expr, $m:expr, $unw:expr) => {
            #[kani::proof]
            #[kani::unwind($unw)]
            fn $name() {
                let _ = check_basic::<$n, $m, { $n + OLD_PAD }, { $m + NEW_PAD }>(3, 2, false);
            }
        };
    }
    macro_rules! snake_stale {
        ($name:ident, $n:expr, $m:expr, $unw:expr) => {
            #[kani::proof]
            #[kani::unwind($unw)]
            fn $name() {
                let _ = check_basic::<$n, $m, { $n + OLD_PAD }, { $m + NEW_PAD }>(3, 2, true);
            }
        };
    }
    macro_rules! snake_full {
        ($name:ident, $n:expr, $m:expr, $unw:expr) => {
            #[kani::proof]
            #[kani::unwind($unw)]
            fn $name() {
                let (old, new, x, y) = check_basic::<$n, $m, { $n + OLD_PAD }, { $m + NEW_PAD }>(0, 0, false);
                check_split::<$n, $m, { $n + 1 }, { $m + 1 }>(&old[..], &new[..], x, y);
            }
        };
    }

    // unwind bound (REQUIRED: without one the 3x3 harness did not finish in 20 min, with it ~100 s):
    // max(max_d(n,m), n+2, m+3) + 2, i.e. the harness' slice fills and every loop of find_middle_snake
    // (d < d_max, at most d+1 values of k, prefix/suffix scans of at most max(n,m) items); stale harnesses:
    // 2*max_d(n+3,m+2) + 2 for the fill of V.  Unwinding assertions are on, so a bound that is too small
    // is reported (standins.py: "undetermined" => inconclusive), never silently accepted.
    snake_basic!(snake_basic_1_1, 1, 1, 6);
    snake_basic!(snake_basic_1_2, 1, 2, 7);
    snake_basic!(snake_basic_1_3, 1, 3, 8);
    snake_basic!(snake_basic_2_1, 2, 1, 6);
    snake_basic!(snake_basic_2_2, 2, 2, 7);
    snake_basic!(snake_basic_2_3, 2, 3, 8);
    snake_basic!(snake_basic_3_1, 3, 1, 7);
    snake_basic!(snake_basic_3_2, 3, 2, 7);
    snake_basic!(snake_basic_3_3, 3, 3, 8);
    snake_basic!(snake_basic_2_5, 2, 5, 10);
    snake_basic!(snake_basic_5_2, 5, 2, 9);
    snake_basic!(snake_basic_5_5, 5, 5, 10);

    snake_bigv!(snake_bigv_2_2, 2, 2, 7);
    snake_bigv!(snake_bigv_3_2, 3, 2, 7);
    snake_stale!(snake_stale_2_2, 2, 2, 14);
    snake_stale!(snake_stale_3_3, 3, 3, 16);

    snake_full!(snake_full_1_1, 1, 1, 6);
    snake_full!(snake_full_1_2, 1, 2, 7);
    snake_full!(snake_full_1_3, 1, 3, 8);
    snake_full!(snake_full_1_4, 1, 4, 9);
    snake_full!(snake_full_2_1, 2, 1, 6);
    snake_full!(snake_full_2_2, 2, 2, 7);
    snake_full!(snake_full_2_3, 2, 3, 8);
    snake_full!(snake_full_2_4, 2, 4, 9);
    snake_full!(snake_full_3_1, 3, 1, 7);
    snake_full!(snake_full_3_2, 3, 2, 7);
    snake_full!(snake_full_3_3, 3, 3, 8);
    snake_full!(snake_full_3_4, 3, 4, 9);
    snake_full!(snake_full_4_1, 4, 1, 8);
    snake_full!(snake_full_4_2, 4, 2, 8);
    snake_full!(snake_full_4_3, 4, 3, 8);
    snake_full!(snake_full_4_4, 4, 4, 9);
}
