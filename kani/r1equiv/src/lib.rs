//! Equivalence of rewrite rule R1 (tools/rewrites.py), which the Verus side applies to the two
//! `k` loops of `find_middle_snake`:
//!
//!     for k in (-d..=d).rev().step_by(2) { B }     ==>     let mut k = d; while k >= -d { B; k -= 2; }
//!
//! (`B` has no `continue`; the rule refuses to fire otherwise.)  The harness records the sequence
//! of `k` values both loops visit for a symbolic `d` in `0..=D_MAX` and asserts that the two
//! sequences have the same length and the same elements in the same order.  It is complete for
//! that range of `d`: both loops are unwound `D_MAX + 3` times with the unwinding assertion on.
//! Stand-alone: needs nothing from the `similar` crate.

#[cfg(kani)]
mod verif_harness_r1 {
    const D_MAX: isize = 64;
    const CAP: usize = D_MAX as usize + 2;

    #[kani::proof]
    #[kani::unwind(67)]
    fn r1_same_k_sequence() {
        let d: isize = kani::any();
        kani::assume(0 <= d && d <= D_MAX);

        let mut a = [0isize; CAP];
        let mut na = 0usize;
        for k in (-d..=d).rev().step_by(2) {
            a[na] = k;
            na += 1;
        }

        let mut b = [0isize; CAP];
        let mut nb = 0usize;
        let mut k = d;
        while k >= -d {
            b[nb] = k;
            nb += 1;
            k -= 2;
        }

        assert!(na == nb, "R1: both loops run the same number of iterations");
        assert!(na == d as usize + 1, "R1: d + 1 iterations");
        let mut i = 0;
        while i < CAP {
            if i < na {
                assert!(a[i] == b[i], "R1: the i-th visited k is the same");
                assert!(a[i] == d - 2 * (i as isize), "R1: the i-th visited k is d - 2i");
            }
            i += 1;
        }
    }
}
