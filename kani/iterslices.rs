
// ---------------------------------------------------------------------------------------
// Kani harness for `DiffOp::iter_slices` (src/types.rs).  Appended by tools/standins.py to a
// scratch copy of src/types.rs; never added to /repo.
//
// `iter_slices` is loop-free (`Some(..).into_iter().chain(..)`), and it touches the sequences only
// through `Index<Range<usize>>`.  The harness instantiates the REAL generic function at an abstract
// recording sequence (`Probe`: indexing with a range returns a record of which side was indexed with
// which range) and calls `next()` three times.  All four op kinds and ALL `usize` field values are
// symbolic; the only assumption is the function's precondition that the index ranges it forms do
// not overflow (`index + len <= usize::MAX`, true for every op that lies inside two sequences).
// The harness is therefore COMPLETE over the stated domain (no unwinding bound is involved):
//   Equal   -> exactly one item (Equal,  old[old_index .. old_index+len])      [or the same range of new]
//   Delete  -> exactly one item (Delete, old[old_index .. old_index+old_len])
//   Insert  -> exactly one item (Insert, new[new_index .. new_index+new_len])
//   Replace -> exactly two items, the Delete slice then the Insert slice
//   and nothing after them.
// ---------------------------------------------------------------------------------------
#[cfg(kani)]
mod verif_harness_slices {
    use super::*;
    use std::ops::{Index, Range};

    pub struct Rec {
        side: u8,
        start: usize,
        end: usize,
    }
    pub struct Probe {
        side: u8,
    }
    impl Index<Range<usize>> for Probe {
        type Output = Rec;
        fn index(&self, r: Range<usize>) -> &Rec {
            Box::leak(Box::new(Rec { side: self.side, start: r.start, end: r.end }))
        }
    }

    fn is(item: &Option<(ChangeTag, &Rec)>, tag: ChangeTag, side: u8, start: usize, len: usize) -> bool {
        match item {
            Some((t, r)) => *t == tag && r.side == side && r.start == start && r.end == start + len,
            None => false,
        }
    }

    #[kani::proof]
    fn iter_slices_exact() {
        let kind: u8 = kani::any();
        let old_index: usize = kani::any();
        let new_index: usize = kani::any();
        let old_len: usize = kani::any();
        let new_len: usize = kani::any();
        kani::assume(kind < 4);
        // precondition: the op lies inside two sequences, so its index ranges do not overflow
        kani::assume(old_index <= usize::MAX - old_len);
        kani::assume(new_index <= usize::MAX - new_len);
        if kind == 0 {
            kani::assume(new_index <= usize::MAX - old_len);
        }
        let op = match kind {
            0 => DiffOp::Equal { old_index, new_index, len: old_len },
            1 => DiffOp::Delete { old_index, old_len, new_index },
            2 => DiffOp::Insert { old_index, new_index, new_len },
            _ => DiffOp::Replace { old_index, old_len, new_index, new_len },
        };
        let old = Probe { side: 0 };
        let new = Probe { side: 1 };
        let mut it = op.iter_slices(&old, &new);
        let a = it.next();
        let b = it.next();
        let c = it.next();
        match kind {
            0 => {
                assert!(
                    is(&a, ChangeTag::Equal, 0, old_index, old_len) || is(&a, ChangeTag::Equal, 1, new_index, old_len),
                    "a: Equal yields the slice of its len items at its index"
                );
                assert!(b.is_none(), "b: Equal yields exactly one slice");
            }
            1 => {
                assert!(is(&a, ChangeTag::Delete, 0, old_index, old_len), "c: Delete yields old[old_index..old_index+old_len]");
                assert!(b.is_none(), "d: Delete yields exactly one slice");
            }
            2 => {
                assert!(is(&a, ChangeTag::Insert, 1, new_index, new_len), "e: Insert yields new[new_index..new_index+new_len]");
                assert!(b.is_none(), "f: Insert yields exactly one slice");
            }
            _ => {
                assert!(is(&a, ChangeTag::Delete, 0, old_index, old_len), "g: Replace yields its Delete slice first");
                assert!(is(&b, ChangeTag::Insert, 1, new_index, new_len), "h: Replace yields its Insert slice second");
            }
        }
        assert!(c.is_none(), "i: nothing after the op's slices");
    }

    // reachability: every kind is exercised (a cover that must be satisfiable)
    #[kani::proof]
    fn iter_slices_reach() {
        let old_index: usize = kani::any();
        let old_len: usize = kani::any();
        kani::assume(old_index <= usize::MAX - old_len);
        let op = DiffOp::Replace { old_index, old_len, new_index: 3, new_len: 4 };
        let old = Probe { side: 0 };
        let new = Probe { side: 1 };
        let mut it = op.iter_slices(&old, &new);
        let a = it.next();
        kani::cover!(a.is_some() && old_len > 1usize << 40, "reach: a Replace over a huge range yields a slice");
    }
}
