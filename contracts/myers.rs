// src/algorithms/myers.rs
verus! {
pub mod myers {
use super::*;

//@@ item src/algorithms/myers.rs :: ^struct V\b rw=R7
struct V {
    offset: isize,
    v: Vec<usize>, // Look into initializing this to -1 and storing isize
}
//@@ end

//@@ item src/algorithms/myers.rs :: ^impl V\b rw=R0
impl V {
    /*@*/ pub closed spec fn wf(&self) -> bool {
    /*@*/     1 <= self.offset && self.v.len() == 2 * self.offset && self.v.len() <= isize::MAX
    /*@*/ }
    /*@*/ pub closed spec fn at(&self, k: int) -> usize { self.v@[k + self.offset] }
    /*@*/ pub closed spec fn off(&self) -> int { self.offset as int }
    /*@*/ pub closed spec fn vv(&self) -> Seq<usize> { self.v@ }
    fn new(max_d: usize) -> (res: Self)
    /*@*/     requires 1 <= max_d, 2 * max_d <= isize::MAX,
    /*@*/     ensures res.wf(), res.offset == max_d,
    {
        Self {
            offset: max_d as isize,
            v: vec![0; 2 * max_d],
        }
    }

    fn len(&self) -> (res: usize)
    /*@*/     ensures res == self.v.len(),
    {
        self.v.len()
    }
}
//@@ end

//@@ item src/algorithms/myers.rs :: ^impl Index<isize> for V rw=R0
/*@*/ impl IndexSpecImpl<isize> for V {
/*@*/     closed spec fn index_req(&self, index: &isize) -> bool {
/*@*/         0 <= *index + self.offset < self.v.len() && *index + self.offset <= isize::MAX
/*@*/     }
/*@*/ }
impl Index<isize> for V {
    type Output = usize;

    fn index(&self, index: isize) -> (res: &Self::Output)
    /*@*/     ensures *res == self.at(index as int),
    {
        &self.v[(index + self.offset) as usize]
    }
}
//@@ end

//@@ item src/algorithms/myers.rs :: ^impl IndexMut<isize> for V rw=R0
impl IndexMut<isize> for V {
    fn index_mut(&mut self, index: isize) -> (res: &mut Self::Output)
    /*@*/     ensures *res == old(self).at(index as int),
    /*@*/         final(self).off() == old(self).off(),
    /*@*/         final(self).vv() == old(self).vv().update(index + old(self).off(), *final(res)),
    {
        &mut self.v[(index + self.offset) as usize]
    }
}
//@@ end

//@@ item src/algorithms/myers.rs :: ^fn max_d\b rw=R0
/*@*/ pub open spec fn max_d_spec(len1: int, len2: int) -> int { (len1 + len2 + 1) / 2 + 1 }
fn max_d(len1: usize, len2: usize) -> (res: usize)
/*@*/     requires len1 + len2 + 1 <= usize::MAX,
/*@*/     ensures res == max_d_spec(len1 as int, len2 as int),
{
    // XXX look into reducing the need to have the additional '+ 1'
    (len1 + len2 + 1) / 2 + 1
}
//@@ end

//@@ item src/algorithms/myers.rs :: ^fn split_at\b rw=R0
fn split_at(range: Range<usize>, at: usize) -> (res: (Range<usize>, Range<usize>))
/*@*/     ensures res.0.start == range.start, res.0.end == at, res.1.start == at, res.1.end == range.end,
{
    (range.start..at, at..range.end)
}
//@@ end

//@@ item src/algorithms/myers.rs :: ^fn find_middle_snake\b rw=R0
/*@*/ spec fn v_ok(v: &V, or: Range<usize>, nr: Range<usize>) -> bool {
/*@*/     v.wf() && v.offset >= max_d_spec(or.end - or.start, nr.end - nr.start)
/*@*/ }
/*@*/ #[verifier::external_body]  // assumed contract (Myers' middle-snake theorem); bounded Kani stand-in, see DESIGN.md
fn find_middle_snake<Old, New>(
    old: &Old,
    old_range: Range<usize>,
    new: &New,
    new_range: Range<usize>,
    vf: &mut V,
    vb: &mut V,
    deadline: Option<Instant>,
) -> (res: Option<(usize, usize)>)
where
    Old: Index<usize> + ?Sized,
    New: Index<usize> + ?Sized,
    New::Output: PartialEq<Old::Output>,
/*@*/     requires
/*@*/         box_pre(old, old_range, new, new_range), old_range.start < old_range.end, new_range.start < new_range.end,
/*@*/         v_ok(vstd::prelude::old(vf), old_range, new_range), v_ok(vstd::prelude::old(vb), old_range, new_range),
/*@*/     ensures
/*@*/         final(vf).wf(), final(vf).offset == vstd::prelude::old(vf).offset, final(vb).wf(), final(vb).offset == vstd::prelude::old(vb).offset,
/*@*/         res matches Some((x, y)) ==> old_range.start <= x <= old_range.end && new_range.start <= y <= new_range.end,
/*@*/         // when the first and the last pair of the box differ (conquer has stripped them) the split is a proper one
/*@*/         res matches Some((x, y)) ==> (!eqv(old, old_range.start as int, new, new_range.start as int) && !eqv(old, old_range.end - 1, new, new_range.end - 1))
/*@*/             ==> !(x == old_range.start && y == new_range.start) && !(x == old_range.end && y == new_range.end),
/*@*/         dl_expired(deadline) ==> res is None,
/*@*/         deadline is None ==> res is Some,
/*@*/         // C03, Myers' theorem (assumed with the rest of this contract): the middle snake lies on an optimal path, so the split is optimal
/*@*/         deadline is None ==> (res matches Some((x, y)) ==>
/*@*/             lcs_len(old, old_range.start as int, old_range.end as int, new, new_range.start as int, new_range.end as int)
/*@*/                 == lcs_len(old, old_range.start as int, x as int, new, new_range.start as int, y as int) + lcs_len(old, x as int, old_range.end as int, new, y as int, new_range.end as int)),
{
    let n = old_range.len();
    let m = new_range.len();

    // By Lemma 1 in the paper, the optimal edit script length is odd or even as
    // `delta` is odd or even.
    let delta = n as isize - m as isize;
    let odd = delta & 1 == 1;

    // The initial point at (0, -1)
    vf[1] = 0;
    // The initial point at (N, M+1)
    vb[1] = 0;

    // We only need to explore ceil(D/2) + 1
    let d_max = max_d(n, m);
    assert!(vf.len() >= d_max);
    assert!(vb.len() >= d_max);

    for d in 0..d_max as isize {
        // are we running for too long?
        if deadline_exceeded(deadline) {
            break;
        }

        // Forward path
        for k in (-d..=d).rev().step_by(2) {
            let mut x = if k == -d || (k != d && vf[k - 1] < vf[k + 1]) {
                vf[k + 1]
            } else {
                vf[k - 1] + 1
            };
            let y = (x as isize - k) as usize;

            // The coordinate of the start of a snake
            let (x0, y0) = (x, y);
            //  While these sequences are identical, keep moving through the
            //  graph with no cost
            if x < old_range.len() && y < new_range.len() {
                let advance = common_prefix_len(
                    old,
                    old_range.start + x..old_range.end,
                    new,
                    new_range.start + y..new_range.end,
                );
                x += advance;
            }

            // This is the new best x value
            vf[k] = x;

            // Only check for connections from the forward search when N - M is
            // odd and when there is a reciprocal k line coming from the other
            // direction.
            if odd && (k - delta).abs() <= (d - 1) {
                // TODO optimize this so we don't have to compare against n
                if vf[k] + vb[-(k - delta)] >= n {
                    // Return the snake
                    return Some((x0 + old_range.start, y0 + new_range.start));
                }
            }
        }

        // Backward path
        for k in (-d..=d).rev().step_by(2) {
            let mut x = if k == -d || (k != d && vb[k - 1] < vb[k + 1]) {
                vb[k + 1]
            } else {
                vb[k - 1] + 1
            };
            let mut y = (x as isize - k) as usize;

            // The coordinate of the start of a snake
            if x < n && y < m {
                let advance = common_suffix_len(
                    old,
                    old_range.start..old_range.start + n - x,
                    new,
                    new_range.start..new_range.start + m - y,
                );
                x += advance;
                y += advance;
            }

            // This is the new best x value
            vb[k] = x;

            if !odd && (k - delta).abs() <= d {
                // TODO optimize this so we don't have to compare against n
                if vb[k] + vf[-(k - delta)] >= n {
                    // Return the snake
                    return Some((n - x + old_range.start, m - y + new_range.start));
                }
            }
        }

        // TODO: Maybe there's an opportunity to optimize and bail early?
    }

    // deadline reached
    None
}
//@@ end

//@@ item src/algorithms/myers.rs :: ^fn conquer\b rw=R0
/*@*/ #[verifier::rlimit(80)]
fn conquer<Old, New, D>(
    d: &mut D,
    old: &Old,
    mut old_range: Range<usize>,
    new: &New,
    mut new_range: Range<usize>,
    vf: &mut V,
    vb: &mut V,
    deadline: Option<Instant>,
) -> (res: Result<(), D::Error>)
where
    Old: Index<usize> + ?Sized,
    New: Index<usize> + ?Sized,
    D: DiffHook,
    New::Output: PartialEq<Old::Output>,
/*@*/     requires
/*@*/         diff_pre(*vstd::prelude::old(d), old, old_range, new, new_range, alg_lvl(deadline)),
/*@*/         v_ok(vstd::prelude::old(vf), old_range, new_range), v_ok(vstd::prelude::old(vb), old_range, new_range),
/*@*/     ensures
/*@*/         err_post(*vstd::prelude::old(d), *final(d), res),
/*@*/         (*final(d)).fobs() == (*vstd::prelude::old(d)).fobs(),
/*@*/         (*final(d)).config() == (*vstd::prelude::old(d)).config(),
/*@*/         seg_post(*vstd::prelude::old(d), *final(d), old, old_range, new, new_range, alg_lvl(deadline), deadline is None, Seq::<Ev>::empty(), res.is_ok()),
/*@*/         final(vf).wf(), final(vf).offset == vstd::prelude::old(vf).offset, final(vb).wf(), final(vb).offset == vstd::prelude::old(vb).offset,
/*@*/     decreases (old_range.end - old_range.start) + (new_range.end - new_range.start),
{
    /*@*/ broadcast use {axiom_pure_index, axiom_pure_eq};
    /*@*/ let ghost rel = rel_of(old, new); let ghost lvl = alg_lvl(deadline);
    /*@*/ let ghost o0 = old_range.start as int; let ghost n0 = new_range.start as int;
    /*@*/ let ghost oe0 = old_range.end as int; let ghost ne0 = new_range.end as int;
    /*@*/ let ghost d0 = *d; let ghost t0 = d.trace(); let ghost rs0 = d.rely_st(); let ghost r1 = d.rely_rel();
    /*@*/ let ghost mut s: Seq<Ev> = Seq::empty();
    /*@*/ let ghost mut oc: int = o0; let ghost mut nc: int = n0;
    /*@*/ let ghost opt = deadline is None;      // C03: no deadline => the script is optimal
    /*@*/ let ghost mut eqs: int = 0;            // number of items reported equal so far
    /*@*/ proof { lemma_seg_empty(rel, lvl, o0, n0); lemma_run_empty(r1, rs0); assert(t0 + s =~= t0); assert(alg_inv(*d, d0, t0, s, rel, lvl, rs0, o0, n0, oc, nc)); }
    /*@*/ proof { assert(eqs == seg_eqs(rel, lvl, s, o0, n0, oc, nc)); }
    // Check for common prefix
    let common_prefix_len = common_prefix_len(old, old_range.clone(), new, new_range.clone());
    if common_prefix_len > 0 {
        /*@*/ proof { let e = Ev::Equal(old_range.start, new_range.start, common_prefix_len); if d0.relies() { pre_call(rel, r1, lvl, s, e, o0, n0, oc, nc, rs0); } }
        d.equal(old_range.start, new_range.start, common_prefix_len)?;
        /*@*/ proof { let e = Ev::Equal(old_range.start, new_range.start, common_prefix_len); post_call(rel, r1, lvl, s, e, o0, n0, oc, nc, rs0); assert((t0 + s).push(e) =~= t0 + s.push(e)); s = s.push(e); oc = oc + common_prefix_len; nc = nc + common_prefix_len;
        /*@*/     assert(alg_inv(*d, d0, t0, s, rel, lvl, rs0, o0, n0, oc, nc)); eqs = eqs + ev_eqs(e); assert(eqs == seg_eqs(rel, lvl, s, o0, n0, oc, nc)); }
    }
    old_range.start += common_prefix_len;
    new_range.start += common_prefix_len;

    // Check for common suffix
    let common_suffix_len = common_suffix_len(old, old_range.clone(), new, new_range.clone());
    let common_suffix = (
        old_range.end - common_suffix_len,
        new_range.end - common_suffix_len,
    );
    old_range.end -= common_suffix_len;
    new_range.end -= common_suffix_len;

    if is_empty_range(&old_range) && is_empty_range(&new_range) {
        // Do nothing
    } else if is_empty_range(&new_range) {
        /*@*/ proof { let e = Ev::Delete(old_range.start, (old_range.end - old_range.start) as usize, new_range.start); if d0.relies() { pre_call(rel, r1, lvl, s, e, o0, n0, oc, nc, rs0); } }
        d.delete(old_range.start, old_range.len(), new_range.start)?;
        /*@*/ proof { let e = Ev::Delete(old_range.start, (old_range.end - old_range.start) as usize, new_range.start); post_call(rel, r1, lvl, s, e, o0, n0, oc, nc, rs0); assert((t0 + s).push(e) =~= t0 + s.push(e)); s = s.push(e); oc = oc + (old_range.end - old_range.start);
        /*@*/     assert(alg_inv(*d, d0, t0, s, rel, lvl, rs0, o0, n0, oc, nc)); eqs = eqs + ev_eqs(e); assert(eqs == seg_eqs(rel, lvl, s, o0, n0, oc, nc)); }
    } else if is_empty_range(&old_range) {
        /*@*/ proof { let e = Ev::Insert(old_range.start, new_range.start, (new_range.end - new_range.start) as usize); if d0.relies() { pre_call(rel, r1, lvl, s, e, o0, n0, oc, nc, rs0); } }
        d.insert(old_range.start, new_range.start, new_range.len())?;
        /*@*/ proof { let e = Ev::Insert(old_range.start, new_range.start, (new_range.end - new_range.start) as usize); post_call(rel, r1, lvl, s, e, o0, n0, oc, nc, rs0); assert((t0 + s).push(e) =~= t0 + s.push(e)); s = s.push(e); nc = nc + (new_range.end - new_range.start);
        /*@*/     assert(alg_inv(*d, d0, t0, s, rel, lvl, rs0, o0, n0, oc, nc)); eqs = eqs + ev_eqs(e); assert(eqs == seg_eqs(rel, lvl, s, o0, n0, oc, nc)); }
    } else if let Some((x_start, y_start)) = find_middle_snake(
        old,
        old_range.clone(),
        new,
        new_range.clone(),
        vf,
        vb,
        deadline,
    ) {
        let (old_a, old_b) = split_at(old_range, x_start);
        let (new_a, new_b) = split_at(new_range, y_start);
        /*@*/ let ghost tm = d.trace(); let ghost rm = d.rely_st(); let ghost dm = *d;
        /*@*/ proof { if d0.relies() { lemma_seg_any(rel, r1, lvl, s, o0, n0, oc, nc, rs0); lemma_mono(r1, rs0, s); } }
        conquer(d, old, old_a, new, new_a, vf, vb, deadline)?;
        /*@*/ proof {
        /*@*/     let sa = choose|q: Seq<Ev>| #[trigger] seg(old, new, lvl, q, old_a.start as int, new_a.start as int, old_a.end as int, new_a.end as int)
        /*@*/         && d.trace() == tm + q + Seq::<Ev>::empty() && (dm.relies() ==> d.rely_st() == run_rel(dm.rely_rel(), rm, q))
        /*@*/         && (opt ==> seg_eqs(rel, lvl, q, old_a.start as int, new_a.start as int, old_a.end as int, new_a.end as int)
        /*@*/                 == lcs_len(old, old_a.start as int, old_a.end as int, new, new_a.start as int, new_a.end as int));
        /*@*/     lemma_seg_concat(rel, lvl, s, sa, o0, n0, oc, nc, old_a.end as int, new_a.end as int);
        /*@*/     lemma_run_concat(r1, rs0, s, sa);
        /*@*/     assert((t0 + s) + sa + Seq::<Ev>::empty() =~= t0 + (s + sa));
        /*@*/     eqs = eqs + seg_eqs(rel, lvl, sa, oc, nc, old_a.end as int, new_a.end as int);
        /*@*/     s = s + sa; oc = old_a.end as int; nc = new_a.end as int;
        /*@*/     assert(alg_inv(*d, d0, t0, s, rel, lvl, rs0, o0, n0, oc, nc)); assert(eqs == seg_eqs(rel, lvl, s, o0, n0, oc, nc));
        /*@*/ }
        /*@*/ let ghost tm = d.trace(); let ghost rm = d.rely_st(); let ghost dm = *d;
        /*@*/ proof { if d0.relies() { lemma_seg_any(rel, r1, lvl, s, o0, n0, oc, nc, rs0); lemma_mono(r1, rs0, s); } }
        conquer(d, old, old_b, new, new_b, vf, vb, deadline)?;
        /*@*/ proof {
        /*@*/     let sa = choose|q: Seq<Ev>| #[trigger] seg(old, new, lvl, q, old_b.start as int, new_b.start as int, old_b.end as int, new_b.end as int)
        /*@*/         && d.trace() == tm + q + Seq::<Ev>::empty() && (dm.relies() ==> d.rely_st() == run_rel(dm.rely_rel(), rm, q))
        /*@*/         && (opt ==> seg_eqs(rel, lvl, q, old_b.start as int, new_b.start as int, old_b.end as int, new_b.end as int)
        /*@*/                 == lcs_len(old, old_b.start as int, old_b.end as int, new, new_b.start as int, new_b.end as int));
        /*@*/     lemma_seg_concat(rel, lvl, s, sa, o0, n0, oc, nc, old_b.end as int, new_b.end as int);
        /*@*/     lemma_run_concat(r1, rs0, s, sa);
        /*@*/     assert((t0 + s) + sa + Seq::<Ev>::empty() =~= t0 + (s + sa));
        /*@*/     eqs = eqs + seg_eqs(rel, lvl, sa, oc, nc, old_b.end as int, new_b.end as int);
        /*@*/     s = s + sa; oc = old_b.end as int; nc = new_b.end as int;
        /*@*/     assert(alg_inv(*d, d0, t0, s, rel, lvl, rs0, o0, n0, oc, nc)); assert(eqs == seg_eqs(rel, lvl, s, o0, n0, oc, nc));
        /*@*/     assert(opt ==> eqs == common_prefix_len + lcs_len(old, o0 + common_prefix_len, oe0 - common_suffix_len, new, n0 + common_prefix_len, ne0 - common_suffix_len));   // the split is optimal (find_middle_snake)
        /*@*/ }
    } else {
        /*@*/ proof { let e = Ev::Delete(old_range.start, (old_range.end - old_range.start) as usize, new_range.start); if d0.relies() { pre_call(rel, r1, lvl, s, e, o0, n0, oc, nc, rs0); } }
        d.delete(
            old_range.start,
            old_range.end - old_range.start,
            new_range.start,
        )?;
        /*@*/ proof { let e = Ev::Delete(old_range.start, (old_range.end - old_range.start) as usize, new_range.start); post_call(rel, r1, lvl, s, e, o0, n0, oc, nc, rs0); assert((t0 + s).push(e) =~= t0 + s.push(e)); s = s.push(e); oc = oc + (old_range.end - old_range.start);
        /*@*/     assert(alg_inv(*d, d0, t0, s, rel, lvl, rs0, o0, n0, oc, nc)); eqs = eqs + ev_eqs(e); assert(eqs == seg_eqs(rel, lvl, s, o0, n0, oc, nc)); }
        /*@*/ proof { let e = Ev::Insert(old_range.start, new_range.start, (new_range.end - new_range.start) as usize); if d0.relies() { pre_call(rel, r1, lvl, s, e, o0, n0, oc, nc, rs0); } }
        d.insert(
            old_range.start,
            new_range.start,
            new_range.end - new_range.start,
        )?;
        /*@*/ proof { let e = Ev::Insert(old_range.start, new_range.start, (new_range.end - new_range.start) as usize); post_call(rel, r1, lvl, s, e, o0, n0, oc, nc, rs0); assert((t0 + s).push(e) =~= t0 + s.push(e)); s = s.push(e); nc = nc + (new_range.end - new_range.start);
        /*@*/     assert(alg_inv(*d, d0, t0, s, rel, lvl, rs0, o0, n0, oc, nc)); eqs = eqs + ev_eqs(e); assert(eqs == seg_eqs(rel, lvl, s, o0, n0, oc, nc)); }
    }

    /*@*/ proof {   // the one-sided leaves report nothing equal and an empty side has lcs 0; the fallback needs a deadline
    /*@*/     if opt && (o0 + common_prefix_len >= oe0 - common_suffix_len || n0 + common_prefix_len >= ne0 - common_suffix_len) { lemma_lcs_empty(old, o0 + common_prefix_len, oe0 - common_suffix_len, new, n0 + common_prefix_len, ne0 - common_suffix_len); }
    /*@*/     assert(opt ==> eqs == common_prefix_len + lcs_len(old, o0 + common_prefix_len, oe0 - common_suffix_len, new, n0 + common_prefix_len, ne0 - common_suffix_len));
    /*@*/ }
    if common_suffix_len > 0 {
        /*@*/ proof { let e = Ev::Equal(common_suffix.0, common_suffix.1, common_suffix_len); if d0.relies() { pre_call(rel, r1, lvl, s, e, o0, n0, oc, nc, rs0); } }
        d.equal(common_suffix.0, common_suffix.1, common_suffix_len)?;
        /*@*/ proof { let e = Ev::Equal(common_suffix.0, common_suffix.1, common_suffix_len); post_call(rel, r1, lvl, s, e, o0, n0, oc, nc, rs0); assert((t0 + s).push(e) =~= t0 + s.push(e)); s = s.push(e); oc = oc + common_suffix_len; nc = nc + common_suffix_len;
        /*@*/     assert(alg_inv(*d, d0, t0, s, rel, lvl, rs0, o0, n0, oc, nc)); eqs = eqs + ev_eqs(e); assert(eqs == seg_eqs(rel, lvl, s, o0, n0, oc, nc)); }
    }

    /*@*/ proof {
    /*@*/     assert(alg_inv(*d, d0, t0, s, rel, lvl, rs0, o0, n0, oc, nc));
    /*@*/     assert(oc == oe0 && nc == ne0);
    /*@*/     assert(t0 + s + Seq::<Ev>::empty() =~= t0 + s);
    /*@*/     assert(seg(old, new, lvl, s, o0, n0, oe0, ne0));
    /*@*/     if opt { lemma_lcs_strip(old, o0, oe0, new, n0, ne0, common_prefix_len as int, common_suffix_len as int); }
    /*@*/     assert(opt ==> eqs == lcs_len(old, o0, oe0, new, n0, ne0));
    /*@*/ }
    Ok(())
}
//@@ end

//@@ item src/algorithms/myers.rs :: ^pub fn diff_deadline\b rw=R0
pub fn diff_deadline<Old, New, D>(
    d: &mut D,
    old: &Old,
    old_range: Range<usize>,
    new: &New,
    new_range: Range<usize>,
    deadline: Option<Instant>,
) -> (res: Result<(), D::Error>)
where
    Old: Index<usize> + ?Sized,
    New: Index<usize> + ?Sized,
    D: DiffHook,
    New::Output: PartialEq<Old::Output>,
/*@*/     requires diff_pre(*vstd::prelude::old(d), old, old_range, new, new_range, alg_lvl(deadline)),
/*@*/     ensures
/*@*/         err_post(*vstd::prelude::old(d), *final(d), res),
/*@*/         (*final(d)).fobs() == (*vstd::prelude::old(d)).fobs(),
/*@*/         (*final(d)).config() == (*vstd::prelude::old(d)).config(),
/*@*/         seg_post(*vstd::prelude::old(d), *final(d), old, old_range, new, new_range, alg_lvl(deadline), deadline is None, fin::<D>(), res.is_ok()),
{
    let max_d = max_d(old_range.len(), new_range.len());
    let mut vb = V::new(max_d);
    let mut vf = V::new(max_d);
    conquer(
        d, old, old_range, new, new_range, &mut vf, &mut vb, deadline,
    )?;
    /*@*/ proof {
    /*@*/     let lvl = alg_lvl(deadline);
    /*@*/     let d0 = *vstd::prelude::old(d);
    /*@*/     let sa = choose|q: Seq<Ev>| #[trigger] seg(old, new, lvl, q, old_range.start as int, new_range.start as int, old_range.end as int, new_range.end as int)
    /*@*/         && d.trace() == d0.trace() + q + Seq::<Ev>::empty() && (d0.relies() ==> d.rely_st() == run_rel(d0.rely_rel(), d0.rely_st(), q))
    /*@*/         && (deadline is None ==> seg_eqs(rel_of(old, new), lvl, q, old_range.start as int, new_range.start as int, old_range.end as int, new_range.end as int)
    /*@*/                 == lcs_len(old, old_range.start as int, old_range.end as int, new, new_range.start as int, new_range.end as int));
    /*@*/     if d0.relies() { lemma_seg_any(rel_of(old, new), d0.rely_rel(), lvl, sa, old_range.start as int, new_range.start as int, old_range.end as int, new_range.end as int, d0.rely_st()); }
    /*@*/     assert(d0.trace() + sa + Seq::<Ev>::empty() + fin::<D>() =~= d0.trace() + sa + fin::<D>());
    /*@*/     assert(sa + Seq::<Ev>::empty() =~= sa);
    /*@*/     lemma_run_fin::<D>(d0.rely_rel(), d0.rely_st(), sa);
    /*@*/ }
    d.finish()
}
//@@ end

//@@ item src/algorithms/myers.rs :: ^pub fn diff\b rw=R0
pub fn diff<Old, New, D>(
    d: &mut D,
    old: &Old,
    old_range: Range<usize>,
    new: &New,
    new_range: Range<usize>,
) -> (res: Result<(), D::Error>)
where
    Old: Index<usize> + ?Sized,
    New: Index<usize> + ?Sized,
    D: DiffHook,
    New::Output: PartialEq<Old::Output>,
/*@*/     requires diff_pre(*vstd::prelude::old(d), old, old_range, new, new_range, alg_lvl(None)),
/*@*/     ensures
/*@*/         err_post(*vstd::prelude::old(d), *final(d), res),
/*@*/         (*final(d)).fobs() == (*vstd::prelude::old(d)).fobs(),
/*@*/         (*final(d)).config() == (*vstd::prelude::old(d)).config(),
/*@*/         seg_post(*vstd::prelude::old(d), *final(d), old, old_range, new, new_range, alg_lvl(None), true, fin::<D>(), res.is_ok()),
{
    diff_deadline(d, old, old_range, new, new_range, None)
}
//@@ end

} // mod myers
} // verus!
