//@@ include prelude.rs
//@@ include hook.rs
//@@ include algspec.rs
//@@ include algutils.rs
//@@ include lcs.rs
fn main() {}
