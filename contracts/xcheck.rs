// The exact, normal-form script checker (C09, C10, C11): every index of every event is the current
// cursor, no event is empty, Equal and non-Equal events strictly alternate.
verus! {

pub struct Xs {
    pub ok: bool, pub oc: int, pub nc: int,
    pub last: int,            // 0 = nothing yet, 1 = Equal, 2 = a change (Delete / Insert / Replace)
    pub dels: int, pub inss: int, pub eqs: int, pub oe: int, pub ne: int,
    pub strict: bool,         // carried indices must be exact too
}

pub open spec fn xcanon(o: int, n: int, oe: int, ne: int, strict: bool) -> Xs {
    Xs { ok: true, oc: o, nc: n, last: 0, dels: 0, inss: 0, eqs: 0, oe: oe, ne: ne, strict: strict }
}

pub open spec fn xstep(rel: Rel, st: Xs, ev: Ev) -> Xs {
    match ev {
        Ev::Equal(o, n, l) => Xs {
            ok: st.ok && l > 0 && o == st.oc && n == st.nc && st.last != 1 && st.oc + l <= st.oe && st.nc + l <= st.ne
                && (forall|i: int| 0 <= i < l ==> #[trigger] relk(rel, o as int, n as int, i)),
            oc: st.oc + l, nc: st.nc + l, last: 1, eqs: st.eqs + l, ..st },
        Ev::Delete(o, l, n) => Xs {
            ok: st.ok && l > 0 && o == st.oc && (st.strict ==> n == st.nc) && st.last != 2 && st.oc + l <= st.oe,
            oc: st.oc + l, last: 2, dels: st.dels + l, ..st },
        Ev::Insert(o, n, l) => Xs {
            ok: st.ok && l > 0 && (st.strict ==> o == st.oc) && n == st.nc && st.last != 2 && st.nc + l <= st.ne,
            nc: st.nc + l, last: 2, inss: st.inss + l, ..st },
        Ev::Replace(o, ol, n, nl) => Xs {
            ok: st.ok && ol > 0 && nl > 0 && o == st.oc && n == st.nc && st.last != 2 && st.oc + ol <= st.oe && st.nc + nl <= st.ne,
            oc: st.oc + ol, nc: st.nc + nl, last: 2, dels: st.dels + ol, inss: st.inss + nl, ..st },
        Ev::Finish => Xs { ok: false, ..st },
    }
}

pub open spec fn xrun(rel: Rel, st: Xs, s: Seq<Ev>) -> Xs
  decreases s.len()
{
    if s.len() == 0 { st } else { xstep(rel, xrun(rel, st, s.drop_last()), s.last()) }
}

pub proof fn lemma_xrun_push(rel: Rel, st: Xs, s: Seq<Ev>, e: Ev)
  ensures xrun(rel, st, s.push(e)) == xstep(rel, xrun(rel, st, s), e)
{
    assert(s.push(e).drop_last() =~= s);
}

pub proof fn lemma_xrun_mono(rel: Rel, st: Xs, s: Seq<Ev>)
  ensures ({ let st2 = xrun(rel, st, s); st2.oe == st.oe && st2.ne == st.ne && st2.strict == st.strict && st2.oc >= st.oc && st2.nc >= st.nc && (st2.ok ==> st.ok)
      && (st2.ok && st.oc <= st.oe && st.nc <= st.ne ==> st2.oc <= st2.oe && st2.nc <= st2.ne) })
  decreases s.len()
{
    if s.len() > 0 { lemma_xrun_mono(rel, st, s.drop_last()); }
}

/// a start state as a creator configures it: canonical (no open run, nothing counted yet, cursor at its recorded start),
/// box representable in usize
pub open spec fn start_ok0(r0: St) -> bool {
    wf(r0) && r0.ro == r0.oc && r0.rn == r0.nc && r0.po <= r0.oc && r0.pn <= r0.nc && 0 <= r0.oc && 0 <= r0.nc
    && r0.oe <= usize::MAX && r0.ne <= usize::MAX && r0.oc == r0.o0 && r0.nc == r0.n0 && r0.eqs == 0 && r0.dels == 0 && r0.inss == 0
}

/// an exact event at the cursor of a well-formed weak-checker state is accepted and leaves it well formed
pub proof fn lemma_step_exact(rel: Rel, st: St, e: Ev)
  requires wf(st),
     match e {
        Ev::Equal(o, n, l) => l > 0 && o == st.oc && n == st.nc && st.oc + l <= st.oe && st.nc + l <= st.ne
            && (forall|i: int| 0 <= i < l ==> #[trigger] relk(rel, o as int, n as int, i)),
        Ev::Delete(o, l, n) => l > 0 && o == st.oc && (st.lvl >= 1 ==> n == st.nc) && st.oc + l <= st.oe,
        Ev::Insert(o, n, l) => l > 0 && (st.lvl >= 1 ==> o == st.oc) && n == st.nc && st.nc + l <= st.ne,
        Ev::Replace(o, ol, n, nl) => st.lvl <= 1 && ol > 0 && nl > 0 && o == st.oc && n == st.nc && st.oc + ol <= st.oe && st.nc + nl <= st.ne,
        Ev::Finish => false,
     }
  ensures ({ let s2 = step_rel(rel, st, e); wf(s2) && s2.oe == st.oe && s2.ne == st.ne && s2.lvl == st.lvl
      && s2.oc == st.oc + (match e { Ev::Equal(o, n, l) => l as int, Ev::Delete(o, l, n) => l as int, Ev::Replace(o, ol, n, nl) => ol as int, _ => 0 })
      && s2.nc == st.nc + (match e { Ev::Equal(o, n, l) => l as int, Ev::Insert(o, n, l) => l as int, Ev::Replace(o, ol, n, nl) => nl as int, _ => 0 }) })
{
    reveal(step_rel);
}

// ---------------------------------------------------------------------------------------------
// C09, last sentence, on scripts: an insertion sits at its latest position
// ---------------------------------------------------------------------------------------------
/// the first item an Insert event inserts differs from the old item at position o
pub open spec fn differs_after(rel: Rel, e: Ev, o: usize) -> bool {
    match e { Ev::Insert(io, inn, il) => !rel(o as int, inn as int), _ => true }
}

pub open spec fn is_ins_at(e: Ev, n: usize) -> bool { match e { Ev::Insert(io, inn, il) => inn == n, _ => false } }

/// an Insert event directly followed by an Equal event cannot slide down across it (what is claimed for the captured script)
pub open spec fn ev_late_at(rel: Rel, s: Seq<Ev>, i: int) -> bool {
    match s[i + 1] { Ev::Equal(eo, en, el) => differs_after(rel, s[i], eo), _ => true }
}

pub open spec fn ev_late(rel: Rel, s: Seq<Ev>) -> bool { forall|i: int| 0 <= i && i + 1 < s.len() ==> #[trigger] ev_late_at(rel, s, i) }

/// an Insert event is followed by nothing, by Finish, or by an Equal it cannot slide across (what the compaction sends)
pub open spec fn ev_stuck_at(rel: Rel, s: Seq<Ev>, i: int) -> bool {
    s[i] is Insert ==> match s[i + 1] { Ev::Equal(eo, en, el) => differs_after(rel, s[i], eo), Ev::Finish => true, _ => false }
}

pub open spec fn ev_stuck(rel: Rel, s: Seq<Ev>) -> bool { forall|i: int| 0 <= i && i + 1 < s.len() ==> #[trigger] ev_stuck_at(rel, s, i) }

pub proof fn lemma_ev_stuck_prefix(rel: Rel, h: Seq<Ev>, e: Ev)
  requires ev_stuck(rel, h.push(e))
  ensures ev_stuck(rel, h), h.len() > 0 ==> ev_stuck_at(rel, h.push(e), h.len() - 1)
{
    let h2 = h.push(e);
    assert forall|i: int| 0 <= i && i + 1 < h.len() implies #[trigger] ev_stuck_at(rel, h, i) by {
        assert(ev_stuck_at(rel, h2, i));
        assert(h2[i] == h[i] && h2[i + 1] == h[i + 1]);
    }
}

pub proof fn lemma_ev_late_push(rel: Rel, em: Seq<Ev>, e: Ev)
  requires ev_late(rel, em), (em.len() > 0 && e is Equal) ==> differs_after(rel, em.last(), e->Equal_0)
  ensures ev_late(rel, em.push(e))
{
    let em2 = em.push(e);
    assert forall|i: int| 0 <= i && i + 1 < em2.len() implies #[trigger] ev_late_at(rel, em2, i) by {
        if i + 1 < em.len() {
            assert(ev_late_at(rel, em, i));
            assert(em2[i] == em[i] && em2[i + 1] == em[i + 1]);
        } else {
            assert(em2[i] == em.last() && em2[i + 1] == e);
        }
    }
}

} // verus!
