// unit `txi`: what a TextDiff hands to its consumers (ops, token slices, change iterators) given what the builder
// established (TextDiff::wf, unit txt)
//@@ include prelude.rs
//@@ include hook.rs
//@@ include algutils.rs
//@@ include types.rs
//@@ include capture.rs
//@@ include iter.rs
//@@ include xcheck.rs
//@@ include opspec.rs
//@@ include tokpart.rs
//@@ include diffablestr.rs
//@@ include remap.rs
//@@ include reconstruct.rs
//@@ include textdiff_spec.rs
//@@ include textiter.rs
//@@ props ^TextDiff:: : C04 C13 C02
//@@ props ^lemma_tokpart_|^DiffableStrRef for T::as_diffable_str$ : C04
//@@ props ^lemma_entry_reconstruct_|^lemma_stored_ops_inb$ : C04
fn main() {}
