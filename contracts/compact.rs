// src/algorithms/compact.rs
verus! {

//@@ item src/algorithms/compact.rs :: ^pub struct Compact rw=R7
pub struct Compact<'old, 'new, Old: ?Sized, New: ?Sized, D> {
    d: D,
    ops: Vec<DiffOp>,
    old: &'old Old,
    new: &'new New,
}
//@@ end

//@@ item src/algorithms/compact.rs :: ^impl<'old, 'new, Old, New, D> Compact<'old, 'new, Old, New, D> rw=R0
impl<'old, 'new, Old, New, D> Compact<'old, 'new, Old, New, D>
where
    D: DiffHook,
    Old: Index<usize> + ?Sized + 'old,
    New: Index<usize> + ?Sized + 'new,
    New::Output: PartialEq<Old::Output>,
{
    /// Creates a new compact hook wrapping another hook.
    pub fn new(d: D, old: &'old Old, new: &'new New) -> (res: Self)
    {
        Compact {
            d,
            ops: Vec::new(),
            old,
            new,
        }
    }

    /// Extracts the inner hook.
    pub fn into_inner(self) -> (res: D)
    {
        self.d
    }
}
//@@ end

//@@ item src/algorithms/compact.rs :: ^impl<'old, 'new, Old, New, D> DiffHook for Compact rw=R4i,R0,R8
impl<'old, 'new, Old, New, D> DiffHook for Compact<'old, 'new, Old, New, D>
where
    D: DiffHook,
    Old: Index<usize> + ?Sized + 'old,
    New: Index<usize> + ?Sized + 'new,
    New::Output: PartialEq<Old::Output>,
{
    type Error = D::Error;

    #[inline(always)]
    fn equal(&mut self, old_index: usize, new_index: usize, len: usize) -> (res: Result<(), Self::Error>)
    {
        self.ops.push(DiffOp::Equal {
            old_index,
            new_index,
            len,
        });
        Ok(())
    }

    #[inline(always)]
    fn delete(
        &mut self,
        old_index: usize,
        old_len: usize,
        new_index: usize,
    ) -> (res: Result<(), Self::Error>)
    {
        self.ops.push(DiffOp::Delete {
            old_index,
            old_len,
            new_index,
        });
        Ok(())
    }

    #[inline(always)]
    fn insert(
        &mut self,
        old_index: usize,
        new_index: usize,
        new_len: usize,
    ) -> (res: Result<(), Self::Error>)
    {
        self.ops.push(DiffOp::Insert {
            old_index,
            new_index,
            new_len,
        });
        Ok(())
    }

    fn finish(&mut self) -> (res: Result<(), Self::Error>)
    {
        cleanup_diff_ops(self.old, self.new, &mut self.ops);
        for op in &self.ops
        {
            op.apply_to_hook(&mut self.d)?;
        }
        self.d.finish()
    }

    fn replace(
        &mut self,
        old_index: usize,
        old_len: usize,
        new_index: usize,
        new_len: usize,
    ) -> (res: Result<(), Self::Error>)
    {
        self.delete(old_index, old_len, new_index)?;
        self.insert(old_index, new_index, new_len)
    }
}
//@@ end

} // verus!
