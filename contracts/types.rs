// src/types.rs: DiffOp, DiffTag, ChangeTag, Change<T>
verus! {

//@@ item src/types.rs :: ^pub enum ChangeTag rw=R7
#[derive(PartialEq, Eq, Clone, Copy)]
pub enum ChangeTag {
    /// The change indicates equality (not a change)
    Equal,
    /// The change indicates deleted text.
    Delete,
    /// The change indicates inserted text.
    Insert,
}
//@@ end

//@@ item src/types.rs :: ^pub struct Change<T> rw=R7
#[derive(PartialEq, Eq, Clone, Copy)]
pub struct Change<T> {
    pub(crate) tag: ChangeTag,
    pub(crate) old_index: Option<usize>,
    pub(crate) new_index: Option<usize>,
    pub(crate) value: T,
}
//@@ end

//@@ item src/types.rs :: ^impl<T: Clone> Change<T> rw=R0
impl<T: Clone> Change<T> {
    /// Returns the change tag.
    pub fn tag(&self) -> (res: ChangeTag)
    {
        self.tag
    }

    /// Returns the old index if available.
    pub fn old_index(&self) -> (res: Option<usize>)
    {
        self.old_index
    }

    /// Returns the new index if available.
    pub fn new_index(&self) -> (res: Option<usize>)
    {
        self.new_index
    }

    /// Returns the underlying changed value.
    ///
    /// Depending on the type of the underlying [`crate::text::DiffableStr`]
    /// this value is more or less useful.  If you always want to have a utf-8
    /// string it's best to use the [`Change::as_str`] and
    /// [`Change::to_string_lossy`] methods.
    pub fn value(&self) -> (res: T)
    {
        self.value.clone()
    }

    /// Returns the underlying changed value as reference.
    pub fn value_ref(&self) -> (res: &T)
    {
        &self.value
    }

    /// Returns the underlying changed value as mutable reference.
    pub fn value_mut(&mut self) -> (res: &mut T)
    {
        &mut self.value
    }
}
//@@ end

//@@ item src/types.rs :: ^pub enum DiffOp rw=R7
#[derive(PartialEq, Eq, Clone, Copy)]
pub enum DiffOp {
    /// A segment is equal (see [`DiffHook::equal`])
    Equal {
        /// The starting index in the old sequence.
        old_index: usize,
        /// The starting index in the new sequence.
        new_index: usize,
        /// The length of the segment.
        len: usize,
    },
    /// A segment was deleted (see [`DiffHook::delete`])
    Delete {
        /// The starting index in the old sequence.
        old_index: usize,
        /// The length of the old segment.
        old_len: usize,
        /// The starting index in the new sequence.
        new_index: usize,
    },
    /// A segment was inserted (see [`DiffHook::insert`])
    Insert {
        /// The starting index in the old sequence.
        old_index: usize,
        /// The starting index in the new sequence.
        new_index: usize,
        /// The length of the new segment.
        new_len: usize,
    },
    /// A segment was replaced (see [`DiffHook::replace`])
    Replace {
        /// The starting index in the old sequence.
        old_index: usize,
        /// The length of the old segment.
        old_len: usize,
        /// The starting index in the new sequence.
        new_index: usize,
        /// The length of the new segment.
        new_len: usize,
    },
}
//@@ end

//@@ item src/types.rs :: ^pub enum DiffTag rw=R7
#[derive(PartialEq, Eq, Clone, Copy)]
pub enum DiffTag {
    /// The diff op encodes an equal segment.
    Equal,
    /// The diff op encodes a deleted segment.
    Delete,
    /// The diff op encodes an inserted segment.
    Insert,
    /// The diff op encodes a replaced segment.
    Replace,
}
//@@ end

//@@ item src/types.rs :: ^impl DiffOp rw=R0 drop=fn\s+iter_slices|fn\s+iter_changes
impl DiffOp {
    /// Returns the tag of the operation.
    pub fn tag(self) -> (res: DiffTag)
    {
        self.as_tag_tuple().0
    }

    /// Returns the old range.
    pub fn old_range(&self) -> (res: Range<usize>)
    {
        self.as_tag_tuple().1
    }

    /// Returns the new range.
    pub fn new_range(&self) -> (res: Range<usize>)
    {
        self.as_tag_tuple().2
    }

    /// Transform the op into a tuple of diff tag and ranges.
    ///
    /// This is useful when operating on slices.  The returned format is
    /// `(tag, i1..i2, j1..j2)`:
    ///
    /// * `Replace`: `a[i1..i2]` should be replaced by `b[j1..j2]`
    /// * `Delete`: `a[i1..i2]` should be deleted (`j1 == j2` in this case).
    /// * `Insert`: `b[j1..j2]` should be inserted at `a[i1..i2]` (`i1 == i2` in this case).
    /// * `Equal`: `a[i1..i2]` is equal to `b[j1..j2]`.
    pub fn as_tag_tuple(&self) -> (res: (DiffTag, Range<usize>, Range<usize>))
    {
        match *self {
            DiffOp::Equal {
                old_index,
                new_index,
                len,
            } => (
                DiffTag::Equal,
                old_index..old_index + len,
                new_index..new_index + len,
            ),
            DiffOp::Delete {
                old_index,
                new_index,
                old_len,
            } => (
                DiffTag::Delete,
                old_index..old_index + old_len,
                new_index..new_index,
            ),
            DiffOp::Insert {
                old_index,
                new_index,
                new_len,
            } => (
                DiffTag::Insert,
                old_index..old_index,
                new_index..new_index + new_len,
            ),
            DiffOp::Replace {
                old_index,
                old_len,
                new_index,
                new_len,
            } => (
                DiffTag::Replace,
                old_index..old_index + old_len,
                new_index..new_index + new_len,
            ),
        }
    }

    /// Apply this operation to a diff hook.
    pub fn apply_to_hook<D: DiffHook>(&self, d: &mut D) -> (res: Result<(), D::Error>)
    {
        match *self {
            DiffOp::Equal {
                old_index,
                new_index,
                len,
            } => d.equal(old_index, new_index, len),
            DiffOp::Delete {
                old_index,
                old_len,
                new_index,
            } => d.delete(old_index, old_len, new_index),
            DiffOp::Insert {
                old_index,
                new_index,
                new_len,
            } => d.insert(old_index, new_index, new_len),
            DiffOp::Replace {
                old_index,
                old_len,
                new_index,
                new_len,
            } => d.replace(old_index, old_len, new_index, new_len),
        }
    }



    pub(crate) fn is_empty(&self) -> (res: bool)
    {
        let (_, old, new) = self.as_tag_tuple();
        is_empty_range(&old) && is_empty_range(&new)
    }

    pub(crate) fn shift_left(&mut self, adjust: usize)
    {
        self.adjust((adjust, true), (0, false));
    }

    pub(crate) fn shift_right(&mut self, adjust: usize)
    {
        self.adjust((adjust, false), (0, false));
    }

    pub(crate) fn grow_left(&mut self, adjust: usize)
    {
        self.adjust((adjust, true), (adjust, false));
    }

    pub(crate) fn grow_right(&mut self, adjust: usize)
    {
        self.adjust((0, false), (adjust, false));
    }

    pub(crate) fn shrink_left(&mut self, adjust: usize)
    {
        self.adjust((0, false), (adjust, true));
    }

    pub(crate) fn shrink_right(&mut self, adjust: usize)
    {
        self.adjust((adjust, false), (adjust, true));
    }

    fn adjust(&mut self, adjust_offset: (usize, bool), adjust_len: (usize, bool))
    {
        #[inline(always)]
        fn modify(val: &mut usize, adj: (usize, bool)) {
            if adj.1 {
                *val -= adj.0;
            } else {
                *val += adj.0;
            }
        }

        match self {
            DiffOp::Equal {
                old_index,
                new_index,
                len,
            } => {
                modify(old_index, adjust_offset);
                modify(new_index, adjust_offset);
                modify(len, adjust_len);
            }
            DiffOp::Delete {
                old_index,
                old_len,
                new_index,
            } => {
                modify(old_index, adjust_offset);
                modify(old_len, adjust_len);
                modify(new_index, adjust_offset);
            }
            DiffOp::Insert {
                old_index,
                new_index,
                new_len,
            } => {
                modify(old_index, adjust_offset);
                modify(new_index, adjust_offset);
                modify(new_len, adjust_len);
            }
            DiffOp::Replace {
                old_index,
                old_len,
                new_index,
                new_len,
            } => {
                modify(old_index, adjust_offset);
                modify(old_len, adjust_len);
                modify(new_index, adjust_offset);
                modify(new_len, adjust_len);
            }
        }
    }
}
//@@ end

} // verus!
