// src/types.rs: DiffOp, DiffTag, ChangeTag, Change<T>
verus! {

// ---------------------------------------------------------------------------------------------
// spec vocabulary for DiffOp (shared with the compaction unit)
// ---------------------------------------------------------------------------------------------
pub open spec fn op_tag(op: DiffOp) -> DiffTag {
    match op {
        DiffOp::Equal { .. } => DiffTag::Equal,
        DiffOp::Delete { .. } => DiffTag::Delete,
        DiffOp::Insert { .. } => DiffTag::Insert,
        DiffOp::Replace { .. } => DiffTag::Replace,
    }
}

pub open spec fn op_old_index(op: DiffOp) -> usize {
    match op {
        DiffOp::Equal { old_index, .. } => old_index,
        DiffOp::Delete { old_index, .. } => old_index,
        DiffOp::Insert { old_index, .. } => old_index,
        DiffOp::Replace { old_index, .. } => old_index,
    }
}

pub open spec fn op_new_index(op: DiffOp) -> usize {
    match op {
        DiffOp::Equal { new_index, .. } => new_index,
        DiffOp::Delete { new_index, .. } => new_index,
        DiffOp::Insert { new_index, .. } => new_index,
        DiffOp::Replace { new_index, .. } => new_index,
    }
}

/// number of old items the op consumes
pub open spec fn op_old_len(op: DiffOp) -> usize {
    match op {
        DiffOp::Equal { len, .. } => len,
        DiffOp::Delete { old_len, .. } => old_len,
        DiffOp::Insert { .. } => 0,
        DiffOp::Replace { old_len, .. } => old_len,
    }
}

/// number of new items the op consumes
pub open spec fn op_new_len(op: DiffOp) -> usize {
    match op {
        DiffOp::Equal { len, .. } => len,
        DiffOp::Delete { .. } => 0,
        DiffOp::Insert { new_len, .. } => new_len,
        DiffOp::Replace { new_len, .. } => new_len,
    }
}

/// index + length does not overflow on either side
pub open spec fn op_wf(op: DiffOp) -> bool {
    op_old_index(op) + op_old_len(op) <= usize::MAX && op_new_index(op) + op_new_len(op) <= usize::MAX
}

pub open spec fn op_old_end(op: DiffOp) -> int { op_old_index(op) + op_old_len(op) }
pub open spec fn op_new_end(op: DiffOp) -> int { op_new_index(op) + op_new_len(op) }

/// the ranges of `as_tag_tuple` (meaningful under `op_wf`)
pub open spec fn op_old_range(op: DiffOp) -> Range<usize> {
    Range { start: op_old_index(op), end: (op_old_index(op) + op_old_len(op)) as usize }
}

pub open spec fn op_new_range(op: DiffOp) -> Range<usize> {
    Range { start: op_new_index(op), end: (op_new_index(op) + op_new_len(op)) as usize }
}

/// the hook event an op stands for, and back
pub open spec fn ev_of(op: DiffOp) -> Ev {
    match op {
        DiffOp::Equal { old_index, new_index, len } => Ev::Equal(old_index, new_index, len),
        DiffOp::Delete { old_index, old_len, new_index } => Ev::Delete(old_index, old_len, new_index),
        DiffOp::Insert { old_index, new_index, new_len } => Ev::Insert(old_index, new_index, new_len),
        DiffOp::Replace { old_index, old_len, new_index, new_len } => Ev::Replace(old_index, old_len, new_index, new_len),
    }
}

pub open spec fn op_of(ev: Ev) -> DiffOp {
    match ev {
        Ev::Equal(old_index, new_index, len) => DiffOp::Equal { old_index, new_index, len },
        Ev::Delete(old_index, old_len, new_index) => DiffOp::Delete { old_index, old_len, new_index },
        Ev::Insert(old_index, new_index, new_len) => DiffOp::Insert { old_index, new_index, new_len },
        Ev::Replace(old_index, old_len, new_index, new_len) => DiffOp::Replace { old_index, old_len, new_index, new_len },
        Ev::Finish => arbitrary(),   // no op stands for Finish
    }
}

pub proof fn lemma_op_of_ev_of(op: DiffOp)
    ensures op_of(ev_of(op)) == op, !(ev_of(op) is Finish),
{}

pub proof fn lemma_ev_of_op_of(ev: Ev)
    requires !(ev is Finish),
    ensures ev_of(op_of(ev)) == ev,
{}

/// what a hook's trace looks like after `op.apply_to_hook(d)` succeeded on a hook with trace `t0`
pub open spec fn applied_trace<D: DiffHook>(t0: Seq<Ev>, op: DiffOp) -> Seq<Ev> {
    match op {
        DiffOp::Replace { old_index, old_len, new_index, new_len } =>
            if D::replace_is_atomic() { t0.push(Ev::Replace(old_index, old_len, new_index, new_len)) }
            else { t0.push(Ev::Delete(old_index, old_len, new_index)).push(Ev::Insert(old_index, new_index, new_len)) },
        _ => t0.push(ev_of(op)),
    }
}

/// `modify` of `adjust`: subtract (neg) or add
pub open spec fn modify_ok(v: usize, a: usize, neg: bool) -> bool {
    if neg { a <= v } else { v + a <= usize::MAX }
}

pub open spec fn modified(v: usize, a: usize, neg: bool) -> usize {
    if neg { (v - a) as usize } else { (v + a) as usize }
}

/// `adjust((off, off_neg), (len, len_neg))`: both indices move by the offset, every length the op has by `len`
pub open spec fn adjusted(op: DiffOp, off: usize, off_neg: bool, len: usize, len_neg: bool) -> DiffOp {
    match op {
        DiffOp::Equal { old_index, new_index, len: l } => DiffOp::Equal {
            old_index: modified(old_index, off, off_neg), new_index: modified(new_index, off, off_neg), len: modified(l, len, len_neg) },
        DiffOp::Delete { old_index, old_len, new_index } => DiffOp::Delete {
            old_index: modified(old_index, off, off_neg), old_len: modified(old_len, len, len_neg), new_index: modified(new_index, off, off_neg) },
        DiffOp::Insert { old_index, new_index, new_len } => DiffOp::Insert {
            old_index: modified(old_index, off, off_neg), new_index: modified(new_index, off, off_neg), new_len: modified(new_len, len, len_neg) },
        DiffOp::Replace { old_index, old_len, new_index, new_len } => DiffOp::Replace {
            old_index: modified(old_index, off, off_neg), old_len: modified(old_len, len, len_neg),
            new_index: modified(new_index, off, off_neg), new_len: modified(new_len, len, len_neg) },
    }
}

/// no `modify` of that `adjust` call under- or overflows
pub open spec fn adjust_ok(op: DiffOp, off: usize, off_neg: bool, len: usize, len_neg: bool) -> bool {
    modify_ok(op_old_index(op), off, off_neg) && modify_ok(op_new_index(op), off, off_neg)
    && match op {
        DiffOp::Equal { len: l, .. } => modify_ok(l, len, len_neg),
        DiffOp::Delete { old_len, .. } => modify_ok(old_len, len, len_neg),
        DiffOp::Insert { new_len, .. } => modify_ok(new_len, len, len_neg),
        DiffOp::Replace { old_len, new_len, .. } => modify_ok(old_len, len, len_neg) && modify_ok(new_len, len, len_neg),
    }
}

//@@ item src/types.rs :: ^pub enum ChangeTag rw=R7
#[derive(PartialEq, Eq, Clone, Copy)]
pub enum ChangeTag {
    /// The change indicates equality (not a change)
    Equal,
    /// The change indicates deleted text.
    Delete,
    /// The change indicates inserted text.
    Insert,
}
//@@ end

//@@ item src/types.rs :: ^pub struct Change<T> rw=R7
#[derive(PartialEq, Eq, Clone, Copy)]
pub struct Change<T> {
    pub(crate) tag: ChangeTag,
    pub(crate) old_index: Option<usize>,
    pub(crate) new_index: Option<usize>,
    pub(crate) value: T,
}
//@@ end

// spec accessors for the pub(crate) fields of Change (pub fns may only mention pub spec fns)
impl<T> Change<T> {
    pub closed spec fn sp_tag(&self) -> ChangeTag { self.tag }
    pub closed spec fn sp_old_index(&self) -> Option<usize> { self.old_index }
    pub closed spec fn sp_new_index(&self) -> Option<usize> { self.new_index }
    pub closed spec fn sp_value(&self) -> T { self.value }
}

//@@ item src/types.rs :: ^impl<T: Clone> Change<T> rw=R0
impl<T: Clone> Change<T> {
    /// Returns the change tag.
    pub fn tag(&self) -> (res: ChangeTag)
    /*@*/     ensures res == self.sp_tag(),
    {
        self.tag
    }

    /// Returns the old index if available.
    pub fn old_index(&self) -> (res: Option<usize>)
    /*@*/     ensures res == self.sp_old_index(),
    {
        self.old_index
    }

    /// Returns the new index if available.
    pub fn new_index(&self) -> (res: Option<usize>)
    /*@*/     ensures res == self.sp_new_index(),
    {
        self.new_index
    }

    /// Returns the underlying changed value.
    ///
    /// Depending on the type of the underlying [`crate::text::DiffableStr`]
    /// this value is more or less useful.  If you always want to have a utf-8
    /// string it's best to use the [`Change::as_str`] and
    /// [`Change::to_string_lossy`] methods.
    pub fn value(&self) -> (res: T)
    /*@*/     ensures call_ensures(T::clone, (&self.sp_value(),), res),
    {
        self.value.clone()
    }

    /// Returns the underlying changed value as reference.
    pub fn value_ref(&self) -> (res: &T)
    /*@*/     ensures *res == self.sp_value(),
    {
        &self.value
    }

    /// Returns the underlying changed value as mutable reference.
    pub fn value_mut(&mut self) -> (res: &mut T)
    /*@*/     ensures *res == (*old(self)).sp_value(),
    /*@*/         // what is written through the returned reference becomes the value; nothing else changes
    /*@*/         (*final(self)).sp_value() == *final(res), (*final(self)).sp_tag() == (*old(self)).sp_tag(),
    /*@*/         (*final(self)).sp_old_index() == (*old(self)).sp_old_index(), (*final(self)).sp_new_index() == (*old(self)).sp_new_index(),
    {
        &mut self.value
    }
}
//@@ end

//@@ item src/types.rs :: ^pub enum DiffOp rw=R7
#[derive(PartialEq, Eq, Clone, Copy)]
pub enum DiffOp {
    /// A segment is equal (see [`DiffHook::equal`])
    Equal {
        /// The starting index in the old sequence.
        old_index: usize,
        /// The starting index in the new sequence.
        new_index: usize,
        /// The length of the segment.
        len: usize,
    },
    /// A segment was deleted (see [`DiffHook::delete`])
    Delete {
        /// The starting index in the old sequence.
        old_index: usize,
        /// The length of the old segment.
        old_len: usize,
        /// The starting index in the new sequence.
        new_index: usize,
    },
    /// A segment was inserted (see [`DiffHook::insert`])
    Insert {
        /// The starting index in the old sequence.
        old_index: usize,
        /// The starting index in the new sequence.
        new_index: usize,
        /// The length of the new segment.
        new_len: usize,
    },
    /// A segment was replaced (see [`DiffHook::replace`])
    Replace {
        /// The starting index in the old sequence.
        old_index: usize,
        /// The length of the old segment.
        old_len: usize,
        /// The starting index in the new sequence.
        new_index: usize,
        /// The length of the new segment.
        new_len: usize,
    },
}
//@@ end

//@@ item src/types.rs :: ^pub enum DiffTag rw=R7
#[derive(PartialEq, Eq, Clone, Copy)]
pub enum DiffTag {
    /// The diff op encodes an equal segment.
    Equal,
    /// The diff op encodes a deleted segment.
    Delete,
    /// The diff op encodes an inserted segment.
    Insert,
    /// The diff op encodes a replaced segment.
    Replace,
}
//@@ end

//@@ item src/types.rs :: ^impl DiffOp rw=R0,R0n drop=fn\s+iter_slices|fn\s+iter_changes
impl DiffOp {
    /// Returns the tag of the operation.
    pub fn tag(self) -> (res: DiffTag)
    /*@*/     requires op_wf(self),
    /*@*/     ensures res == op_tag(self),
    {
        self.as_tag_tuple().0
    }

    /// Returns the old range.
    pub fn old_range(&self) -> (res: Range<usize>)
    /*@*/     requires op_wf(*self),
    /*@*/     ensures res == op_old_range(*self), res.start == op_old_index(*self), res.end == op_old_end(*self),
    {
        self.as_tag_tuple().1
    }

    /// Returns the new range.
    pub fn new_range(&self) -> (res: Range<usize>)
    /*@*/     requires op_wf(*self),
    /*@*/     ensures res == op_new_range(*self), res.start == op_new_index(*self), res.end == op_new_end(*self),
    {
        self.as_tag_tuple().2
    }

    /// Transform the op into a tuple of diff tag and ranges.
    ///
    /// This is useful when operating on slices.  The returned format is
    /// `(tag, i1..i2, j1..j2)`:
    ///
    /// * `Replace`: `a[i1..i2]` should be replaced by `b[j1..j2]`
    /// * `Delete`: `a[i1..i2]` should be deleted (`j1 == j2` in this case).
    /// * `Insert`: `b[j1..j2]` should be inserted at `a[i1..i2]` (`i1 == i2` in this case).
    /// * `Equal`: `a[i1..i2]` is equal to `b[j1..j2]`.
    pub fn as_tag_tuple(&self) -> (res: (DiffTag, Range<usize>, Range<usize>))
    /*@*/     requires op_wf(*self),
    /*@*/     ensures res.0 == op_tag(*self), res.1 == op_old_range(*self), res.2 == op_new_range(*self),
    /*@*/         res.1.start == op_old_index(*self), res.1.end == op_old_end(*self),
    /*@*/         res.2.start == op_new_index(*self), res.2.end == op_new_end(*self),
    {
        match *self {
            DiffOp::Equal {
                old_index,
                new_index,
                len,
            } => (
                DiffTag::Equal,
                old_index..old_index + len,
                new_index..new_index + len,
            ),
            DiffOp::Delete {
                old_index,
                new_index,
                old_len,
            } => (
                DiffTag::Delete,
                old_index..old_index + old_len,
                new_index..new_index,
            ),
            DiffOp::Insert {
                old_index,
                new_index,
                new_len,
            } => (
                DiffTag::Insert,
                old_index..old_index,
                new_index..new_index + new_len,
            ),
            DiffOp::Replace {
                old_index,
                old_len,
                new_index,
                new_len,
            } => (
                DiffTag::Replace,
                old_index..old_index + old_len,
                new_index..new_index + new_len,
            ),
        }
    }

    /// Apply this operation to a diff hook.
    pub fn apply_to_hook<D: DiffHook>(&self, d: &mut D) -> (res: Result<(), D::Error>)
    /*@*/     requires hook_pre(*old(d), ev_of(*self)), *self is Replace ==> (*old(d)).accepts_replace(),
    /*@*/     ensures hook_frame(*old(d), *final(d), res), (*final(d)).fobs() == (*old(d)).fobs(), (*final(d)).config() == (*old(d)).config(),
    /*@*/         res.is_ok() ==> (*final(d)).trace() == applied_trace::<D>((*old(d)).trace(), *self),
    /*@*/         res.is_ok() ==> (*final(d)).rely_st() == step_rel((*old(d)).rely_rel(), (*old(d)).rely_st(), ev_of(*self)),
    {
        match *self {
            DiffOp::Equal {
                old_index,
                new_index,
                len,
            } => d.equal(old_index, new_index, len),
            DiffOp::Delete {
                old_index,
                old_len,
                new_index,
            } => d.delete(old_index, old_len, new_index),
            DiffOp::Insert {
                old_index,
                new_index,
                new_len,
            } => d.insert(old_index, new_index, new_len),
            DiffOp::Replace {
                old_index,
                old_len,
                new_index,
                new_len,
            } => d.replace(old_index, old_len, new_index, new_len),
        }
    }



    pub(crate) fn is_empty(&self) -> (res: bool)
    /*@*/     requires op_wf(*self),
    /*@*/     ensures res == (op_old_len(*self) == 0 && op_new_len(*self) == 0),
    {
        let (_, old, new) = self.as_tag_tuple();
        is_empty_range(&old) && is_empty_range(&new)
    }

    pub(crate) fn shift_left(&mut self, adjust: usize)
    /*@*/     requires adjust_ok(*old(self), adjust, true, 0, false),
    /*@*/     ensures *final(self) == adjusted(*old(self), adjust, true, 0, false),
    {
        self.adjust((adjust, true), (0, false));
    }

    pub(crate) fn shift_right(&mut self, adjust: usize)
    /*@*/     requires adjust_ok(*old(self), adjust, false, 0, false),
    /*@*/     ensures *final(self) == adjusted(*old(self), adjust, false, 0, false),
    {
        self.adjust((adjust, false), (0, false));
    }

    pub(crate) fn grow_left(&mut self, adjust: usize)
    /*@*/     requires adjust_ok(*old(self), adjust, true, adjust, false),
    /*@*/     ensures *final(self) == adjusted(*old(self), adjust, true, adjust, false),
    {
        self.adjust((adjust, true), (adjust, false));
    }

    pub(crate) fn grow_right(&mut self, adjust: usize)
    /*@*/     requires adjust_ok(*old(self), 0, false, adjust, false),
    /*@*/     ensures *final(self) == adjusted(*old(self), 0, false, adjust, false),
    {
        self.adjust((0, false), (adjust, false));
    }

    pub(crate) fn shrink_left(&mut self, adjust: usize)
    /*@*/     requires adjust_ok(*old(self), 0, false, adjust, true),
    /*@*/     ensures *final(self) == adjusted(*old(self), 0, false, adjust, true),
    {
        self.adjust((0, false), (adjust, true));
    }

    pub(crate) fn shrink_right(&mut self, adjust: usize)
    /*@*/     requires adjust_ok(*old(self), adjust, false, adjust, true),
    /*@*/     ensures *final(self) == adjusted(*old(self), adjust, false, adjust, true),
    {
        self.adjust((adjust, false), (adjust, true));
    }

    fn adjust(&mut self, adjust_offset: (usize, bool), adjust_len: (usize, bool))
    /*@*/     requires adjust_ok(*old(self), adjust_offset.0, adjust_offset.1, adjust_len.0, adjust_len.1),
    /*@*/     ensures *final(self) == adjusted(*old(self), adjust_offset.0, adjust_offset.1, adjust_len.0, adjust_len.1),
    {
        #[inline(always)]
        fn modify(val: &mut usize, adj: (usize, bool))
        /*@*/     requires modify_ok(*old(val), adj.0, adj.1),
        /*@*/     ensures *final(val) == modified(*old(val), adj.0, adj.1),
        {
            if adj.1 {
                *val -= adj.0;
            } else {
                *val += adj.0;
            }
        }

        match self {
            DiffOp::Equal {
                old_index,
                new_index,
                len,
            } => {
                modify(old_index, adjust_offset);
                modify(new_index, adjust_offset);
                modify(len, adjust_len);
            }
            DiffOp::Delete {
                old_index,
                old_len,
                new_index,
            } => {
                modify(old_index, adjust_offset);
                modify(old_len, adjust_len);
                modify(new_index, adjust_offset);
            }
            DiffOp::Insert {
                old_index,
                new_index,
                new_len,
            } => {
                modify(old_index, adjust_offset);
                modify(new_index, adjust_offset);
                modify(new_len, adjust_len);
            }
            DiffOp::Replace {
                old_index,
                old_len,
                new_index,
                new_len,
            } => {
                modify(old_index, adjust_offset);
                modify(old_len, adjust_len);
                modify(new_index, adjust_offset);
                modify(new_len, adjust_len);
            }
        }
    }
}
//@@ end

} // verus!
