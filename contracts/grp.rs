//@@ include prelude.rs
//@@ include group.rs
//@@ props ^group_diff_ops$ : C12
fn main() {}
