//@@ include prelude.rs
//@@ include group.rs
//@@ props ^group_diff_ops$ : C12
//@@ props ^lemma_c12_ : C12
fn main() {}
