// unit `txt`: the text-diff builder TextDiffConfig::diff and the text entry points diff_lines / diff_words / diff_chars
// (generic over `T: DiffableStrRef`, tokenizers through the trait-level contract of diffablestr.rs) on top of the whole
// capture pipeline
//@@ include prelude.rs
//@@ include hook.rs
//@@ include lcsspec.rs
//@@ include algspec.rs
//@@ include algutils.rs
//@@ include xcheck.rs
//@@ include types.rs
//@@ include capture.rs
//@@ include replace.rs
//@@ include myers.rs
//@@ include lcs.rs
//@@ include patience.rs
//@@ include algmod.rs
//@@ include opspec.rs
//@@ include compact_lemmas.rs
//@@ include opspec_lemmas.rs
//@@ include cleanup.rs
//@@ include compact.rs
//@@ include common.rs
//@@ include tokpart.rs
//@@ include diffablestr.rs
//@@ include textdiff_spec.rs
//@@ include textdiff.rs
//@@ props ^DiffableStrRef for T::as_diffable_str$|^lemma_entry_pre_bytes$|^lemma_tokpart_ : C04 C02
//@@ props ^TextDiffConfig::|^IdentifyDistinct::|^Index for OffsetLookup|^Deadline::|^duration_to_deadline$ : C02 C04 C17 C05 C09 C11
//@@ props ^myers::|^lcs::|^patience::|^diff$|^diff_deadline$|^diff_slices$|^diff_slices_deadline$|^capture_diff : C04 C17 C05
fn main() {}
