// unit `txt`: the text-diff builder TextDiffConfig::diff on top of the whole capture pipeline
//@@ include prelude.rs
//@@ include hook.rs
//@@ include lcsspec.rs
//@@ include algspec.rs
//@@ include algutils.rs
//@@ include xcheck.rs
//@@ include types.rs
//@@ include capture.rs
//@@ include replace.rs
//@@ include myers.rs
//@@ include lcs.rs
//@@ include patience.rs
//@@ include algmod.rs
//@@ include opspec.rs
//@@ include compact_lemmas.rs
//@@ include opspec_lemmas.rs
//@@ include cleanup.rs
//@@ include compact.rs
//@@ include common.rs
//@@ include diffablestr.rs
//@@ include textdiff_spec.rs
//@@ include textdiff.rs
//@@ props ^TextDiffConfig::|^IdentifyDistinct::|^Index for OffsetLookup|^Deadline::|^duration_to_deadline$ : C02 C04 C17
fn main() {}
