// src/algorithms/utils.rs (leaf helpers) and src/deadline_support.rs
verus! {

//@@ item src/algorithms/utils.rs :: ^pub fn is_empty_range rw=R0
pub fn is_empty_range<T: PartialOrd<T>>(range: &Range<T>) -> (res: bool)
/*@*/     ensures T::obeys_partial_cmp_spec() ==> res == !(range.start.partial_cmp_spec(&range.end) == Some(core::cmp::Ordering::Less)),
{
    !(range.start < range.end)
}
//@@ end

//@@ item src/algorithms/utils.rs :: ^pub fn common_prefix_len rw=R0
/*@*/ #[verifier::external_body]  // assumed contract: iterator chain zip/take_while/count is outside Verus (bounded Kani stand-in)
pub fn common_prefix_len<Old, New>(
    old: &Old,
    old_range: Range<usize>,
    new: &New,
    new_range: Range<usize>,
) -> (res: usize)
where
    Old: Index<usize> + ?Sized,
    New: Index<usize> + ?Sized,
    New::Output: PartialEq<Old::Output>,
/*@*/     requires inb(old, old_range), inb(new, new_range),
/*@*/     ensures
/*@*/         res == 0 || (old_range.start + res <= old_range.end && new_range.start + res <= new_range.end),
/*@*/         forall|i: int| 0 <= i < res ==> #[trigger] relk(rel_of(old, new), old_range.start as int, new_range.start as int, i),
/*@*/         (old_range.start + res < old_range.end && new_range.start + res < new_range.end) ==> !eqv(old, old_range.start + res, new, new_range.start + res),
{
    if is_empty_range(&old_range) || is_empty_range(&new_range) {
        return 0;
    }
    new_range
        .zip(old_range)
        .take_while(
            #[inline(always)]
            |x| new[x.0] == old[x.1],
        )
        .count()
}
//@@ end

//@@ item src/algorithms/utils.rs :: ^pub fn common_suffix_len rw=R0
/*@*/ #[verifier::external_body]  // assumed contract: iterator chain rev/zip/take_while/count is outside Verus (bounded Kani stand-in)
pub fn common_suffix_len<Old, New>(
    old: &Old,
    old_range: Range<usize>,
    new: &New,
    new_range: Range<usize>,
) -> (res: usize)
where
    Old: Index<usize> + ?Sized,
    New: Index<usize> + ?Sized,
    New::Output: PartialEq<Old::Output>,
/*@*/     requires inb(old, old_range), inb(new, new_range),
/*@*/     ensures
/*@*/         res == 0 || (old_range.start + res <= old_range.end && new_range.start + res <= new_range.end),
/*@*/         forall|i: int| 0 <= i < res ==> #[trigger] relk(rel_of(old, new), old_range.end - res, new_range.end - res, i),
/*@*/         (old_range.start + res < old_range.end && new_range.start + res < new_range.end) ==> !eqv(old, old_range.end - res - 1, new, new_range.end - res - 1),
{
    if is_empty_range(&old_range) || is_empty_range(&new_range) {
        return 0;
    }
    new_range
        .rev()
        .zip(old_range.rev())
        .take_while(
            #[inline(always)]
            |x| new[x.0] == old[x.1],
        )
        .count()
}
//@@ end

//@@ item src/deadline_support.rs :: ^pub fn deadline_exceeded rw=R0 cfgoff=similar_verif
/*@*/ #[verifier::external_body]  // assumed contract: Instant::now() is not modelled; any answer is possible for Some(_)
pub fn deadline_exceeded(deadline: Option<Instant>) -> (res: bool)
/*@*/     ensures deadline is None ==> !res, dl_expired(deadline) ==> res,
{
    #[allow(unreachable_code)]
    match deadline {
        Some(deadline) => {
            #[cfg(all(target_arch = "wasm32", not(feature = "wasm32_web_time")))]
            {
                return false;
            }
            Instant::now() > deadline
        }
        None => false,
    }
}
//@@ end

} // verus!
