// unit `rmp`: slice remapping (C17, src/utils.rs: SliceRemapper / TextDiffRemapper over an abstract byte view of
// DiffableStr) and reconstruction of the two token sequences / texts from an op list (C04, C17; pure spec lemmas)
//@@ include prelude.rs
//@@ include hook.rs
//@@ include algutils.rs
//@@ include types.rs
//@@ include capture.rs
//@@ include iter.rs
//@@ include xcheck.rs
//@@ include opspec.rs
//@@ include tokpart.rs
//@@ include diffablestr.rs
//@@ include remap.rs
//@@ include reconstruct.rs
//@@ props ^SliceRemapper::|^TextDiffRemapper::|^lemma_slice|^lemma_hyp_contig$|^lemma_cat_|^lemma_contig_mono$|^lemma_lsum_mono$ : C17
//@@ props ^lemma_tokpart_|^DiffableStrRef for T::as_diffable_str$ : C04 C17
//@@ props ^lemma_reconstruct|^lemma_expand_indices : C04 C17
//@@ props ^lemma_script_|^lemma_xrun_ops$|^lemma_equal_ok_of_rel$|^lemma_proj_|^lemma_op_indices$|^lemma_op_values$|^lemma_side_|^lemma_psum_ : C04 C17
fn main() {}
