// unit `rmp`: slice remapping (C17, src/utils.rs) and reconstruction of the two texts from an op list (C04, C17)
//@@ include prelude.rs
//@@ include hook.rs
//@@ include algutils.rs
//@@ include types.rs
//@@ include capture.rs
//@@ include iter.rs
//@@ include xcheck.rs
//@@ include opspec.rs
//@@ include compact_lemmas.rs
//@@ include remap.rs
//@@ include reconstruct.rs
//@@ props ^SliceRemapper::|^TextDiffRemapper::|^lemma_slice|^lemma_hyp_contig$|^lemma_cat_|^lemma_contig_mono$|^lemma_lsum_mono$ : C17
//@@ props ^lemma_reconstruct|^lemma_expand_indices : C04 C17
fn main() {}
