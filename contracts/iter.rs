// src/iter.rs: ChangesIter, AllChangesIter (C13)
use std::marker::PhantomData;
verus! {

// ---------------------------------------------------------------------------------------------
// C13 vocabulary: the item-wise expansion of an op, written from the property text
// ---------------------------------------------------------------------------------------------
/// One change of an item-wise expansion: its tag, the indices it carries and where its value is found
/// (`side_is_old`: in the old / new sequence, at index `idx`).
pub struct ChangeSpec {
    pub tag: ChangeTag,
    pub old_index: Option<usize>,
    pub new_index: Option<usize>,
    pub side_is_old: bool,
    pub idx: usize,
}

/// `cnt` Equal changes carrying both indices (increasing by one), values from old[src], old[src+1], ..
pub open spec fn run_eq(o: usize, n: usize, src: usize, cnt: nat) -> Seq<ChangeSpec> {
    Seq::new(cnt, |k: int| ChangeSpec { tag: ChangeTag::Equal, old_index: Some((o + k) as usize), new_index: Some((n + k) as usize), side_is_old: true, idx: (src + k) as usize })
}

/// `cnt` Delete changes carrying only the old index, values from old[src], old[src+1], ..
pub open spec fn run_del(o: usize, src: usize, cnt: nat) -> Seq<ChangeSpec> {
    Seq::new(cnt, |k: int| ChangeSpec { tag: ChangeTag::Delete, old_index: Some((o + k) as usize), new_index: None, side_is_old: true, idx: (src + k) as usize })
}

/// `cnt` Insert changes carrying only the new index, values from new[src], new[src+1], ..
pub open spec fn run_ins(n: usize, src: usize, cnt: nat) -> Seq<ChangeSpec> {
    Seq::new(cnt, |k: int| ChangeSpec { tag: ChangeTag::Insert, old_index: None, new_index: Some((n + k) as usize), side_is_old: false, idx: (src + k) as usize })
}

/// C13: one change per consumed item, each carrying the value found at its index in the proper
/// sequence; Replace: all its deletes followed by all its inserts.
pub open spec fn expand(op: DiffOp) -> Seq<ChangeSpec> {
    match op {
        DiffOp::Equal { old_index, new_index, len } => run_eq(old_index, new_index, old_index, len as nat),
        DiffOp::Delete { old_index, old_len, new_index } => run_del(old_index, old_index, old_len as nat),
        DiffOp::Insert { old_index, new_index, new_len } => run_ins(new_index, new_index, new_len as nat),
        DiffOp::Replace { old_index, old_len, new_index, new_len } =>
            run_del(old_index, old_index, old_len as nat) + run_ins(new_index, new_index, new_len as nat),
    }
}

/// C13: whole-diff iteration is the concatenation of the per-op expansions
pub open spec fn expand_all(ops: Seq<DiffOp>) -> Seq<ChangeSpec>
    decreases ops.len()
{
    if ops.len() == 0 { Seq::empty() } else { expand(ops[0]) + expand_all(ops.drop_first()) }
}

/// the yielded `Change` is the one described by `s`: same tag and indices, and its value is a clone of
/// the item found at `s.idx` in the proper sequence
pub open spec fn change_is<Old, New, T>(c: Change<T>, s: ChangeSpec, old: &Old, new: &New) -> bool
  where Old: Index<usize, Output = T> + ?Sized, New: Index<usize, Output = T> + ?Sized, T: Clone
{
    c.sp_tag() == s.tag && c.sp_old_index() == s.old_index && c.sp_new_index() == s.new_index
    && call_ensures(T::clone, (if s.side_is_old { item_at(old, s.idx) } else { item_at(new, s.idx) },), c.sp_value())
}

/// every op's ranges are within the sequences and do not overflow
pub open spec fn ops_inb<Old: Index<usize> + ?Sized, New: Index<usize> + ?Sized>(old: &Old, new: &New, ops: Seq<DiffOp>) -> bool {
    forall|i: int| 0 <= i < ops.len() ==> op_wf(#[trigger] ops[i]) && inb(old, op_old_range(ops[i])) && inb(new, op_new_range(ops[i]))
}

// `Iterator::next` of both iterators is verified as an inherent method (rewrite R9: the `impl Iterator for`
// header and the `type Item` line are removed, `Self::Item` is substituted; the body is the text of /repo).
// Reason: Verus does not let a trait-method implementation declare `requires`, and `next` indexes the
// sequences, so it needs the iterator's well-formedness `wf()` (ranges in bounds, no index overflow) as a
// precondition.  `#[verifier::type_invariant]` is not usable here: Verus demands the invariant's trait bounds
// match the struct's (ChangesIter declares none, `inb` needs `Index<usize>`), checks it after every single
// field assignment, and rejects `ref mut` borrows of fields (AllChangesIter::next).  `wf()` is established by
// `new` and preserved by `next`; the fields are private and no other function of /repo writes them, so every
// reachable iterator is well formed (encapsulation argument, not checked by Verus).

//@@ item src/types.rs :: ^impl DiffOp rw=R0 only=fn\s+iter_changes
impl DiffOp {





    /// Iterates over all changes encoded in the diff op against old and new
    /// sequences.
    ///
    /// `old` and `new` are two indexable objects like the types you pass to
    /// the diffing algorithm functions.
    ///
    /// ```rust
    /// use similar::{ChangeTag, Algorithm};
    /// use similar::capture_diff_slices;
    /// let old = vec!["foo", "bar", "baz"];
    /// let new = vec!["foo", "bar", "blah"];
    /// let ops = capture_diff_slices(Algorithm::Myers, &old, &new);
    /// let changes: Vec<_> = ops
    ///     .iter()
    ///     .flat_map(|x| x.iter_changes(&old, &new))
    ///     .map(|x| (x.tag(), x.value()))
    ///     .collect();
    /// assert_eq!(changes, vec![
    ///     (ChangeTag::Equal, "foo"),
    ///     (ChangeTag::Equal, "bar"),
    ///     (ChangeTag::Delete, "baz"),
    ///     (ChangeTag::Insert, "blah"),
    /// ]);
    /// ```
    pub fn iter_changes<'lookup, Old, New, T>(
        &self,
        old: &'lookup Old,
        new: &'lookup New,
    ) -> (res: ChangesIter<'lookup, Old, New, T>)
    where
        Old: Index<usize, Output = T> + ?Sized,
        New: Index<usize, Output = T> + ?Sized,
    /*@*/     requires op_wf(*self), inb(old, op_old_range(*self)), inb(new, op_new_range(*self)),
    /*@*/     ensures res.wf(), res.rem() == expand(*self), res.src_old() == old, res.src_new() == new,
    {
        ChangesIter::new(old, new, *self)
    }









}
//@@ end

//@@ item src/iter.rs :: ^pub struct ChangesIter
pub struct ChangesIter<'lookup, Old: ?Sized, New: ?Sized, T> {
    old: &'lookup Old,
    new: &'lookup New,
    old_range: Range<usize>,
    new_range: Range<usize>,
    old_index: usize,
    new_index: usize,
    old_i: usize,
    new_i: usize,
    tag: DiffTag,
    _marker: PhantomData<T>,
}
//@@ end

//@@ item src/iter.rs :: ^impl<'lookup, Old, New, T> ChangesIter rw=R0
impl<'lookup, Old, New, T> ChangesIter<'lookup, Old, New, T>
where
    Old: Index<usize, Output = T> + ?Sized,
    New: Index<usize, Output = T> + ?Sized,
{
    /*@*/ /// items left on the old / new side
    /*@*/ pub closed spec fn n_old(&self) -> nat { if self.old_i <= self.old_range.end { (self.old_range.end - self.old_i) as nat } else { 0 } }
    /*@*/ pub closed spec fn n_new(&self) -> nat { if self.new_i <= self.new_range.end { (self.new_range.end - self.new_i) as nat } else { 0 } }
    /*@*/ pub closed spec fn src_old(&self) -> &'lookup Old { self.old }
    /*@*/ pub closed spec fn src_new(&self) -> &'lookup New { self.new }
    /*@*/
    /*@*/ /// Well-formedness (established by `new`, preserved by `next`): the items still to be read are in
    /*@*/ /// bounds and the reported indices cannot overflow.
    /*@*/ pub closed spec fn wf(&self) -> bool {
    /*@*/     let uses_old = self.tag != DiffTag::Insert;
    /*@*/     let uses_new = self.tag == DiffTag::Insert || self.tag == DiffTag::Replace;
    /*@*/     (uses_old ==> inb(self.old, Range { start: self.old_i, end: self.old_range.end }) && self.old_index + self.n_old() <= usize::MAX)
    /*@*/     && (uses_new ==> inb(self.new, Range { start: self.new_i, end: self.new_range.end }) && self.new_index + self.n_new() <= usize::MAX)
    /*@*/     && (self.tag == DiffTag::Equal ==> self.new_index + self.n_old() <= usize::MAX)
    /*@*/ }
    /*@*/
    /*@*/ /// the changes still to be yielded, as a function of the iterator's state
    /*@*/ pub closed spec fn rem(&self) -> Seq<ChangeSpec> {
    /*@*/     match self.tag {
    /*@*/         DiffTag::Equal => run_eq(self.old_index, self.new_index, self.old_i, self.n_old()),
    /*@*/         DiffTag::Delete => run_del(self.old_index, self.old_i, self.n_old()),
    /*@*/         DiffTag::Insert => run_ins(self.new_index, self.new_i, self.n_new()),
    /*@*/         DiffTag::Replace => run_del(self.old_index, self.old_i, self.n_old()) + run_ins(self.new_index, self.new_i, self.n_new()),
    /*@*/     }
    /*@*/ }
    pub(crate) fn new(old: &'lookup Old, new: &'lookup New, op: DiffOp) -> (res: Self)
    /*@*/     requires op_wf(op), inb(old, op_old_range(op)), inb(new, op_new_range(op)),
    /*@*/     ensures res.wf(), res.rem() == expand(op), res.src_old() == old, res.src_new() == new,
    {
        let (tag, old_range, new_range) = op.as_tag_tuple();
        let old_index = old_range.start;
        let new_index = new_range.start;
        let old_i = old_range.start;
        let new_i = new_range.start;
        ChangesIter {
            old,
            new,
            old_range,
            new_range,
            old_index,
            new_index,
            old_i,
            new_i,
            tag,
            _marker: PhantomData,
        }
    }
}
//@@ end

//@@ item src/iter.rs :: ^impl<Old, New, T> Iterator for ChangesIter rw=R9,R0
impl<Old, New, T> ChangesIter<'_, Old, New, T>
where
    Old: Index<usize, Output = T> + ?Sized,
    New: Index<usize, Output = T> + ?Sized,
    T: Clone,
{

    fn next(&mut self) -> (res: Option<Change<T>>)
    /*@*/     requires (*old(self)).wf(),
    /*@*/     ensures (*final(self)).wf(),
    /*@*/         (*final(self)).src_old() == (*old(self)).src_old(), (*final(self)).src_new() == (*old(self)).src_new(),
    /*@*/         (*old(self)).rem().len() == 0 ==> res is None && *final(self) == *old(self),
    /*@*/         (*old(self)).rem().len() > 0 ==> res is Some
    /*@*/             && change_is(res.unwrap(), (*old(self)).rem()[0], (*old(self)).src_old(), (*old(self)).src_new())
    /*@*/             && (*final(self)).rem() == (*old(self)).rem().drop_first(),
    {
        /*@*/ broadcast use axiom_pure_index;
        match self.tag {
            DiffTag::Equal => {
                if self.old_i < self.old_range.end {
                    let value = self.old[self.old_i].clone();
                    self.old_i += 1;
                    self.old_index += 1;
                    self.new_index += 1;
                    Some(Change {
                        tag: ChangeTag::Equal,
                        old_index: Some(self.old_index - 1),
                        new_index: Some(self.new_index - 1),
                        value,
                    })
                } else {
                    None
                }
            }
            DiffTag::Delete => {
                if self.old_i < self.old_range.end {
                    let value = self.old[self.old_i].clone();
                    self.old_i += 1;
                    self.old_index += 1;
                    Some(Change {
                        tag: ChangeTag::Delete,
                        old_index: Some(self.old_index - 1),
                        new_index: None,
                        value,
                    })
                } else {
                    None
                }
            }
            DiffTag::Insert => {
                if self.new_i < self.new_range.end {
                    let value = self.new[self.new_i].clone();
                    self.new_i += 1;
                    self.new_index += 1;
                    Some(Change {
                        tag: ChangeTag::Insert,
                        old_index: None,
                        new_index: Some(self.new_index - 1),
                        value,
                    })
                } else {
                    None
                }
            }
            DiffTag::Replace => {
                if self.old_i < self.old_range.end {
                    let value = self.old[self.old_i].clone();
                    self.old_i += 1;
                    self.old_index += 1;
                    Some(Change {
                        tag: ChangeTag::Delete,
                        old_index: Some(self.old_index - 1),
                        new_index: None,
                        value,
                    })
                } else if self.new_i < self.new_range.end {
                    let value = self.new[self.new_i].clone();
                    self.new_i += 1;
                    self.new_index += 1;
                    Some(Change {
                        tag: ChangeTag::Insert,
                        old_index: None,
                        new_index: Some(self.new_index - 1),
                        value,
                    })
                } else {
                    None
                }
            }
        }
    }
}
//@@ end

//@@ item src/iter.rs :: ^mod text :: ^pub struct AllChangesIter
    pub struct AllChangesIter<'slf, 'data, T: ?Sized> {
        old: &'slf [&'data T],
        new: &'slf [&'data T],
        ops: &'slf [DiffOp],
        current_iter: Option<ChangesIter<'slf, [&'data T], [&'data T], &'data T>>,
    }
//@@ end

//@@ item src/iter.rs :: ^mod text :: ^impl<'slf, 'data, T> AllChangesIter rw=R0
    impl<'slf, 'data, T> AllChangesIter<'slf, 'data, T>
    where
        T: 'data + ?Sized + PartialEq,
    {
        /*@*/ pub closed spec fn src_old(&self) -> &'slf [&'data T] { self.old }
        /*@*/ pub closed spec fn src_new(&self) -> &'slf [&'data T] { self.new }
        /*@*/ /// Well-formedness (established by `new`, preserved by `next`): the ops still to be expanded are in
        /*@*/ /// bounds of the two sequences, and the running per-op iterator reads from the same sequences.
        /*@*/ pub closed spec fn wf(&self) -> bool {
        /*@*/     ops_inb(self.old, self.new, self.ops@)
        /*@*/     && (self.current_iter matches Some(it) ==> it.wf() && it.src_old() == self.old && it.src_new() == self.new)
        /*@*/ }
        /*@*/ /// the changes still to be yielded: the rest of the current op, then the expansion of every op left
        /*@*/ pub closed spec fn rem_all(&self) -> Seq<ChangeSpec> {
        /*@*/     (match self.current_iter { Some(it) => it.rem(), None => Seq::empty() }) + expand_all(self.ops@)
        /*@*/ }
        pub(crate) fn new(
            old: &'slf [&'data T],
            new: &'slf [&'data T],
            ops: &'slf [DiffOp],
        ) -> (res: Self)
        /*@*/     requires ops_inb(old, new, ops@),
        /*@*/     ensures res.wf(), res.rem_all() == expand_all(ops@), res.src_old() == old, res.src_new() == new,
        {
            /*@*/ proof { assert(Seq::<ChangeSpec>::empty() + expand_all(ops@) =~= expand_all(ops@)); }
            AllChangesIter {
                old,
                new,
                ops,
                current_iter: None,
            }
        }
    }
//@@ end

//@@ item src/iter.rs :: ^mod text :: ^impl<'slf, 'data, T> Iterator for AllChangesIter rw=R9,R2t,R0,R8
    impl<'slf, 'data, T> AllChangesIter<'slf, 'data, T>
    where
        T: PartialEq + 'data + ?Sized,
        'data: 'slf,
    {

        fn next(&mut self) -> (res: Option<Change<&'data T>>)
        /*@*/     requires (*old(self)).wf(),
        /*@*/     ensures (*final(self)).wf(),
        /*@*/         (*final(self)).src_old() == (*old(self)).src_old(), (*final(self)).src_new() == (*old(self)).src_new(),
        /*@*/         (*old(self)).rem_all().len() == 0 ==> res is None && (*final(self)).rem_all() == (*old(self)).rem_all(),
        /*@*/         (*old(self)).rem_all().len() > 0 ==> res is Some
        /*@*/             && change_is(res.unwrap(), (*old(self)).rem_all()[0], (*old(self)).src_old(), (*old(self)).src_new())
        /*@*/             && (*final(self)).rem_all() == (*old(self)).rem_all().drop_first(),
        {
            /*@*/ let ghost s0 = *self;
            loop
            /*@*/     invariant s0 == *old(self), self.wf(), self.old == s0.old, self.new == s0.new, self.rem_all() == s0.rem_all(),
            /*@*/     decreases self.ops.len(),
            {
                /*@*/ let ghost cur0 = self.current_iter; let ghost rest0 = expand_all(self.ops@);
                if let Some(ref mut iter) = self.current_iter {
                    if let Some(rv) = iter.next() {
                        /*@*/ proof {
                        /*@*/     let it0 = cur0.unwrap();
                        /*@*/     assert(s0.rem_all() == it0.rem() + rest0);
                        /*@*/     assert(self.rem_all() =~= s0.rem_all().drop_first());
                        /*@*/     assert(s0.rem_all()[0] == it0.rem()[0]);
                        /*@*/ }
                        return Some(rv);
                    }
                    self.current_iter.take();
                    /*@*/ proof { assert(cur0.unwrap().rem().len() == 0); assert(self.rem_all() =~= s0.rem_all()); }
                }
                /*@*/ proof { assert(self.current_iter is None); assert(self.rem_all() == s0.rem_all()); assert(self.rem_all() =~= expand_all(self.ops@)); }
                if let Some((first__r, rest)) = self.ops.split_first() { let first = *first__r;
                    self.current_iter = Some(ChangesIter::new(self.old, self.new, first));
                    self.ops = rest;
                    /*@*/ proof { assert(self.rem_all() =~= s0.rem_all()); }
                } else {
                    /*@*/ proof { assert(self.ops@.len() == 0); assert(self.rem_all().len() == 0); }
                    return None;
                }
            }
        }
    }
//@@ end

// ---------------------------------------------------------------------------------------------
// consequences of the definitions (C13 wording): one change per consumed item; concatenation
// ---------------------------------------------------------------------------------------------
/// Equal: `len` changes; Delete: `old_len`; Insert: `new_len`; Replace: `old_len + new_len`
pub proof fn lemma_expand_len(op: DiffOp)
    ensures expand(op).len() == (if op is Equal { op_old_len(op) as int } else { op_old_len(op) + op_new_len(op) }),
{}

/// the k-th change of an op's expansion (indices increase by one; Replace: deletes first, then inserts)
pub proof fn lemma_expand_index(op: DiffOp, k: int)
    requires 0 <= k < expand(op).len(), op_wf(op),
    ensures ({ let c = expand(op)[k];
        match op {
            DiffOp::Equal { old_index, new_index, len } =>
                c.tag == ChangeTag::Equal && c.old_index == Some((old_index + k) as usize) && c.new_index == Some((new_index + k) as usize) && c.side_is_old && c.idx == old_index + k,
            DiffOp::Delete { old_index, old_len, new_index } =>
                c.tag == ChangeTag::Delete && c.old_index == Some((old_index + k) as usize) && c.new_index is None && c.side_is_old && c.idx == old_index + k,
            DiffOp::Insert { old_index, new_index, new_len } =>
                c.tag == ChangeTag::Insert && c.old_index is None && c.new_index == Some((new_index + k) as usize) && !c.side_is_old && c.idx == new_index + k,
            DiffOp::Replace { old_index, old_len, new_index, new_len } =>
                if k < old_len { c.tag == ChangeTag::Delete && c.old_index == Some((old_index + k) as usize) && c.new_index is None && c.side_is_old && c.idx == old_index + k }
                else { c.tag == ChangeTag::Insert && c.old_index is None && c.new_index == Some((new_index + (k - old_len)) as usize) && !c.side_is_old && c.idx == new_index + (k - old_len) },
        } }),
{}

pub proof fn lemma_expand_all_concat(a: Seq<DiffOp>, b: Seq<DiffOp>)
    ensures expand_all(a + b) == expand_all(a) + expand_all(b),
    decreases a.len()
{
    if a.len() == 0 {
        assert(a + b =~= b);
        assert(expand_all(a) + expand_all(b) =~= expand_all(b));
    } else {
        lemma_expand_all_concat(a.drop_first(), b);
        assert((a + b).drop_first() =~= a.drop_first() + b);
        assert((a + b)[0] == a[0]);
        assert(expand_all(a + b) =~= expand_all(a) + expand_all(b));
    }
}

pub proof fn lemma_expand_all_push(a: Seq<DiffOp>, op: DiffOp)
    ensures expand_all(a.push(op)) == expand_all(a) + expand(op),
{
    lemma_expand_all_concat(a, seq![op]);
    assert(a.push(op) =~= a + seq![op]);
    let one = seq![op];
    assert(one.len() == 1 && one[0] == op);
    assert(one.drop_first() =~= Seq::<DiffOp>::empty());
    assert(expand_all(one.drop_first()) =~= Seq::<ChangeSpec>::empty());
    assert(expand_all(one) == expand(one[0]) + expand_all(one.drop_first()));
    assert(expand_all(one) =~= expand(op));
}

} // verus!
