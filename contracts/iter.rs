// src/iter.rs: ChangesIter, AllChangesIter (C13)
use std::marker::PhantomData;
verus! {

//@@ item src/types.rs :: ^impl DiffOp rw=R0 only=fn\s+iter_changes
impl DiffOp {





    /// Iterates over all changes encoded in the diff op against old and new
    /// sequences.
    ///
    /// `old` and `new` are two indexable objects like the types you pass to
    /// the diffing algorithm functions.
    ///
    /// ```rust
    /// use similar::{ChangeTag, Algorithm};
    /// use similar::capture_diff_slices;
    /// let old = vec!["foo", "bar", "baz"];
    /// let new = vec!["foo", "bar", "blah"];
    /// let ops = capture_diff_slices(Algorithm::Myers, &old, &new);
    /// let changes: Vec<_> = ops
    ///     .iter()
    ///     .flat_map(|x| x.iter_changes(&old, &new))
    ///     .map(|x| (x.tag(), x.value()))
    ///     .collect();
    /// assert_eq!(changes, vec![
    ///     (ChangeTag::Equal, "foo"),
    ///     (ChangeTag::Equal, "bar"),
    ///     (ChangeTag::Delete, "baz"),
    ///     (ChangeTag::Insert, "blah"),
    /// ]);
    /// ```
    pub fn iter_changes<'lookup, Old, New, T>(
        &self,
        old: &'lookup Old,
        new: &'lookup New,
    ) -> (res: ChangesIter<'lookup, Old, New, T>)
    where
        Old: Index<usize, Output = T> + ?Sized,
        New: Index<usize, Output = T> + ?Sized,
    {
        ChangesIter::new(old, new, *self)
    }









}
//@@ end

//@@ item src/iter.rs :: ^pub struct ChangesIter
pub struct ChangesIter<'lookup, Old: ?Sized, New: ?Sized, T> {
    old: &'lookup Old,
    new: &'lookup New,
    old_range: Range<usize>,
    new_range: Range<usize>,
    old_index: usize,
    new_index: usize,
    old_i: usize,
    new_i: usize,
    tag: DiffTag,
    _marker: PhantomData<T>,
}
//@@ end

//@@ item src/iter.rs :: ^impl<'lookup, Old, New, T> ChangesIter rw=R0
impl<'lookup, Old, New, T> ChangesIter<'lookup, Old, New, T>
where
    Old: Index<usize, Output = T> + ?Sized,
    New: Index<usize, Output = T> + ?Sized,
{
    pub(crate) fn new(old: &'lookup Old, new: &'lookup New, op: DiffOp) -> (res: Self)
    {
        let (tag, old_range, new_range) = op.as_tag_tuple();
        let old_index = old_range.start;
        let new_index = new_range.start;
        let old_i = old_range.start;
        let new_i = new_range.start;
        ChangesIter {
            old,
            new,
            old_range,
            new_range,
            old_index,
            new_index,
            old_i,
            new_i,
            tag,
            _marker: PhantomData,
        }
    }
}
//@@ end

//@@ item src/iter.rs :: ^impl<Old, New, T> Iterator for ChangesIter rw=R0
impl<Old, New, T> Iterator for ChangesIter<'_, Old, New, T>
where
    Old: Index<usize, Output = T> + ?Sized,
    New: Index<usize, Output = T> + ?Sized,
    T: Clone,
{
    type Item = Change<T>;

    fn next(&mut self) -> (res: Option<Self::Item>)
    {
        match self.tag {
            DiffTag::Equal => {
                if self.old_i < self.old_range.end {
                    let value = self.old[self.old_i].clone();
                    self.old_i += 1;
                    self.old_index += 1;
                    self.new_index += 1;
                    Some(Change {
                        tag: ChangeTag::Equal,
                        old_index: Some(self.old_index - 1),
                        new_index: Some(self.new_index - 1),
                        value,
                    })
                } else {
                    None
                }
            }
            DiffTag::Delete => {
                if self.old_i < self.old_range.end {
                    let value = self.old[self.old_i].clone();
                    self.old_i += 1;
                    self.old_index += 1;
                    Some(Change {
                        tag: ChangeTag::Delete,
                        old_index: Some(self.old_index - 1),
                        new_index: None,
                        value,
                    })
                } else {
                    None
                }
            }
            DiffTag::Insert => {
                if self.new_i < self.new_range.end {
                    let value = self.new[self.new_i].clone();
                    self.new_i += 1;
                    self.new_index += 1;
                    Some(Change {
                        tag: ChangeTag::Insert,
                        old_index: None,
                        new_index: Some(self.new_index - 1),
                        value,
                    })
                } else {
                    None
                }
            }
            DiffTag::Replace => {
                if self.old_i < self.old_range.end {
                    let value = self.old[self.old_i].clone();
                    self.old_i += 1;
                    self.old_index += 1;
                    Some(Change {
                        tag: ChangeTag::Delete,
                        old_index: Some(self.old_index - 1),
                        new_index: None,
                        value,
                    })
                } else if self.new_i < self.new_range.end {
                    let value = self.new[self.new_i].clone();
                    self.new_i += 1;
                    self.new_index += 1;
                    Some(Change {
                        tag: ChangeTag::Insert,
                        old_index: None,
                        new_index: Some(self.new_index - 1),
                        value,
                    })
                } else {
                    None
                }
            }
        }
    }
}
//@@ end

//@@ item src/iter.rs :: ^mod text :: ^pub struct AllChangesIter
    pub struct AllChangesIter<'slf, 'data, T: ?Sized> {
        old: &'slf [&'data T],
        new: &'slf [&'data T],
        ops: &'slf [DiffOp],
        current_iter: Option<ChangesIter<'slf, [&'data T], [&'data T], &'data T>>,
    }
//@@ end

//@@ item src/iter.rs :: ^mod text :: ^impl<'slf, 'data, T> AllChangesIter rw=R0
    impl<'slf, 'data, T> AllChangesIter<'slf, 'data, T>
    where
        T: 'data + ?Sized + PartialEq,
    {
        pub(crate) fn new(
            old: &'slf [&'data T],
            new: &'slf [&'data T],
            ops: &'slf [DiffOp],
        ) -> (res: Self)
        {
            AllChangesIter {
                old,
                new,
                ops,
                current_iter: None,
            }
        }
    }
//@@ end

//@@ item src/iter.rs :: ^mod text :: ^impl<'slf, 'data, T> Iterator for AllChangesIter rw=R2t,R0,R8
    impl<'slf, 'data, T> Iterator for AllChangesIter<'slf, 'data, T>
    where
        T: PartialEq + 'data + ?Sized,
        'data: 'slf,
    {
        type Item = Change<&'data T>;

        fn next(&mut self) -> (res: Option<Self::Item>)
        {
            loop
            /*@*/     decreases self.ops.len(),
            {
                if let Some(ref mut iter) = self.current_iter {
                    if let Some(rv) = iter.next() {
                        return Some(rv);
                    }
                    self.current_iter.take();
                }
                if let Some((first__r, rest)) = self.ops.split_first() { let first = *first__r;
                    self.current_iter = Some(ChangesIter::new(self.old, self.new, first));
                    self.ops = rest;
                } else {
                    return None;
                }
            }
        }
    }
//@@ end

} // verus!
