// src/text/abstraction.rs, `mod bytes_support`: the `[u8]` tokenizers (property C06, byte strings).
// Included after tokens.rs (shares its vocabulary and the assumed std contracts).
//
// The external crate `bstr` cannot be linked in a single-file Verus run.  Its two declarations that the code uses
// (`ByteSlice::char_indices` for `[u8]` and the iterator type `CharIndices`) are DECLARED here as a stub module
// `bstr` with the same names and signatures, bodies `external_body`, and an ASSUMED contract (section B1); nothing
// in the stub is verified and nothing of /repo is replaced by it.
use bstr::ByteSlice;

verus! {

// ---------------------------------------------------------------------------------------------
// B1. ASSUMED CONTRACT OF THE DEPENDENCY bstr (stub declarations, see above)
// ---------------------------------------------------------------------------------------------
pub mod bstr {
    use vstd::prelude::*;
    use super::*;

    /// bstr::CharIndices<'a>: iterator over (start, end, char)
    #[verifier::external_body]
    pub struct CharIndices<'a> { bs: &'a [u8] }

    impl<'a> Iterator for CharIndices<'a> {
        type Item = (usize, usize, char);
        /// contract: vstd's trait-level contract of Iterator::next (prophetic `remaining()`)
        #[verifier::external_body]
        fn next(&mut self) -> Option<(usize, usize, char)> { unimplemented!() }
    }

    pub trait ByteSlice {
        fn char_indices(&self) -> CharIndices<'_>;
    }

    impl ByteSlice for [u8] {
        /// ASSUMED (bstr `ByteSlice::char_indices`, doc: "Returns an iterator over the Unicode scalar values in this
        /// byte string along with their starting and ending byte index positions. If invalid UTF-8 is encountered,
        /// then the Unicode replacement codepoint is yielded instead."): the iterator is well-behaved and yields
        /// `bchars(bytes)`, characterised by `axiom_bstr_char_indices`.
        #[verifier::external_body]
        fn char_indices(&self) -> (r: CharIndices<'_>)
            ensures it_laws(&r), it_rem(&r) == bchars(self@),
        { unimplemented!() }
    }
}

/// what bstr's `char_indices` yields for the bytes b: (start, end, char) triples
pub uninterp spec fn bchars(b: Seq<u8>) -> Seq<(usize, usize, char)>;


/// the chars bstr sees in b (U+FFFD for every invalid sequence)
pub open spec fn bcs(b: Seq<u8>) -> Seq<char> { Seq::new(bchars(b).len(), |i: int| bchars(b)[i].2) }

/// byte offset at which char i starts (the length of b for i == number of chars)
#[verifier::opaque]
pub open spec fn bstart(b: Seq<u8>, i: int) -> int {
    if i < bchars(b).len() { bchars(b)[i].0 as int } else { b.len() as int }
}

/// ASSUMED (bstr `char_indices`, same doc; `bstr::utf8::decode` "returns the number of bytes consumed", 1..=3 bytes
/// for an invalid sequence): the (start, end) ranges are non-empty, contiguous, start at 0 and end at the length;
/// a char other than U+FFFD stands for exactly the bytes of its UTF-8 encoding; on valid UTF-8 the chars and start
/// offsets are those of `str::char_indices` on the same text.
#[verifier::external_body]
pub proof fn axiom_bstr_char_indices(b: Seq<u8>)
    ensures
        bstart(b, 0) == 0,
        forall|i: int| 0 <= i < bchars(b).len() ==>
            (#[trigger] bchars(b)[i]).0 < bchars(b)[i].1 && bchars(b)[i].1 as int == bstart(b, i + 1),
        forall|i: int| 0 <= i < bchars(b).len() && (#[trigger] bchars(b)[i]).2 != '\u{FFFD}' ==>
            b.subrange(bchars(b)[i].0 as int, bchars(b)[i].1 as int) == encode_scalar(bchars(b)[i].2 as u32),
        valid_utf8(b) ==> bcs(b) == decode_utf8(b),
        valid_utf8(b) ==> forall|i: int| 0 <= i <= bchars(b).len() ==> #[trigger] bstart(b, i) == off(decode_utf8(b), i),
{}

// ---------------------------------------------------------------------------------------------
// B2. Specification vocabulary for byte strings (the predicates line_tok_ok / run_tok_ok / cuts_ok of tokens.rs
//     applied to the chars bstr sees)
// ---------------------------------------------------------------------------------------------

/// the token t is the piece of b that consists of the chars a..e
pub open spec fn btok_is(b: Seq<u8>, t: &[u8], a: int, e: int) -> bool { t@ == b.subrange(bstart(b, a), bstart(b, e)) }

pub open spec fn btokens_at(b: Seq<u8>, toks: Seq<&[u8]>, c: Seq<int>) -> bool {
    &&& toks.len() + 1 == c.len()
    &&& forall|k: int| 0 <= k < toks.len() ==> btok_is(b, #[trigger] toks[k], c[k], c[k + 1])
}

/// (P) for byte strings
pub open spec fn bpartition(b: Seq<u8>, toks: Seq<&[u8]>, c: Seq<int>) -> bool {
    cuts_ok(c, bchars(b).len() as int) && btokens_at(b, toks, c)
}

pub open spec fn blines_spec(b: Seq<u8>, toks: Seq<&[u8]>, c: Seq<int>) -> bool {
    &&& bpartition(b, toks, c)
    &&& forall|k: int| 0 <= k < toks.len() ==> #[trigger] line_tok_ok(bcs(b), c[k], c[k + 1])
}

pub open spec fn bruns_spec(b: Seq<u8>, w: bool, toks: Seq<&[u8]>, c: Seq<int>) -> bool {
    &&& bpartition(b, toks, c)
    &&& forall|k: int| 0 <= k < toks.len() ==> #[trigger] run_tok_ok(bcs(b), w, c[k], c[k + 1])
}

/// tokenize_chars: token k is the byte range of the k-th char bstr sees
pub open spec fn bchars_spec(b: Seq<u8>, toks: Seq<&[u8]>) -> bool {
    &&& toks.len() == bchars(b).len()
    &&& forall|k: int| 0 <= k < toks.len() ==> btok_is(b, #[trigger] toks[k], k, k + 1)
}

pub open spec fn bcat(toks: Seq<&[u8]>) -> Seq<u8> decreases toks.len() {
    if toks.len() == 0 { Seq::<u8>::empty() } else { bcat(toks.drop_last()) + toks.last()@ }
}

pub open spec fn pin_btoks(v: &Vec<&[u8]>) -> bool { true }

// ---------------------------------------------------------------------------------------------
// B3. Lemmas (proved)
// ---------------------------------------------------------------------------------------------

/// `bstart` unfolded at one index (it is opaque: the contiguity clause of the axiom would otherwise feed itself)
pub proof fn lemma_tokb_start_def(b: Seq<u8>, i: int)
    ensures bstart(b, i) == (if i < bchars(b).len() { bchars(b)[i].0 as int } else { b.len() as int }),
{ reveal(bstart); }

/// the first char starts at 0, the end is the length
pub proof fn lemma_tokb_ends(b: Seq<u8>)
    ensures bstart(b, 0) == 0, bstart(b, bchars(b).len() as int) == b.len(),
{
    axiom_bstr_char_indices(b);
    lemma_tokb_start_def(b, bchars(b).len() as int);
}

/// start offsets are within the bytes
pub proof fn lemma_tokb_start_le_len(b: Seq<u8>, j: int)
    requires 0 <= j <= bchars(b).len(),
    ensures 0 <= bstart(b, j) <= b.len(),
    decreases bchars(b).len() - j,
{
    lemma_tokb_start_def(b, j);
    if j < bchars(b).len() {
        lemma_tokb_start_le_len(b, j + 1);
        axiom_bstr_char_indices(b);
        assert(bchars(b)[j].0 < bchars(b)[j].1);
    }
}

/// start offsets are increasing
pub proof fn lemma_tokb_start_mono(b: Seq<u8>, i: int, j: int)
    requires 0 <= i <= j <= bchars(b).len(),
    ensures 0 <= bstart(b, i) <= bstart(b, j) <= b.len(), i < j ==> bstart(b, i) < bstart(b, j),
    decreases j - i,
{
    lemma_tokb_start_le_len(b, j);
    lemma_tokb_start_le_len(b, i);
    if i < j {
        lemma_tokb_start_mono(b, i + 1, j);
        lemma_tokb_start_def(b, i);
        axiom_bstr_char_indices(b);
        assert(bchars(b)[i].0 < bchars(b)[i].1);
    }
}

/// the item the iterator yields at position k
pub proof fn lemma_tokb_item(b: Seq<u8>, k: int)
    requires 0 <= k < bchars(b).len(),
    ensures bchars(b)[k].2 == bcs(b)[k], bchars(b)[k].0 as int == bstart(b, k), bchars(b)[k].1 as int == bstart(b, k + 1),
        bchars(b).skip(k)[0] == bchars(b)[k], bchars(b).skip(k).skip(1) == bchars(b).skip(k + 1),
        0 <= bstart(b, k) < bstart(b, k + 1) <= b.len(),
        is_nl(bcs(b)[k]) ==> bstart(b, k + 1) == bstart(b, k) + 1,
{
    lemma_tokb_start_def(b, k);
    lemma_tokb_start_mono(b, k, k + 1);
    assert(bchars(b).skip(k).skip(1) =~= bchars(b).skip(k + 1));
    let it = bchars(b)[k];
    axiom_bstr_char_indices(b);
    assert(it.1 as int == bstart(b, k + 1));
    if is_nl(it.2) {
        assert(b.subrange(it.0 as int, it.1 as int).len() == encode_scalar(it.2 as u32).len());
    }
}

/// token k is the piece bo[k]..bo[k+1] of the bytes
pub open spec fn bpiece(toks: Seq<&[u8]>, b: Seq<u8>, bo: Seq<int>, k: int) -> bool {
    0 <= bo[k] <= bo[k + 1] <= b.len() && toks[k]@ == b.subrange(bo[k], bo[k + 1])
}

pub proof fn lemma_tokb_cat_prefix(toks: Seq<&[u8]>, b: Seq<u8>, bo: Seq<int>, m: int)
    requires 0 <= m <= toks.len(), bo.len() == toks.len() + 1, bo[0] == 0,
        forall|k: int| 0 <= k < toks.len() ==> #[trigger] bpiece(toks, b, bo, k),
    ensures bcat(toks.take(m)) == b.subrange(0, bo[m]), 0 <= bo[m] <= b.len(),
    decreases m,
{
    if m == 0 {
        assert(toks.take(0) =~= Seq::<&[u8]>::empty());
        assert(b.subrange(0, 0) =~= Seq::<u8>::empty());
    } else {
        lemma_tokb_cat_prefix(toks, b, bo, m - 1);
        assert(bpiece(toks, b, bo, m - 1));
        let p = toks.take(m);
        assert(p.drop_last() =~= toks.take(m - 1));
        assert(p.last() == toks[m - 1]);
        assert(bcat(p) == bcat(p.drop_last()) + p.last()@);
        lemma_tok_seq_join(b, bo[m - 1], bo[m]);
    }
}

pub open spec fn bbyte_cuts(b: Seq<u8>, c: Seq<int>) -> Seq<int> { Seq::new(c.len(), |k: int| bstart(b, c[k])) }

pub proof fn lemma_tokb_partition_piece(b: Seq<u8>, toks: Seq<&[u8]>, c: Seq<int>, k: int)
    requires bpartition(b, toks, c), 0 <= k < toks.len(),
    ensures bpiece(toks, b, bbyte_cuts(b, c), k), toks[k]@.len() > 0,
{
    assert(btok_is(b, toks[k], c[k], c[k + 1]));
    lemma_tok_cuts_bounds(c, bchars(b).len() as int, k);
    lemma_tok_cuts_bounds(c, bchars(b).len() as int, k + 1);
    lemma_tokb_start_mono(b, c[k], c[k + 1]);
}

pub proof fn lemma_tokb_partition_shape(b: Seq<u8>, toks: Seq<&[u8]>, c: Seq<int>)
    requires bpartition(b, toks, c),
    ensures bbyte_cuts(b, c).len() == toks.len() + 1, bbyte_cuts(b, c)[0] == 0, bbyte_cuts(b, c)[toks.len() as int] == b.len(),
{
    lemma_tokb_ends(b);
}

/// (P) spelled out for byte strings: non-empty tokens whose concatenation is the input
pub proof fn lemma_tokb_partition_concat(b: Seq<u8>, toks: Seq<&[u8]>, c: Seq<int>)
    requires bpartition(b, toks, c),
    ensures bcat(toks) == b, forall|k: int| 0 <= k < toks.len() ==> (#[trigger] toks[k])@.len() > 0,
{
    hide(bpartition); hide(bpiece); hide(bbyte_cuts);
    let bo = bbyte_cuts(b, c);
    lemma_tokb_partition_shape(b, toks, c);
    assert forall|k: int| 0 <= k < toks.len() implies #[trigger] bpiece(toks, b, bo, k) by {
        lemma_tokb_partition_piece(b, toks, c, k);
    }
    assert forall|k: int| 0 <= k < toks.len() implies (#[trigger] toks[k])@.len() > 0 by {
        lemma_tokb_partition_piece(b, toks, c, k);
    }
    lemma_tokb_cat_prefix(toks, b, bo, toks.len() as int);
    assert(toks.take(toks.len() as int) =~= toks);
    assert(b.subrange(0, b.len() as int) =~= b);
}

// ---------------------------------------------------------------------------------------------
// B3b. On valid UTF-8 the str and the byte-string specifications describe the same tokens
// ---------------------------------------------------------------------------------------------

/// the bytes of a str are valid UTF-8 and bstr sees the chars of the str at the offsets of the str
pub proof fn lemma_tok_bstr_on_str(s: &str)
    ensures bcs(s.spec_bytes()) == s@, bchars(s.spec_bytes()).len() == s@.len(),
        forall|i: int| 0 <= i <= s@.len() ==> #[trigger] bstart(s.spec_bytes(), i) == off(s@, i),
{
    let b = s.spec_bytes();
    encode_utf8_valid_utf8(s@);
    encode_utf8_decode_utf8(s@);
    axiom_bstr_char_indices(b);
    assert(bcs(b).len() == bchars(b).len());
}

/// "On valid UTF-8 the str and byte implementations of the line tokenizer return identical tokens": any token list
/// that meets the str contract and any token list that meets the [u8] contract on the bytes of the same text have
/// the same length and the same bytes token by token
pub proof fn lemma_tok_lines_str_bytes_agree(s: &str, ts: Seq<&str>, c1: Seq<int>, tb: Seq<&[u8]>, c2: Seq<int>)
    requires lines_spec(s, ts, c1), blines_spec(s.spec_bytes(), tb, c2),
    ensures c1 == c2, ts.len() == tb.len(),
        forall|k: int| 0 <= k < ts.len() ==> (#[trigger] ts[k]).spec_bytes() == tb[k]@,
{
    let cs = s@; let b = s.spec_bytes(); let n = cs.len() as int;
    lemma_tok_bstr_on_str(s);
    let ok = |a: int, e: int| line_tok_ok(cs, a, e);
    assert forall|a: int, b1: int, b2: int| 0 <= a < b1 < b2 <= n && #[trigger] ok(a, b1) && #[trigger] ok(a, b2) implies false by {
        lemma_tok_line_end_unique(cs, a, b1, b2);
    }
    assert forall|k: int| 0 <= k < c1.len() - 1 implies #[trigger] ok(c1[k], c1[k + 1]) by { assert(line_tok_ok(cs, c1[k], c1[k + 1])); }
    assert forall|k: int| 0 <= k < c2.len() - 1 implies #[trigger] ok(c2[k], c2[k + 1]) by { assert(line_tok_ok(bcs(b), c2[k], c2[k + 1])); }
    lemma_tok_cuts_unique(n, c1, c2, ok);
    assert forall|k: int| 0 <= k < ts.len() implies (#[trigger] ts[k]).spec_bytes() == tb[k]@ by {
        assert(tok_is(s, ts[k], c1[k], c1[k + 1]));
        assert(btok_is(b, tb[k], c2[k], c2[k + 1]));
        lemma_tok_cuts_bounds(c1, n, k); lemma_tok_cuts_bounds(c1, n, k + 1);
    }
}

/// the same for the word (w = true) and lines-and-newlines (w = false) tokenizers
pub proof fn lemma_tok_runs_str_bytes_agree(s: &str, w: bool, ts: Seq<&str>, c1: Seq<int>, tb: Seq<&[u8]>, c2: Seq<int>)
    requires runs_spec(s, w, ts, c1), bruns_spec(s.spec_bytes(), w, tb, c2),
    ensures c1 == c2, ts.len() == tb.len(),
        forall|k: int| 0 <= k < ts.len() ==> (#[trigger] ts[k]).spec_bytes() == tb[k]@,
{
    let cs = s@; let b = s.spec_bytes(); let n = cs.len() as int;
    lemma_tok_bstr_on_str(s);
    let ok = |a: int, e: int| run_tok_ok(cs, w, a, e);
    assert forall|a: int, b1: int, b2: int| 0 <= a < b1 < b2 <= n && #[trigger] ok(a, b1) && #[trigger] ok(a, b2) implies false by {
        lemma_tok_run_end_unique(cs, w, a, b1, b2);
    }
    assert forall|k: int| 0 <= k < c1.len() - 1 implies #[trigger] ok(c1[k], c1[k + 1]) by { assert(run_tok_ok(cs, w, c1[k], c1[k + 1])); }
    assert forall|k: int| 0 <= k < c2.len() - 1 implies #[trigger] ok(c2[k], c2[k + 1]) by { assert(run_tok_ok(bcs(b), w, c2[k], c2[k + 1])); }
    lemma_tok_cuts_unique(n, c1, c2, ok);
    assert forall|k: int| 0 <= k < ts.len() implies (#[trigger] ts[k]).spec_bytes() == tb[k]@ by {
        assert(tok_is(s, ts[k], c1[k], c1[k + 1]));
        assert(btok_is(b, tb[k], c2[k], c2[k + 1]));
        lemma_tok_cuts_bounds(c1, n, k); lemma_tok_cuts_bounds(c1, n, k + 1);
    }
}

// ---------------------------------------------------------------------------------------------
// B4. The code of /repo
// ---------------------------------------------------------------------------------------------

//@@ item src/text/abstraction.rs :: ^mod bytes_support :: ^impl DiffableStr for \[u8\] only=fn\s+(tokenize_(lines|lines_and_newlines|words|chars)|len|slice)\( rw=R0,R8,R13,R12,R11
    impl DiffableStr for [u8] {
        /*@*/ /// the byte view of a byte string: the bytes
        /*@*/ open spec fn bytes(&self) -> Seq<u8> { self@ }
        /*@*/ /// the shape clauses of the four tokenizers (see blines_spec / bruns_spec / bchars_spec), over the chars bstr sees
        /*@*/ open spec fn tok_shape(&self, kind: TokKind, toks: Seq<&[u8]>) -> bool {
        /*@*/     match kind {
        /*@*/         TokKind::Lines => exists|c: Seq<int>| blines_spec(self@, toks, c),
        /*@*/         TokKind::LinesAndNewlines => exists|c: Seq<int>| bruns_spec(self@, false, toks, c),
        /*@*/         TokKind::Words => exists|c: Seq<int>| bruns_spec(self@, true, toks, c),
        /*@*/         TokKind::Chars => bchars_spec(self@, toks),
        /*@*/     }
        /*@*/ }
        fn tokenize_lines(&self) -> (res: Vec<&Self>)
        /*@*/     ensures
        /*@*/         // (P) non-empty tokens whose concatenation is the input, byte for byte
        /*@*/         bcat(res@) == self@,
        /*@*/         forall|k: int| 0 <= k < res@.len() ==> (#[trigger] res@[k])@.len() > 0,
        /*@*/         // (P)+(L) every piece a line, over the chars bstr sees (see line_tok_ok)
        /*@*/         exists|c: Seq<int>| blines_spec(self@, res@, c),
        {
            /*@*/ let ghost b = self@; let ghost n = bchars(b).len() as int;
            /*@*/ let ghost cs = bcs(b);
            /*@*/ proof { lemma_tokb_ends(b); }
            let mut iter = iter_peekable(self.char_indices());
            let mut last_pos = 0;
            let mut lines = vec![];
            /*@*/ proof { let _ = pin_btoks(&lines); }
            /*@*/ let ghost mut k: int = 0; let ghost mut cut: Seq<int> = seq![0int];

            while let Some((_, end, c)) = iter.next()
            /*@*/     invariant
            /*@*/         b == self@, n == bchars(b).len(), cs == bcs(b),
            /*@*/         it_laws(&iter), 0 <= k <= n,
            /*@*/         it_rem(&iter) == bchars(b).skip(k),                          // the iterator is at char k
            /*@*/         cut.len() == lines@.len() + 1, cut[0] == 0,
            /*@*/         0 <= cut.last() <= k,                                        // the pending line starts at char cut.last()
            /*@*/         forall|i: int, j: int| 0 <= i < j < cut.len() ==> #[trigger] cut[i] < #[trigger] cut[j],
            /*@*/         last_pos as int == bstart(b, cut.last()),                    // last_pos is the byte offset of the pending line
            /*@*/         forall|j: int| 0 <= j < lines@.len() ==> btok_is(b, #[trigger] lines@[j], cut[j], cut[j + 1]),
            /*@*/         forall|j: int| 0 <= j < lines@.len() ==> #[trigger] line_tok_ok(cs, cut[j], cut[j + 1]),
            /*@*/         forall|j: int| cut.last() <= j < k ==> !is_nl(#[trigger] cs[j]),   // no line break in the pending line
            /*@*/     ensures k == n,
            /*@*/     decreases n - k,
            {
                /*@*/ let ghost a = cut.last();
                /*@*/ proof { lemma_tokb_item(b, k); lemma_tokb_start_mono(b, a, k); }
                /*@*/ assert(c == cs[k] && end as int == bstart(b, k + 1));
                if c == '\r' {
                    /*@*/ proof { if k + 1 < n { lemma_tokb_item(b, k + 1); } }
                    if match (iter.peek()) { Some(x) => x.2 == '\n', None => false } {
                        /*@*/ assert(k + 1 < n && cs[k + 1] == '\n');
                        lines.push(&self[last_pos..end + 1]);
                        iter.next();
                        last_pos = end + 1;
                        /*@*/ proof {
                        /*@*/     cut = cut.push(k + 2); k = k + 2;
                        /*@*/     assert(term_len(cs, a, k) == 2);
                        /*@*/     assert(line_tok_ok(cs, a, k));
                        /*@*/ }
                    } else {
                        /*@*/ assert(k + 1 == n || cs[k + 1] != '\n');
                        lines.push(&self[last_pos..end]);
                        last_pos = end;
                        /*@*/ proof {
                        /*@*/     cut = cut.push(k + 1); k = k + 1;
                        /*@*/     assert(term_len(cs, a, k) == 1);
                        /*@*/     assert(line_tok_ok(cs, a, k));
                        /*@*/ }
                    }
                } else if c == '\n' {
                    lines.push(&self[last_pos..end]);
                    last_pos = end;
                    /*@*/ proof {
                    /*@*/     cut = cut.push(k + 1); k = k + 1;
                    /*@*/     assert(term_len(cs, a, k) == 1);
                    /*@*/     assert(line_tok_ok(cs, a, k));
                    /*@*/ }
                }
                /*@*/ else { proof { k = k + 1; } }
            }

            /*@*/ let ghost a = cut.last();
            /*@*/ proof { lemma_tokb_start_mono(b, a, n); }
            if last_pos < self.len() {
                lines.push(&self[last_pos..]);
                /*@*/ proof {
                /*@*/     cut = cut.push(n);
                /*@*/     assert(term_len(cs, a, n) == 0);
                /*@*/     assert(line_tok_ok(cs, a, n));
                /*@*/ }
            }

            /*@*/ proof {
            /*@*/     assert(cut.last() == n);
            /*@*/     assert(blines_spec(b, lines@, cut));
            /*@*/     lemma_tokb_partition_concat(b, lines@, cut);
            /*@*/     // the trait-level clauses (diffablestr.rs)
            /*@*/     lemma_tokb_partition_bridge(self, lines@);
            /*@*/     assert(Seq::new(lines@.len(), |i: int| <[u8] as DiffableStr>::bytes(lines@[i])) =~= u8_tok_bytes(lines@));
            /*@*/ }
            lines
        }

        fn tokenize_lines_and_newlines(&self) -> (res: Vec<&Self>)
        /*@*/     ensures
        /*@*/         // (P) non-empty tokens whose concatenation is the input, byte for byte
        /*@*/         bcat(res@) == self@,
        /*@*/         forall|k: int| 0 <= k < res@.len() ==> (#[trigger] res@[k])@.len() > 0,
        /*@*/         // (P)+(W)/(N) maximal runs of one class, over the chars bstr sees (see run_tok_ok)
        /*@*/         exists|c: Seq<int>| bruns_spec(self@, false, res@, c),
        {
            /*@*/ let ghost b = self@; let ghost n = bchars(b).len() as int;
            /*@*/ proof { lemma_tokb_ends(b); }
            let mut rv = vec![];
            let mut iter = iter_peekable(self.char_indices());
            /*@*/ proof { let _ = pin_btoks(&rv); }
            /*@*/ let ghost mut k: int = 0; let ghost mut cut: Seq<int> = seq![0int];

            while let Some((start, mut end, c)) = iter.next()
            /*@*/     invariant
            /*@*/         b == self@, n == bchars(b).len(),
            /*@*/         it_laws(&iter), 0 <= k <= n,
            /*@*/         it_rem(&iter) == bchars(b).skip(k),                          // the iterator is at char k
            /*@*/         cut.len() == rv@.len() + 1, cut[0] == 0,
            /*@*/         cut.last() == k,                                             // the tokens so far end at char k
            /*@*/         forall|i: int, j: int| 0 <= i < j < cut.len() ==> #[trigger] cut[i] < #[trigger] cut[j],
            /*@*/         forall|j: int| 0 <= j < rv@.len() ==> btok_is(b, #[trigger] rv@[j], cut[j], cut[j + 1]),
            /*@*/         forall|j: int| 0 <= j < rv@.len() ==> #[trigger] run_tok_ok(bcs(b), false, cut[j], cut[j + 1]),
            /*@*/     ensures k == n,
            /*@*/     decreases n - k,
            {
                /*@*/ proof { lemma_tokb_item(b, k); lemma_tok_cls(bcs(b)[k]); }
                /*@*/ let ghost k0 = k; let ghost mut m: int = k + 1;
                let is_newline = c == '\r' || c == '\n';
                while let Some(t__r) = iter.peek()
                /*@*/     invariant
                /*@*/         b == self@, n == bchars(b).len(),
                /*@*/         it_laws(&iter), 0 <= k0 < m <= n,
                /*@*/         it_rem(&iter) == bchars(b).skip(m),                      // the iterator is at char m
                /*@*/         end as int == bstart(b, m),                              // end is the byte offset of char m
                /*@*/         is_newline == cls(false, bcs(b)[k0]),
                /*@*/         forall|j: int| k0 <= j < m ==> cls(false, #[trigger] bcs(b)[j]) == cls(false, bcs(b)[k0]),   // one class so far
                /*@*/     ensures m == n || cls(false, bcs(b)[m]) != cls(false, bcs(b)[k0]),   // the run is maximal
                /*@*/     decreases n - m,
                {
                    /*@*/ proof { lemma_tokb_item(b, m); lemma_tok_cls(bcs(b)[m]); }
                    let (_, new_end, next_char) = *t__r;
                    /*@*/ assert(next_char == bcs(b)[m]);
                    if (next_char == '\r' || next_char == '\n') != is_newline {
                        break;
                    }
                    iter.next();
                    end = new_end;
                    /*@*/ proof { m = m + 1; }
                }
                /*@*/ proof { lemma_tokb_start_mono(b, k0, m); lemma_tokb_start_mono(b, m, n); }
                rv.push(&self[start..end]);
                /*@*/ proof {
                /*@*/     cut = cut.push(m); k = m;
                /*@*/     assert(run_tok_ok(bcs(b), false, k0, m));
                /*@*/ }
            }

            /*@*/ proof {
            /*@*/     assert(bruns_spec(b, false, rv@, cut));
            /*@*/     lemma_tokb_partition_concat(b, rv@, cut);
            /*@*/     // the trait-level clauses (diffablestr.rs)
            /*@*/     lemma_tokb_partition_bridge(self, rv@);
            /*@*/     assert(Seq::new(rv@.len(), |i: int| <[u8] as DiffableStr>::bytes(rv@[i])) =~= u8_tok_bytes(rv@));
            /*@*/ }
            rv
        }

        fn tokenize_words(&self) -> (res: Vec<&Self>)
        /*@*/     ensures
        /*@*/         // (P) non-empty tokens whose concatenation is the input, byte for byte
        /*@*/         bcat(res@) == self@,
        /*@*/         forall|k: int| 0 <= k < res@.len() ==> (#[trigger] res@[k])@.len() > 0,
        /*@*/         // (P)+(W)/(N) maximal runs of one class, over the chars bstr sees (see run_tok_ok)
        /*@*/         exists|c: Seq<int>| bruns_spec(self@, true, res@, c),
        {
            /*@*/ let ghost b = self@; let ghost n = bchars(b).len() as int;
            /*@*/ proof { lemma_tokb_ends(b); }
            let mut iter = iter_peekable(self.char_indices());
            let mut rv = vec![];
            /*@*/ proof { let _ = pin_btoks(&rv); }
            /*@*/ let ghost mut k: int = 0; let ghost mut cut: Seq<int> = seq![0int];

            while let Some((start, mut end, c)) = iter.next()
            /*@*/     invariant
            /*@*/         b == self@, n == bchars(b).len(),
            /*@*/         it_laws(&iter), 0 <= k <= n,
            /*@*/         it_rem(&iter) == bchars(b).skip(k),                          // the iterator is at char k
            /*@*/         cut.len() == rv@.len() + 1, cut[0] == 0,
            /*@*/         cut.last() == k,                                             // the tokens so far end at char k
            /*@*/         forall|i: int, j: int| 0 <= i < j < cut.len() ==> #[trigger] cut[i] < #[trigger] cut[j],
            /*@*/         forall|j: int| 0 <= j < rv@.len() ==> btok_is(b, #[trigger] rv@[j], cut[j], cut[j + 1]),
            /*@*/         forall|j: int| 0 <= j < rv@.len() ==> #[trigger] run_tok_ok(bcs(b), true, cut[j], cut[j + 1]),
            /*@*/     ensures k == n,
            /*@*/     decreases n - k,
            {
                /*@*/ proof { lemma_tokb_item(b, k); lemma_tok_cls(bcs(b)[k]); }
                /*@*/ let ghost k0 = k; let ghost mut m: int = k + 1;
                let is_whitespace = c.is_whitespace();
                while let Some(t__r) = iter.peek()
                /*@*/     invariant
                /*@*/         b == self@, n == bchars(b).len(),
                /*@*/         it_laws(&iter), 0 <= k0 < m <= n,
                /*@*/         it_rem(&iter) == bchars(b).skip(m),                      // the iterator is at char m
                /*@*/         end as int == bstart(b, m),                              // end is the byte offset of char m
                /*@*/         is_whitespace == cls(true, bcs(b)[k0]),
                /*@*/         forall|j: int| k0 <= j < m ==> cls(true, #[trigger] bcs(b)[j]) == cls(true, bcs(b)[k0]),   // one class so far
                /*@*/     ensures m == n || cls(true, bcs(b)[m]) != cls(true, bcs(b)[k0]),   // the run is maximal
                /*@*/     decreases n - m,
                {
                    /*@*/ proof { lemma_tokb_item(b, m); lemma_tok_cls(bcs(b)[m]); }
                    let (_, new_end, next_char) = *t__r;
                    /*@*/ assert(next_char == bcs(b)[m]);
                    if next_char.is_whitespace() != is_whitespace {
                        break;
                    }
                    iter.next();
                    end = new_end;
                    /*@*/ proof { m = m + 1; }
                }
                /*@*/ proof { lemma_tokb_start_mono(b, k0, m); lemma_tokb_start_mono(b, m, n); }
                rv.push(&self[start..end]);
                /*@*/ proof {
                /*@*/     cut = cut.push(m); k = m;
                /*@*/     assert(run_tok_ok(bcs(b), true, k0, m));
                /*@*/ }
            }

            /*@*/ proof {
            /*@*/     assert(bruns_spec(b, true, rv@, cut));
            /*@*/     lemma_tokb_partition_concat(b, rv@, cut);
            /*@*/     // the trait-level clauses (diffablestr.rs)
            /*@*/     lemma_tokb_partition_bridge(self, rv@);
            /*@*/     assert(Seq::new(rv@.len(), |i: int| <[u8] as DiffableStr>::bytes(rv@[i])) =~= u8_tok_bytes(rv@));
            /*@*/ }
            rv
        }



        /*@*/ // ASSUMED contract (the trait-level clauses of diffablestr.rs with tok_shape(Chars, ..) = bchars_spec: one token per
        /*@*/ // char bstr sees): the body - iterator `map(closure)` + `collect()` - is outside Verus' subset
        /*@*/ // (probes/tok_tokenize_chars_map_collect.rs).  Bounded stand-in: replay mode C06.
        /*@*/ #[verifier::external_body]
        fn tokenize_chars(&self) -> (res: Vec<&Self>)
        {
            self.char_indices()
                .map(move |(start, end, _)| &self[start..end])
                .collect()
        }




        fn len(&self) -> (res: usize)
        {
            <[u8]>::len(self)
        }

        fn slice(&self, rng: Range<usize>) -> (res: &Self)
        {
            &self[rng]
        }

    }
//@@ end

} // verus!
