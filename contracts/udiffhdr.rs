// src/udiff.rs: hunk header arithmetic (C05)
verus! {

//@@ item src/udiff.rs :: ^struct UnifiedDiffHunkRange rw=R7
#[derive(Copy, Clone)]
struct UnifiedDiffHunkRange(usize, usize);
//@@ end

//@@ item src/udiff.rs :: ^impl UnifiedDiffHunkRange rw=R0
impl UnifiedDiffHunkRange {
    fn start(&self) -> (res: usize)
    /*@*/     ensures res == self.0,
    {
        self.0
    }

    fn end(&self) -> (res: usize)
    /*@*/     ensures res == self.1,
    {
        self.1
    }
}
//@@ end

//@@ item src/udiff.rs :: ^pub struct UnifiedHunkHeader
pub struct UnifiedHunkHeader {
    old_range: UnifiedDiffHunkRange,
    new_range: UnifiedDiffHunkRange,
}
//@@ end

//@@ item src/udiff.rs :: ^impl UnifiedHunkHeader rw=R0
impl UnifiedHunkHeader {
    /*@*/ /// the four numbers of the header (the struct's fields are private)
    /*@*/ pub closed spec fn sp_old_start(&self) -> usize { self.old_range.0 }
    /*@*/ pub closed spec fn sp_old_end(&self) -> usize { self.old_range.1 }
    /*@*/ pub closed spec fn sp_new_start(&self) -> usize { self.new_range.0 }
    /*@*/ pub closed spec fn sp_new_end(&self) -> usize { self.new_range.1 }
    /// Creates a hunk header from a (non empty) slice of diff ops.
    pub fn new(ops: &[DiffOp]) -> (res: UnifiedHunkHeader)
    /*@*/     requires ops@.len() > 0, op_wf(ops@[0]), op_wf(ops@[ops@.len() - 1]),
    /*@*/     ensures
    /*@*/         res.sp_old_start() == op_old_index(ops@[0]), res.sp_old_end() == op_old_end(ops@[ops@.len() - 1]),
    /*@*/         res.sp_new_start() == op_new_index(ops@[0]), res.sp_new_end() == op_new_end(ops@[ops@.len() - 1]),
    {
        let first = ops[0];
        let last = ops[ops.len() - 1];
        let old_start = first.old_range().start;
        let new_start = first.new_range().start;
        let old_end = last.old_range().end;
        let new_end = last.new_range().end;
        UnifiedHunkHeader {
            old_range: UnifiedDiffHunkRange(old_start, old_end),
            new_range: UnifiedDiffHunkRange(new_start, new_end),
        }
    }
}
//@@ end

// ---------------------------------------------------------------------------------------------
// C05: the header's lengths count the lines of the hunk
// ---------------------------------------------------------------------------------------------
/// number of changes that carry an old index (Equal, Delete, the deletes of Replace) / a new index
pub open spec fn count_old(s: Seq<ChangeSpec>) -> nat
    decreases s.len()
{
    if s.len() == 0 { 0 } else { count_old(s.drop_last()) + (if s.last().old_index is Some { 1nat } else { 0nat }) }
}

pub open spec fn count_new(s: Seq<ChangeSpec>) -> nat
    decreases s.len()
{
    if s.len() == 0 { 0 } else { count_new(s.drop_last()) + (if s.last().new_index is Some { 1nat } else { 0nat }) }
}

/// each op starts on both sides exactly where the previous one ended
pub open spec fn contiguous(ops: Seq<DiffOp>) -> bool {
    forall|i: int| 0 <= i < ops.len() - 1 ==> op_old_end(#[trigger] ops[i]) == op_old_index(ops[i + 1]) && op_new_end(ops[i]) == op_new_index(ops[i + 1])
}

pub open spec fn all_op_wf(ops: Seq<DiffOp>) -> bool {
    forall|i: int| 0 <= i < ops.len() ==> op_wf(#[trigger] ops[i])
}

pub proof fn lemma_count_concat(a: Seq<ChangeSpec>, b: Seq<ChangeSpec>)
    ensures count_old(a + b) == count_old(a) + count_old(b), count_new(a + b) == count_new(a) + count_new(b),
    decreases b.len()
{
    if b.len() == 0 { assert(a + b =~= a); }
    else {
        lemma_count_concat(a, b.drop_last());
        assert((a + b).drop_last() =~= a + b.drop_last());
        assert((a + b).last() == b.last());
    }
}

pub proof fn lemma_count_runs(o: usize, n: usize, src: usize, cnt: nat)
    ensures
        count_old(run_eq(o, n, src, cnt)) == cnt, count_new(run_eq(o, n, src, cnt)) == cnt,
        count_old(run_del(o, src, cnt)) == cnt, count_new(run_del(o, src, cnt)) == 0,
        count_old(run_ins(n, src, cnt)) == 0, count_new(run_ins(n, src, cnt)) == cnt,
    decreases cnt
{
    if cnt > 0 {
        lemma_count_runs(o, n, src, (cnt - 1) as nat);
        assert(run_eq(o, n, src, cnt).drop_last() =~= run_eq(o, n, src, (cnt - 1) as nat));
        assert(run_del(o, src, cnt).drop_last() =~= run_del(o, src, (cnt - 1) as nat));
        assert(run_ins(n, src, cnt).drop_last() =~= run_ins(n, src, (cnt - 1) as nat));
    }
}

/// an op's expansion has one old-indexed change per old item it consumes, one new-indexed per new item
pub proof fn lemma_count_expand(op: DiffOp)
    ensures count_old(expand(op)) == op_old_len(op), count_new(expand(op)) == op_new_len(op),
{
    match op {
        DiffOp::Equal { old_index, new_index, len } => { lemma_count_runs(old_index, new_index, old_index, len as nat); }
        DiffOp::Delete { old_index, old_len, new_index } => { lemma_count_runs(old_index, new_index, old_index, old_len as nat); }
        DiffOp::Insert { old_index, new_index, new_len } => { lemma_count_runs(old_index, new_index, new_index, new_len as nat); }
        DiffOp::Replace { old_index, old_len, new_index, new_len } => {
            lemma_count_runs(old_index, new_index, old_index, old_len as nat);
            lemma_count_runs(old_index, new_index, new_index, new_len as nat);
            lemma_count_concat(run_del(old_index, old_index, old_len as nat), run_ins(new_index, new_index, new_len as nat));
        }
    }
}

/// C05: for a contiguous group of ops, the distance between the header's start and end on each side is the
/// number of item-wise changes of the group that carry an index of that side (the `-`/` ` resp. `+`/` ` lines)
pub proof fn lemma_hunk_counts(ops: Seq<DiffOp>)
    requires ops.len() > 0, all_op_wf(ops), contiguous(ops),
    ensures
        op_old_end(ops.last()) - op_old_index(ops[0]) == count_old(expand_all(ops)),
        op_new_end(ops.last()) - op_new_index(ops[0]) == count_new(expand_all(ops)),
    decreases ops.len()
{
    let rest = ops.drop_first();
    lemma_count_expand(ops[0]);
    lemma_count_concat(expand(ops[0]), expand_all(rest));
    if ops.len() == 1 {
        assert(expand_all(rest) =~= Seq::<ChangeSpec>::empty());
    } else {
        assert(rest[0] == ops[1] && rest.last() == ops.last());
        assert(all_op_wf(rest)) by { assert forall|i: int| 0 <= i < rest.len() implies op_wf(#[trigger] rest[i]) by { assert(rest[i] == ops[i + 1]); } }
        assert(contiguous(rest)) by {
            assert forall|i: int| 0 <= i < rest.len() - 1 implies op_old_end(#[trigger] rest[i]) == op_old_index(rest[i + 1]) && op_new_end(rest[i]) == op_new_index(rest[i + 1]) by {
                assert(rest[i] == ops[i + 1] && rest[i + 1] == ops[i + 2]);
            }
        }
        lemma_hunk_counts(rest);
    }
}

/// the same, stated on the header built by `UnifiedHunkHeader::new`
pub proof fn lemma_header_counts(h: UnifiedHunkHeader, ops: Seq<DiffOp>)
    requires ops.len() > 0, all_op_wf(ops), contiguous(ops),
        h.sp_old_start() == op_old_index(ops[0]), h.sp_old_end() == op_old_end(ops[ops.len() - 1]),
        h.sp_new_start() == op_new_index(ops[0]), h.sp_new_end() == op_new_end(ops[ops.len() - 1]),
    ensures
        h.sp_old_end() - h.sp_old_start() == count_old(expand_all(ops)),
        h.sp_new_end() - h.sp_new_start() == count_new(expand_all(ops)),
{
    lemma_hunk_counts(ops);
}

} // verus!
