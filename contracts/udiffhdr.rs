// src/udiff.rs: hunk header arithmetic (C05)
verus! {

//@@ item src/udiff.rs :: ^struct UnifiedDiffHunkRange rw=R7
#[derive(Copy, Clone)]
struct UnifiedDiffHunkRange(usize, usize);
//@@ end

//@@ item src/udiff.rs :: ^pub struct UnifiedHunkHeader
pub struct UnifiedHunkHeader {
    old_range: UnifiedDiffHunkRange,
    new_range: UnifiedDiffHunkRange,
}
//@@ end

//@@ item src/udiff.rs :: ^impl UnifiedHunkHeader rw=R0
impl UnifiedHunkHeader {
    /// Creates a hunk header from a (non empty) slice of diff ops.
    pub fn new(ops: &[DiffOp]) -> (res: UnifiedHunkHeader)
    {
        let first = ops[0];
        let last = ops[ops.len() - 1];
        let old_start = first.old_range().start;
        let new_start = first.new_range().start;
        let old_end = last.old_range().end;
        let new_end = last.new_range().end;
        UnifiedHunkHeader {
            old_range: UnifiedDiffHunkRange(old_start, old_end),
            new_range: UnifiedDiffHunkRange(new_start, new_end),
        }
    }
}
//@@ end

} // verus!
