// src/algorithms/compact.rs: cleanup_diff_ops, shift_diff_ops_up, shift_diff_ops_down
verus! {

//@@ item src/algorithms/compact.rs :: ^pub fn cleanup_diff_ops rw=R0,R8,R2,R10
/*@*/ /// the op list is a complete cursor-valid script for some box whose items may be indexed, and the carried indices
/*@*/ /// have room for the equal items around them (`carried_ok`, opspec_lemmas.rs: implied by exactness and by within-run validity)
/*@*/ pub open spec fn cleanup_pre<Old: Index<usize> + ?Sized, New: Index<usize> + ?Sized>(old: &Old, new: &New, ops: Seq<DiffOp>, b: OBox) -> bool
/*@*/   where New::Output: PartialEq<Old::Output>
/*@*/ {
/*@*/     ops_full(old, new, ops, b, false) && inb(old, (b.o0 as usize)..(b.oe as usize)) && inb(new, (b.n0 as usize)..(b.ne as usize))
/*@*/     && carried_ok(ops)
/*@*/ }
/*@*/ /// what every compaction step preserves, for every box the input is a script for:
/*@*/ /// cursor-wise validity (C02, C10), exactness of carried indices (C11), and the number of equal items (C10, C03)
/*@*/ pub open spec fn cleanup_post<Old: Index<usize> + ?Sized, New: Index<usize> + ?Sized>(old: &Old, new: &New, ops0: Seq<DiffOp>, ops1: Seq<DiffOp>) -> bool
/*@*/   where New::Output: PartialEq<Old::Output>
/*@*/ {
/*@*/     (forall|b: OBox| #[trigger] ops_full(old, new, ops0, b, false) ==> ops_full(old, new, ops1, b, false))
/*@*/     && esum(ops1, ops1.len() as int) == esum(ops0, ops0.len() as int)
/*@*/     && (carried_ok(ops0) ==> carried_ok(ops1))
/*@*/ }
/*@*/ pub open spec fn cleanup_post_exact<Old: Index<usize> + ?Sized, New: Index<usize> + ?Sized>(old: &Old, new: &New, ops0: Seq<DiffOp>, ops1: Seq<DiffOp>) -> bool
/*@*/   where New::Output: PartialEq<Old::Output>
/*@*/ {
/*@*/     forall|b: OBox| #[trigger] ops_full(old, new, ops0, b, true) ==> ops_full(old, new, ops1, b, true)
/*@*/ }
/*@*/ #[verifier::exec_allows_no_decreases_clause]
pub fn cleanup_diff_ops<Old, New>(old: &Old, new: &New, ops: &mut Vec<DiffOp>)
where
    Old: Index<usize> + ?Sized,
    New: Index<usize> + ?Sized,
    New::Output: PartialEq<Old::Output>,
/*@*/     requires exists|b: OBox| #[trigger] cleanup_pre(old, new, vstd::prelude::old(ops)@, b),
/*@*/     ensures
/*@*/         cleanup_post(old, new, vstd::prelude::old(ops)@, final(ops)@),
/*@*/ /*S*/         cleanup_post_exact(old, new, vstd::prelude::old(ops)@, final(ops)@),   // [C11]
/*@*/         // every Insert is the last op or sits before an Equal it cannot slide across (so no Insert is followed by a Delete or an Insert)
/*@*/         ins_stuck(rel_of(old, new), final(ops)@),   // [C09]
{
    /*@*/ let ghost ops0 = ops@;
    // First attempt to compact all Deletions
    let mut pointer = 0;
    while let Some(op__r) = ops.get(pointer)
    /*@*/     invariant
    /*@*/         exists|b: OBox| #[trigger] cleanup_pre(old, new, ops@, b),
    /*@*/         cleanup_post(old, new, ops0, ops@),
    /*@*/ /*S*/         cleanup_post_exact(old, new, ops0, ops@),   // [C11]
    {
        let op = *op__r;
        /*@*/ proof { let b = choose|b: OBox| cleanup_pre(old, new, ops@, b); assert(inv_pre(old, new, ops@, b)) by { reveal(inv_pre); } lemma_op_usable(old, new, ops@, pointer as int, b); }
        if let DiffTag::Delete = op.tag() {
            /*@*/ let ghost s1 = ops@; let ghost q1 = pointer as int;
            pointer = shift_diff_ops_up(ops, old, new, pointer);
            /*@*/ proof {
            /*@*/     let b = choose|b: OBox| cleanup_pre(old, new, s1, b);
            /*@*/     assert(ops_full(old, new, ops@, b, false)); assert(cleanup_pre(old, new, ops@, b));
            /*@*/     assert forall|b2: OBox| #[trigger] ops_full(old, new, ops0, b2, false) implies ops_full(old, new, ops@, b2, false) by { assert(ops_full(old, new, s1, b2, false)); }
            /*@*/ /*S*/     assert forall|b2: OBox| #[trigger] ops_full(old, new, ops0, b2, true) implies ops_full(old, new, ops@, b2, true) by { assert(ops_full(old, new, s1, b2, true)); }   // [C11]
            /*@*/ }
            /*@*/ let ghost s1 = ops@; let ghost q1 = pointer as int;
            pointer = shift_diff_ops_down(ops, old, new, pointer);
            /*@*/ proof {
            /*@*/     let b = choose|b: OBox| cleanup_pre(old, new, s1, b);
            /*@*/     assert(ops_full(old, new, ops@, b, false)); assert(cleanup_pre(old, new, ops@, b));
            /*@*/     assert forall|b2: OBox| #[trigger] ops_full(old, new, ops0, b2, false) implies ops_full(old, new, ops@, b2, false) by { assert(ops_full(old, new, s1, b2, false)); }
            /*@*/ /*S*/     assert forall|b2: OBox| #[trigger] ops_full(old, new, ops0, b2, true) implies ops_full(old, new, ops@, b2, true) by { assert(ops_full(old, new, s1, b2, true)); }   // [C11]
            /*@*/ }
        }
        /*@*/ assert(pointer < ops.len() && ops.len() == ops@.len());
        pointer += 1;
    }

    // Then attempt to compact all Insertions
    let mut pointer = 0;
    while let Some(op__r) = ops.get(pointer)
    /*@*/     invariant
    /*@*/         exists|b: OBox| #[trigger] cleanup_pre(old, new, ops@, b),
    /*@*/         cleanup_post(old, new, ops0, ops@),
    /*@*/ /*S*/         cleanup_post_exact(old, new, ops0, ops@),   // [C11]
    /*@*/         ins_stuck_upto(rel_of(old, new), ops@, pointer as int),   // [C09]
    /*@*/     ensures
    /*@*/         ins_stuck(rel_of(old, new), ops@),   // [C09]
    {
        let op = *op__r;
        /*@*/ proof { let b = choose|b: OBox| cleanup_pre(old, new, ops@, b); assert(inv_pre(old, new, ops@, b)) by { reveal(inv_pre); } lemma_op_usable(old, new, ops@, pointer as int, b); }
        if let DiffTag::Insert = op.tag() {
            /*@*/ let ghost s1 = ops@; let ghost q1 = pointer as int;
            pointer = shift_diff_ops_up(ops, old, new, pointer);
            /*@*/ proof {
            /*@*/     let b = choose|b: OBox| cleanup_pre(old, new, s1, b);
            /*@*/     assert(ops_full(old, new, ops@, b, false)); assert(cleanup_pre(old, new, ops@, b));
            /*@*/     assert forall|b2: OBox| #[trigger] ops_full(old, new, ops0, b2, false) implies ops_full(old, new, ops@, b2, false) by { assert(ops_full(old, new, s1, b2, false)); }
            /*@*/ /*S*/     assert forall|b2: OBox| #[trigger] ops_full(old, new, ops0, b2, true) implies ops_full(old, new, ops@, b2, true) by { assert(ops_full(old, new, s1, b2, true)); }   // [C11]
            /*@*/ }
            /*@*/ proof { lemma_stuck_after_up(rel_of(old, new), s1, ops@, q1, pointer as int); }   // [C09]
            /*@*/ let ghost s1 = ops@; let ghost q1 = pointer as int;
            pointer = shift_diff_ops_down(ops, old, new, pointer);
            /*@*/ proof {
            /*@*/     let b = choose|b: OBox| cleanup_pre(old, new, s1, b);
            /*@*/     assert(ops_full(old, new, ops@, b, false)); assert(cleanup_pre(old, new, ops@, b));
            /*@*/     assert forall|b2: OBox| #[trigger] ops_full(old, new, ops0, b2, false) implies ops_full(old, new, ops@, b2, false) by { assert(ops_full(old, new, s1, b2, false)); }
            /*@*/ /*S*/     assert forall|b2: OBox| #[trigger] ops_full(old, new, ops0, b2, true) implies ops_full(old, new, ops@, b2, true) by { assert(ops_full(old, new, s1, b2, true)); }   // [C11]
            /*@*/ }
            /*@*/ proof { lemma_stuck_after_down(rel_of(old, new), s1, ops@, q1, pointer as int); }   // [C09]
        }
        /*@*/ assert(pointer < ops.len() && ops.len() == ops@.len());
        /*@*/ assert(ins_stuck_upto(rel_of(old, new), ops@, pointer as int + 1));   // [C09]
        pointer += 1;
    }
}
//@@ end

//@@ item src/algorithms/compact.rs :: ^fn shift_diff_ops_up rw=R0,R8,R2,R10
/*@*/ #[verifier::rlimit(150)]
fn shift_diff_ops_up<Old, New>(
    ops: &mut Vec<DiffOp>,
    old: &Old,
    new: &New,
    mut pointer: usize,
) -> (res: usize)
where
    Old: Index<usize> + ?Sized,
    New: Index<usize> + ?Sized,
    New::Output: PartialEq<Old::Output>,
/*@*/     requires exists|b: OBox| #[trigger] cleanup_pre(old, new, vstd::prelude::old(ops)@, b),
/*@*/         pointer < vstd::prelude::old(ops)@.len(),
/*@*/         op_tag(vstd::prelude::old(ops)@[pointer as int]) == DiffTag::Insert || op_tag(vstd::prelude::old(ops)@[pointer as int]) == DiffTag::Delete,
/*@*/     ensures
/*@*/         cleanup_post(old, new, vstd::prelude::old(ops)@, final(ops)@),
/*@*/ /*S*/         cleanup_post_exact(old, new, vstd::prelude::old(ops)@, final(ops)@),   // [C11]
/*@*/         res < final(ops)@.len(), op_tag(final(ops)@[res as int]) == op_tag(vstd::prelude::old(ops)@[pointer as int]),
/*@*/         // frame: the op moved up; it stops at the front or behind an Equal; before that Equal nothing changed, and the Equal kept its start
/*@*/         res <= pointer, same_before(vstd::prelude::old(ops)@, final(ops)@, res as int),   // [C09]
/*@*/         res > 0 ==> final(ops)@[res - 1] is Equal,   // [C09]
{
    /*@*/ let ghost ops0 = ops@; let ghost tag0 = op_tag(ops@[pointer as int]);
    /*@*/ let ghost bw = lemma_inv_init(old, new, ops@);
    /*@*/ let ghost p0 = pointer as int; let ghost ins = tag0 == DiffTag::Insert;   // [C09]
    /*@*/ proof { lemma_c9_init(ops0, p0, ins); }   // [C09]
    while let Some(prev_op__r) = match (pointer.checked_sub(1)) { Some(idx) => ops.get(idx), None => None }
    /*@*/     invariant
    /*@*/         pointer < ops.len(), ops.len() == ops@.len(),
    /*@*/         op_tag(ops@[pointer as int]) == tag0, tag0 == DiffTag::Insert || tag0 == DiffTag::Delete,
    /*@*/         inv_pre(old, new, ops@, bw), inv_post(old, new, ops0, ops@),
    /*@*/         0 <= p0, ins == (tag0 == DiffTag::Insert), inv_up_frame(ops0, ops@, p0, pointer as int),   // [C09]
    /*@*/ /*S*/         inv_exact(old, new, ops0, ops@),   // [C11]
    /*@*/     ensures
    /*@*/         pointer > 0 ==> ops@[pointer - 1] is Equal,   // [C09]
    /*@*/     decreases pointer, (if pointer > 0 { olen(ops@[pointer - 1]) } else { 0 }),
    {
        let prev_op = *prev_op__r;
        let this_op = ops[pointer];
        /*@*/ let ghost s1 = ops@; let ghost p = pointer as int;
        /*@*/ proof { lemma_around_usable(old, new, s1, p, bw); }
        match (this_op.tag(), prev_op.tag()) {
            // Shift Inserts Upwards
            (DiffTag::Insert, DiffTag::Equal) => {
                let suffix_len =
                    common_suffix_len(old, prev_op.old_range(), new, this_op.new_range());
                if suffix_len > 0 {
                    if let Some(DiffTag::Equal) = match (ops.get(pointer + 1)) { Some(x) => Some(x.tag()), None => None } {
                        ops[pointer + 1].grow_left(suffix_len);
                    } else {
                        ops.insert(
                            pointer + 1,
                            DiffOp::Equal {
                                old_index: prev_op.old_range().end - suffix_len,
                                new_index: this_op.new_range().end - suffix_len,
                                len: suffix_len,
                            },
                        );
                    }
                    ops[pointer].shift_left(suffix_len);
                    ops[pointer - 1].shrink_left(suffix_len);

                    if ops[pointer - 1].is_empty() {
                        ops.remove(pointer - 1);
                        pointer -= 1;
                    }
                    /*@*/ proof {
                    /*@*/     assert(ops@ =~= shift_up_result(s1, p, suffix_len));
                    /*@*/     lemma_up_shift(old, new, ops0, s1, p, suffix_len, bw, p0);
                    /*@*/ }
                } else if ops[pointer - 1].is_empty() {
                    /*@*/ assert(false);   // dead: no op is empty at the loop head
                    ops.remove(pointer - 1);
                    pointer -= 1;
                } else {
                    // We can't shift upwards anymore
                    break;
                }
            }
            // Shift Deletions Upwards
            (DiffTag::Delete, DiffTag::Equal) => {
                // check common suffix for the amount we can shift
                let suffix_len =
                    common_suffix_len(old, prev_op.old_range(), new, this_op.new_range());
                if suffix_len != 0 {
                    /*@*/ assert(false);   // dead: common_suffix_len of an empty new range is 0
                    if let Some(DiffTag::Equal) = match (ops.get(pointer + 1)) { Some(x) => Some(x.tag()), None => None } {
                        ops[pointer + 1].grow_left(suffix_len);
                    } else {
                        let old_range = prev_op.old_range();
                        ops.insert(
                            pointer + 1,
                            DiffOp::Equal {
                                old_index: old_range.end - suffix_len,
                                new_index: this_op.new_range().end - suffix_len,
                                len: old_range.len() - suffix_len,
                            },
                        );
                    }
                    ops[pointer].shift_left(suffix_len);
                    ops[pointer - 1].shrink_left(suffix_len);

                    if ops[pointer - 1].is_empty() {
                        ops.remove(pointer - 1);
                        pointer -= 1;
                    }
                } else if ops[pointer - 1].is_empty() {
                    /*@*/ assert(false);   // dead: no op is empty at the loop head
                    ops.remove(pointer - 1);
                    pointer -= 1;
                } else {
                    // We can't shift upwards anymore
                    break;
                }
            }
            // Swap the Delete and Insert
            (DiffTag::Insert, DiffTag::Delete) | (DiffTag::Delete, DiffTag::Insert) => {
                ops.swap(pointer - 1, pointer);
                pointer -= 1;
                /*@*/ proof {
                /*@*/     assert(swapped(s1, ops@, p));
                /*@*/     assert(swap_plain(s1, ops@, p) || swap_fixed(ops@, p));
                /*@*/     lemma_up_swap(old, new, ops0, s1, ops@, p, bw, p0);
                /*@*/ }
            }
            // Merge the two ranges
            (DiffTag::Insert, DiffTag::Insert) => {
                ops[pointer - 1].grow_right(this_op.new_range().len());
                ops.remove(pointer);
                pointer -= 1;
                /*@*/ proof {
                /*@*/     assert(ops@ =~= merge_result(s1, p));
                /*@*/     lemma_up_merge(old, new, ops0, s1, p, bw, p0);
                /*@*/ }
            }
            (DiffTag::Delete, DiffTag::Delete) => {
                ops[pointer - 1].grow_right(this_op.old_range().len());
                ops.remove(pointer);
                pointer -= 1;
                /*@*/ proof {
                /*@*/     assert(ops@ =~= merge_result(s1, p));
                /*@*/     lemma_up_merge(old, new, ops0, s1, p, bw, p0);
                /*@*/ }
            }
            _ => unreachable!("unexpected tag"),
        }
    }
    /*@*/ proof { lemma_inv_exit(old, new, ops0, ops@); }
    /*@*/ proof { lemma_c9_exit(ops0, ops@, p0, pointer as int, ins); }   // [C09]
    pointer
}
//@@ end

//@@ item src/algorithms/compact.rs :: ^fn shift_diff_ops_down rw=R0,R8,R2,R10
/*@*/ #[verifier::rlimit(150)]
fn shift_diff_ops_down<Old, New>(
    ops: &mut Vec<DiffOp>,
    old: &Old,
    new: &New,
    mut pointer: usize,
) -> (res: usize)
where
    Old: Index<usize> + ?Sized,
    New: Index<usize> + ?Sized,
    New::Output: PartialEq<Old::Output>,
/*@*/     requires exists|b: OBox| #[trigger] cleanup_pre(old, new, vstd::prelude::old(ops)@, b),
/*@*/         pointer < vstd::prelude::old(ops)@.len(),
/*@*/         op_tag(vstd::prelude::old(ops)@[pointer as int]) == DiffTag::Insert || op_tag(vstd::prelude::old(ops)@[pointer as int]) == DiffTag::Delete,
/*@*/     ensures
/*@*/         cleanup_post(old, new, vstd::prelude::old(ops)@, final(ops)@),
/*@*/ /*S*/         cleanup_post_exact(old, new, vstd::prelude::old(ops)@, final(ops)@),   // [C11]
/*@*/         res < final(ops)@.len(), op_tag(final(ops)@[res as int]) == op_tag(vstd::prelude::old(ops)@[pointer as int]),
/*@*/         // frame: the op moved down; before where it was nothing changed, except that an Equal right before it kept its start
/*@*/         res >= pointer, same_before(vstd::prelude::old(ops)@, final(ops)@, pointer as int),   // [C09]
/*@*/         // an Insert leaves no Insert behind on its way, and where it stops it is stuck: last op, or in front of an Equal whose first item differs from the first inserted item
/*@*/         op_tag(vstd::prelude::old(ops)@[pointer as int]) == DiffTag::Insert ==> no_insert_in(final(ops)@, pointer as int, res as int),   // [C09]
/*@*/         op_tag(vstd::prelude::old(ops)@[pointer as int]) == DiffTag::Insert ==> ins_stuck_at(rel_of(old, new), final(ops)@, res as int),   // [C09]
{
    /*@*/ let ghost ops0 = ops@; let ghost tag0 = op_tag(ops@[pointer as int]);
    /*@*/ let ghost bw = lemma_inv_init(old, new, ops@);
    /*@*/ let ghost p0 = pointer as int; let ghost ins = tag0 == DiffTag::Insert;   // [C09]
    /*@*/ proof { lemma_c9_init(ops0, p0, ins); }   // [C09]
    while let Some(next_op__r) = match (pointer.checked_add(1)) { Some(idx) => ops.get(idx), None => None }
    /*@*/     invariant
    /*@*/         pointer < ops.len(), ops.len() == ops@.len(),
    /*@*/         op_tag(ops@[pointer as int]) == tag0, tag0 == DiffTag::Insert || tag0 == DiffTag::Delete,
    /*@*/         inv_pre(old, new, ops@, bw), inv_post(old, new, ops0, ops@),
    /*@*/         0 <= p0, ins == (tag0 == DiffTag::Insert), inv_down_frame(ops0, ops@, p0, pointer as int, ins),   // [C09]
    /*@*/ /*S*/         inv_exact(old, new, ops0, ops@),   // [C11]
    /*@*/     ensures
    /*@*/         ins ==> stuck_here(old, new, ops@, pointer as int),   // [C09]
    /*@*/     decreases ops@.len() - pointer, (if pointer + 1 < ops@.len() { olen(ops@[pointer + 1]) } else { 0 }),
    {
        let next_op = *next_op__r;
        let this_op = ops[pointer];
        /*@*/ let ghost s1 = ops@; let ghost p = pointer as int;
        /*@*/ proof { lemma_around_usable(old, new, s1, p, bw); }
        match (this_op.tag(), next_op.tag()) {
            // Shift Inserts Downwards
            (DiffTag::Insert, DiffTag::Equal) => {
                let prefix_len =
                    common_prefix_len(old, next_op.old_range(), new, this_op.new_range());
                if prefix_len > 0 {
                    if let Some(DiffTag::Equal) = match (match (pointer
                        .checked_sub(1)
                        ) { Some(x) => ops.get(x), None => None }
                        ) { Some(x) => Some(x.tag()), None => None }
                    {
                        ops[pointer - 1].grow_right(prefix_len);
                    } else {
                        ops.insert(
                            pointer,
                            DiffOp::Equal {
                                old_index: next_op.old_range().start,
                                new_index: this_op.new_range().start,
                                len: prefix_len,
                            },
                        );
                        pointer += 1;
                    }
                    ops[pointer].shift_right(prefix_len);
                    ops[pointer + 1].shrink_right(prefix_len);

                    if ops[pointer + 1].is_empty() {
                        ops.remove(pointer + 1);
                    }
                    /*@*/ proof {
                    /*@*/     assert(ops@ =~= shift_down_result(s1, p, prefix_len));
                    /*@*/     lemma_down_shift(old, new, ops0, s1, p, prefix_len, bw, p0, ins);
                    /*@*/ }
                } else if ops[pointer + 1].is_empty() {
                    /*@*/ assert(false);   // dead: no op is empty at the loop head
                    ops.remove(pointer + 1);
                } else {
                    // We can't shift upwards anymore
                    /*@*/ proof { lemma_c9_break(old, new, s1, p, prefix_len); }   // [C09]
                    break;
                }
            }
            // Shift Deletions Downwards
            (DiffTag::Delete, DiffTag::Equal) => {
                // check common suffix for the amount we can shift
                let prefix_len =
                    common_prefix_len(old, next_op.old_range(), new, this_op.new_range());
                if prefix_len > 0 {
                    /*@*/ assert(false);   // dead: common_prefix_len of an empty new range is 0
                    if let Some(DiffTag::Equal) = match (match (pointer
                        .checked_sub(1)
                        ) { Some(x) => ops.get(x), None => None }
                        ) { Some(x) => Some(x.tag()), None => None }
                    {
                        ops[pointer - 1].grow_right(prefix_len);
                    } else {
                        ops.insert(
                            pointer,
                            DiffOp::Equal {
                                old_index: next_op.old_range().start,
                                new_index: this_op.new_range().start,
                                len: prefix_len,
                            },
                        );
                        pointer += 1;
                    }
                    ops[pointer].shift_right(prefix_len);
                    ops[pointer + 1].shrink_right(prefix_len);

                    if ops[pointer + 1].is_empty() {
                        ops.remove(pointer + 1);
                    }
                } else if ops[pointer + 1].is_empty() {
                    /*@*/ assert(false);   // dead: no op is empty at the loop head
                    ops.remove(pointer + 1);
                } else {
                    // We can't shift downwards anymore
                    break;
                }
            }
            // Swap the Delete and Insert
            (DiffTag::Insert, DiffTag::Delete) | (DiffTag::Delete, DiffTag::Insert) => {
                ops.swap(pointer, pointer + 1);
                pointer += 1;
                /*@*/ proof {
                /*@*/     assert(swapped(s1, ops@, p + 1));
                /*@*/     assert(swap_plain(s1, ops@, p + 1) || swap_fixed(ops@, p + 1));
                /*@*/     lemma_down_swap(old, new, ops0, s1, ops@, p, bw, p0, ins);
                /*@*/ }
            }
            // Merge the two ranges
            (DiffTag::Insert, DiffTag::Insert) => {
                ops[pointer].grow_right(next_op.new_range().len());
                ops.remove(pointer + 1);
                /*@*/ proof {
                /*@*/     assert(ops@ =~= merge_result(s1, p + 1));
                /*@*/     lemma_down_merge(old, new, ops0, s1, p, bw, p0, ins);
                /*@*/ }
            }
            (DiffTag::Delete, DiffTag::Delete) => {
                ops[pointer].grow_right(next_op.old_range().len());
                ops.remove(pointer + 1);
                /*@*/ proof {
                /*@*/     assert(ops@ =~= merge_result(s1, p + 1));
                /*@*/     lemma_down_merge(old, new, ops0, s1, p, bw, p0, ins);
                /*@*/ }
            }
            _ => unreachable!("unexpected tag"),
        }
    }
    /*@*/ proof { lemma_inv_exit(old, new, ops0, ops@); }
    /*@*/ proof { lemma_c9_exit(ops0, ops@, p0, pointer as int, ins); }   // [C09]
    /*@*/ proof { lemma_c9_stuck_exit(old, new, ops@, pointer as int); }   // [C09]
    pointer
}
//@@ end

// ---------------------------------------------------------------------------------------------
// proof support for the three functions above (pure ghost; the rewrites themselves are in opspec_lemmas.rs)
// ---------------------------------------------------------------------------------------------
// The loop invariants carry the precondition / the postconditions behind opaque names: their quantifiers (over all ops,
// over all boxes) are needed inside the lemmas below only, not in the loop bodies.
#[verifier::opaque]
spec fn inv_pre<Old: Index<usize> + ?Sized, New: Index<usize> + ?Sized>(old: &Old, new: &New, ops: Seq<DiffOp>, b: OBox) -> bool
  where New::Output: PartialEq<Old::Output>
{ cleanup_pre(old, new, ops, b) }

#[verifier::opaque]
spec fn inv_post<Old: Index<usize> + ?Sized, New: Index<usize> + ?Sized>(old: &Old, new: &New, ops0: Seq<DiffOp>, ops1: Seq<DiffOp>) -> bool
  where New::Output: PartialEq<Old::Output>
{ cleanup_post(old, new, ops0, ops1) }

#[verifier::opaque]
spec fn inv_exact<Old: Index<usize> + ?Sized, New: Index<usize> + ?Sized>(old: &Old, new: &New, ops0: Seq<DiffOp>, ops1: Seq<DiffOp>) -> bool
  where New::Output: PartialEq<Old::Output>
{ cleanup_post_exact(old, new, ops0, ops1) }

proof fn lemma_inv_init<Old: Index<usize> + ?Sized, New: Index<usize> + ?Sized>(old: &Old, new: &New, ops0: Seq<DiffOp>) -> (bw: OBox)
  where New::Output: PartialEq<Old::Output>
    requires exists|b: OBox| #[trigger] cleanup_pre(old, new, ops0, b),
    ensures inv_pre(old, new, ops0, bw), inv_post(old, new, ops0, ops0), inv_exact(old, new, ops0, ops0),
{
    reveal(inv_pre); reveal(inv_post); reveal(inv_exact);
    choose|b: OBox| cleanup_pre(old, new, ops0, b)
}

proof fn lemma_inv_exit<Old: Index<usize> + ?Sized, New: Index<usize> + ?Sized>(old: &Old, new: &New, ops0: Seq<DiffOp>, ops1: Seq<DiffOp>)
  where New::Output: PartialEq<Old::Output>
    ensures inv_post(old, new, ops0, ops1) == cleanup_post(old, new, ops0, ops1), inv_exact(old, new, ops0, ops1) == cleanup_post_exact(old, new, ops0, ops1),
{
    reveal(inv_post); reveal(inv_exact);
}

/// one more step: lax part, exact part
proof fn lemma_inv_step<Old: Index<usize> + ?Sized, New: Index<usize> + ?Sized>(old: &Old, new: &New, ops0: Seq<DiffOp>, s1: Seq<DiffOp>, s2: Seq<DiffOp>, bw: OBox)
  where New::Output: PartialEq<Old::Output>
    requires inv_pre(old, new, s1, bw), inv_post(old, new, ops0, s1), lax_step(old, new, s1, s2),
    ensures inv_pre(old, new, s2, bw), inv_post(old, new, ops0, s2),
        inv_exact(old, new, ops0, s1) && step_ok(old, new, s1, s2, true) ==> inv_exact(old, new, ops0, s2),
{
    reveal(inv_pre); reveal(inv_post); reveal(inv_exact);
    assert forall|b: OBox| #[trigger] ops_full(old, new, ops0, b, false) implies ops_full(old, new, s2, b, false) by {
        assert(ops_full(old, new, s1, b, false));
    }
    if inv_exact(old, new, ops0, s1) && step_ok(old, new, s1, s2, true) {
        assert forall|b: OBox| #[trigger] ops_full(old, new, ops0, b, true) implies ops_full(old, new, s2, b, true) by {
            assert(ops_full(old, new, s1, b, true));
        }
    }
}

/// what the code may rely on for one op of a valid script: it is well-formed, not a Replace, not empty, its ranges may be indexed
spec fn op_usable<Old: Index<usize> + ?Sized, New: Index<usize> + ?Sized>(old: &Old, new: &New, op: DiffOp) -> bool
  where New::Output: PartialEq<Old::Output>
{
    &&& op_wf(op) && !(op is Replace) && nonempty(op)
    &&& (op is Equal || op is Delete) ==> inb(old, op_old_range(op))
    &&& (op is Equal || op is Insert) ==> inb(new, op_new_range(op))
    &&& op is Insert ==> inb(old, op_old_range(op))
    &&& op is Delete ==> inb(new, op_new_range(op))
}

/// two neighbours a, c of a valid script (c follows a): what the arms of shift_diff_ops_up / _down rely on
spec fn pair_usable(a: DiffOp, c: DiffOp) -> bool {
    &&& a is Insert && c is Insert ==> op_new_len(a) + op_new_len(c) <= usize::MAX
    &&& a is Delete && c is Delete ==> op_old_len(a) + op_old_len(c) <= usize::MAX
    // an Insert behind an Equal: it starts where the Equal ends, and what it carries has room to move up across the Equal
    &&& a is Equal && c is Insert ==> op_new_index(c) == op_new_end(a) && op_old_index(c) >= op_old_len(a)
    // an Insert before an Equal: what it carries, and its own index, have room to move down across the Equal
    &&& a is Insert && c is Equal ==> op_old_index(a) + op_old_len(c) <= usize::MAX && op_new_end(a) + op_old_len(c) <= usize::MAX
}

/// Equal, Insert, Equal in a row: the second Equal starts where the first one ends (old side) / where the Insert ends (new side)
spec fn triple_usable(a: DiffOp, c: DiffOp, d: DiffOp) -> bool {
    a is Equal && c is Insert && d is Equal ==> op_old_len(a) + op_old_len(d) <= usize::MAX
        && op_old_index(d) == op_old_end(a) && op_new_index(d) == op_new_end(c)
}

proof fn lemma_op_usable<Old: Index<usize> + ?Sized, New: Index<usize> + ?Sized>(old: &Old, new: &New, ops: Seq<DiffOp>, i: int, b: OBox)
  where New::Output: PartialEq<Old::Output>
    requires inv_pre(old, new, ops, b), 0 <= i < ops.len(),
    ensures op_usable(old, new, ops[i]),
{
    reveal(inv_pre);
    lemma_op_facts(old, new, ops, i, b, false);
}

proof fn lemma_pair_usable<Old: Index<usize> + ?Sized, New: Index<usize> + ?Sized>(old: &Old, new: &New, ops: Seq<DiffOp>, i: int, b: OBox)
  where New::Output: PartialEq<Old::Output>
    requires inv_pre(old, new, ops, b), 0 <= i, i + 1 < ops.len(),
    ensures pair_usable(ops[i], ops[i + 1]),
{
    reveal(inv_pre);
    lemma_op_facts(old, new, ops, i, b, false);
    lemma_op_facts(old, new, ops, i + 1, b, false);
    assert(carried_ok(ops));
    let a = ops[i]; let c = ops[i + 1];
    if a is Equal && c is Insert { assert(esum(ops, i + 1) <= op_old_index(c)); }
    if a is Insert && c is Equal { assert(op_old_index(a) + (esum(ops, ops.len() as int) - esum(ops, i)) <= usize::MAX); }
}

proof fn lemma_triple_usable<Old: Index<usize> + ?Sized, New: Index<usize> + ?Sized>(old: &Old, new: &New, ops: Seq<DiffOp>, i: int, b: OBox)
  where New::Output: PartialEq<Old::Output>
    requires inv_pre(old, new, ops, b), 0 <= i, i + 2 < ops.len(),
    ensures triple_usable(ops[i], ops[i + 1], ops[i + 2]),
{
    reveal(inv_pre);
    lemma_op_facts(old, new, ops, i, b, false);
    lemma_op_facts(old, new, ops, i + 1, b, false);
    lemma_op_facts(old, new, ops, i + 2, b, false);
}

/// everything a loop body of shift_diff_ops_up / _down relies on about the ops around position p
spec fn around_usable<Old: Index<usize> + ?Sized, New: Index<usize> + ?Sized>(old: &Old, new: &New, ops: Seq<DiffOp>, p: int) -> bool
  where New::Output: PartialEq<Old::Output>
{
    &&& op_usable(old, new, ops[p])
    &&& p >= 1 ==> op_usable(old, new, ops[p - 1]) && pair_usable(ops[p - 1], ops[p])
    &&& p + 1 < ops.len() ==> op_usable(old, new, ops[p + 1]) && pair_usable(ops[p], ops[p + 1])
    &&& p >= 1 && p + 1 < ops.len() ==> triple_usable(ops[p - 1], ops[p], ops[p + 1])
}

proof fn lemma_around_usable<Old: Index<usize> + ?Sized, New: Index<usize> + ?Sized>(old: &Old, new: &New, ops: Seq<DiffOp>, p: int, b: OBox)
  where New::Output: PartialEq<Old::Output>
    requires inv_pre(old, new, ops, b), 0 <= p < ops.len(),
    ensures around_usable(old, new, ops, p),
{
    lemma_op_usable(old, new, ops, p, b);
    if p >= 1 { lemma_op_usable(old, new, ops, p - 1, b); lemma_pair_usable(old, new, ops, p - 1, b); }
    if p + 1 < ops.len() { lemma_op_usable(old, new, ops, p + 1, b); lemma_pair_usable(old, new, ops, p, b); }
    if p >= 1 && p + 1 < ops.len() { lemma_triple_usable(old, new, ops, p - 1, b); }
}

// the arms: each takes the invariants at the loop head (list s1) and gives them back for the rewritten list
proof fn lemma_do_merge<Old: Index<usize> + ?Sized, New: Index<usize> + ?Sized>(old: &Old, new: &New, ops0: Seq<DiffOp>, s1: Seq<DiffOp>, p: int, bw: OBox)
  where New::Output: PartialEq<Old::Output>
    requires inv_pre(old, new, s1, bw), inv_post(old, new, ops0, s1), 1 <= p < s1.len(),
        (s1[p - 1] is Insert && s1[p] is Insert) || (s1[p - 1] is Delete && s1[p] is Delete),
    ensures inv_pre(old, new, merge_result(s1, p), bw), inv_post(old, new, ops0, merge_result(s1, p)),
        inv_exact(old, new, ops0, s1) ==> inv_exact(old, new, ops0, merge_result(s1, p)),
{
    lemma_pair_usable(old, new, s1, p - 1, bw);
    lemma_arm_merge(old, new, s1, p);
    lemma_inv_step(old, new, ops0, s1, merge_result(s1, p), bw);
}

proof fn lemma_do_shift_up<Old: Index<usize> + ?Sized, New: Index<usize> + ?Sized>(old: &Old, new: &New, ops0: Seq<DiffOp>, s1: Seq<DiffOp>, p: int, s: usize, bw: OBox)
  where New::Output: PartialEq<Old::Output>
    requires inv_pre(old, new, s1, bw), inv_post(old, new, ops0, s1), 1 <= p < s1.len(),
        s1[p - 1] is Equal, s1[p] is Insert, 0 < s <= op_old_len(s1[p - 1]), s <= op_new_len(s1[p]),
        forall|k: int| 0 <= k < s ==> #[trigger] relk(rel_of(old, new), op_old_end(s1[p - 1]) - s, op_new_end(s1[p]) - s, k),
    ensures inv_pre(old, new, shift_up_result(s1, p, s), bw), inv_post(old, new, ops0, shift_up_result(s1, p, s)),
        inv_exact(old, new, ops0, s1) ==> inv_exact(old, new, ops0, shift_up_result(s1, p, s)),
{
    lemma_around_usable(old, new, s1, p, bw);
    lemma_arm_shift_up(old, new, s1, p, s);
    lemma_inv_step(old, new, ops0, s1, shift_up_result(s1, p, s), bw);
}

proof fn lemma_do_shift_down<Old: Index<usize> + ?Sized, New: Index<usize> + ?Sized>(old: &Old, new: &New, ops0: Seq<DiffOp>, s1: Seq<DiffOp>, p: int, s: usize, bw: OBox)
  where New::Output: PartialEq<Old::Output>
    requires inv_pre(old, new, s1, bw), inv_post(old, new, ops0, s1), 0 <= p, p + 1 < s1.len(),
        s1[p + 1] is Equal, s1[p] is Insert, 0 < s <= op_old_len(s1[p + 1]), s <= op_new_len(s1[p]),
        forall|k: int| 0 <= k < s ==> #[trigger] relk(rel_of(old, new), op_old_index(s1[p + 1]) as int, op_new_index(s1[p]) as int, k),
    ensures inv_pre(old, new, shift_down_result(s1, p, s), bw), inv_post(old, new, ops0, shift_down_result(s1, p, s)),
        inv_exact(old, new, ops0, s1) ==> inv_exact(old, new, ops0, shift_down_result(s1, p, s)),
{
    lemma_around_usable(old, new, s1, p, bw);
    lemma_arm_shift_down(old, new, s1, p, s);
    lemma_inv_step(old, new, ops0, s1, shift_down_result(s1, p, s), bw);
}

/// `ops.swap(p - 1, p)`, with or without the recomputation of what the two ops carry; exactness survives only with it
proof fn lemma_do_swap<Old: Index<usize> + ?Sized, New: Index<usize> + ?Sized>(old: &Old, new: &New, ops0: Seq<DiffOp>, s1: Seq<DiffOp>, s2: Seq<DiffOp>, p: int, bw: OBox)
  where New::Output: PartialEq<Old::Output>
    requires inv_pre(old, new, s1, bw), inv_post(old, new, ops0, s1), swapped(s1, s2, p), swap_plain(s1, s2, p) || swap_fixed(s2, p),
    ensures inv_pre(old, new, s2, bw), inv_post(old, new, ops0, s2),
        inv_exact(old, new, ops0, s1) && swap_fixed(s2, p) ==> inv_exact(old, new, ops0, s2),
{
    assert(ops_full(old, new, s1, bw, false) && carried_ok(s1)) by { reveal(inv_pre); }
    lemma_arm_swap(old, new, s1, s2, p, bw);
    lemma_inv_step(old, new, ops0, s1, s2, bw);
}

// ---------------------------------------------------------------------------------------------
// C09 (latest insertion position): the frame the two shift loops carry, behind opaque names
// ---------------------------------------------------------------------------------------------
#[verifier::opaque]
spec fn inv_up_frame(ops0: Seq<DiffOp>, cur: Seq<DiffOp>, p0: int, p: int) -> bool { p <= p0 && same_before(ops0, cur, p) }

#[verifier::opaque]
spec fn inv_down_frame(ops0: Seq<DiffOp>, cur: Seq<DiffOp>, p0: int, p: int, ins: bool) -> bool {
    p0 <= p && same_before(ops0, cur, p0) && (ins ==> no_insert_in(cur, p0, p))
}

/// `ins_stuck_at` for the op the loop of `shift_diff_ops_down` works on, behind an opaque name (the relation is a closure over the two sequences)
#[verifier::opaque]
spec fn stuck_core<Old: Index<usize> + ?Sized, New: Index<usize> + ?Sized>(old: &Old, new: &New, ops: Seq<DiffOp>, p: int) -> bool
  where New::Output: PartialEq<Old::Output>
{ ins_stuck_at(rel_of(old, new), ops, p) }

spec fn stuck_here<Old: Index<usize> + ?Sized, New: Index<usize> + ?Sized>(old: &Old, new: &New, ops: Seq<DiffOp>, p: int) -> bool
  where New::Output: PartialEq<Old::Output>
{ p + 1 < ops.len() ==> stuck_core(old, new, ops, p) }

/// where the Insert arm gives up: `common_prefix_len` has compared the first pair of two non-empty ranges and found the items different
proof fn lemma_c9_break<Old: Index<usize> + ?Sized, New: Index<usize> + ?Sized>(old: &Old, new: &New, s1: Seq<DiffOp>, p: int, res: usize)
  where New::Output: PartialEq<Old::Output>
    requires 0 <= p, p + 1 < s1.len(), s1[p] is Insert, s1[p + 1] is Equal, around_usable(old, new, s1, p), res == 0,
        // the last clause of common_prefix_len's contract, for the ranges it was called with
        (op_old_range(s1[p + 1]).start + res < op_old_range(s1[p + 1]).end && op_new_range(s1[p]).start + res < op_new_range(s1[p]).end)
            ==> !eqv(old, op_old_range(s1[p + 1]).start + res, new, op_new_range(s1[p]).start + res),
    ensures stuck_core(old, new, s1, p),
{ reveal(stuck_core); }

proof fn lemma_c9_stuck_exit<Old: Index<usize> + ?Sized, New: Index<usize> + ?Sized>(old: &Old, new: &New, ops: Seq<DiffOp>, p: int)
  where New::Output: PartialEq<Old::Output>
    ensures stuck_here(old, new, ops, p) == ins_stuck_at(rel_of(old, new), ops, p),
{ reveal(stuck_core); }

proof fn lemma_c9_init(ops0: Seq<DiffOp>, p: int, ins: bool)
    requires 0 <= p < ops0.len(),
    ensures inv_up_frame(ops0, ops0, p, p), inv_down_frame(ops0, ops0, p, p, ins),
{
    reveal(inv_up_frame); reveal(inv_down_frame);
    lemma_same_before_refl(ops0, p);
}

proof fn lemma_c9_exit(ops0: Seq<DiffOp>, cur: Seq<DiffOp>, p0: int, p: int, ins: bool)
    ensures inv_up_frame(ops0, cur, p0, p) == (p <= p0 && same_before(ops0, cur, p)),
        inv_down_frame(ops0, cur, p0, p, ins) == (p0 <= p && same_before(ops0, cur, p0) && (ins ==> no_insert_in(cur, p0, p))),
{
    reveal(inv_up_frame); reveal(inv_down_frame);
}

// the arms of the two loops: the invariants of C02/C10/C11 (lemma_do_*) and the frame of C09 in one step each
proof fn lemma_up_shift<Old: Index<usize> + ?Sized, New: Index<usize> + ?Sized>(old: &Old, new: &New, ops0: Seq<DiffOp>, s1: Seq<DiffOp>, p: int, s: usize, bw: OBox, p0: int)
  where New::Output: PartialEq<Old::Output>
    requires inv_pre(old, new, s1, bw), inv_post(old, new, ops0, s1), 1 <= p < s1.len(),
        s1[p - 1] is Equal, s1[p] is Insert, 0 < s <= op_old_len(s1[p - 1]), s <= op_new_len(s1[p]),
        forall|k: int| 0 <= k < s ==> #[trigger] relk(rel_of(old, new), op_old_end(s1[p - 1]) - s, op_new_end(s1[p]) - s, k),
        inv_up_frame(ops0, s1, p0, p),
    ensures inv_pre(old, new, shift_up_result(s1, p, s), bw), inv_post(old, new, ops0, shift_up_result(s1, p, s)),
        inv_exact(old, new, ops0, s1) ==> inv_exact(old, new, ops0, shift_up_result(s1, p, s)),
        inv_up_frame(ops0, shift_up_result(s1, p, s), p0, if op_old_len(s1[p - 1]) == s { p - 1 } else { p }),
{
    lemma_do_shift_up(old, new, ops0, s1, p, s, bw);
    reveal(inv_up_frame);
    lemma_frame_shift_up(ops0, s1, p, s);
}

proof fn lemma_up_swap<Old: Index<usize> + ?Sized, New: Index<usize> + ?Sized>(old: &Old, new: &New, ops0: Seq<DiffOp>, s1: Seq<DiffOp>, s2: Seq<DiffOp>, p: int, bw: OBox, p0: int)
  where New::Output: PartialEq<Old::Output>
    requires inv_pre(old, new, s1, bw), inv_post(old, new, ops0, s1), swapped(s1, s2, p), swap_plain(s1, s2, p) || swap_fixed(s2, p),
        inv_up_frame(ops0, s1, p0, p),
    ensures inv_pre(old, new, s2, bw), inv_post(old, new, ops0, s2),
        inv_exact(old, new, ops0, s1) && swap_fixed(s2, p) ==> inv_exact(old, new, ops0, s2),
        inv_up_frame(ops0, s2, p0, p - 1),
{
    lemma_do_swap(old, new, ops0, s1, s2, p, bw);
    reveal(inv_up_frame);
    assert forall|i: int| 0 <= i < p - 1 implies s1[i] == #[trigger] s2[i] by {}
    lemma_same_before_dec(ops0, s1, s2, p);
}

proof fn lemma_up_merge<Old: Index<usize> + ?Sized, New: Index<usize> + ?Sized>(old: &Old, new: &New, ops0: Seq<DiffOp>, s1: Seq<DiffOp>, p: int, bw: OBox, p0: int)
  where New::Output: PartialEq<Old::Output>
    requires inv_pre(old, new, s1, bw), inv_post(old, new, ops0, s1), 1 <= p < s1.len(),
        (s1[p - 1] is Insert && s1[p] is Insert) || (s1[p - 1] is Delete && s1[p] is Delete),
        inv_up_frame(ops0, s1, p0, p),
    ensures inv_pre(old, new, merge_result(s1, p), bw), inv_post(old, new, ops0, merge_result(s1, p)),
        inv_exact(old, new, ops0, s1) ==> inv_exact(old, new, ops0, merge_result(s1, p)),
        inv_up_frame(ops0, merge_result(s1, p), p0, p - 1),
{
    lemma_do_merge(old, new, ops0, s1, p, bw);
    reveal(inv_up_frame);
    let s2 = merge_result(s1, p);
    assert forall|i: int| 0 <= i < p - 1 implies s1[i] == #[trigger] s2[i] by {}
    lemma_same_before_dec(ops0, s1, s2, p);
}

proof fn lemma_down_shift<Old: Index<usize> + ?Sized, New: Index<usize> + ?Sized>(old: &Old, new: &New, ops0: Seq<DiffOp>, s1: Seq<DiffOp>, p: int, s: usize, bw: OBox, p0: int, ins: bool)
  where New::Output: PartialEq<Old::Output>
    requires inv_pre(old, new, s1, bw), inv_post(old, new, ops0, s1), 0 <= p, p + 1 < s1.len(),
        s1[p + 1] is Equal, s1[p] is Insert, 0 < s <= op_old_len(s1[p + 1]), s <= op_new_len(s1[p]),
        forall|k: int| 0 <= k < s ==> #[trigger] relk(rel_of(old, new), op_old_index(s1[p + 1]) as int, op_new_index(s1[p]) as int, k),
        inv_down_frame(ops0, s1, p0, p, ins),
    ensures inv_pre(old, new, shift_down_result(s1, p, s), bw), inv_post(old, new, ops0, shift_down_result(s1, p, s)),
        inv_exact(old, new, ops0, s1) ==> inv_exact(old, new, ops0, shift_down_result(s1, p, s)),
        inv_down_frame(ops0, shift_down_result(s1, p, s), p0, if down_grew(s1, p) { p } else { p + 1 }, ins),
{
    lemma_do_shift_down(old, new, ops0, s1, p, s, bw);
    reveal(inv_down_frame);
    lemma_frame_shift_down(ops0, s1, p0, p, s, ins);
}

/// `ops.swap(p, p + 1)` in `shift_diff_ops_down`
proof fn lemma_down_swap<Old: Index<usize> + ?Sized, New: Index<usize> + ?Sized>(old: &Old, new: &New, ops0: Seq<DiffOp>, s1: Seq<DiffOp>, s2: Seq<DiffOp>, p: int, bw: OBox, p0: int, ins: bool)
  where New::Output: PartialEq<Old::Output>
    requires inv_pre(old, new, s1, bw), inv_post(old, new, ops0, s1), swapped(s1, s2, p + 1), swap_plain(s1, s2, p + 1) || swap_fixed(s2, p + 1),
        inv_down_frame(ops0, s1, p0, p, ins), 0 <= p0, ins ==> s1[p] is Insert,
    ensures inv_pre(old, new, s2, bw), inv_post(old, new, ops0, s2),
        inv_exact(old, new, ops0, s1) && swap_fixed(s2, p + 1) ==> inv_exact(old, new, ops0, s2),
        inv_down_frame(ops0, s2, p0, p + 1, ins),
{
    lemma_do_swap(old, new, ops0, s1, s2, p + 1, bw);
    reveal(inv_down_frame);
    lemma_frame_swap_down(ops0, s1, s2, p0, p, ins);
}

/// `merge_result(s1, p + 1)` in `shift_diff_ops_down`
proof fn lemma_down_merge<Old: Index<usize> + ?Sized, New: Index<usize> + ?Sized>(old: &Old, new: &New, ops0: Seq<DiffOp>, s1: Seq<DiffOp>, p: int, bw: OBox, p0: int, ins: bool)
  where New::Output: PartialEq<Old::Output>
    requires inv_pre(old, new, s1, bw), inv_post(old, new, ops0, s1), 0 <= p, p + 1 < s1.len(),
        (s1[p] is Insert && s1[p + 1] is Insert) || (s1[p] is Delete && s1[p + 1] is Delete),
        inv_down_frame(ops0, s1, p0, p, ins), 0 <= p0,
    ensures inv_pre(old, new, merge_result(s1, p + 1), bw), inv_post(old, new, ops0, merge_result(s1, p + 1)),
        inv_exact(old, new, ops0, s1) ==> inv_exact(old, new, ops0, merge_result(s1, p + 1)),
        inv_down_frame(ops0, merge_result(s1, p + 1), p0, p, ins),
{
    lemma_do_merge(old, new, ops0, s1, p + 1, bw);
    reveal(inv_down_frame);
    lemma_frame_merge_down(ops0, s1, p0, p, ins);
}

} // verus!
