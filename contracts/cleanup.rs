// src/algorithms/compact.rs: cleanup_diff_ops, shift_diff_ops_up, shift_diff_ops_down
verus! {

//@@ item src/algorithms/compact.rs :: ^pub fn cleanup_diff_ops rw=R0,R8,R2,R10
/*@*/ /// the op list is a complete cursor-valid script for some box whose items may be indexed, and the carried indices
/*@*/ /// have room for the equal items around them (`carried_ok`, opspec_lemmas.rs: implied by exactness and by within-run validity)
/*@*/ pub open spec fn cleanup_pre<Old: Index<usize> + ?Sized, New: Index<usize> + ?Sized>(old: &Old, new: &New, ops: Seq<DiffOp>, b: OBox) -> bool
/*@*/   where New::Output: PartialEq<Old::Output>
/*@*/ {
/*@*/     ops_full(old, new, ops, b, false) && inb(old, (b.o0 as usize)..(b.oe as usize)) && inb(new, (b.n0 as usize)..(b.ne as usize))
/*@*/     && carried_ok(ops)
/*@*/ }
/*@*/ /// what every compaction step preserves, for every box the input is a script for:
/*@*/ /// cursor-wise validity (C02, C10), exactness of carried indices (C11), and the number of equal items (C10, C03)
/*@*/ pub open spec fn cleanup_post<Old: Index<usize> + ?Sized, New: Index<usize> + ?Sized>(old: &Old, new: &New, ops0: Seq<DiffOp>, ops1: Seq<DiffOp>) -> bool
/*@*/   where New::Output: PartialEq<Old::Output>
/*@*/ {
/*@*/     (forall|b: OBox| #[trigger] ops_full(old, new, ops0, b, false) ==> ops_full(old, new, ops1, b, false))
/*@*/     && esum(ops1, ops1.len() as int) == esum(ops0, ops0.len() as int)
/*@*/     && (carried_ok(ops0) ==> carried_ok(ops1))
/*@*/ }
/*@*/ pub open spec fn cleanup_post_exact<Old: Index<usize> + ?Sized, New: Index<usize> + ?Sized>(old: &Old, new: &New, ops0: Seq<DiffOp>, ops1: Seq<DiffOp>) -> bool
/*@*/   where New::Output: PartialEq<Old::Output>
/*@*/ {
/*@*/     forall|b: OBox| #[trigger] ops_full(old, new, ops0, b, true) ==> ops_full(old, new, ops1, b, true)
/*@*/ }
/*@*/ #[verifier::exec_allows_no_decreases_clause]
pub fn cleanup_diff_ops<Old, New>(old: &Old, new: &New, ops: &mut Vec<DiffOp>)
where
    Old: Index<usize> + ?Sized,
    New: Index<usize> + ?Sized,
    New::Output: PartialEq<Old::Output>,
/*@*/     requires exists|b: OBox| #[trigger] cleanup_pre(old, new, vstd::prelude::old(ops)@, b),
/*@*/     ensures
/*@*/         cleanup_post(old, new, vstd::prelude::old(ops)@, final(ops)@),
/*@*/         cleanup_post_exact(old, new, vstd::prelude::old(ops)@, final(ops)@),   // [C11]
{
    // First attempt to compact all Deletions
    let mut pointer = 0;
    while let Some(op__r) = ops.get(pointer)
    {
        let op = *op__r;
        if let DiffTag::Delete = op.tag() {
            pointer = shift_diff_ops_up(ops, old, new, pointer);
            pointer = shift_diff_ops_down(ops, old, new, pointer);
        }
        pointer += 1;
    }

    // Then attempt to compact all Insertions
    let mut pointer = 0;
    while let Some(op__r) = ops.get(pointer)
    {
        let op = *op__r;
        if let DiffTag::Insert = op.tag() {
            pointer = shift_diff_ops_up(ops, old, new, pointer);
            pointer = shift_diff_ops_down(ops, old, new, pointer);
        }
        pointer += 1;
    }
}
//@@ end

//@@ item src/algorithms/compact.rs :: ^fn shift_diff_ops_up rw=R0,R8,R2,R10
/*@*/ #[verifier::exec_allows_no_decreases_clause]
fn shift_diff_ops_up<Old, New>(
    ops: &mut Vec<DiffOp>,
    old: &Old,
    new: &New,
    mut pointer: usize,
) -> (res: usize)
where
    Old: Index<usize> + ?Sized,
    New: Index<usize> + ?Sized,
    New::Output: PartialEq<Old::Output>,
/*@*/     requires exists|b: OBox| #[trigger] cleanup_pre(old, new, vstd::prelude::old(ops)@, b),
/*@*/         pointer < vstd::prelude::old(ops)@.len(),
/*@*/         op_tag(vstd::prelude::old(ops)@[pointer as int]) == DiffTag::Insert || op_tag(vstd::prelude::old(ops)@[pointer as int]) == DiffTag::Delete,
/*@*/     ensures
/*@*/         cleanup_post(old, new, vstd::prelude::old(ops)@, final(ops)@),
/*@*/         cleanup_post_exact(old, new, vstd::prelude::old(ops)@, final(ops)@),   // [C11]
/*@*/         res < final(ops)@.len(), op_tag(final(ops)@[res as int]) == op_tag(vstd::prelude::old(ops)@[pointer as int]),
{
    while let Some(prev_op__r) = match (pointer.checked_sub(1)) { Some(idx) => ops.get(idx), None => None }
    {
        let prev_op = *prev_op__r;
        let this_op = ops[pointer];
        match (this_op.tag(), prev_op.tag()) {
            // Shift Inserts Upwards
            (DiffTag::Insert, DiffTag::Equal) => {
                let suffix_len =
                    common_suffix_len(old, prev_op.old_range(), new, this_op.new_range());
                if suffix_len > 0 {
                    if let Some(DiffTag::Equal) = match (ops.get(pointer + 1)) { Some(x) => Some(x.tag()), None => None } {
                        ops[pointer + 1].grow_left(suffix_len);
                    } else {
                        ops.insert(
                            pointer + 1,
                            DiffOp::Equal {
                                old_index: prev_op.old_range().end - suffix_len,
                                new_index: this_op.new_range().end - suffix_len,
                                len: suffix_len,
                            },
                        );
                    }
                    ops[pointer].shift_left(suffix_len);
                    ops[pointer - 1].shrink_left(suffix_len);

                    if ops[pointer - 1].is_empty() {
                        ops.remove(pointer - 1);
                        pointer -= 1;
                    }
                } else if ops[pointer - 1].is_empty() {
                    ops.remove(pointer - 1);
                    pointer -= 1;
                } else {
                    // We can't shift upwards anymore
                    break;
                }
            }
            // Shift Deletions Upwards
            (DiffTag::Delete, DiffTag::Equal) => {
                // check common suffix for the amount we can shift
                let suffix_len =
                    common_suffix_len(old, prev_op.old_range(), new, this_op.new_range());
                if suffix_len != 0 {
                    if let Some(DiffTag::Equal) = match (ops.get(pointer + 1)) { Some(x) => Some(x.tag()), None => None } {
                        ops[pointer + 1].grow_left(suffix_len);
                    } else {
                        let old_range = prev_op.old_range();
                        ops.insert(
                            pointer + 1,
                            DiffOp::Equal {
                                old_index: old_range.end - suffix_len,
                                new_index: this_op.new_range().end - suffix_len,
                                len: old_range.len() - suffix_len,
                            },
                        );
                    }
                    ops[pointer].shift_left(suffix_len);
                    ops[pointer - 1].shrink_left(suffix_len);

                    if ops[pointer - 1].is_empty() {
                        ops.remove(pointer - 1);
                        pointer -= 1;
                    }
                } else if ops[pointer - 1].is_empty() {
                    ops.remove(pointer - 1);
                    pointer -= 1;
                } else {
                    // We can't shift upwards anymore
                    break;
                }
            }
            // Swap the Delete and Insert
            (DiffTag::Insert, DiffTag::Delete) | (DiffTag::Delete, DiffTag::Insert) => {
                ops.swap(pointer - 1, pointer);
                pointer -= 1;
            }
            // Merge the two ranges
            (DiffTag::Insert, DiffTag::Insert) => {
                ops[pointer - 1].grow_right(this_op.new_range().len());
                ops.remove(pointer);
                pointer -= 1;
            }
            (DiffTag::Delete, DiffTag::Delete) => {
                ops[pointer - 1].grow_right(this_op.old_range().len());
                ops.remove(pointer);
                pointer -= 1;
            }
            _ => unreachable!("unexpected tag"),
        }
    }
    pointer
}
//@@ end

//@@ item src/algorithms/compact.rs :: ^fn shift_diff_ops_down rw=R0,R8,R2,R10
/*@*/ #[verifier::exec_allows_no_decreases_clause]
fn shift_diff_ops_down<Old, New>(
    ops: &mut Vec<DiffOp>,
    old: &Old,
    new: &New,
    mut pointer: usize,
) -> (res: usize)
where
    Old: Index<usize> + ?Sized,
    New: Index<usize> + ?Sized,
    New::Output: PartialEq<Old::Output>,
/*@*/     requires exists|b: OBox| #[trigger] cleanup_pre(old, new, vstd::prelude::old(ops)@, b),
/*@*/         pointer < vstd::prelude::old(ops)@.len(),
/*@*/         op_tag(vstd::prelude::old(ops)@[pointer as int]) == DiffTag::Insert || op_tag(vstd::prelude::old(ops)@[pointer as int]) == DiffTag::Delete,
/*@*/     ensures
/*@*/         cleanup_post(old, new, vstd::prelude::old(ops)@, final(ops)@),
/*@*/         cleanup_post_exact(old, new, vstd::prelude::old(ops)@, final(ops)@),   // [C11]
/*@*/         res < final(ops)@.len(), op_tag(final(ops)@[res as int]) == op_tag(vstd::prelude::old(ops)@[pointer as int]),
{
    while let Some(next_op__r) = match (pointer.checked_add(1)) { Some(idx) => ops.get(idx), None => None }
    {
        let next_op = *next_op__r;
        let this_op = ops[pointer];
        match (this_op.tag(), next_op.tag()) {
            // Shift Inserts Downwards
            (DiffTag::Insert, DiffTag::Equal) => {
                let prefix_len =
                    common_prefix_len(old, next_op.old_range(), new, this_op.new_range());
                if prefix_len > 0 {
                    if let Some(DiffTag::Equal) = match (match (pointer
                        .checked_sub(1)
                        ) { Some(x) => ops.get(x), None => None }
                        ) { Some(x) => Some(x.tag()), None => None }
                    {
                        ops[pointer - 1].grow_right(prefix_len);
                    } else {
                        ops.insert(
                            pointer,
                            DiffOp::Equal {
                                old_index: next_op.old_range().start,
                                new_index: this_op.new_range().start,
                                len: prefix_len,
                            },
                        );
                        pointer += 1;
                    }
                    ops[pointer].shift_right(prefix_len);
                    ops[pointer + 1].shrink_right(prefix_len);

                    if ops[pointer + 1].is_empty() {
                        ops.remove(pointer + 1);
                    }
                } else if ops[pointer + 1].is_empty() {
                    ops.remove(pointer + 1);
                } else {
                    // We can't shift upwards anymore
                    break;
                }
            }
            // Shift Deletions Downwards
            (DiffTag::Delete, DiffTag::Equal) => {
                // check common suffix for the amount we can shift
                let prefix_len =
                    common_prefix_len(old, next_op.old_range(), new, this_op.new_range());
                if prefix_len > 0 {
                    if let Some(DiffTag::Equal) = match (match (pointer
                        .checked_sub(1)
                        ) { Some(x) => ops.get(x), None => None }
                        ) { Some(x) => Some(x.tag()), None => None }
                    {
                        ops[pointer - 1].grow_right(prefix_len);
                    } else {
                        ops.insert(
                            pointer,
                            DiffOp::Equal {
                                old_index: next_op.old_range().start,
                                new_index: this_op.new_range().start,
                                len: prefix_len,
                            },
                        );
                        pointer += 1;
                    }
                    ops[pointer].shift_right(prefix_len);
                    ops[pointer + 1].shrink_right(prefix_len);

                    if ops[pointer + 1].is_empty() {
                        ops.remove(pointer + 1);
                    }
                } else if ops[pointer + 1].is_empty() {
                    ops.remove(pointer + 1);
                } else {
                    // We can't shift downwards anymore
                    break;
                }
            }
            // Swap the Delete and Insert
            (DiffTag::Insert, DiffTag::Delete) | (DiffTag::Delete, DiffTag::Insert) => {
                ops.swap(pointer, pointer + 1);
                pointer += 1;
            }
            // Merge the two ranges
            (DiffTag::Insert, DiffTag::Insert) => {
                ops[pointer].grow_right(next_op.new_range().len());
                ops.remove(pointer + 1);
            }
            (DiffTag::Delete, DiffTag::Delete) => {
                ops[pointer].grow_right(next_op.old_range().len());
                ops.remove(pointer + 1);
            }
            _ => unreachable!("unexpected tag"),
        }
    }
    pointer
}
//@@ end

} // verus!
