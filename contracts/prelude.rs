// Specification vocabulary shared by all units (DESIGN.md section 3).  Pure ghost text: nothing in
// this file is executable code of /repo.
#![allow(unused_imports, unused_variables, dead_code, unused_mut, unused_parens, unused_braces, non_snake_case)]
use vstd::prelude::*;
use std::ops::{Index, IndexMut, Range};
use std::collections::BTreeMap;
use std::collections::HashMap;
use std::collections::hash_map::Entry;
use std::hash::{Hash, Hasher};
use std::time::Instant;
use vstd::std_specs::core::{IndexSpec, IndexSpecImpl};
use vstd::std_specs::cmp::*;
use vstd::std_specs::iter::IteratorSpec;
verus! {

// ---------------------------------------------------------------------------------------------
// 3.3 trusted specifications for std items
// ---------------------------------------------------------------------------------------------
#[verifier::external_type_specification]
#[verifier::external_body]
pub struct ExInstant(Instant);

pub assume_specification<Idx: Clone>[ <Range<Idx> as Clone>::clone ](r: &Range<Idx>) -> (c: Range<Idx>)
    ensures call_ensures(Idx::clone, (&r.start,), c.start), call_ensures(Idx::clone, (&r.end,), c.end);

pub assume_specification<T, E, U>[ Result::<T, E>::and ](r: Result<T, E>, res: Result<U, E>) -> (out: Result<U, E>)
    ensures out == (match r { Ok(_) => res, Err(e) => Err(e) });

pub assume_specification<T>[ <[T]>::swap ](s: &mut [T], a: usize, b: usize)
    requires a < old(s)@.len(), b < old(s)@.len(),
    ensures final(s)@ == old(s)@.update(a as int, old(s)@[b as int]).update(b as int, old(s)@[a as int]);

// ---------------------------------------------------------------------------------------------
// 3.1 sequences and equality: the two purity axioms
// ---------------------------------------------------------------------------------------------
pub uninterp spec fn item_at<L: Index<usize> + ?Sized>(l: &L, i: usize) -> &L::Output;
pub uninterp spec fn item_eq<A: PartialEq<B> + ?Sized, B: ?Sized>(a: &A, b: &B) -> bool;

#[verifier::external_body]
pub broadcast proof fn axiom_pure_index<L: Index<usize> + ?Sized>(l: &L, i: usize, r: &L::Output)
    requires #[trigger] call_ensures(<L as Index<usize>>::index, (l, i), r)
    ensures r == item_at(l, i) {}

#[verifier::external_body]
pub broadcast proof fn axiom_pure_eq<A: PartialEq<B> + ?Sized, B: ?Sized>(a: &A, b: &B, r: bool)
    requires #[trigger] call_ensures(<A as PartialEq<B>>::eq, (a, b), r)
    ensures r == item_eq(a, b) {}

pub open spec fn eqv<Old: Index<usize> + ?Sized, New: Index<usize> + ?Sized>(old: &Old, i: int, new: &New, j: int) -> bool
  where New::Output: PartialEq<Old::Output>
{ item_eq(item_at(new, j as usize), item_at(old, i as usize)) }

pub open spec fn inb<L: Index<usize> + ?Sized>(l: &L, r: Range<usize>) -> bool {
    forall|i: usize| r.start <= i < r.end ==> #[trigger] l.index_req(&i)
}

// ---------------------------------------------------------------------------------------------
// 3.2 events, the script checker
// ---------------------------------------------------------------------------------------------
pub enum Ev {
    Equal(usize, usize, usize),             // old_index, new_index, len
    Delete(usize, usize, usize),            // old_index, old_len, new_index
    Insert(usize, usize, usize),            // old_index, new_index, new_len
    Replace(usize, usize, usize, usize),    // old_index, old_len, new_index, new_len
    Finish,
}

/// State of the script checker.  (oc,nc): next unconsumed old/new item.  (ro,rn): cursor at the
/// start of the current run of changes.  (po,pn): largest carried old index of an Insert / new index
/// of a Delete seen in the current run (must not exceed the cursor when the run ends).
/// (oe,ne): ends of the box.  dels/inss/eqs: totals.
pub struct St {
    pub ok: bool, pub oc: int, pub nc: int, pub ro: int, pub rn: int, pub po: int, pub pn: int,
    pub dels: int, pub inss: int, pub eqs: int, pub oe: int, pub ne: int,
    pub fin: bool,          // `finish` has been received: nothing may follow
    pub o0: int, pub n0: int,   // where the script started (never changes; lets a final state reveal its start)
    pub lvl: int,           // 0: only the cursor side of every event is checked; 1: carried indices must lie within their run of changes;
                            // 2: carried indices must be exact (equal to the cursor)
}

pub open spec fn imax(a: int, b: int) -> int { if a >= b { a } else { b } }

pub type Rel = spec_fn(int, int) -> bool;

pub open spec fn relk(rel: Rel, o: int, n: int, i: int) -> bool { rel(o + i, n + i) }

pub open spec fn rel_of<Old: Index<usize> + ?Sized, New: Index<usize> + ?Sized>(old: &Old, new: &New) -> Rel
  where New::Output: PartialEq<Old::Output>
{ |i: int, j: int| eqv(old, i, new, j) }

pub open spec fn rel_true() -> Rel { |i: int, j: int| true }

pub open spec fn rel_implies(a: Rel, b: Rel) -> bool { forall|i: int, j: int| #[trigger] a(i, j) ==> b(i, j) }

#[verifier::opaque]
pub open spec fn step_rel(rel: Rel, st: St, ev: Ev) -> St {
    match ev {
        Ev::Equal(o, n, l) => St {
            ok: st.ok && !st.fin && l > 0 && o == st.oc && n == st.nc && (st.lvl >= 1 ==> st.po <= st.oc && st.pn <= st.nc)
                && st.oc + l <= st.oe && st.nc + l <= st.ne
                && (forall|i: int| 0 <= i < l ==> #[trigger] relk(rel, o as int, n as int, i)),
            oc: st.oc + l, nc: st.nc + l, ro: st.oc + l, rn: st.nc + l, po: st.oc + l, pn: st.nc + l,
            eqs: st.eqs + l, ..st },
        Ev::Delete(o, l, n) => St {
            ok: st.ok && !st.fin && l > 0 && o == st.oc && (st.lvl >= 1 ==> st.rn <= n) && (st.lvl >= 2 ==> n == st.nc) && st.oc + l <= st.oe,
            oc: st.oc + l, pn: imax(st.pn, n as int), dels: st.dels + l, ..st },
        Ev::Insert(o, n, l) => St {
            ok: st.ok && !st.fin && l > 0 && n == st.nc && (st.lvl >= 1 ==> st.ro <= o) && (st.lvl >= 2 ==> o == st.oc) && st.nc + l <= st.ne,
            nc: st.nc + l, po: imax(st.po, o as int), inss: st.inss + l, ..st },
        Ev::Replace(o, ol, n, nl) => St {
            // by definition the same as Delete(o, ol, n) followed by Insert(o, n, nl); not a fully exact script (level 2)
            ok: st.ok && !st.fin && st.lvl <= 1 && ol > 0 && nl > 0 && o == st.oc && n == st.nc && (st.lvl >= 1 ==> st.rn <= n && st.ro <= o)
                && st.oc + ol <= st.oe && st.nc + nl <= st.ne,
            oc: st.oc + ol, nc: st.nc + nl, pn: imax(st.pn, n as int), po: imax(st.po, o as int),
            dels: st.dels + ol, inss: st.inss + nl, ..st },
        // `finish` is accepted once, when every carried index is resolved; it closes the script
        Ev::Finish => St { ok: st.ok && !st.fin && (st.lvl >= 1 ==> st.po <= st.oc && st.pn <= st.nc), fin: true, ..st },
    }
}

pub open spec fn run_rel(rel: Rel, st: St, s: Seq<Ev>) -> St
  decreases s.len()
{
    if s.len() == 0 { st } else { step_rel(rel, run_rel(rel, st, s.drop_last()), s.last()) }
}

pub open spec fn step<Old: Index<usize> + ?Sized, New: Index<usize> + ?Sized>(old: &Old, new: &New, st: St, ev: Ev) -> St
  where New::Output: PartialEq<Old::Output>
{ step_rel(rel_of(old, new), st, ev) }

pub open spec fn run<Old: Index<usize> + ?Sized, New: Index<usize> + ?Sized>(old: &Old, new: &New, st: St, s: Seq<Ev>) -> St
  where New::Output: PartialEq<Old::Output>
{ run_rel(rel_of(old, new), st, s) }

pub proof fn lemma_run_push(rel: Rel, st: St, s: Seq<Ev>, e: Ev)
  ensures run_rel(rel, st, s.push(e)) == step_rel(rel, run_rel(rel, st, s), e)
{
    assert(s.push(e).drop_last() =~= s);
}

pub proof fn lemma_run_concat(rel: Rel, st: St, a: Seq<Ev>, b: Seq<Ev>)
  ensures run_rel(rel, st, a + b) == run_rel(rel, run_rel(rel, st, a), b)
  decreases b.len()
{
    if b.len() == 0 { assert(a + b =~= a); }
    else {
        lemma_run_concat(rel, st, a, b.drop_last());
        assert((a + b).drop_last() =~= a + b.drop_last());
        assert((a + b).last() == b.last());
    }
}

pub proof fn lemma_run_empty(rel: Rel, st: St)
  ensures run_rel(rel, st, Seq::<Ev>::empty()) == st
{}

/// canonical start state at (o,n) for the box ending at (oe,ne)
pub open spec fn canon(o: int, n: int, oe: int, ne: int) -> St {
    St { ok: true, oc: o, nc: n, ro: o, rn: n, po: o, pn: n, dels: 0, inss: 0, eqs: 0, oe: oe, ne: ne, fin: false, lvl: 1, o0: o, n0: n }
}

/// canonical start state at another checking level
pub open spec fn canon_l(o: int, n: int, oe: int, ne: int, lvl: int) -> St { St { lvl: lvl, ..canon(o, n, oe, ne) } }

pub open spec fn wf(st: St) -> bool {
    st.ok && !st.fin && st.ro <= st.oc && st.rn <= st.nc && (st.lvl >= 1 ==> st.po <= st.oc && st.pn <= st.nc) && st.oc <= st.oe && st.nc <= st.ne
}

/// `a` simulates `c`: same cursor, weaker run bounds, wider box
pub open spec fn sim(a: St, c: St) -> bool {
    a.oc == c.oc && a.nc == c.nc && a.ro <= c.ro && a.rn <= c.rn && (a.lvl >= 1 ==> a.po <= c.po && a.pn <= c.pn)
    && a.oe >= c.oe && a.ne >= c.ne && a.fin == c.fin && a.lvl <= c.lvl && (c.ok ==> a.ok)
}

pub proof fn lemma_sim_step(r1: Rel, r2: Rel, a: St, c: St, e: Ev)
  requires sim(a, c), rel_implies(r2, r1)
  ensures ({ let a2 = step_rel(r1, a, e); let c2 = step_rel(r2, c, e);
     sim(a2, c2) && a2.dels - a.dels == c2.dels - c.dels && a2.inss - a.inss == c2.inss - c.inss && a2.eqs - a.eqs == c2.eqs - c.eqs })
{
    reveal(step_rel);
    match e {
        Ev::Equal(o, n, l) => {
            if step_rel(r2, c, e).ok {
                assert forall|i: int| 0 <= i < l implies #[trigger] relk(r1, o as int, n as int, i) by {
                    assert(relk(r2, o as int, n as int, i));
                    assert(r2(o + i, n + i));
                }
            }
        }
        _ => {}
    }
}

pub proof fn lemma_sim_run(r1: Rel, r2: Rel, a: St, c: St, s: Seq<Ev>)
  requires sim(a, c), rel_implies(r2, r1)
  ensures ({ let a2 = run_rel(r1, a, s); let c2 = run_rel(r2, c, s);
     sim(a2, c2) && a2.dels - a.dels == c2.dels - c.dels && a2.inss - a.inss == c2.inss - c.inss && a2.eqs - a.eqs == c2.eqs - c.eqs })
  decreases s.len()
{
    if s.len() > 0 {
        lemma_sim_run(r1, r2, a, c, s.drop_last());
        lemma_sim_step(r1, r2, run_rel(r1, a, s.drop_last()), run_rel(r2, c, s.drop_last()), s.last());
    }
}

/// cursors only grow; run-start fields stay at or below the cursor; box ends never change
pub proof fn lemma_mono(rel: Rel, st: St, s: Seq<Ev>)
  requires st.ro <= st.oc, st.rn <= st.nc
  ensures ({ let st2 = run_rel(rel, st, s); st2.ro <= st2.oc && st2.rn <= st2.nc && st2.oc >= st.oc && st2.nc >= st.nc
      && st2.oe == st.oe && st2.ne == st.ne && st2.eqs >= st.eqs && st2.dels >= st.dels && st2.inss >= st.inss && (st2.ok ==> st.ok)
      && (st.fin ==> st2.fin) && st2.lvl == st.lvl && st2.o0 == st.o0 && st2.n0 == st.n0 && (st2.ok && st.oc <= st.oe && st.nc <= st.ne ==> st2.oc <= st2.oe && st2.nc <= st2.ne) })
  decreases s.len()
{
    reveal(step_rel);
    if s.len() > 0 { lemma_mono(rel, st, s.drop_last()); }
}

/// A script segment: replayed from the canonical state at (o0,n0) it is well formed, ends at (o1,n1),
/// never leaves the box [.., o1] x [.., n1], and deletes/inserts exactly what it does not report equal.
#[verifier::opaque]
pub open spec fn seg_rel(rel: Rel, lvl: int, s: Seq<Ev>, o0: int, n0: int, o1: int, n1: int) -> bool {
    let st = run_rel(rel, canon_l(o0, n0, o1, n1, lvl), s);
    wf(st) && st.oc == o1 && st.nc == n1 && st.dels == (o1 - o0) - st.eqs && st.inss == (n1 - n0) - st.eqs && st.eqs >= 0
    && o0 <= o1 && n0 <= n1
}

pub open spec fn seg<Old: Index<usize> + ?Sized, New: Index<usize> + ?Sized>(old: &Old, new: &New, lvl: int, s: Seq<Ev>, o0: int, n0: int, o1: int, n1: int) -> bool
  where New::Output: PartialEq<Old::Output>
{ seg_rel(rel_of(old, new), lvl, s, o0, n0, o1, n1) }

/// number of items a segment reports equal (meaningful for segments that satisfy `seg_rel`)
pub open spec fn seg_eqs(rel: Rel, lvl: int, s: Seq<Ev>, o0: int, n0: int, o1: int, n1: int) -> int {
    run_rel(rel, canon_l(o0, n0, o1, n1, lvl), s).eqs
}

/// a segment can be replayed from any well-formed state at its start cursor whose box contains it,
/// under any relation that the segment's relation implies
pub proof fn lemma_seg_any(rel: Rel, r1: Rel, lvl: int, s: Seq<Ev>, o0: int, n0: int, o1: int, n1: int, st: St)
  requires seg_rel(rel, lvl, s, o0, n0, o1, n1), wf(st), st.oc == o0, st.nc == n0, st.oe >= o1, st.ne >= n1, rel_implies(rel, r1), st.lvl <= lvl
  ensures ({ let st2 = run_rel(r1, st, s); wf(st2) && st2.oc == o1 && st2.nc == n1 && st2.oe == st.oe && st2.ne == st.ne
      && st2.eqs - st.eqs == seg_eqs(rel, lvl, s, o0, n0, o1, n1)
      && st2.dels - st.dels == (o1 - o0) - (st2.eqs - st.eqs) && st2.inss - st.inss == (n1 - n0) - (st2.eqs - st.eqs) && st2.eqs >= st.eqs })
{
    reveal(seg_rel);
    lemma_sim_run(r1, rel, st, canon_l(o0, n0, o1, n1, lvl), s);
    lemma_mono(r1, st, s);
}

pub proof fn lemma_seg_empty(rel: Rel, lvl: int, o: int, n: int)
  ensures seg_rel(rel, lvl, Seq::<Ev>::empty(), o, n, o, n), seg_eqs(rel, lvl, Seq::<Ev>::empty(), o, n, o, n) == 0
{ reveal(seg_rel); }

pub proof fn lemma_rel_implies_refl(rel: Rel)
  ensures rel_implies(rel, rel)
{}

pub proof fn lemma_seg_concat(rel: Rel, lvl: int, a: Seq<Ev>, b: Seq<Ev>, o0: int, n0: int, o1: int, n1: int, o2: int, n2: int)
  requires seg_rel(rel, lvl, a, o0, n0, o1, n1), seg_rel(rel, lvl, b, o1, n1, o2, n2)
  ensures seg_rel(rel, lvl, a + b, o0, n0, o2, n2),
      seg_eqs(rel, lvl, a + b, o0, n0, o2, n2) == seg_eqs(rel, lvl, a, o0, n0, o1, n1) + seg_eqs(rel, lvl, b, o1, n1, o2, n2)
{
    assert(o1 <= o2 && n1 <= n2 && o0 <= o1 && n0 <= n1) by { reveal(seg_rel); }
    lemma_run_concat(rel, canon_l(o0, n0, o2, n2, lvl), a, b);
    // a replayed in the wider box
    lemma_seg_any(rel, rel, lvl, a, o0, n0, o1, n1, canon_l(o0, n0, o2, n2, lvl));
    let mid = run_rel(rel, canon_l(o0, n0, o2, n2, lvl), a);
    lemma_mono(rel, canon_l(o0, n0, o2, n2, lvl), a);
    lemma_seg_any(rel, rel, lvl, b, o1, n1, o2, n2, mid);
    reveal(seg_rel);
}

/// one more event at the end of a segment
pub open spec fn ev_fits(rel: Rel, lvl: int, a: Seq<Ev>, e: Ev, o1: int, n1: int) -> bool {
    match e {
        Ev::Equal(o, n, l) => l > 0 && o == o1 && n == n1 && (forall|i: int| 0 <= i < l ==> #[trigger] relk(rel, o as int, n as int, i)),
        Ev::Delete(o, l, n) => l > 0 && o == o1 && n == n1,
        Ev::Insert(o, n, l) => l > 0 && n == n1 && (o == o1 || (lvl <= 1 && a.len() > 0 && (a.last() matches Ev::Delete(o_d, l_d, n_d) && o == o_d))),
        _ => false,
    }
}

pub open spec fn ev_o1(e: Ev, o1: int) -> int {
    match e { Ev::Equal(o, n, l) => o1 + l, Ev::Delete(o, l, n) => o1 + l, _ => o1 }
}

pub open spec fn ev_n1(e: Ev, n1: int) -> int {
    match e { Ev::Equal(o, n, l) => n1 + l, Ev::Insert(o, n, l) => n1 + l, _ => n1 }
}

pub open spec fn ev_eqs(e: Ev) -> int {
    match e { Ev::Equal(o, n, l) => l as int, _ => 0 }
}

pub proof fn lemma_seg_push(rel: Rel, lvl: int, a: Seq<Ev>, e: Ev, o0: int, n0: int, o1: int, n1: int)
  requires seg_rel(rel, lvl, a, o0, n0, o1, n1), ev_fits(rel, lvl, a, e, o1, n1)
  ensures seg_rel(rel, lvl, a.push(e), o0, n0, ev_o1(e, o1), ev_n1(e, n1)),
      seg_eqs(rel, lvl, a.push(e), o0, n0, ev_o1(e, o1), ev_n1(e, n1)) == seg_eqs(rel, lvl, a, o0, n0, o1, n1) + ev_eqs(e)
{
    reveal(step_rel);
    let o2 = ev_o1(e, o1); let n2 = ev_n1(e, n1);
    assert(o0 <= o1 && n0 <= n1) by { reveal(seg_rel); }
    lemma_seg_any(rel, rel, lvl, a, o0, n0, o1, n1, canon_l(o0, n0, o2, n2, lvl));
    lemma_run_push(rel, canon_l(o0, n0, o2, n2, lvl), a, e);
    let st = run_rel(rel, canon_l(o0, n0, o2, n2, lvl), a);
    lemma_mono(rel, canon_l(o0, n0, o2, n2, lvl), a);
    if a.len() > 0 {
        lemma_mono(rel, canon_l(o0, n0, o2, n2, lvl), a.drop_last());
        assert(run_rel(rel, canon_l(o0, n0, o2, n2, lvl), a) == step_rel(rel, run_rel(rel, canon_l(o0, n0, o2, n2, lvl), a.drop_last()), a.last()));
    }
    reveal(seg_rel);
}

/// before a hook call: the event is acceptable to a relying hook whose expected state was `rs0`
/// when the segment `s` began
pub proof fn pre_call(rel: Rel, r1: Rel, lvl: int, s: Seq<Ev>, e: Ev, o0: int, n0: int, oc: int, nc: int, rs0: St)
  requires seg_rel(rel, lvl, s, o0, n0, oc, nc), wf(rs0), rs0.oc == o0, rs0.nc == n0, ev_fits(rel, lvl, s, e, oc, nc),
     rs0.oe >= ev_o1(e, oc), rs0.ne >= ev_n1(e, nc), rel_implies(rel, r1), rs0.lvl <= lvl
  ensures step_rel(r1, run_rel(r1, rs0, s), e).ok
{
    lemma_seg_push(rel, lvl, s, e, o0, n0, oc, nc);
    lemma_seg_any(rel, r1, lvl, s.push(e), o0, n0, ev_o1(e, oc), ev_n1(e, nc), rs0);
    lemma_run_push(r1, rs0, s, e);
}

pub proof fn post_call(rel: Rel, r1: Rel, lvl: int, s: Seq<Ev>, e: Ev, o0: int, n0: int, oc: int, nc: int, rs0: St)
  requires seg_rel(rel, lvl, s, o0, n0, oc, nc), ev_fits(rel, lvl, s, e, oc, nc)
  ensures run_rel(r1, rs0, s.push(e)) == step_rel(r1, run_rel(r1, rs0, s), e),
     seg_rel(rel, lvl, s.push(e), o0, n0, ev_o1(e, oc), ev_n1(e, nc)),
     seg_eqs(rel, lvl, s.push(e), o0, n0, ev_o1(e, oc), ev_n1(e, nc)) == seg_eqs(rel, lvl, s, o0, n0, oc, nc) + ev_eqs(e)
{
    lemma_seg_push(rel, lvl, s, e, o0, n0, oc, nc);
    lemma_run_push(r1, rs0, s, e);
}

/// the deadline has certainly passed (abstract: the clock is not modelled)
pub uninterp spec fn dl_expired(deadline: Option<Instant>) -> bool;

} // verus!
