//@@ include prelude.rs
//@@ include hook.rs
//@@ include lcsspec.rs
//@@ include algspec.rs
//@@ include algutils.rs
//@@ include xcheck.rs
//@@ include types.rs
//@@ include capture.rs
//@@ include replace.rs
//@@ include opspec.rs
//@@ include opspec_lemmas.rs
//@@ include cleanup.rs
//@@ props ^cleanup_diff_ops$|^shift_diff_ops_up$|^shift_diff_ops_down$ : C02 C10 C11 C09

fn main() {}
