// src/algorithms/capture.rs: the capturing hook
use std::convert::Infallible;
verus! {

/// the events a list of captured ops stands for
pub open spec fn evs_of(ops: Seq<DiffOp>) -> Seq<Ev> {
    ops.map_values(|op: DiffOp| ev_of(op))
}

pub proof fn lemma_evs_of_push(ops: Seq<DiffOp>, op: DiffOp)
    ensures evs_of(ops.push(op)) == evs_of(ops).push(ev_of(op)),
{
    assert(evs_of(ops.push(op)) =~= evs_of(ops).push(ev_of(op)));
}

/// `ev_of` is injective, so the event list determines the op list
pub proof fn lemma_evs_of_inj(a: Seq<DiffOp>, b: Seq<DiffOp>)
    requires evs_of(a) == evs_of(b),
    ensures a == b,
{
    assert(a.len() == evs_of(a).len() && b.len() == evs_of(b).len());
    assert forall|i: int| 0 <= i < a.len() implies a[i] == b[i] by {
        assert(evs_of(a)[i] == ev_of(a[i]) && evs_of(b)[i] == ev_of(b[i]));
        lemma_op_of_ev_of(a[i]); lemma_op_of_ev_of(b[i]);
    }
    assert(a =~= b);
}

// ASSUMPTION (trusted): `#[derive(Default)]` on `struct Capture(Vec<DiffOp>)` expands to
// `Capture(Default::default())`, i.e. an empty list.  Verus does not give the derived impl a
// specification (the derive output is outside the verified text), so its result is specified here.
pub assume_specification[ <Capture as Default>::default ]() -> (res: Capture)
    ensures res.ops_spec() == Seq::<DiffOp>::empty();

//@@ item src/algorithms/capture.rs :: ^pub struct Capture rw=R7
#[derive(Default, Clone)]
pub struct Capture(Vec<DiffOp>);
//@@ end

//@@ item src/algorithms/capture.rs :: ^impl Capture rw=R0 drop=fn\s+into_grouped_ops
impl Capture {
    /*@*/ /// the captured ops (the struct's field is private)
    /*@*/ pub closed spec fn ops_spec(&self) -> Seq<DiffOp> { self.0@ }
    /// Creates a new capture hook.
    pub fn new() -> (res: Capture)
    /*@*/     ensures res.ops_spec() == Seq::<DiffOp>::empty(),
    {
        Capture::default()
    }

    /// Converts the capture hook into a vector of ops.
    pub fn into_ops(self) -> (res: Vec<DiffOp>)
    /*@*/     ensures res@ == self.ops_spec(),
    {
        self.0
    }


    /// Accesses the captured operations.
    pub fn ops(&self) -> (res: &[DiffOp])
    /*@*/     ensures res@ == self.ops_spec(),
    {
        &self.0
    }
}
//@@ end

//@@ item src/algorithms/capture.rs :: ^impl DiffHook for Capture rw=R4i,R0
impl DiffHook for Capture {
    type Error = Infallible;
    /*@*/ closed spec fn trace(&self) -> Seq<Ev> { evs_of(self.0@) }
    /*@*/ closed spec fn failed(&self) -> bool { false }                      // Error = Infallible: no call fails
    /*@*/ closed spec fn last_err(&self) -> Option<Self::Error> { None }
    /*@*/ closed spec fn relies(&self) -> bool { false }                      // accepts any call sequence
    /*@*/ closed spec fn rely_rel(&self) -> Rel { rel_true() }
    /*@*/ closed spec fn rely_st(&self) -> St { run_rel(rel_true(), canon(0, 0, 0, 0), evs_of(self.0@)) }   // the checker replayed over what was captured (unused: relies() is false)
    /*@*/ closed spec fn observes_finish() -> bool { false }                  // the no-op default finish
    /*@*/ closed spec fn replace_is_atomic() -> bool { true }                 // overrides replace: one Replace op
    /*@*/ closed spec fn accepts_replace(&self) -> bool { true }
    /*@*/ #[verifier::prophetic] open spec fn fobs(&self) -> Seq<Obs<Self::Error>> { Seq::empty() }   // owns everything, borrows nothing
    /*@*/ open spec fn config(&self) -> Self { arbitrary() }

    #[inline(always)]
    fn equal(&mut self, old_index: usize, new_index: usize, len: usize) -> (res: Result<(), Self::Error>)
    /*@*/     ensures res.is_ok(), (*final(self)).ops_spec() == (*old(self)).ops_spec().push(DiffOp::Equal { old_index, new_index, len }),
    {
        /*@*/ proof { lemma_evs_of_push(self.0@, DiffOp::Equal { old_index, new_index, len }); lemma_run_push(rel_true(), canon(0, 0, 0, 0), evs_of(self.0@), ev_of(DiffOp::Equal { old_index, new_index, len })); }
        self.0.push(DiffOp::Equal {
            old_index,
            new_index,
            len,
        });
        Ok(())
    }

    #[inline(always)]
    fn delete(
        &mut self,
        old_index: usize,
        old_len: usize,
        new_index: usize,
    ) -> (res: Result<(), Self::Error>)
    /*@*/     ensures res.is_ok(), (*final(self)).ops_spec() == (*old(self)).ops_spec().push(DiffOp::Delete { old_index, old_len, new_index }),
    {
        /*@*/ proof { lemma_evs_of_push(self.0@, DiffOp::Delete { old_index, old_len, new_index }); lemma_run_push(rel_true(), canon(0, 0, 0, 0), evs_of(self.0@), ev_of(DiffOp::Delete { old_index, old_len, new_index })); }
        self.0.push(DiffOp::Delete {
            old_index,
            old_len,
            new_index,
        });
        Ok(())
    }

    #[inline(always)]
    fn insert(
        &mut self,
        old_index: usize,
        new_index: usize,
        new_len: usize,
    ) -> (res: Result<(), Self::Error>)
    /*@*/     ensures res.is_ok(), (*final(self)).ops_spec() == (*old(self)).ops_spec().push(DiffOp::Insert { old_index, new_index, new_len }),
    {
        /*@*/ proof { lemma_evs_of_push(self.0@, DiffOp::Insert { old_index, new_index, new_len }); lemma_run_push(rel_true(), canon(0, 0, 0, 0), evs_of(self.0@), ev_of(DiffOp::Insert { old_index, new_index, new_len })); }
        self.0.push(DiffOp::Insert {
            old_index,
            new_index,
            new_len,
        });
        Ok(())
    }

    #[inline(always)]
    fn replace(
        &mut self,
        old_index: usize,
        old_len: usize,
        new_index: usize,
        new_len: usize,
    ) -> (res: Result<(), Self::Error>)
    /*@*/     ensures res.is_ok(), (*final(self)).ops_spec() == (*old(self)).ops_spec().push(DiffOp::Replace { old_index, old_len, new_index, new_len }),
    {
        /*@*/ proof { lemma_evs_of_push(self.0@, DiffOp::Replace { old_index, old_len, new_index, new_len }); lemma_run_push(rel_true(), canon(0, 0, 0, 0), evs_of(self.0@), ev_of(DiffOp::Replace { old_index, old_len, new_index, new_len })); }
        self.0.push(DiffOp::Replace {
            old_index,
            old_len,
            new_index,
            new_len,
        });
        Ok(())
    }

    fn finish(&mut self) -> (res: Result<(), Self::Error>)
    /*@*/     ensures res.is_ok(), (*final(self)).ops_spec() == (*old(self)).ops_spec(),
    {
        /*@*/ proof { assert(evs_of(self.0@) + Seq::<Ev>::empty() =~= evs_of(self.0@)); }
        Ok(())
    }
}
//@@ end

// ---------------------------------------------------------------------------------------------
// C13: re-applying an op to a capturing hook reproduces the op
// ---------------------------------------------------------------------------------------------
/// `op.apply_to_hook(&mut c)` on a `Capture` is always allowed (its precondition holds for every capture
/// and op) ...
pub proof fn lemma_apply_capture_pre(c0: Capture, op: DiffOp)
    ensures hook_pre(c0, ev_of(op)), c0.accepts_replace(),
{}

/// ... and its postcondition (the three `ensures` of `DiffOp::apply_to_hook` with `D = Capture`,
/// `*old(d) = c0`, `*final(d) = c1`) says: the call succeeds and the captured list is the old one plus
/// exactly `op`.
pub proof fn lemma_apply_capture(c0: Capture, c1: Capture, op: DiffOp, res: Result<(), Infallible>)
    requires
        hook_frame(c0, c1, res),
        res.is_ok() ==> c1.trace() == applied_trace::<Capture>(c0.trace(), op),
        res.is_ok() ==> c1.rely_st() == step_rel(c0.rely_rel(), c0.rely_st(), ev_of(op)),
    ensures
        res.is_ok(), c1.ops_spec() == c0.ops_spec().push(op),
{
    assert(res.is_ok());
    assert(c1.trace() == c0.trace().push(ev_of(op)));
    lemma_evs_of_push(c0.ops_spec(), op);
    lemma_evs_of_inj(c1.ops_spec(), c0.ops_spec().push(op));
}

} // verus!
