// src/algorithms/capture.rs: the capturing hook
use std::convert::Infallible;
verus! {

//@@ item src/algorithms/capture.rs :: ^pub struct Capture rw=R7
#[derive(Default, Clone)]
pub struct Capture(Vec<DiffOp>);
//@@ end

//@@ item src/algorithms/capture.rs :: ^impl Capture rw=R0 drop=fn\s+into_grouped_ops
impl Capture {
    /// Creates a new capture hook.
    pub fn new() -> (res: Capture)
    {
        Capture::default()
    }

    /// Converts the capture hook into a vector of ops.
    pub fn into_ops(self) -> (res: Vec<DiffOp>)
    {
        self.0
    }


    /// Accesses the captured operations.
    pub fn ops(&self) -> (res: &[DiffOp])
    {
        &self.0
    }
}
//@@ end

//@@ item src/algorithms/capture.rs :: ^impl DiffHook for Capture rw=R0,R4i
impl DiffHook for Capture {
    type Error = Infallible;

    #[inline(always)]
    fn equal(&mut self, old_index: usize, new_index: usize, len: usize) -> (res: Result<(), Self::Error>)
    {
        self.0.push(DiffOp::Equal {
            old_index,
            new_index,
            len,
        });
        Ok(())
    }

    #[inline(always)]
    fn delete(
        &mut self,
        old_index: usize,
        old_len: usize,
        new_index: usize,
    ) -> (res: Result<(), Self::Error>)
    {
        self.0.push(DiffOp::Delete {
            old_index,
            old_len,
            new_index,
        });
        Ok(())
    }

    #[inline(always)]
    fn insert(
        &mut self,
        old_index: usize,
        new_index: usize,
        new_len: usize,
    ) -> (res: Result<(), Self::Error>)
    {
        self.0.push(DiffOp::Insert {
            old_index,
            new_index,
            new_len,
        });
        Ok(())
    }

    #[inline(always)]
    fn replace(
        &mut self,
        old_index: usize,
        old_len: usize,
        new_index: usize,
        new_len: usize,
    ) -> (res: Result<(), Self::Error>)
    {
        self.0.push(DiffOp::Replace {
            old_index,
            old_len,
            new_index,
            new_len,
        });
        Ok(())
    }

    fn finish(&mut self) -> Result<(), Self::Error> {
        Ok(())
    }
}
//@@ end

} // verus!
