// src/common.rs: group_diff_ops (property C12), with the DiffOp enum of src/types.rs
use vstd::std_specs::iter::IteratorSpec as _;
verus! {

// ---------------------------------------------------------------------------------------------
// C12 vocabulary (pure ghost).  Written from the property text, not from the loop:
//   * the splitting points of a list are its interior Equal ops longer than 2n (`is_split`);
//   * the group between two neighbouring splitting points lo < hi (or the list ends) is: the last
//     n items of ops[lo], the ops strictly between (first/last op of the list trimmed to
//     min(n, len) items next to the change), the first n items of ops[hi]  (`group_between`);
//   * `grouped`: the result is exactly the list of these groups, for the increasing list `c` of
//     all splitting points.
// ---------------------------------------------------------------------------------------------
pub open spec fn is_eq(op: DiffOp) -> bool { op is Equal }

pub open spec fn eq_len(op: DiffOp) -> int {
    match op { DiffOp::Equal { len, .. } => len as int, _ => 0 }
}

pub open spec fn g_min(a: int, b: int) -> int { if a <= b { a } else { b } }

/// the first k items of an Equal op (k <= len); other ops unchanged
pub open spec fn ctx_head(op: DiffOp, k: int) -> DiffOp {
    match op {
        DiffOp::Equal { old_index, new_index, len } => DiffOp::Equal { old_index, new_index, len: k as usize },
        _ => op,
    }
}

/// the last k items of an Equal op (k <= len); other ops unchanged
pub open spec fn ctx_tail(op: DiffOp, k: int) -> DiffOp {
    match op {
        DiffOp::Equal { old_index, new_index, len } => DiffOp::Equal {
            old_index: (old_index + len - k) as usize, new_index: (new_index + len - k) as usize, len: k as usize },
        _ => op,
    }
}

/// some op of the list is a change (not Equal)
pub open spec fn has_change(s: Seq<DiffOp>) -> bool { exists|i: int| 0 <= i < s.len() && !is_eq(#[trigger] s[i]) }

/// Precondition actually needed (weaker than `valid_ops`, see lemma_valid_ops_group_pre): no two
/// Equal ops are adjacent, an Equal op's index + len does not overflow, 2n does not overflow.
pub open spec fn group_pre(ops: Seq<DiffOp>, n: int) -> bool {
    &&& 0 <= n && 2 * n <= usize::MAX
    &&& forall|i: int| 0 <= i && i + 1 < ops.len() && #[trigger] is_eq(ops[i]) ==> !is_eq(ops[i + 1])
    &&& forall|i: int| 0 <= i < ops.len() ==> (#[trigger] ops[i] matches DiffOp::Equal { old_index, new_index, len }
            ==> old_index + len <= usize::MAX && new_index + len <= usize::MAX)
}

/// a splitting point: an interior Equal op with more than 2n items
pub open spec fn is_split(ops: Seq<DiffOp>, n: int, i: int) -> bool {
    0 < i < ops.len() - 1 && is_eq(ops[i]) && eq_len(ops[i]) > 2 * n
}

/// op i as it appears in its group when it is not a splitting point: a leading Equal keeps its last
/// min(n, len) items, a trailing Equal its first min(n, len) items, every other op is unchanged
pub open spec fn trimmed_op(ops: Seq<DiffOp>, n: int, i: int) -> DiffOp {
    if !is_eq(ops[i]) { ops[i] }
    else if i == 0 { ctx_tail(ops[i], g_min(n, eq_len(ops[i]))) }
    else if i == ops.len() - 1 { ctx_head(ops[i], g_min(n, eq_len(ops[i]))) }
    else { ops[i] }
}

/// the group after splitting point lo (or the list start, lo == -1) up to (not including) op hi
pub open spec fn group_open(ops: Seq<DiffOp>, n: int, lo: int, hi: int) -> Seq<DiffOp> {
    (if lo >= 0 { seq![ctx_tail(ops[lo], n)] } else { Seq::<DiffOp>::empty() })
        + Seq::new((hi - lo - 1) as nat, |t: int| trimmed_op(ops, n, lo + 1 + t))
}

/// the group between two neighbouring splitting points lo < hi (lo == -1: list start, hi == len: list end)
pub open spec fn group_between(ops: Seq<DiffOp>, n: int, lo: int, hi: int) -> Seq<DiffOp> {
    group_open(ops, n, lo, hi) + (if hi < ops.len() { seq![ctx_head(ops[hi], n)] } else { Seq::<DiffOp>::empty() })
}

/// c lists, in increasing order, exactly the splitting points below k
pub open spec fn cuts_upto(ops: Seq<DiffOp>, n: int, c: Seq<int>, k: int) -> bool {
    &&& forall|j: int| 0 <= j < c.len() ==> is_split(ops, n, #[trigger] c[j]) && c[j] < k
    &&& forall|j: int, j2: int| 0 <= j < j2 < c.len() ==> c[j] < c[j2]
    &&& forall|i: int| 0 <= i < k && #[trigger] is_split(ops, n, i) ==> c.contains(i)
}

pub open spec fn cut_at(ops: Seq<DiffOp>, c: Seq<int>, j: int) -> int {
    if j < 0 { -1 } else if j >= c.len() { ops.len() as int } else { c[j] }
}

pub open spec fn grouped(ops: Seq<DiffOp>, n: int, groups: Seq<Seq<DiffOp>>, c: Seq<int>) -> bool {
    &&& cuts_upto(ops, n, c, ops.len() as int)
    &&& groups.len() == c.len() + 1
    &&& forall|j: int| 0 <= j < groups.len() ==>
            #[trigger] groups[j] == group_between(ops, n, cut_at(ops, c, j - 1), cut_at(ops, c, j))
}

pub open spec fn deep(r: Seq<Vec<DiffOp>>) -> Seq<Seq<DiffOp>> { Seq::new(r.len(), |j: int| r[j]@) }

pub open spec fn pin_groups(r: &Vec<Vec<DiffOp>>) -> bool { true }
pub open spec fn pin_group(g: &Vec<DiffOp>) -> bool { true }

/// a group between neighbouring splitting points contains a change
pub proof fn lemma_group_has_change(ops: Seq<DiffOp>, n: int, lo: int, hi: int)
    requires group_pre(ops, n), -1 <= lo < hi <= ops.len(),
        lo == -1 || is_split(ops, n, lo), hi == ops.len() || is_split(ops, n, hi),
        lo == -1 && hi == ops.len() ==> has_change(ops),
    ensures has_change(group_between(ops, n, lo, hi)),
{
    let g = group_between(ops, n, lo, hi);
    if lo >= 0 {
        assert(is_eq(ops[lo]));
        assert(!is_eq(ops[lo + 1]));
        assert(g[1] == trimmed_op(ops, n, lo + 1));
        assert(!is_eq(g[1]));
    } else if hi == ops.len() {
        let i = choose|i: int| 0 <= i < ops.len() && !is_eq(#[trigger] ops[i]);
        assert(g[i] == trimmed_op(ops, n, i));
        assert(!is_eq(g[i]));
    } else if !is_eq(ops[0]) {
        assert(g[0] == trimmed_op(ops, n, 0));
        assert(!is_eq(g[0]));
    } else {
        assert(!is_eq(ops[1]));
        assert(g[1] == trimmed_op(ops, n, 1));
        assert(!is_eq(g[1]));
    }
}

//@@ item src/types.rs :: ^pub enum DiffOp rw=R7
#[derive(PartialEq, Eq, Clone, Copy)]
pub enum DiffOp {
    /// A segment is equal (see [`DiffHook::equal`])
    Equal {
        /// The starting index in the old sequence.
        old_index: usize,
        /// The starting index in the new sequence.
        new_index: usize,
        /// The length of the segment.
        len: usize,
    },
    /// A segment was deleted (see [`DiffHook::delete`])
    Delete {
        /// The starting index in the old sequence.
        old_index: usize,
        /// The length of the old segment.
        old_len: usize,
        /// The starting index in the new sequence.
        new_index: usize,
    },
    /// A segment was inserted (see [`DiffHook::insert`])
    Insert {
        /// The starting index in the old sequence.
        old_index: usize,
        /// The starting index in the new sequence.
        new_index: usize,
        /// The length of the new segment.
        new_len: usize,
    },
    /// A segment was replaced (see [`DiffHook::replace`])
    Replace {
        /// The starting index in the old sequence.
        old_index: usize,
        /// The length of the old segment.
        old_len: usize,
        /// The starting index in the new sequence.
        new_index: usize,
        /// The length of the new segment.
        new_len: usize,
    },
}
//@@ end

//@@ item src/common.rs :: ^pub fn group_diff_ops rw=R5,R6,R0,R8
pub fn group_diff_ops(mut ops: Vec<DiffOp>, n: usize) -> (res: Vec<Vec<DiffOp>>)
/*@*/     requires group_pre(ops@, n as int),
/*@*/     ensures
/*@*/         // (c) no changes, no groups
/*@*/         !has_change(ops@) ==> res@.len() == 0,
/*@*/         // (a)+(b) the groups are exactly the runs between the splitting points
/*@*/         has_change(ops@) ==> exists|c: Seq<int>| grouped(ops@, n as int, deep(res@), c),
/*@*/         // (c) no group consists of Equal ops only
/*@*/         forall|j: int| 0 <= j < res@.len() ==> has_change(#[trigger] res@[j]@),
{
    /*@*/ let ghost ops0 = ops@; let ghost ni = n as int;
    if ops.is_empty() {
        return vec![];
    }

    /*@*/ proof {
    /*@*/     if has_change(ops0) { let i = choose|i: int| 0 <= i < ops0.len() && !is_eq(#[trigger] ops0[i]); }
    /*@*/ }
    let mut pending_group = Vec::new();
    let mut rv = Vec::new();
    /*@*/ // pins the element types for the ghost lines below (rustc infers them only from the later pushes)
    /*@*/ proof { let _ = (pin_groups(&rv), pin_group(&pending_group)); }

    if let Some(DiffOp::Equal {
        old_index,
        new_index,
        len,
    }) = ops.first_mut()
    {
        let offset = (*len).saturating_sub(n);
        *old_index += offset;
        *new_index += offset;
        *len -= offset;
    }

    /*@*/ let ghost opsf = ops@;
    /*@*/ assert(opsf.len() == ops0.len());
    /*@*/ assert(opsf[0] == trimmed_op(ops0, ni, 0) || (ops0.len() > 1 && opsf[0] == ops0[0]));
    if let Some(DiffOp::Equal { len, .. }) = ops.last_mut() {
        *len -= (*len).saturating_sub(n);
    }

    /*@*/ let ghost ops1 = ops@;
    /*@*/ assert(ops1.len() == ops0.len());
    /*@*/ assert forall|i: int| 0 <= i < ops1.len() implies #[trigger] ops1[i] == trimmed_op(ops0, ni, i) by {
    /*@*/     if i == 0 {} else if i == ops0.len() - 1 {} else {}
    /*@*/ }
    /*@*/ let ghost mut k: int = 0; let ghost mut lo: int = -1; let ghost mut c: Seq<int> = Seq::empty();
    match IntoIterator::into_iter(ops.into_iter()) { mut it__ =>
    loop
    /*@*/     invariant
    /*@*/         ni == n as int, group_pre(ops0, ni), ops0.len() > 0, ops1.len() == ops0.len(),
    /*@*/         forall|i: int| 0 <= i < ops1.len() ==> #[trigger] ops1[i] == trimmed_op(ops0, ni, i),
    /*@*/         0 <= k <= ops0.len(), -1 <= lo < k || (k == 0 && lo == -1),
    /*@*/         it__.obeys_prophetic_iter_laws(), it__.remaining() == ops1.skip(k),
    /*@*/         cuts_upto(ops0, ni, c, k),
    /*@*/         lo == (if c.len() == 0 { -1 } else { c.last() }),
    /*@*/         rv@.len() == c.len(),
    /*@*/         forall|j: int| 0 <= j < c.len() ==> (#[trigger] rv@[j])@ == group_between(ops0, ni, if j == 0 { -1 } else { c[j - 1] }, c[j]),
    /*@*/         forall|j: int| 0 <= j < c.len() ==> has_change((#[trigger] rv@[j])@),
    /*@*/         pending_group@ == group_open(ops0, ni, lo, k),
    /*@*/     ensures k == ops0.len(),
    /*@*/     decreases ops0.len() - k,
    {
        let op = match Iterator::next(&mut it__) { Some(v__) => v__, None => break };
        /*@*/ assert(op == ops1[k]);
        /*@*/ assert(it__.remaining() == ops1.skip(k + 1));
        if let DiffOp::Equal {
            old_index,
            new_index,
            len,
        } = op
        {
            // End the current group and start a new one whenever
            // there is a large range with no changes.
            if len > n * 2 {
                pending_group.push(DiffOp::Equal {
                    old_index,
                    new_index,
                    len: n,
                });
                rv.push(pending_group);
                let offset = len.saturating_sub(n);
                pending_group = vec![DiffOp::Equal {
                    old_index: old_index + offset,
                    new_index: new_index + offset,
                    len: len - offset,
                }];
                /*@*/ proof {
                /*@*/     assert(is_split(ops0, ni, k));
                /*@*/     assert(ops1[k] == ops0[k]);
                /*@*/     let cn = c.push(k);
                /*@*/     assert(rv@[c.len() as int]@ == group_between(ops0, ni, lo, k));
                /*@*/     lemma_group_has_change(ops0, ni, lo, k);
                /*@*/     assert(pending_group@ == group_open(ops0, ni, k, k + 1));
                /*@*/     assert(cuts_upto(ops0, ni, cn, k + 1)) by {
                /*@*/         assert forall|i: int| 0 <= i < k + 1 && #[trigger] is_split(ops0, ni, i) implies cn.contains(i) by {
                /*@*/             if i == k { assert(cn[c.len() as int] == k); } else { assert(c.contains(i)); let j = choose|j: int| 0 <= j < c.len() && c[j] == i; assert(cn[j] == i); }
                /*@*/         }
                /*@*/     }
                /*@*/     c = cn; lo = k; k = k + 1;
                /*@*/ }
                continue;
            }
        }
        pending_group.push(op);
        /*@*/ proof {
        /*@*/     assert(!is_split(ops0, ni, k));
        /*@*/     assert(pending_group@ == group_open(ops0, ni, lo, k + 1));
        /*@*/     k = k + 1;
        /*@*/ }
    } }

    /*@*/ proof {
    /*@*/     assert(pending_group@ == group_between(ops0, ni, lo, k));
    /*@*/     if has_change(ops0) {
    /*@*/         lemma_group_has_change(ops0, ni, lo, k);
    /*@*/         let p = choose|p: int| 0 <= p < pending_group@.len() && !is_eq(#[trigger] pending_group@[p]);
    /*@*/     } else {
    /*@*/         assert(is_eq(ops0[0]));
    /*@*/         if ops0.len() > 1 { assert(!is_eq(ops0[1])); }
    /*@*/         if c.len() > 0 { assert(is_split(ops0, ni, c[0])); assert(!is_eq(ops0[c[0] + 1])); }
    /*@*/         assert(pending_group@[0] == trimmed_op(ops0, ni, 0));
    /*@*/     }
    /*@*/ }
    /*@*/ let ghost rv_pre = rv@; let ghost pend = pending_group@;
    /*@*/ let ghost dropped = pend.len() == 0 || (pend.len() == 1 && is_eq(pend[0]));
    if pending_group.len() == 0 || (pending_group.len() == 1 && matches!(pending_group[0], DiffOp::Equal { .. })) {
        {}
    } else {
        rv.push(pending_group)
    }

    /*@*/ proof {
    /*@*/     if dropped {
    /*@*/         assert(rv@ == rv_pre);
    /*@*/         assert(!has_change(ops0));
    /*@*/     } else {
    /*@*/         assert(rv@.len() == rv_pre.len() + 1 && rv@.last()@ == pend);
    /*@*/         assert(has_change(ops0));
    /*@*/         let groups = deep(rv@);
    /*@*/         assert forall|j: int| 0 <= j < groups.len() implies
    /*@*/             #[trigger] groups[j] == group_between(ops0, ni, cut_at(ops0, c, j - 1), cut_at(ops0, c, j)) by {
    /*@*/             if j < c.len() { assert(groups[j] == rv_pre[j]@); }
    /*@*/         }
    /*@*/         assert(grouped(ops0, ni, groups, c));
    /*@*/     }
    /*@*/ }
    rv
}
//@@ end

} // verus!
