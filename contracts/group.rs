// src/common.rs: group_diff_ops (property C12), with the DiffOp enum of src/types.rs.
//
// Rewrites on group_diff_ops (tools/rewrites.py, validated by tools/diffexec_group.py):
//   R5  `match &pending_group[..] { &[] | &[DiffOp::Equal { .. }] => A, _ => B }` -> if/else on len() and matches!
//   R6  `for op in ops.into_iter() { .. continue .. }` -> Rust-reference desugaring (`loop` over an explicit iterator)
//   R0/R8 result named `res`, body / loop braces on their own line (no semantics)
// Trusted: nothing beyond vstd's own specifications of Vec::{new,push,len,index,is_empty,first_mut,last_mut,
// into_iter}, vec::IntoIter::next (IteratorSpec::remaining), usize::saturating_sub, vec![..]: this file declares
// no trusted item of its own.
use vstd::std_specs::iter::IteratorSpec as _;
verus! {

//@@ item src/types.rs :: ^pub enum DiffOp rw=R7
#[derive(PartialEq, Eq, Clone, Copy)]
pub enum DiffOp {
    /// A segment is equal (see [`DiffHook::equal`])
    Equal {
        /// The starting index in the old sequence.
        old_index: usize,
        /// The starting index in the new sequence.
        new_index: usize,
        /// The length of the segment.
        len: usize,
    },
    /// A segment was deleted (see [`DiffHook::delete`])
    Delete {
        /// The starting index in the old sequence.
        old_index: usize,
        /// The length of the old segment.
        old_len: usize,
        /// The starting index in the new sequence.
        new_index: usize,
    },
    /// A segment was inserted (see [`DiffHook::insert`])
    Insert {
        /// The starting index in the old sequence.
        old_index: usize,
        /// The starting index in the new sequence.
        new_index: usize,
        /// The length of the new segment.
        new_len: usize,
    },
    /// A segment was replaced (see [`DiffHook::replace`])
    Replace {
        /// The starting index in the old sequence.
        old_index: usize,
        /// The length of the old segment.
        old_len: usize,
        /// The starting index in the new sequence.
        new_index: usize,
        /// The length of the new segment.
        new_len: usize,
    },
}
//@@ end

// ---------------------------------------------------------------------------------------------
// C12 vocabulary (pure ghost).  Written from the property text, not from the loop:
//   * the splitting points of a list are its interior Equal ops longer than 2n (`is_split`);
//   * the group between two neighbouring splitting points lo < hi (or the list ends) is: the last
//     n items of ops[lo], the ops strictly between (first/last op of the list trimmed to
//     min(n, len) items next to the change), the first n items of ops[hi]  (`group_between`);
//   * `grouped`: the result is exactly the list of these groups, for the increasing list `c` of
//     all splitting points.
// ---------------------------------------------------------------------------------------------
pub open spec fn is_eq(op: DiffOp) -> bool { op is Equal }

pub open spec fn eq_len(op: DiffOp) -> int {
    match op { DiffOp::Equal { len, .. } => len as int, _ => 0 }
}

pub open spec fn g_min(a: int, b: int) -> int { if a <= b { a } else { b } }

/// the first k items of an Equal op (k <= len); other ops unchanged
pub open spec fn ctx_head(op: DiffOp, k: int) -> DiffOp {
    match op {
        DiffOp::Equal { old_index, new_index, len } => DiffOp::Equal { old_index, new_index, len: k as usize },
        _ => op,
    }
}

/// the last k items of an Equal op (k <= len); other ops unchanged
pub open spec fn ctx_tail(op: DiffOp, k: int) -> DiffOp {
    match op {
        DiffOp::Equal { old_index, new_index, len } => DiffOp::Equal {
            old_index: (old_index + len - k) as usize, new_index: (new_index + len - k) as usize, len: k as usize },
        _ => op,
    }
}

/// some op of the list is a change (not Equal)
pub open spec fn has_change(s: Seq<DiffOp>) -> bool { exists|i: int| 0 <= i < s.len() && !is_eq(#[trigger] s[i]) }

/// Precondition actually needed (weaker than `valid_ops`, see lemma_c12_valid_ops_group_pre): no two
/// Equal ops are adjacent, an Equal op's index + len does not overflow, 2n does not overflow.
pub open spec fn group_pre(ops: Seq<DiffOp>, n: int) -> bool {
    &&& 0 <= n && 2 * n <= usize::MAX
    &&& forall|i: int| 0 <= i && i + 1 < ops.len() && #[trigger] is_eq(ops[i]) ==> !is_eq(ops[i + 1])
    &&& forall|i: int| 0 <= i < ops.len() ==> (#[trigger] ops[i] matches DiffOp::Equal { old_index, new_index, len }
            ==> old_index + len <= usize::MAX && new_index + len <= usize::MAX)
}

/// a splitting point: an interior Equal op with more than 2n items
pub open spec fn is_split(ops: Seq<DiffOp>, n: int, i: int) -> bool {
    0 < i < ops.len() - 1 && is_eq(ops[i]) && eq_len(ops[i]) > 2 * n
}

/// op i as it appears in its group when it is not a splitting point: a leading Equal keeps its last
/// min(n, len) items, a trailing Equal its first min(n, len) items, every other op is unchanged
pub open spec fn trimmed_op(ops: Seq<DiffOp>, n: int, i: int) -> DiffOp {
    if !is_eq(ops[i]) { ops[i] }
    else if i == 0 { ctx_tail(ops[i], g_min(n, eq_len(ops[i]))) }
    else if i == ops.len() - 1 { ctx_head(ops[i], g_min(n, eq_len(ops[i]))) }
    else { ops[i] }
}

/// the group after splitting point lo (or the list start, lo == -1) up to (not including) op hi
pub open spec fn group_open(ops: Seq<DiffOp>, n: int, lo: int, hi: int) -> Seq<DiffOp> {
    (if lo >= 0 { seq![ctx_tail(ops[lo], n)] } else { Seq::<DiffOp>::empty() })
        + Seq::new((hi - lo - 1) as nat, |t: int| trimmed_op(ops, n, lo + 1 + t))
}

/// the group between two neighbouring splitting points lo < hi (lo == -1: list start, hi == len: list end)
pub open spec fn group_between(ops: Seq<DiffOp>, n: int, lo: int, hi: int) -> Seq<DiffOp> {
    group_open(ops, n, lo, hi) + (if hi < ops.len() { seq![ctx_head(ops[hi], n)] } else { Seq::<DiffOp>::empty() })
}

/// c lists, in increasing order, exactly the splitting points below k
pub open spec fn cuts_upto(ops: Seq<DiffOp>, n: int, c: Seq<int>, k: int) -> bool {
    &&& forall|j: int| 0 <= j < c.len() ==> is_split(ops, n, #[trigger] c[j]) && c[j] < k
    &&& forall|j: int, j2: int| 0 <= j < j2 < c.len() ==> c[j] < c[j2]
    &&& forall|i: int| 0 <= i < k && #[trigger] is_split(ops, n, i) ==> c.contains(i)
}

pub open spec fn cut_at(ops: Seq<DiffOp>, c: Seq<int>, j: int) -> int {
    if j < 0 { -1 } else if j >= c.len() { ops.len() as int } else { c[j] }
}

pub open spec fn grouped(ops: Seq<DiffOp>, n: int, groups: Seq<Seq<DiffOp>>, c: Seq<int>) -> bool {
    &&& cuts_upto(ops, n, c, ops.len() as int)
    &&& groups.len() == c.len() + 1
    &&& forall|j: int| 0 <= j < groups.len() ==>
            #[trigger] groups[j] == group_between(ops, n, cut_at(ops, c, j - 1), cut_at(ops, c, j))
}

pub open spec fn deep(r: Seq<Vec<DiffOp>>) -> Seq<Seq<DiffOp>> { Seq::new(r.len(), |j: int| r[j]@) }

pub open spec fn pin_groups(r: &Vec<Vec<DiffOp>>) -> bool { true }
pub open spec fn pin_group(g: &Vec<DiffOp>) -> bool { true }

/// a group between neighbouring splitting points contains a change
pub proof fn lemma_c12_group_has_change(ops: Seq<DiffOp>, n: int, lo: int, hi: int)
    requires group_pre(ops, n), -1 <= lo < hi <= ops.len(),
        lo == -1 || is_split(ops, n, lo), hi == ops.len() || is_split(ops, n, hi),
        lo == -1 && hi == ops.len() ==> has_change(ops),
    ensures has_change(group_between(ops, n, lo, hi)),
{
    let g = group_between(ops, n, lo, hi);
    if lo >= 0 {
        assert(is_eq(ops[lo]));
        assert(!is_eq(ops[lo + 1]));
        assert(g[1] == trimmed_op(ops, n, lo + 1));
        assert(!is_eq(g[1]));
    } else if hi == ops.len() {
        let i = choose|i: int| 0 <= i < ops.len() && !is_eq(#[trigger] ops[i]);
        assert(g[i] == trimmed_op(ops, n, i));
        assert(!is_eq(g[i]));
    } else if !is_eq(ops[0]) {
        assert(g[0] == trimmed_op(ops, n, 0));
        assert(!is_eq(g[0]));
    } else {
        assert(!is_eq(ops[1]));
        assert(g[1] == trimmed_op(ops, n, 1));
        assert(!is_eq(g[1]));
    }
}


//@@ item src/common.rs :: ^pub fn group_diff_ops rw=R5,R6,R0,R8
pub fn group_diff_ops(mut ops: Vec<DiffOp>, n: usize) -> (res: Vec<Vec<DiffOp>>)
/*@*/     requires group_pre(ops@, n as int),
/*@*/     ensures
/*@*/         // (c) no changes, no groups
/*@*/         !has_change(ops@) ==> res@.len() == 0,
/*@*/         // (a)+(b) the groups are exactly the runs between the splitting points
/*@*/         has_change(ops@) ==> exists|c: Seq<int>| grouped(ops@, n as int, deep(res@), c),
/*@*/         // (c) no group consists of Equal ops only
/*@*/         forall|j: int| 0 <= j < res@.len() ==> has_change(#[trigger] res@[j]@),
{
    /*@*/ let ghost ops0 = ops@; let ghost ni = n as int;
    if ops.is_empty() {
        return vec![];
    }

    /*@*/ proof {
    /*@*/     if has_change(ops0) { let i = choose|i: int| 0 <= i < ops0.len() && !is_eq(#[trigger] ops0[i]); }
    /*@*/ }
    let mut pending_group = Vec::new();
    let mut rv = Vec::new();
    /*@*/ // pins the element types for the ghost lines below (rustc infers them only from the later pushes)
    /*@*/ proof { let _ = (pin_groups(&rv), pin_group(&pending_group)); }

    if let Some(DiffOp::Equal {
        old_index,
        new_index,
        len,
    }) = ops.first_mut()
    {
        let offset = (*len).saturating_sub(n);
        *old_index += offset;
        *new_index += offset;
        *len -= offset;
    }

    /*@*/ let ghost opsf = ops@;
    /*@*/ assert(opsf.len() == ops0.len());
    /*@*/ assert(opsf[0] == trimmed_op(ops0, ni, 0));
    /*@*/ assert(forall|i: int| 1 <= i < opsf.len() ==> opsf[i] == ops0[i]);
    if let Some(DiffOp::Equal { len, .. }) = ops.last_mut() {
        *len -= (*len).saturating_sub(n);
    }

    /*@*/ let ghost ops1 = ops@;
    /*@*/ assert(ops1.len() == ops0.len());
    /*@*/ assert forall|i: int| 0 <= i < ops1.len() implies #[trigger] ops1[i] == trimmed_op(ops0, ni, i) by {
    /*@*/     if i == 0 {} else if i == ops0.len() - 1 {} else {}
    /*@*/ }
    /*@*/ let ghost mut k: int = 0; let ghost mut lo: int = -1; let ghost mut c: Seq<int> = Seq::empty();
    match IntoIterator::into_iter(ops.into_iter()) { mut it__ =>
    loop
    /*@*/     invariant
    /*@*/         ni == n as int, group_pre(ops0, ni), ops0.len() > 0, ops1.len() == ops0.len(),
    /*@*/         forall|i: int| 0 <= i < ops1.len() ==> #[trigger] ops1[i] == trimmed_op(ops0, ni, i),
    /*@*/         0 <= k <= ops0.len(), -1 <= lo < k || (k == 0 && lo == -1),
    /*@*/         it__.obeys_prophetic_iter_laws(), it__.remaining() == ops1.skip(k),
    /*@*/         cuts_upto(ops0, ni, c, k),
    /*@*/         lo == (if c.len() == 0 { -1 } else { c.last() }),
    /*@*/         rv@.len() == c.len(),
    /*@*/         forall|j: int| 0 <= j < c.len() ==> (#[trigger] rv@[j])@ == group_between(ops0, ni, if j == 0 { -1 } else { c[j - 1] }, c[j]),
    /*@*/         forall|j: int| 0 <= j < c.len() ==> has_change((#[trigger] rv@[j])@),
    /*@*/         pending_group@ == group_open(ops0, ni, lo, k),
    /*@*/     ensures k == ops0.len(),
    /*@*/     decreases ops0.len() - k,
    {
        let op = match Iterator::next(&mut it__) { Some(v__) => v__, None => break };
        /*@*/ assert(op == ops1[k]);
        /*@*/ assert(it__.remaining() == ops1.skip(k + 1));
        if let DiffOp::Equal {
            old_index,
            new_index,
            len,
        } = op
        {
            // End the current group and start a new one whenever
            // there is a large range with no changes.
            if len > n * 2 {
                pending_group.push(DiffOp::Equal {
                    old_index,
                    new_index,
                    len: n,
                });
                rv.push(pending_group);
                let offset = len.saturating_sub(n);
                pending_group = vec![DiffOp::Equal {
                    old_index: old_index + offset,
                    new_index: new_index + offset,
                    len: len - offset,
                }];
                /*@*/ proof {
                /*@*/     assert(is_split(ops0, ni, k));
                /*@*/     assert(ops1[k] == ops0[k]);
                /*@*/     let cn = c.push(k);
                /*@*/     assert(rv@[c.len() as int]@ == group_between(ops0, ni, lo, k));
                /*@*/     lemma_c12_group_has_change(ops0, ni, lo, k);
                /*@*/     assert(pending_group@ == group_open(ops0, ni, k, k + 1));
                /*@*/     assert(cuts_upto(ops0, ni, cn, k + 1)) by {
                /*@*/         assert forall|i: int| 0 <= i < k + 1 && #[trigger] is_split(ops0, ni, i) implies cn.contains(i) by {
                /*@*/             if i == k { assert(cn[c.len() as int] == k); } else { assert(c.contains(i)); let j = choose|j: int| 0 <= j < c.len() && c[j] == i; assert(cn[j] == i); }
                /*@*/         }
                /*@*/     }
                /*@*/     c = cn; lo = k; k = k + 1;
                /*@*/ }
                continue;
            }
        }
        pending_group.push(op);
        /*@*/ proof {
        /*@*/     assert(!is_split(ops0, ni, k));
        /*@*/     assert(pending_group@ == group_open(ops0, ni, lo, k + 1));
        /*@*/     k = k + 1;
        /*@*/ }
    } }

    /*@*/ proof {
    /*@*/     assert(pending_group@ == group_between(ops0, ni, lo, k));
    /*@*/     if has_change(ops0) {
    /*@*/         lemma_c12_group_has_change(ops0, ni, lo, k);
    /*@*/         let p = choose|p: int| 0 <= p < pending_group@.len() && !is_eq(#[trigger] pending_group@[p]);
    /*@*/     } else {
    /*@*/         assert(is_eq(ops0[0]));
    /*@*/         if ops0.len() > 1 { assert(!is_eq(ops0[1])); }
    /*@*/         if c.len() > 0 { assert(is_split(ops0, ni, c[0])); assert(!is_eq(ops0[c[0] + 1])); }
    /*@*/         assert(pending_group@[0] == trimmed_op(ops0, ni, 0));
    /*@*/     }
    /*@*/ }
    /*@*/ let ghost rv_pre = rv@; let ghost pend = pending_group@;
    /*@*/ let ghost dropped = pend.len() == 0 || (pend.len() == 1 && is_eq(pend[0]));
    if pending_group.len() == 0 || (pending_group.len() == 1 && matches!(pending_group[0], DiffOp::Equal { .. })) {
        {}
    } else {
        rv.push(pending_group)
    }

    /*@*/ proof {
    /*@*/     if dropped {
    /*@*/         assert(rv@ == rv_pre);
    /*@*/         assert(!has_change(ops0));
    /*@*/     } else {
    /*@*/         assert(rv@.len() == rv_pre.len() + 1 && rv@.last()@ == pend);
    /*@*/         assert(has_change(ops0));
    /*@*/         let groups = deep(rv@);
    /*@*/         assert forall|j: int| 0 <= j < groups.len() implies
    /*@*/             #[trigger] groups[j] == group_between(ops0, ni, cut_at(ops0, c, j - 1), cut_at(ops0, c, j)) by {
    /*@*/             if j < c.len() { assert(groups[j] == rv_pre[j]@); }
    /*@*/         }
    /*@*/         assert(grouped(ops0, ni, groups, c));
    /*@*/     }
    /*@*/ }
    rv
}
//@@ end

// ---------------------------------------------------------------------------------------------
// Corollaries of the contract (pure ghost; proved from `grouped` alone, not from the code)
// ---------------------------------------------------------------------------------------------

/// `valid_ops`: the canonical op lists of the property's quantifier: every op non-empty, Equal and
/// non-Equal ops strictly alternate, every op starts on both sides where the previous one ended,
/// no index + len overflows.  It implies `group_pre` (lemma_c12_valid_ops_group_pre); the contract of
/// group_diff_ops needs only the weaker `group_pre`.
pub open spec fn op_old_index(op: DiffOp) -> int {
    match op {
        DiffOp::Equal { old_index, .. } => old_index as int, DiffOp::Delete { old_index, .. } => old_index as int,
        DiffOp::Insert { old_index, .. } => old_index as int, DiffOp::Replace { old_index, .. } => old_index as int,
    }
}
pub open spec fn op_new_index(op: DiffOp) -> int {
    match op {
        DiffOp::Equal { new_index, .. } => new_index as int, DiffOp::Delete { new_index, .. } => new_index as int,
        DiffOp::Insert { new_index, .. } => new_index as int, DiffOp::Replace { new_index, .. } => new_index as int,
    }
}
pub open spec fn op_old_len(op: DiffOp) -> int {
    match op {
        DiffOp::Equal { len, .. } => len as int, DiffOp::Delete { old_len, .. } => old_len as int,
        DiffOp::Insert { .. } => 0, DiffOp::Replace { old_len, .. } => old_len as int,
    }
}
pub open spec fn op_new_len(op: DiffOp) -> int {
    match op {
        DiffOp::Equal { len, .. } => len as int, DiffOp::Delete { .. } => 0,
        DiffOp::Insert { new_len, .. } => new_len as int, DiffOp::Replace { new_len, .. } => new_len as int,
    }
}
pub open spec fn valid_ops(ops: Seq<DiffOp>) -> bool {
    &&& forall|i: int| 0 <= i < ops.len() ==> op_old_len(#[trigger] ops[i]) + op_new_len(ops[i]) > 0
            && op_old_index(ops[i]) + op_old_len(ops[i]) <= usize::MAX && op_new_index(ops[i]) + op_new_len(ops[i]) <= usize::MAX
    &&& forall|i: int| 0 <= i && i + 1 < ops.len() ==> is_eq(#[trigger] ops[i]) != is_eq(ops[i + 1])
    &&& forall|i: int| 0 <= i && i + 1 < ops.len() ==> op_old_index(ops[i + 1]) == op_old_index(#[trigger] ops[i]) + op_old_len(ops[i])
            && op_new_index(ops[i + 1]) == op_new_index(ops[i]) + op_new_len(ops[i])
}

pub proof fn lemma_c12_valid_ops_group_pre(ops: Seq<DiffOp>, n: int)
    requires valid_ops(ops), 0 <= n, 2 * n <= usize::MAX,
    ensures group_pre(ops, n),
{
    assert forall|i: int| 0 <= i && i + 1 < ops.len() && #[trigger] is_eq(ops[i]) implies !is_eq(ops[i + 1]) by {}
    assert forall|i: int| 0 <= i < ops.len() implies (#[trigger] ops[i] matches DiffOp::Equal { old_index, new_index, len }
            ==> old_index + len <= usize::MAX && new_index + len <= usize::MAX) by {
        assert(op_old_index(ops[i]) + op_old_len(ops[i]) <= usize::MAX);
    }
}

/// what op i contributes to the concatenation of all groups: a splitting point its first n and its
/// last n items (two Equal ops; for n == 0 two EMPTY Equal ops), every other op `trimmed_op`
pub open spec fn pieces(ops: Seq<DiffOp>, n: int, i: int) -> Seq<DiffOp> {
    if is_split(ops, n, i) { seq![ctx_head(ops[i], n), ctx_tail(ops[i], n)] } else { seq![trimmed_op(ops, n, i)] }
}

/// concatenation of the pieces of ops[0..k]
pub open spec fn expand(ops: Seq<DiffOp>, n: int, k: int) -> Seq<DiffOp>
    decreases k
{
    if k <= 0 { Seq::<DiffOp>::empty() } else { expand(ops, n, k - 1) + pieces(ops, n, k - 1) }
}

/// concatenation of all groups
pub open spec fn concat(gs: Seq<Seq<DiffOp>>) -> Seq<DiffOp>
    decreases gs.len()
{
    if gs.len() == 0 { Seq::<DiffOp>::empty() } else { concat(gs.drop_last()) + gs.last() }
}

/// the subsequence of the changes (non-Equal ops) of a list
pub open spec fn changes_of(s: Seq<DiffOp>) -> Seq<DiffOp>
    decreases s.len()
{
    if s.len() == 0 { Seq::<DiffOp>::empty() }
    else if is_eq(s.last()) { changes_of(s.drop_last()) }
    else { changes_of(s.drop_last()).push(s.last()) }
}

pub proof fn lemma_c12_changes_add(a: Seq<DiffOp>, b: Seq<DiffOp>)
    ensures changes_of(a + b) == changes_of(a) + changes_of(b)
    decreases b.len()
{
    if b.len() == 0 {
        assert(a + b =~= a);
        assert(changes_of(a) + changes_of(b) =~= changes_of(a));
    } else {
        lemma_c12_changes_add(a, b.drop_last());
        assert((a + b).drop_last() =~= a + b.drop_last());
        assert((a + b).last() == b.last());
        assert(changes_of(a + b) =~= changes_of(a) + changes_of(b));
    }
}

proof fn lemma_c12_no_split_between(ops: Seq<DiffOp>, n: int, c: Seq<int>, m: int, i: int)
    requires cuts_upto(ops, n, c, ops.len() as int), 0 <= m <= c.len(), cut_at(ops, c, m - 1) < i < cut_at(ops, c, m),
    ensures !is_split(ops, n, i),
{
    if is_split(ops, n, i) {
        assert(c.contains(i));
        let t = choose|t: int| 0 <= t < c.len() && c[t] == i;
        if t <= m - 1 { if t < m - 1 { assert(c[t] < c[m - 1]); } }
        else { if t > m { assert(c[m] < c[t]); } }
    }
}

proof fn lemma_c12_expand_range(ops: Seq<DiffOp>, n: int, a: int, b: int)
    requires 0 <= a <= b <= ops.len(), forall|i: int| a <= i < b ==> !is_split(ops, n, i),
    ensures expand(ops, n, b) == expand(ops, n, a) + Seq::new((b - a) as nat, |t: int| trimmed_op(ops, n, a + t)),
    decreases b - a
{
    if a == b {
        assert(expand(ops, n, a) + Seq::new((b - a) as nat, |t: int| trimmed_op(ops, n, a + t)) =~= expand(ops, n, a));
    } else {
        lemma_c12_expand_range(ops, n, a, b - 1);
        assert(!is_split(ops, n, b - 1));
        assert(expand(ops, n, b) == expand(ops, n, b - 1) + pieces(ops, n, b - 1));
        assert(expand(ops, n, b) =~= expand(ops, n, a) + Seq::new((b - a) as nat, |t: int| trimmed_op(ops, n, a + t)));
    }
}

proof fn lemma_c12_seq_algebra(x: Seq<DiffOp>, tl: Seq<DiffOp>, mid: Seq<DiffOp>, h: DiffOp, t: DiffOp)
    ensures
        (x + ((tl + mid) + seq![h])) + seq![t] == ((x + tl) + mid) + seq![h, t],
        x + (tl + mid) == (x + tl) + mid,
{
    assert((x + ((tl + mid) + seq![h])) + seq![t] =~= ((x + tl) + mid) + seq![h, t]);
    assert(x + (tl + mid) =~= (x + tl) + mid);
}

/// the group after cut m-1 up to cut m (or the list end), spelled out; no splitting point lies inside
proof fn lemma_c12_group_shape(ops: Seq<DiffOp>, n: int, gs: Seq<Seq<DiffOp>>, c: Seq<int>, m: int)
    requires grouped(ops, n, gs, c), 0 <= m <= c.len(),
    ensures
        ({
            let lo = cut_at(ops, c, m - 1);
            let hi = cut_at(ops, c, m);
            let tl = if m > 0 { seq![ctx_tail(ops[c[m - 1]], n)] } else { Seq::<DiffOp>::empty() };
            let mid = Seq::new((hi - lo - 1) as nat, |t: int| trimmed_op(ops, n, lo + 1 + t));
            &&& -1 <= lo < hi <= ops.len()
            &&& (m < c.len() ==> is_split(ops, n, hi) && gs[m] == (tl + mid) + seq![ctx_head(ops[hi], n)])
            &&& (m == c.len() ==> gs[m] == tl + mid)
            &&& expand(ops, n, hi) == expand(ops, n, lo + 1) + mid
        }),
{
    let lo = cut_at(ops, c, m - 1);
    let hi = cut_at(ops, c, m);
    if m > 0 { assert(is_split(ops, n, c[m - 1])); }
    if m < c.len() { assert(is_split(ops, n, c[m])); }
    if 0 < m < c.len() { assert(c[m - 1] < c[m]); }
    assert(gs[m] == group_between(ops, n, lo, hi));
    assert forall|i: int| lo + 1 <= i < hi implies !is_split(ops, n, i) by { lemma_c12_no_split_between(ops, n, c, m, i); }
    lemma_c12_expand_range(ops, n, lo + 1, hi);
    let tl = if m > 0 { seq![ctx_tail(ops[c[m - 1]], n)] } else { Seq::<DiffOp>::empty() };
    let mid = Seq::new((hi - lo - 1) as nat, |t: int| trimmed_op(ops, n, lo + 1 + t));
    assert(group_open(ops, n, lo, hi) == tl + mid);
    if m == c.len() { assert(gs[m] =~= tl + mid); }
}

/// the first m groups, plus the second half of splitting point m-1, are the pieces of ops[0..=c[m-1]]
proof fn lemma_c12_concat_prefix(ops: Seq<DiffOp>, n: int, gs: Seq<Seq<DiffOp>>, c: Seq<int>, m: int)
    requires grouped(ops, n, gs, c), 0 <= m <= c.len(),
    ensures concat(gs.take(m)) + (if m > 0 { seq![ctx_tail(ops[c[m - 1]], n)] } else { Seq::<DiffOp>::empty() })
        == expand(ops, n, cut_at(ops, c, m - 1) + 1),
    decreases m
{
    if m == 0 {
        assert(gs.take(0) =~= Seq::<Seq<DiffOp>>::empty());
        assert(concat(gs.take(0)) + Seq::<DiffOp>::empty() =~= Seq::<DiffOp>::empty());
    } else {
        lemma_c12_concat_prefix(ops, n, gs, c, m - 1);
        lemma_c12_group_shape(ops, n, gs, c, m - 1);
        let lo = cut_at(ops, c, m - 2);
        let hi = c[m - 1];
        let x = concat(gs.take(m - 1));
        let tl = if m - 1 > 0 { seq![ctx_tail(ops[c[m - 2]], n)] } else { Seq::<DiffOp>::empty() };
        let mid = Seq::new((hi - lo - 1) as nat, |t: int| trimmed_op(ops, n, lo + 1 + t));
        let h = ctx_head(ops[hi], n);
        let t = ctx_tail(ops[hi], n);
        assert(gs.take(m).drop_last() =~= gs.take(m - 1));
        assert(gs.take(m).last() == gs[m - 1]);
        assert(concat(gs.take(m)) == x + ((tl + mid) + seq![h]));
        assert(expand(ops, n, hi + 1) == expand(ops, n, hi) + pieces(ops, n, hi));
        assert(pieces(ops, n, hi) == seq![h, t]);
        lemma_c12_seq_algebra(x, tl, mid, h, t);
    }
}

/// (a) the concatenation of all groups is the op list with exactly these edits: leading Equal trimmed to
/// its last min(n, len) items, trailing Equal to its first min(n, len) items, every interior Equal
/// longer than 2n replaced by its first n and its last n items
pub proof fn lemma_c12_concat(ops: Seq<DiffOp>, n: int, gs: Seq<Seq<DiffOp>>, c: Seq<int>)
    requires grouped(ops, n, gs, c),
    ensures concat(gs) == expand(ops, n, ops.len() as int),
{
    let m = c.len() as int;
    lemma_c12_concat_prefix(ops, n, gs, c, m);
    lemma_c12_group_shape(ops, n, gs, c, m);
    let lo = cut_at(ops, c, m - 1);
    let hi = ops.len() as int;
    let x = concat(gs.take(m));
    let tl = if m > 0 { seq![ctx_tail(ops[c[m - 1]], n)] } else { Seq::<DiffOp>::empty() };
    let mid = Seq::new((hi - lo - 1) as nat, |t: int| trimmed_op(ops, n, lo + 1 + t));
    assert(gs.drop_last() =~= gs.take(m));
    assert(gs.last() == gs[m]);
    assert(concat(gs) == x + (tl + mid));
    lemma_c12_seq_algebra(x, tl, mid, ops[0], ops[0]);
}

proof fn lemma_c12_changes_expand(ops: Seq<DiffOp>, n: int, k: int)
    requires 0 <= k <= ops.len(),
    ensures changes_of(expand(ops, n, k)) == changes_of(ops.take(k)),
    decreases k
{
    if k == 0 {
        assert(ops.take(0) =~= Seq::<DiffOp>::empty());
    } else {
        lemma_c12_changes_expand(ops, n, k - 1);
        lemma_c12_changes_add(expand(ops, n, k - 1), pieces(ops, n, k - 1));
        assert(ops.take(k).drop_last() =~= ops.take(k - 1));
        assert(ops.take(k).last() == ops[k - 1]);
        let p = pieces(ops, n, k - 1);
        reveal_with_fuel(changes_of, 3);
        if is_eq(ops[k - 1]) {
            if p.len() == 2 {
                assert(p.drop_last() =~= seq![p[0]]);
                assert(p.drop_last().drop_last() =~= Seq::<DiffOp>::empty());
            } else { assert(p.drop_last() =~= Seq::<DiffOp>::empty()); }
            assert(changes_of(p) =~= Seq::<DiffOp>::empty());
            assert(changes_of(expand(ops, n, k - 1)) + changes_of(p) =~= changes_of(expand(ops, n, k - 1)));
        } else {
            assert(p =~= seq![ops[k - 1]]);
            assert(p.drop_last() =~= Seq::<DiffOp>::empty());
            assert(changes_of(p) =~= seq![ops[k - 1]]);
            assert(changes_of(expand(ops, n, k - 1)) + changes_of(p) =~= changes_of(ops.take(k - 1)).push(ops[k - 1]));
        }
    }
}

/// (d) together the groups contain every change exactly once, unchanged and in order
pub proof fn lemma_c12_changes(ops: Seq<DiffOp>, n: int, gs: Seq<Seq<DiffOp>>, c: Seq<int>)
    requires grouped(ops, n, gs, c),
    ensures changes_of(concat(gs)) == changes_of(ops),
{
    lemma_c12_concat(ops, n, gs, c);
    lemma_c12_changes_expand(ops, n, ops.len() as int);
    assert(ops.take(ops.len() as int) =~= ops);
}

/// op i (not a splitting point) lies in group j
pub open spec fn in_group(ops: Seq<DiffOp>, c: Seq<int>, i: int, j: int) -> bool {
    0 <= j <= c.len() && cut_at(ops, c, j - 1) < i < cut_at(ops, c, j)
}

/// every op that is not a splitting point lies in exactly one group, at a fixed place, as `trimmed_op`
/// (a change: unchanged); two such ops lie in different groups exactly when an interior Equal run
/// of more than 2n items lies between them
pub proof fn lemma_c12_separation(ops: Seq<DiffOp>, n: int, gs: Seq<Seq<DiffOp>>, c: Seq<int>, i: int, j: int, i2: int, j2: int)
    requires grouped(ops, n, gs, c), 0 <= i < i2 < ops.len(), in_group(ops, c, i, j), in_group(ops, c, i2, j2),
    ensures
        j <= j2,
        gs[j][i - cut_at(ops, c, j - 1) - (if j == 0 { 1int } else { 0int })] == trimmed_op(ops, n, i),
        !is_eq(ops[i]) ==> trimmed_op(ops, n, i) == ops[i],
        j != j2 <==> exists|s: int| i < s < i2 && is_split(ops, n, s),
{
    let lo = cut_at(ops, c, j - 1);
    assert(gs[j] == group_between(ops, n, lo, cut_at(ops, c, j)));
    if j > j2 {
        if j2 < j - 1 { assert(c[j2] < c[j - 1]); }
    }
    if j != j2 {
        assert(i < c[j]);
        if j < j2 - 1 { assert(c[j] < c[j2 - 1]); }
        assert(is_split(ops, n, c[j]));
    }
    if exists|s: int| i < s < i2 && is_split(ops, n, s) {
        let s = choose|s: int| i < s < i2 && is_split(ops, n, s);
        if j == j2 { lemma_c12_no_split_between(ops, n, c, j, s); }
    }
}

/// every op that is not a splitting point lies in some group
pub proof fn lemma_c12_in_some_group(ops: Seq<DiffOp>, n: int, c: Seq<int>, i: int) -> (j: int)
    requires cuts_upto(ops, n, c, ops.len() as int), 0 <= i < ops.len(), !is_split(ops, n, i),
    ensures in_group(ops, c, i, j),
{
    if c.len() == 0 || i > c.last() { c.len() as int }
    else {
        assert forall|a: int| 0 <= a < c.len() implies c[a] != i by { assert(is_split(ops, n, c[a])); }
        lemma_c12_first_cut_above(c, i, c.len() - 1)
    }
}

proof fn lemma_c12_first_cut_above(c: Seq<int>, i: int, t: int) -> (j: int)
    requires 0 <= t < c.len(), i < c[t], forall|a: int, b: int| 0 <= a < b < c.len() ==> c[a] < c[b], forall|a: int| 0 <= a < c.len() ==> c[a] != i,
    ensures 0 <= j <= t, i < c[j], j == 0 || c[j - 1] < i,
    decreases t
{
    if t == 0 || c[t - 1] < i { t } else { lemma_c12_first_cut_above(c, i, t - 1) }
}

} // verus!
