// shared by units rmp / txi (reconstruction lemmas, C04 / C17) and tok (tokenizers, C06): what it means for tokens to
// partition a source text, as byte sequences.  Pure ghost.
verus! {

/// concatenation of the tokens t[i..j]
pub open spec fn cat(t: Seq<Seq<u8>>, i: int, j: int) -> Seq<u8>
    decreases j - i
{
    if j <= i { Seq::empty() } else { cat(t, i, j - 1) + t[j - 1] }
}

/// the tokens partition the source text (hypothesis H-TOK of the reconstruction lemmas; established for the line / word /
/// newline-run tokenizers of str and [u8] by lemma_tok_partition_bridge / lemma_tokb_partition_bridge in unit tok)
pub open spec fn tokens_partition(source: Seq<u8>, t: Seq<Seq<u8>>) -> bool {
    cat(t, 0, t.len() as int) == source
}

} // verus!
