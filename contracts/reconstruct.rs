// placeholder
verus! {
} // verus!
