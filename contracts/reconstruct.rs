// Reconstruction of the two token sequences / texts from an op list (C04, C17).  Pure ghost text: nothing in this
// file is executable code of /repo.
//
// Setting: abstract token sequences `old_t`, `new_t` (any token type A; A = Seq<u8> for text) and an op list that is
// a complete cursor-valid script for the box (0,0,N,M) in the INDEX-ONLY sense `idx_script` below (Replace allowed:
// text diffs are captured through the Replace adapter).  `idx_script` is implied by
//   * opspec's `ops_full(old, new, ops, OBox{0,0,N,M}, exact=false)`            (lemma_script_of_ops_full), and by
//   * the capture contract `cap_post` of common.rs, i.e. acceptance by the exact checker `xrun` from (0,0) to (N,M)
//     (lemma_script_of_xrun; common.rs itself is not included here - it needs every algorithm - so the lemma is
//     stated on the body of `cap_post`).
// HYPOTHESES of the C04 / C17 statements that are NOT decided here (see the lemmas' `requires`):
//   H-TOK  (C06) the tokenizer is lossless: `tokens_partition(text.bytes(), tokens)` and no token is empty;
//   H-EQ   (C02 + PartialEq of str / [u8]) an Equal op pairs identical tokens: `equal_ok(ops, old_t, new_t)`
//          (derived from the checker's relation by lemma_equal_ok_of_rel when `rel(i, j) ==> old_t[i] == new_t[j]`);
//   H-CLONE the value of a Change is a clone of the item at `ChangeSpec.idx` (contract `change_is` of
//          ChangesIter::next, C13, decided in unit itr) and cloning a `&T` token yields the same token.
verus! {

// ---------------------------------------------------------------------------------------------
// index-only scripts
// ---------------------------------------------------------------------------------------------
/// the index an op carries for every side it consumes is the number of items the ops before it consumed there
/// (the other-side index a Delete / Insert carries is not constrained)
pub open spec fn at_cursor(ops: Seq<DiffOp>, i: int) -> bool {
    match ops[i] {
        DiffOp::Equal { old_index, new_index, len } => old_index == osum(ops, i) && new_index == nsum(ops, i),
        DiffOp::Delete { old_index, old_len, new_index } => old_index == osum(ops, i),
        DiffOp::Insert { old_index, new_index, new_len } => new_index == nsum(ops, i),
        DiffOp::Replace { old_index, old_len, new_index, new_len } => old_index == osum(ops, i) && new_index == nsum(ops, i),
    }
}

/// a complete script for N old and M new items
pub open spec fn idx_script(ops: Seq<DiffOp>, n: int, m: int) -> bool {
    n <= usize::MAX && m <= usize::MAX
    && (forall|i: int| 0 <= i < ops.len() ==> #[trigger] at_cursor(ops, i))
    && osum(ops, ops.len() as int) == n && nsum(ops, ops.len() as int) == m
}

/// prefix sums do not depend on what follows (local copies of compact_lemmas' lemma_sums_push / lemma_sums_mono, so
/// that this unit does not pull in the compaction lemmas)
pub proof fn lemma_psum_push(ops: Seq<DiffOp>, x: DiffOp, i: int)
    requires 0 <= i <= ops.len(),
    ensures osum(ops.push(x), i) == osum(ops, i), nsum(ops.push(x), i) == nsum(ops, i),
    decreases i
{
    if i > 0 { lemma_psum_push(ops, x, i - 1); assert(ops.push(x)[i - 1] == ops[i - 1]); }
}

pub proof fn lemma_psum_mono(ops: Seq<DiffOp>, i: int, j: int)
    requires 0 <= i <= j,
    ensures 0 <= osum(ops, i) <= osum(ops, j), 0 <= nsum(ops, i) <= nsum(ops, j),
    decreases j
{
    if j > i { lemma_psum_mono(ops, i, j - 1); }
    else if i > 0 { lemma_psum_mono(ops, i - 1, i - 1); }
}

pub open spec fn csum(ops: Seq<DiffOp>, old_side: bool, i: int) -> int { if old_side { osum(ops, i) } else { nsum(ops, i) } }

/// position facts every op of a script satisfies
pub proof fn lemma_script_op(ops: Seq<DiffOp>, n: int, m: int, i: int)
    requires idx_script(ops, n, m), 0 <= i < ops.len(),
    ensures op_wf(ops[i]), at_cursor(ops, i),
        0 <= osum(ops, i) && osum(ops, i + 1) == osum(ops, i) + olen(ops[i]) && osum(ops, i + 1) <= n,
        0 <= nsum(ops, i) && nsum(ops, i + 1) == nsum(ops, i) + nlen(ops[i]) && nsum(ops, i + 1) <= m,
{
    lemma_psum_mono(ops, 0, i);
    lemma_psum_mono(ops, i + 1, ops.len() as int);
    assert(at_cursor(ops, i));
}

pub proof fn lemma_script_of_ops_full<Old: Index<usize> + ?Sized, New: Index<usize> + ?Sized>(old: &Old, new: &New, ops: Seq<DiffOp>, n: int, m: int)
  where New::Output: PartialEq<Old::Output>
    requires ops_full(old, new, ops, OBox { o0: 0, n0: 0, oe: n, ne: m }, false),
    ensures idx_script(ops, n, m), forall|i: int| 0 <= i < ops.len() ==> !((#[trigger] ops[i]) is Replace),
{
    let b = OBox { o0: 0, n0: 0, oe: n, ne: m };
    assert forall|i: int| 0 <= i < ops.len() implies #[trigger] at_cursor(ops, i) by { assert(op_ok(old, new, ops, i, b, false)); }
    assert forall|i: int| 0 <= i < ops.len() implies !((#[trigger] ops[i]) is Replace) by { assert(op_ok(old, new, ops, i, b, false)); }
}

/// an Equal op pairs items the relation holds for
pub open spec fn equal_rel(rel: Rel, ops: Seq<DiffOp>) -> bool {
    forall|i: int| 0 <= i < ops.len() ==> match #[trigger] ops[i] {
        DiffOp::Equal { old_index, new_index, len } => forall|k: int| 0 <= k < len ==> #[trigger] relk(rel, old_index as int, new_index as int, k),
        _ => true,
    }
}

pub open spec fn all_sides_nonempty(ops: Seq<DiffOp>) -> bool { forall|i: int| 0 <= i < ops.len() ==> sides_nonempty(#[trigger] ops[i]) }

/// what the exact checker accepted, as facts about the op list (induction over the list)
pub proof fn lemma_xrun_ops(rel: Rel, x0: Xs, ops: Seq<DiffOp>)
    requires x0.oc == 0, x0.nc == 0,
    ensures ({ let xs = xrun(rel, x0, evs_of(ops)); let n = ops.len() as int;
        xs.oc == osum(ops, n) && xs.nc == nsum(ops, n)
        && (xs.ok ==> (forall|i: int| 0 <= i < n ==> #[trigger] at_cursor(ops, i)) && all_sides_nonempty(ops) && equal_rel(rel, ops)) }),
    decreases ops.len()
{
    if ops.len() == 0 {
        assert(evs_of(ops) =~= Seq::<Ev>::empty());
    } else {
        let o0 = ops.drop_last(); let x = ops.last(); let n0 = o0.len() as int;
        lemma_xrun_ops(rel, x0, o0);
        assert(o0.push(x) =~= ops);
        lemma_evs_of_push(o0, x);
        lemma_xrun_push(rel, x0, evs_of(o0), ev_of(x));
        lemma_psum_push(o0, x, n0);
        assert(ops[n0] == x);
        let xs0 = xrun(rel, x0, evs_of(o0)); let xs = xrun(rel, x0, evs_of(ops));
        assert(xs == xstep(rel, xs0, ev_of(x)));
        if xs.ok {
            assert(xs0.ok);
            assert forall|i: int| 0 <= i < ops.len() implies #[trigger] at_cursor(ops, i) by {
                lemma_psum_push(o0, x, i);
                if i < n0 { assert(ops[i] == o0[i]); assert(at_cursor(o0, i)); }
            }
            assert forall|i: int| 0 <= i < ops.len() implies sides_nonempty(#[trigger] ops[i]) by {
                if i < n0 { assert(ops[i] == o0[i]); }
            }
            assert forall|i: int| 0 <= i < ops.len() implies match #[trigger] ops[i] {
                DiffOp::Equal { old_index, new_index, len } => forall|k: int| 0 <= k < len ==> #[trigger] relk(rel, old_index as int, new_index as int, k),
                _ => true,
            } by {
                if i < n0 { assert(ops[i] == o0[i]); }
            }
        }
    }
}

/// `cap_post(old, 0..N, new, 0..M, ops, strict)` (common.rs), unfolded, gives an index-only script in which every
/// consumed side is non-empty and Equal ops pair related items
pub proof fn lemma_script_of_xrun(rel: Rel, ops: Seq<DiffOp>, n: usize, m: usize, strict: bool)
    requires ({ let xs = xrun(rel, xcanon(0, 0, n as int, m as int, strict), evs_of(ops)); xs.ok && xs.oc == n && xs.nc == m }),
    ensures idx_script(ops, n as int, m as int), all_sides_nonempty(ops), equal_rel(rel, ops),
{
    lemma_xrun_ops(rel, xcanon(0, 0, n as int, m as int, strict), ops);
}

/// H-EQ: an Equal op pairs identical tokens
pub open spec fn equal_ok<A>(ops: Seq<DiffOp>, old_t: Seq<A>, new_t: Seq<A>) -> bool {
    forall|i: int| 0 <= i < ops.len() ==> match #[trigger] ops[i] {
        DiffOp::Equal { old_index, new_index, len } => forall|k: int| 0 <= k < len ==> #[trigger] old_t[old_index + k] == new_t[new_index + k],
        _ => true,
    }
}

pub proof fn lemma_equal_ok_of_rel<A>(rel: Rel, ops: Seq<DiffOp>, old_t: Seq<A>, new_t: Seq<A>)
    requires equal_rel(rel, ops), forall|i: int, j: int| #[trigger] rel(i, j) ==> old_t[i] == new_t[j],
    ensures equal_ok(ops, old_t, new_t),
{
    assert forall|i: int| 0 <= i < ops.len() implies match #[trigger] ops[i] {
        DiffOp::Equal { old_index, new_index, len } => forall|k: int| 0 <= k < len ==> #[trigger] old_t[old_index + k] == new_t[new_index + k],
        _ => true,
    } by {
        match ops[i] {
            DiffOp::Equal { old_index, new_index, len } => {
                assert forall|k: int| 0 <= k < len implies #[trigger] old_t[old_index + k] == new_t[new_index + k] by {
                    assert(relk(rel, old_index as int, new_index as int, k));
                }
            }
            _ => {}
        }
    }
}

// ---------------------------------------------------------------------------------------------
// (1) (2): the token ranges of the ops, flattened
// ---------------------------------------------------------------------------------------------
/// the tokens an op covers on one side: old side for every op that is not an Insert (Equal, Delete, Replace), new
/// side for every op that is not a Delete (Equal, Insert, Replace)
pub open spec fn op_side_toks<A>(op: DiffOp, t: Seq<A>, old_side: bool) -> Seq<A> {
    if old_side { if op is Insert { Seq::empty() } else { t.subrange(op_old_index(op) as int, op_old_end(op)) } }
    else { if op is Delete { Seq::empty() } else { t.subrange(op_new_index(op) as int, op_new_end(op)) } }
}

/// ... flattened over the first k ops, in order
pub open spec fn side_toks<A>(ops: Seq<DiffOp>, t: Seq<A>, old_side: bool, k: int) -> Seq<A>
    decreases k
{
    if k <= 0 { Seq::empty() } else { side_toks(ops, t, old_side, k - 1) + op_side_toks(ops[k - 1], t, old_side) }
}

pub proof fn lemma_side_toks_prefix<A>(ops: Seq<DiffOp>, t: Seq<A>, old_side: bool, n: int, m: int, k: int)
    requires idx_script(ops, n, m), t.len() == (if old_side { n } else { m }), 0 <= k <= ops.len(),
    ensures 0 <= csum(ops, old_side, k) <= t.len(), side_toks(ops, t, old_side, k) == t.subrange(0, csum(ops, old_side, k)),
    decreases k
{
    if k == 0 {
        assert(side_toks(ops, t, old_side, k) =~= t.subrange(0, 0));
    } else {
        lemma_side_toks_prefix(ops, t, old_side, n, m, k - 1);
        lemma_script_op(ops, n, m, k - 1);
        assert(side_toks(ops, t, old_side, k) =~= t.subrange(0, csum(ops, old_side, k)));
    }
}

/// C04 / C17 (1): the old-side token ranges of the non-Insert ops, in order, are exactly the old tokens
pub proof fn lemma_reconstruct_old<A>(ops: Seq<DiffOp>, old_t: Seq<A>, n: int, m: int)
    requires idx_script(ops, n, m), old_t.len() == n,
    ensures side_toks(ops, old_t, true, ops.len() as int) == old_t,
{
    lemma_side_toks_prefix(ops, old_t, true, n, m, ops.len() as int);
    assert(old_t.subrange(0, n) =~= old_t);
}

/// C04 / C17 (2): the new-side token ranges of the non-Delete ops, in order, are exactly the new tokens
pub proof fn lemma_reconstruct_new<A>(ops: Seq<DiffOp>, new_t: Seq<A>, n: int, m: int)
    requires idx_script(ops, n, m), new_t.len() == m,
    ensures side_toks(ops, new_t, false, ops.len() as int) == new_t,
{
    lemma_side_toks_prefix(ops, new_t, false, n, m, ops.len() as int);
    assert(new_t.subrange(0, m) =~= new_t);
}

// --- bytes: what the remapped slices concatenate to (C17) ---
/// the bytes of the slice `iter_slices` returns for an op on one side (by the contract of `slice` under `remap_hyp`:
/// the concatenation of the op's tokens), nothing for an op that does not consume that side
pub open spec fn op_side_bytes(op: DiffOp, t: Seq<Seq<u8>>, old_side: bool) -> Seq<u8> {
    if old_side { if op is Insert { Seq::empty() } else { cat(t, op_old_index(op) as int, op_old_end(op)) } }
    else { if op is Delete { Seq::empty() } else { cat(t, op_new_index(op) as int, op_new_end(op)) } }
}

pub open spec fn side_bytes(ops: Seq<DiffOp>, t: Seq<Seq<u8>>, old_side: bool, k: int) -> Seq<u8>
    decreases k
{
    if k <= 0 { Seq::empty() } else { side_bytes(ops, t, old_side, k - 1) + op_side_bytes(ops[k - 1], t, old_side) }
}

pub proof fn lemma_side_bytes_prefix(ops: Seq<DiffOp>, t: Seq<Seq<u8>>, old_side: bool, n: int, m: int, k: int)
    requires idx_script(ops, n, m), 0 <= k <= ops.len(),
    ensures side_bytes(ops, t, old_side, k) == cat(t, 0, csum(ops, old_side, k)),
    decreases k
{
    if k > 0 {
        lemma_side_bytes_prefix(ops, t, old_side, n, m, k - 1);
        lemma_script_op(ops, n, m, k - 1);
        lemma_cat_split(t, 0, csum(ops, old_side, k - 1), csum(ops, old_side, k));
        assert(cat(t, 0, csum(ops, old_side, k - 1)) + Seq::<u8>::empty() =~= cat(t, 0, csum(ops, old_side, k - 1)));
    }
}

/// C17: concatenating the non-Insert slices over all ops gives the old text (under H-TOK)
pub proof fn lemma_reconstruct_old_bytes(ops: Seq<DiffOp>, old_t: Seq<Seq<u8>>, n: int, m: int, text: Seq<u8>)
    requires idx_script(ops, n, m), old_t.len() == n, tokens_partition(text, old_t),
    ensures side_bytes(ops, old_t, true, ops.len() as int) == text,
{
    lemma_side_bytes_prefix(ops, old_t, true, n, m, ops.len() as int);
}

/// C17: concatenating the non-Delete slices over all ops gives the new text (under H-TOK)
pub proof fn lemma_reconstruct_new_bytes(ops: Seq<DiffOp>, new_t: Seq<Seq<u8>>, n: int, m: int, text: Seq<u8>)
    requires idx_script(ops, n, m), new_t.len() == m, tokens_partition(text, new_t),
    ensures side_bytes(ops, new_t, false, ops.len() as int) == text,
{
    lemma_side_bytes_prefix(ops, new_t, false, n, m, ops.len() as int);
}

/// every slice request `iter_slices` makes for an op of a script with non-empty sides meets the precondition of
/// `slice` and lies inside the token list (so `slice` returns Some and the `.expect(..)` of iter_slices does not fire
/// when the remapper was built from N / M tokens)
pub proof fn lemma_slice_reqs_in_script(ops: Seq<DiffOp>, n: int, m: int, i: int, j: int)
    requires idx_script(ops, n, m), 0 <= i < ops.len(), sides_nonempty(ops[i]), 0 <= j < slice_reqs(ops[i]).len(),
    ensures ({ let r = slice_reqs(ops[i])[j];
        0 < r.range.end && r.range.start < r.range.end && r.range.end <= (if r.side_old { n } else { m })
        && r.range.start == csum(ops, r.side_old, i) && r.range.end == csum(ops, r.side_old, i + 1) }),
{
    lemma_script_op(ops, n, m, i);
    lemma_slice_reqs_pre(ops[i]);
}

// ---------------------------------------------------------------------------------------------
// (3): in terms of the item-wise expansion `expand_all(ops)` (iter.rs)
// ---------------------------------------------------------------------------------------------
/// the entries of an expansion that `f` selects, in order
pub open spec fn proj<A>(cs: Seq<ChangeSpec>, f: spec_fn(ChangeSpec) -> Option<A>) -> Seq<A>
    decreases cs.len()
{
    if cs.len() == 0 { Seq::empty() }
    else { match f(cs.last()) { Some(a) => proj(cs.drop_last(), f).push(a), None => proj(cs.drop_last(), f) } }
}

pub proof fn lemma_proj_concat<A>(a: Seq<ChangeSpec>, b: Seq<ChangeSpec>, f: spec_fn(ChangeSpec) -> Option<A>)
    ensures proj(a + b, f) == proj(a, f) + proj(b, f),
    decreases b.len()
{
    if b.len() == 0 {
        assert(a + b =~= a);
        assert(proj(a, f) + proj(b, f) =~= proj(a, f));
    } else {
        lemma_proj_concat(a, b.drop_last(), f);
        assert((a + b).drop_last() =~= a + b.drop_last());
        assert((a + b).last() == b.last());
        assert(proj(a + b, f) =~= proj(a, f) + proj(b, f));
    }
}

/// `f` selects exactly the entries a..b and maps them to `out`
pub proof fn lemma_proj_window<A>(cs: Seq<ChangeSpec>, f: spec_fn(ChangeSpec) -> Option<A>, a: int, b: int, out: Seq<A>)
    requires 0 <= a <= b <= cs.len(), out.len() == b - a,
        forall|k: int| 0 <= k < cs.len() ==> #[trigger] f(cs[k]) == (if a <= k < b { Some(out[k - a]) } else { None }),
    ensures proj(cs, f) == out,
    decreases cs.len()
{
    if cs.len() == 0 {
        assert(out =~= Seq::<A>::empty());
    } else {
        let c0 = cs.drop_last(); let l = cs.len() - 1;
        assert(f(cs[l]) == (if a <= l < b { Some(out[l - a]) } else { None }));
        assert forall|k: int| 0 <= k < c0.len() implies c0[k] == cs[k] by {}
        if l < b {
            if a < b {
                let out0 = out.drop_last();
                assert forall|k: int| 0 <= k < c0.len() implies #[trigger] f(c0[k]) == (if a <= k < b - 1 { Some(out0[k - a]) } else { None }) by { assert(c0[k] == cs[k]); }
                lemma_proj_window(c0, f, a, b - 1, out0);
                assert(out0.push(out[l - a]) =~= out);
            } else {
                assert forall|k: int| 0 <= k < c0.len() implies #[trigger] f(c0[k]) == (if a - 1 <= k < b - 1 { Some(out[k - (a - 1)]) } else { None }) by { assert(c0[k] == cs[k]); }
                lemma_proj_window(c0, f, a - 1, b - 1, out);
            }
        } else {
            assert forall|k: int| 0 <= k < c0.len() implies #[trigger] f(c0[k]) == (if a <= k < b { Some(out[k - a]) } else { None }) by { assert(c0[k] == cs[k]); }
            lemma_proj_window(c0, f, a, b, out);
        }
    }
}

/// op i contributes to the projection exactly the part of `target` between the prefix sums
pub open spec fn op_proj_ok<A>(ops: Seq<DiffOp>, f: spec_fn(ChangeSpec) -> Option<A>, target: Seq<A>, old_side: bool, i: int) -> bool {
    0 <= csum(ops, old_side, i) <= csum(ops, old_side, i + 1) <= target.len()
    && proj(expand(ops[i]), f) == target.subrange(csum(ops, old_side, i), csum(ops, old_side, i + 1))
}

pub proof fn lemma_proj_expand_prefix<A>(ops: Seq<DiffOp>, f: spec_fn(ChangeSpec) -> Option<A>, target: Seq<A>, old_side: bool, k: int)
    requires 0 <= k <= ops.len(), forall|i: int| 0 <= i < ops.len() ==> #[trigger] op_proj_ok(ops, f, target, old_side, i),
    ensures 0 <= csum(ops, old_side, k) <= target.len(), proj(expand_all(ops.take(k)), f) == target.subrange(0, csum(ops, old_side, k)),
    decreases k
{
    if k == 0 {
        assert(ops.take(0) =~= Seq::<DiffOp>::empty());
        assert(proj(expand_all(ops.take(0)), f) =~= target.subrange(0, 0));
    } else {
        lemma_proj_expand_prefix(ops, f, target, old_side, k - 1);
        assert(op_proj_ok(ops, f, target, old_side, k - 1));
        assert(ops.take(k) =~= ops.take(k - 1).push(ops[k - 1]));
        lemma_expand_all_push(ops.take(k - 1), ops[k - 1]);
        lemma_proj_concat(expand_all(ops.take(k - 1)), expand(ops[k - 1]), f);
        assert(target.subrange(0, csum(ops, old_side, k - 1)) + target.subrange(csum(ops, old_side, k - 1), csum(ops, old_side, k))
            =~= target.subrange(0, csum(ops, old_side, k)));
    }
}

pub proof fn lemma_proj_expand_all<A>(ops: Seq<DiffOp>, f: spec_fn(ChangeSpec) -> Option<A>, target: Seq<A>, old_side: bool)
    requires forall|i: int| 0 <= i < ops.len() ==> #[trigger] op_proj_ok(ops, f, target, old_side, i),
        csum(ops, old_side, ops.len() as int) == target.len(),
    ensures proj(expand_all(ops), f) == target,
{
    lemma_proj_expand_prefix(ops, f, target, old_side, ops.len() as int);
    assert(ops.take(ops.len() as int) =~= ops);
    assert(target.subrange(0, target.len() as int) =~= target);
}

/// where in `expand(op)` the entries of one side sit: old side 0..old_len; new side 0..len (Equal),
/// 0..new_len (Insert), old_len..old_len+new_len (Replace: all its deletes come first)
pub open spec fn win_start(op: DiffOp, old_side: bool) -> int { if !old_side && op is Replace { olen(op) } else { 0 } }
pub open spec fn win_end(op: DiffOp, old_side: bool) -> int { win_start(op, old_side) + (if old_side { olen(op) } else { nlen(op) }) }

/// 0, 1, .., n-1
pub open spec fn iota(n: int) -> Seq<usize> { Seq::new(n as nat, |i: int| i as usize) }

/// the index an entry carries for one side
pub open spec fn sel_index(old_side: bool) -> spec_fn(ChangeSpec) -> Option<usize> {
    |c: ChangeSpec| if old_side { c.old_index } else { c.new_index }
}

/// the token an entry's value is (a clone of): `ChangeSpec.idx` in the sequence `ChangeSpec.side_is_old` names
pub open spec fn val_of<A>(c: ChangeSpec, old_t: Seq<A>, new_t: Seq<A>) -> A { if c.side_is_old { old_t[c.idx as int] } else { new_t[c.idx as int] } }

/// the values of the changes that are not Insert (old side) / not Delete (new side)
pub open spec fn sel_value<A>(old_side: bool, old_t: Seq<A>, new_t: Seq<A>) -> spec_fn(ChangeSpec) -> Option<A> {
    |c: ChangeSpec| if c.tag != (if old_side { ChangeTag::Insert } else { ChangeTag::Delete }) { Some(val_of(c, old_t, new_t)) } else { None }
}

pub proof fn lemma_op_indices(ops: Seq<DiffOp>, n: int, m: int, old_side: bool, i: int)
    requires idx_script(ops, n, m), 0 <= i < ops.len(),
    ensures op_proj_ok(ops, sel_index(old_side), iota(if old_side { n } else { m }), old_side, i),
{
    lemma_script_op(ops, n, m, i);
    let op = ops[i]; let f = sel_index(old_side); let target = iota(if old_side { n } else { m });
    let lo = csum(ops, old_side, i); let hi = csum(ops, old_side, i + 1);
    let out = target.subrange(lo, hi);
    let a = win_start(op, old_side); let b = win_end(op, old_side);
    lemma_expand_len(op);
    assert forall|k: int| 0 <= k < expand(op).len() implies #[trigger] f(expand(op)[k]) == (if a <= k < b { Some(out[k - a]) } else { None }) by {
        lemma_expand_index(op, k);
    }
    lemma_proj_window(expand(op), f, a, b, out);
}

pub proof fn lemma_op_values<A>(ops: Seq<DiffOp>, old_t: Seq<A>, new_t: Seq<A>, n: int, m: int, old_side: bool, i: int)
    requires idx_script(ops, n, m), old_t.len() == n, new_t.len() == m, 0 <= i < ops.len(), !old_side ==> equal_ok(ops, old_t, new_t),
    ensures op_proj_ok(ops, sel_value(old_side, old_t, new_t), if old_side { old_t } else { new_t }, old_side, i),
{
    lemma_script_op(ops, n, m, i);
    let op = ops[i]; let f = sel_value(old_side, old_t, new_t); let target = if old_side { old_t } else { new_t };
    let lo = csum(ops, old_side, i); let hi = csum(ops, old_side, i + 1);
    let out = target.subrange(lo, hi);
    let a = win_start(op, old_side); let b = win_end(op, old_side);
    lemma_expand_len(op);
    assert forall|k: int| 0 <= k < expand(op).len() implies #[trigger] f(expand(op)[k]) == (if a <= k < b { Some(out[k - a]) } else { None }) by {
        lemma_expand_index(op, k);
        if !old_side {
            match op {
                DiffOp::Equal { old_index, new_index, len } => { assert(old_t[old_index + k] == new_t[new_index + k]); }
                _ => {}
            }
        }
    }
    lemma_proj_window(expand(op), f, a, b, out);
}

/// C04 "indices count tokens consecutively from zero on each side": in the whole-diff expansion the old indices
/// of the entries that carry one are 0, 1, .., N-1 in this order, the new indices 0, 1, .., M-1
pub proof fn lemma_expand_indices(ops: Seq<DiffOp>, n: int, m: int)
    requires idx_script(ops, n, m),
    ensures proj(expand_all(ops), sel_index(true)) == iota(n), proj(expand_all(ops), sel_index(false)) == iota(m),
{
    lemma_psum_mono(ops, 0, ops.len() as int);
    assert forall|i: int| 0 <= i < ops.len() implies #[trigger] op_proj_ok(ops, sel_index(true), iota(n), true, i) by { lemma_op_indices(ops, n, m, true, i); }
    lemma_proj_expand_all(ops, sel_index(true), iota(n), true);
    assert forall|i: int| 0 <= i < ops.len() implies #[trigger] op_proj_ok(ops, sel_index(false), iota(m), false, i) by { lemma_op_indices(ops, n, m, false, i); }
    lemma_proj_expand_all(ops, sel_index(false), iota(m), false);
}

/// C04 "Equal changes carry both indices, Delete only the old and Insert only the new one" for every entry of the
/// whole-diff expansion (so "carries an old index" and "is not an Insert" select the same entries)
pub proof fn lemma_expand_indices_carried(ops: Seq<DiffOp>, j: int)
    requires 0 <= j < expand_all(ops).len(),
    ensures ({ let c = expand_all(ops)[j];
        (c.tag == ChangeTag::Equal ==> c.old_index is Some && c.new_index is Some)
        && (c.tag == ChangeTag::Delete ==> c.old_index is Some && c.new_index is None)
        && (c.tag == ChangeTag::Insert ==> c.old_index is None && c.new_index is Some) }),
    decreases ops.len()
{
    if ops.len() > 0 {
        if j >= expand(ops[0]).len() { lemma_expand_indices_carried(ops.drop_first(), j - expand(ops[0]).len()); }
    }
}

/// C04: the values of all changes that are not Insert, in order, are the old tokens (under H-CLONE; their
/// concatenation is the old text under H-TOK)
pub proof fn lemma_reconstruct_changes_old<A>(ops: Seq<DiffOp>, old_t: Seq<A>, new_t: Seq<A>, n: int, m: int)
    requires idx_script(ops, n, m), old_t.len() == n, new_t.len() == m,
    ensures proj(expand_all(ops), sel_value(true, old_t, new_t)) == old_t,
{
    assert forall|i: int| 0 <= i < ops.len() implies #[trigger] op_proj_ok(ops, sel_value(true, old_t, new_t), old_t, true, i) by {
        lemma_op_values(ops, old_t, new_t, n, m, true, i);
    }
    lemma_proj_expand_all(ops, sel_value(true, old_t, new_t), old_t, true);
}

/// C04: the values of all changes that are not Delete, in order, are the new tokens (an Equal change's value is
/// read from the OLD sequence, so this needs H-EQ)
pub proof fn lemma_reconstruct_changes_new<A>(ops: Seq<DiffOp>, old_t: Seq<A>, new_t: Seq<A>, n: int, m: int)
    requires idx_script(ops, n, m), old_t.len() == n, new_t.len() == m, equal_ok(ops, old_t, new_t),
    ensures proj(expand_all(ops), sel_value(false, old_t, new_t)) == new_t,
{
    assert forall|i: int| 0 <= i < ops.len() implies #[trigger] op_proj_ok(ops, sel_value(false, old_t, new_t), new_t, false, i) by {
        lemma_op_values(ops, old_t, new_t, n, m, false, i);
    }
    lemma_proj_expand_all(ops, sel_value(false, old_t, new_t), new_t, false);
}

/// bytes: concatenating the values of a token list is `cat`; so with H-TOK the two lemmas above give
/// "concatenating in order the values of all changes that are not Insert reproduces the old text exactly"
pub proof fn lemma_reconstruct_changes_bytes(ops: Seq<DiffOp>, old_t: Seq<Seq<u8>>, new_t: Seq<Seq<u8>>, n: int, m: int, old_text: Seq<u8>, new_text: Seq<u8>)
    requires idx_script(ops, n, m), old_t.len() == n, new_t.len() == m, equal_ok(ops, old_t, new_t),
        tokens_partition(old_text, old_t), tokens_partition(new_text, new_t),
    ensures ({ let vo = proj(expand_all(ops), sel_value(true, old_t, new_t)); let vn = proj(expand_all(ops), sel_value(false, old_t, new_t));
        cat(vo, 0, vo.len() as int) == old_text && cat(vn, 0, vn.len() as int) == new_text }),
{
    lemma_reconstruct_changes_old(ops, old_t, new_t, n, m);
    lemma_reconstruct_changes_new(ops, old_t, new_t, n, m);
}

/// non-vacuity witness: a concrete script with a Replace satisfies `idx_script`, and the lemmas' conclusions can be
/// read off it (old tokens a b, new tokens a c d)
pub proof fn lemma_reconstruct_example()
    ensures ({
        let ops = seq![DiffOp::Equal { old_index: 0, new_index: 0, len: 1 }, DiffOp::Replace { old_index: 1, old_len: 1, new_index: 1, new_len: 2 }];
        let old_t = seq![seq![97u8], seq![98u8]]; let new_t = seq![seq![97u8], seq![99u8], seq![100u8]];
        idx_script(ops, 2, 3) && equal_ok(ops, old_t, new_t)
        && side_toks(ops, old_t, true, 2) == old_t && side_toks(ops, new_t, false, 2) == new_t
        && side_bytes(ops, old_t, true, 2) == seq![97u8, 98u8] && side_bytes(ops, new_t, false, 2) == seq![97u8, 99u8, 100u8]
        && expand_all(ops).len() == 4 }),
{
    let ops = seq![DiffOp::Equal { old_index: 0, new_index: 0, len: 1 }, DiffOp::Replace { old_index: 1, old_len: 1, new_index: 1, new_len: 2 }];
    let old_t = seq![seq![97u8], seq![98u8]]; let new_t = seq![seq![97u8], seq![99u8], seq![100u8]];
    reveal_with_fuel(osum, 4); reveal_with_fuel(nsum, 4); reveal_with_fuel(cat, 5);
    assert(osum(ops, 0) == 0 && osum(ops, 1) == 1 && osum(ops, 2) == 2 && nsum(ops, 0) == 0 && nsum(ops, 1) == 1 && nsum(ops, 2) == 3);
    assert(at_cursor(ops, 0) && at_cursor(ops, 1));
    assert(idx_script(ops, 2, 3));
    assert(old_t[0] == new_t[0]);
    assert(equal_ok(ops, old_t, new_t));
    lemma_reconstruct_old(ops, old_t, 2, 3);
    lemma_reconstruct_new(ops, new_t, 2, 3);
    lemma_side_bytes_prefix(ops, old_t, true, 2, 3, 2);
    lemma_side_bytes_prefix(ops, new_t, false, 2, 3, 2);
    assert(cat(old_t, 0, 2) =~= seq![97u8, 98u8]);
    assert(cat(new_t, 0, 3) =~= seq![97u8, 99u8, 100u8]);
    lemma_expand_all_push(seq![ops[0]], ops[1]);
    lemma_expand_all_push(Seq::<DiffOp>::empty(), ops[0]);
    assert(Seq::<DiffOp>::empty().push(ops[0]) =~= seq![ops[0]]);
    assert(seq![ops[0]].push(ops[1]) =~= ops);
    assert(expand_all(Seq::<DiffOp>::empty()).len() == 0);
}

} // verus!
