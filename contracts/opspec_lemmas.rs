// Lemmas about op lists (pure ghost): prefix sums, windows of an op list, window rewrites.
// Used by the compaction unit (contracts/cleanup.rs).  Nothing here is assumed.
verus! {

pub open spec fn otot(s: Seq<DiffOp>) -> int { osum(s, s.len() as int) }
pub open spec fn ntot(s: Seq<DiffOp>) -> int { nsum(s, s.len() as int) }
pub open spec fn etot(s: Seq<DiffOp>) -> int { esum(s, s.len() as int) }

/// `carried_ok` (opspec.rs) for a window w of a list: e0 equal items before the window, et in the whole list
pub open spec fn carried_in(w: Seq<DiffOp>, e0: int, et: int) -> bool {
    forall|i: int| 0 <= i < w.len() ==> match #[trigger] w[i] {
        DiffOp::Insert { old_index, .. } => e0 + esum(w, i) <= old_index && old_index + (et - e0 - esum(w, i)) <= usize::MAX,
        DiffOp::Delete { new_index, .. } => e0 + esum(w, i) <= new_index && new_index + (et - e0 - esum(w, i)) <= usize::MAX,
        _ => true,
    }
}

// ---------------------------------------------------------------------------------------------
// prefix sums
// ---------------------------------------------------------------------------------------------
pub proof fn lemma_sum_nonneg(s: Seq<DiffOp>, i: int)
    ensures 0 <= esum(s, i) <= osum(s, i), esum(s, i) <= nsum(s, i),
    decreases i
{
    if i > 0 { lemma_sum_nonneg(s, i - 1); }
}

pub proof fn lemma_sum_mono(s: Seq<DiffOp>, i: int, j: int)
    requires i <= j,
    ensures osum(s, i) <= osum(s, j), nsum(s, i) <= nsum(s, j), esum(s, i) <= esum(s, j),
        osum(s, j) - osum(s, i) >= esum(s, j) - esum(s, i), nsum(s, j) - nsum(s, i) >= esum(s, j) - esum(s, i),
    decreases j - i
{
    if i < j {
        lemma_sum_mono(s, i, j - 1);
        if j - 1 <= 0 { lemma_sum_nonneg(s, j); }
    }
}

/// sums depend only on the prefix
pub proof fn lemma_sum_prefix(a: Seq<DiffOp>, b: Seq<DiffOp>, i: int)
    requires i <= a.len(), i <= b.len(), forall|k: int| 0 <= k < i ==> a[k] == b[k],
    ensures osum(a, i) == osum(b, i), nsum(a, i) == nsum(b, i), esum(a, i) == esum(b, i),
    decreases i
{
    if i > 0 { lemma_sum_prefix(a, b, i - 1); }
}

/// sums over a shifted copy: b[d + k] == a[c + k]
pub proof fn lemma_sum_shift(a: Seq<DiffOp>, c: int, b: Seq<DiffOp>, d: int, j: int)
    requires 0 <= c, 0 <= d, 0 <= j, c + j <= a.len(), d + j <= b.len(), forall|k: int| c <= k < c + j ==> #[trigger] a[k] == b[k - c + d],
    ensures osum(a, c + j) - osum(a, c) == osum(b, d + j) - osum(b, d),
        nsum(a, c + j) - nsum(a, c) == nsum(b, d + j) - nsum(b, d),
        esum(a, c + j) - esum(a, c) == esum(b, d + j) - esum(b, d),
    decreases j
{
    if j > 0 {
        lemma_sum_shift(a, c, b, d, j - 1);
        assert(a[c + j - 1] == b[(c + j - 1) - c + d]);
    }
}

pub open spec fn cat3(pre: Seq<DiffOp>, w: Seq<DiffOp>, post: Seq<DiffOp>) -> Seq<DiffOp> { pre + w + post }

/// position i of pre + w + post: which op it is and what the prefix sums are
pub proof fn lemma_cat3_at(pre: Seq<DiffOp>, w: Seq<DiffOp>, post: Seq<DiffOp>, i: int)
    requires 0 <= i <= pre.len() + w.len() + post.len(),
    ensures
        ({
            let s = cat3(pre, w, post); let a = pre.len() as int; let c = a + w.len();
            &&& s.len() == c + post.len()
            &&& (i <= a ==> osum(s, i) == osum(pre, i) && nsum(s, i) == nsum(pre, i) && esum(s, i) == esum(pre, i))
            &&& (i < a ==> s[i] == pre[i])
            &&& (a <= i <= c ==> osum(s, i) == otot(pre) + osum(w, i - a) && nsum(s, i) == ntot(pre) + nsum(w, i - a) && esum(s, i) == etot(pre) + esum(w, i - a))
            &&& (a <= i < c ==> s[i] == w[i - a])
            &&& (c <= i ==> osum(s, i) == otot(pre) + otot(w) + osum(post, i - c) && nsum(s, i) == ntot(pre) + ntot(w) + nsum(post, i - c)
                    && esum(s, i) == etot(pre) + etot(w) + esum(post, i - c))
            &&& (c <= i < s.len() ==> s[i] == post[i - c])
        }),
{
    let s = cat3(pre, w, post); let a = pre.len() as int; let c = a + w.len();
    lemma_sum_prefix(s, pre, a);
    if i <= a {
        lemma_sum_prefix(s, pre, i);
    } else if i <= c {
        lemma_sum_shift(s, a, w, 0, i - a);
    } else {
        lemma_sum_shift(s, a, w, 0, c - a);
        lemma_sum_shift(s, c, post, 0, i - c);
    }
    if i >= c {
        lemma_sum_shift(s, a, w, 0, c - a);
    }
}

pub proof fn lemma_cat3_tot(pre: Seq<DiffOp>, w: Seq<DiffOp>, post: Seq<DiffOp>)
    ensures otot(cat3(pre, w, post)) == otot(pre) + otot(w) + otot(post),
        ntot(cat3(pre, w, post)) == ntot(pre) + ntot(w) + ntot(post),
        etot(cat3(pre, w, post)) == etot(pre) + etot(w) + etot(post),
{
    lemma_cat3_at(pre, w, post, (pre.len() + w.len() + post.len()) as int);
}

/// sums of short explicit lists
pub proof fn lemma_sums1(a: DiffOp)
    ensures ({ let s = seq![a];
        osum(s, 0) == 0 && nsum(s, 0) == 0 && esum(s, 0) == 0
        && osum(s, 1) == olen(a) && nsum(s, 1) == nlen(a) && esum(s, 1) == elen(a) }),
{
    reveal_with_fuel(osum, 3); reveal_with_fuel(nsum, 3); reveal_with_fuel(esum, 3);
}

pub proof fn lemma_sums2(a: DiffOp, b: DiffOp)
    ensures ({ let s = seq![a, b];
        osum(s, 0) == 0 && nsum(s, 0) == 0 && esum(s, 0) == 0
        && osum(s, 1) == olen(a) && nsum(s, 1) == nlen(a) && esum(s, 1) == elen(a)
        && osum(s, 2) == olen(a) + olen(b) && nsum(s, 2) == nlen(a) + nlen(b) && esum(s, 2) == elen(a) + elen(b) }),
{
    reveal_with_fuel(osum, 4); reveal_with_fuel(nsum, 4); reveal_with_fuel(esum, 4);
}

pub proof fn lemma_sums3(a: DiffOp, b: DiffOp, c: DiffOp)
    ensures ({ let s = seq![a, b, c];
        osum(s, 0) == 0 && nsum(s, 0) == 0 && esum(s, 0) == 0
        && osum(s, 1) == olen(a) && nsum(s, 1) == nlen(a) && esum(s, 1) == elen(a)
        && osum(s, 2) == olen(a) + olen(b) && nsum(s, 2) == nlen(a) + nlen(b) && esum(s, 2) == elen(a) + elen(b)
        && osum(s, 3) == olen(a) + olen(b) + olen(c) && nsum(s, 3) == nlen(a) + nlen(b) + nlen(c) && esum(s, 3) == elen(a) + elen(b) + elen(c) }),
{
    reveal_with_fuel(osum, 5); reveal_with_fuel(nsum, 5); reveal_with_fuel(esum, 5);
}

// ---------------------------------------------------------------------------------------------
// one op at an explicit cursor
// ---------------------------------------------------------------------------------------------
/// `op_ok` with the cursor spelled out
pub open spec fn op_at<Old: Index<usize> + ?Sized, New: Index<usize> + ?Sized>(old: &Old, new: &New, op: DiffOp, co: int, cn: int, b: OBox, exact: bool) -> bool
  where New::Output: PartialEq<Old::Output>
{
    &&& co + olen(op) <= b.oe && cn + nlen(op) <= b.ne
    &&& match op {
        DiffOp::Equal { old_index, new_index, len } => old_index == co && new_index == cn
            && (forall|k: int| 0 <= k < len ==> #[trigger] relk(rel_of(old, new), co, cn, k)),
        DiffOp::Delete { old_index, old_len, new_index } => old_index == co && (exact ==> new_index == cn),
        DiffOp::Insert { old_index, new_index, new_len } => new_index == cn && (exact ==> old_index == co),
        DiffOp::Replace { old_index, old_len, new_index, new_len } => false,
    }
}

pub proof fn lemma_op_at<Old: Index<usize> + ?Sized, New: Index<usize> + ?Sized>(old: &Old, new: &New, ops: Seq<DiffOp>, i: int, b: OBox, exact: bool)
  where New::Output: PartialEq<Old::Output>
    ensures op_ok(old, new, ops, i, b, exact) == op_at(old, new, ops[i], b.o0 + osum(ops, i), b.n0 + nsum(ops, i), b, exact),
{}

/// what a complete lax script tells about op i: where it sits, that it fits, that it is well-formed
pub proof fn lemma_op_facts<Old: Index<usize> + ?Sized, New: Index<usize> + ?Sized>(old: &Old, new: &New, ops: Seq<DiffOp>, i: int, b: OBox, exact: bool)
  where New::Output: PartialEq<Old::Output>
    requires ops_full(old, new, ops, b, exact), 0 <= i < ops.len(),
    ensures
        op_at(old, new, ops[i], b.o0 + osum(ops, i), b.n0 + nsum(ops, i), b, exact),
        op_wf(ops[i]), !(ops[i] is Replace), olen(ops[i]) + nlen(ops[i]) > 0,
        osum(ops, i + 1) == osum(ops, i) + olen(ops[i]), nsum(ops, i + 1) == nsum(ops, i) + nlen(ops[i]), esum(ops, i + 1) == esum(ops, i) + elen(ops[i]),
        0 <= esum(ops, i) <= osum(ops, i), esum(ops, i) <= nsum(ops, i),
        b.o0 + osum(ops, i + 1) <= b.oe, b.n0 + nsum(ops, i + 1) <= b.ne, esum(ops, i + 1) <= etot(ops),
        b.oe - (b.o0 + osum(ops, i + 1)) >= etot(ops) - esum(ops, i + 1), b.ne - (b.n0 + nsum(ops, i + 1)) >= etot(ops) - esum(ops, i + 1),
        box_wf(b),
{
    assert(op_ok(old, new, ops, i, b, exact));
    lemma_sum_nonneg(ops, i);
    lemma_sum_mono(ops, i + 1, ops.len() as int);
}

// ---------------------------------------------------------------------------------------------
// windows
// ---------------------------------------------------------------------------------------------
/// the box of window w of pre + w + post
pub open spec fn sub_box(b: OBox, pre: Seq<DiffOp>, w: Seq<DiffOp>) -> OBox {
    OBox { o0: b.o0 + otot(pre), n0: b.n0 + ntot(pre), oe: b.o0 + otot(pre) + otot(w), ne: b.n0 + ntot(pre) + ntot(w) }
}

pub proof fn lemma_window_split<Old: Index<usize> + ?Sized, New: Index<usize> + ?Sized>(old: &Old, new: &New, pre: Seq<DiffOp>, w: Seq<DiffOp>, post: Seq<DiffOp>, b: OBox, exact: bool)
  where New::Output: PartialEq<Old::Output>
    requires ops_full(old, new, cat3(pre, w, post), b, exact),
    ensures ops_full(old, new, w, sub_box(b, pre, w), exact), sub_box(b, pre, w).oe <= b.oe, sub_box(b, pre, w).ne <= b.ne,
{
    let s = cat3(pre, w, post); let a = pre.len() as int; let c = a + w.len(); let wb = sub_box(b, pre, w);
    lemma_cat3_at(pre, w, post, a);
    lemma_cat3_at(pre, w, post, c);
    lemma_sum_nonneg(s, a);
    lemma_sum_mono(s, a, c);
    lemma_sum_mono(s, c, s.len() as int);
    assert(box_wf(wb));
    assert forall|j: int| 0 <= j < w.len() implies #[trigger] op_ok(old, new, w, j, wb, exact) by {
        lemma_cat3_at(pre, w, post, a + j);
        lemma_cat3_at(pre, w, post, a + j + 1);
        assert(op_ok(old, new, s, a + j, b, exact));
        lemma_sum_mono(w, j + 1, w.len() as int);
        lemma_op_at(old, new, s, a + j, b, exact);
        lemma_op_at(old, new, w, j, wb, exact);
    }
    assert forall|j: int| 0 <= j < w.len() implies olen(#[trigger] w[j]) + nlen(w[j]) > 0 by {
        lemma_cat3_at(pre, w, post, a + j);
        assert(s[a + j] == w[j]);
    }
}

pub proof fn lemma_window_join<Old: Index<usize> + ?Sized, New: Index<usize> + ?Sized>(old: &Old, new: &New, pre: Seq<DiffOp>, w1: Seq<DiffOp>, w2: Seq<DiffOp>, post: Seq<DiffOp>, b: OBox, exact: bool)
  where New::Output: PartialEq<Old::Output>
    requires ops_full(old, new, cat3(pre, w1, post), b, exact), ops_full(old, new, w2, sub_box(b, pre, w1), exact),
    ensures ops_full(old, new, cat3(pre, w2, post), b, exact),
{
    let s1 = cat3(pre, w1, post); let s2 = cat3(pre, w2, post);
    let a = pre.len() as int; let c1 = a + w1.len(); let c2 = a + w2.len(); let wb = sub_box(b, pre, w1);
    lemma_window_split(old, new, pre, w1, post, b, exact);
    lemma_cat3_tot(pre, w1, post);
    lemma_cat3_tot(pre, w2, post);
    assert(otot(w2) == otot(w1) && ntot(w2) == ntot(w1));
    assert forall|i: int| 0 <= i < s2.len() implies #[trigger] op_ok(old, new, s2, i, b, exact) by {
        lemma_cat3_at(pre, w2, post, i);
        lemma_op_at(old, new, s2, i, b, exact);
        if i < a {
            lemma_cat3_at(pre, w1, post, i);
            assert(op_ok(old, new, s1, i, b, exact));
            lemma_op_at(old, new, s1, i, b, exact);
        } else if i < c2 {
            assert(op_ok(old, new, w2, i - a, wb, exact));
            lemma_op_at(old, new, w2, i - a, wb, exact);
        } else {
            let i1 = i - c2 + c1;
            lemma_cat3_at(pre, w1, post, i1);
            assert(op_ok(old, new, s1, i1, b, exact));
            lemma_op_at(old, new, s1, i1, b, exact);
        }
    }
    assert forall|i: int| 0 <= i < s2.len() implies olen(#[trigger] s2[i]) + nlen(s2[i]) > 0 by {
        lemma_cat3_at(pre, w2, post, i);
        if i < a {
            lemma_cat3_at(pre, w1, post, i);
            assert(s1[i] == s2[i]);
        } else if i < c2 {
            assert(s2[i] == w2[i - a]);
        } else {
            let i1 = i - c2 + c1;
            lemma_cat3_at(pre, w1, post, i1);
            assert(s1[i1] == s2[i]);
        }
    }
}

/// rewriting window w1 into w2 keeps every box
pub open spec fn win_ok<Old: Index<usize> + ?Sized, New: Index<usize> + ?Sized>(old: &Old, new: &New, w1: Seq<DiffOp>, w2: Seq<DiffOp>, exact: bool) -> bool
  where New::Output: PartialEq<Old::Output>
{
    forall|wb: OBox| #[trigger] ops_full(old, new, w1, wb, exact) ==> ops_full(old, new, w2, wb, exact)
}

pub open spec fn step_ok<Old: Index<usize> + ?Sized, New: Index<usize> + ?Sized>(old: &Old, new: &New, s1: Seq<DiffOp>, s2: Seq<DiffOp>, exact: bool) -> bool
  where New::Output: PartialEq<Old::Output>
{
    forall|b: OBox| #[trigger] ops_full(old, new, s1, b, exact) ==> ops_full(old, new, s2, b, exact)
}

pub open spec fn win_carried(w1: Seq<DiffOp>, w2: Seq<DiffOp>) -> bool {
    etot(w1) == etot(w2) && forall|e0: int, et: int| 0 <= e0 && e0 + etot(w1) <= et && #[trigger] carried_in(w1, e0, et) ==> carried_in(w2, e0, et)
}

pub proof fn lemma_step_window<Old: Index<usize> + ?Sized, New: Index<usize> + ?Sized>(old: &Old, new: &New, pre: Seq<DiffOp>, w1: Seq<DiffOp>, w2: Seq<DiffOp>, post: Seq<DiffOp>, exact: bool)
  where New::Output: PartialEq<Old::Output>
    requires win_ok(old, new, w1, w2, exact),
    ensures step_ok(old, new, cat3(pre, w1, post), cat3(pre, w2, post), exact),
{
    assert forall|b: OBox| #[trigger] ops_full(old, new, cat3(pre, w1, post), b, exact) implies ops_full(old, new, cat3(pre, w2, post), b, exact) by {
        lemma_window_split(old, new, pre, w1, post, b, exact);
        assert(ops_full(old, new, w1, sub_box(b, pre, w1), exact));
        lemma_window_join(old, new, pre, w1, w2, post, b, exact);
    }
}

pub proof fn lemma_carried_eq(ops: Seq<DiffOp>)
    ensures carried_ok(ops) == carried_in(ops, 0, etot(ops)),
{
    if carried_ok(ops) {
        assert forall|i: int| 0 <= i < ops.len() implies match #[trigger] ops[i] {
            DiffOp::Insert { old_index, .. } => 0 + esum(ops, i) <= old_index && old_index + (etot(ops) - 0 - esum(ops, i)) <= usize::MAX,
            DiffOp::Delete { new_index, .. } => 0 + esum(ops, i) <= new_index && new_index + (etot(ops) - 0 - esum(ops, i)) <= usize::MAX,
            _ => true,
        } by {}
    }
    if carried_in(ops, 0, etot(ops)) {
        assert forall|i: int| 0 <= i < ops.len() implies match #[trigger] ops[i] {
            DiffOp::Insert { old_index, .. } => esum(ops, i) <= old_index && old_index + (esum(ops, ops.len() as int) - esum(ops, i)) <= usize::MAX,
            DiffOp::Delete { new_index, .. } => esum(ops, i) <= new_index && new_index + (esum(ops, ops.len() as int) - esum(ops, i)) <= usize::MAX,
            _ => true,
        } by {}
    }
}

pub proof fn lemma_carried_window(pre: Seq<DiffOp>, w1: Seq<DiffOp>, w2: Seq<DiffOp>, post: Seq<DiffOp>)
    requires etot(w1) == etot(w2),
        win_carried(w1, w2) || (carried_in(w1, etot(pre), etot(cat3(pre, w1, post))) ==> carried_in(w2, etot(pre), etot(cat3(pre, w1, post)))),
    ensures carried_ok(cat3(pre, w1, post)) ==> carried_ok(cat3(pre, w2, post)),
        etot(cat3(pre, w1, post)) == etot(cat3(pre, w2, post)),
{
    let s1 = cat3(pre, w1, post); let s2 = cat3(pre, w2, post);
    let a = pre.len() as int; let c1 = a + w1.len(); let c2 = a + w2.len();
    lemma_cat3_tot(pre, w1, post);
    lemma_cat3_tot(pre, w2, post);
    let et = etot(s1); let e0 = etot(pre);
    lemma_sum_nonneg(pre, pre.len() as int); lemma_sum_nonneg(post, post.len() as int);
    if carried_ok(s1) {
        assert(carried_in(w1, e0, et)) by {
            assert forall|j: int| 0 <= j < w1.len() implies match #[trigger] w1[j] {
                DiffOp::Insert { old_index, .. } => e0 + esum(w1, j) <= old_index && old_index + (et - e0 - esum(w1, j)) <= usize::MAX,
                DiffOp::Delete { new_index, .. } => e0 + esum(w1, j) <= new_index && new_index + (et - e0 - esum(w1, j)) <= usize::MAX,
                _ => true,
            } by {
                lemma_cat3_at(pre, w1, post, a + j);
                assert(s1[a + j] == w1[j]);
            }
        }
        assert(carried_in(w2, e0, et));
        assert forall|i: int| 0 <= i < s2.len() implies match #[trigger] s2[i] {
            DiffOp::Insert { old_index, .. } => esum(s2, i) <= old_index && old_index + (esum(s2, s2.len() as int) - esum(s2, i)) <= usize::MAX,
            DiffOp::Delete { new_index, .. } => esum(s2, i) <= new_index && new_index + (esum(s2, s2.len() as int) - esum(s2, i)) <= usize::MAX,
            _ => true,
        } by {
            lemma_cat3_at(pre, w2, post, i);
            if i < a {
                lemma_cat3_at(pre, w1, post, i);
                assert(s1[i] == s2[i]);
            } else if i < c2 {
                assert(s2[i] == w2[i - a]);
            } else {
                let i1 = i - c2 + c1;
                lemma_cat3_at(pre, w1, post, i1);
                assert(s1[i1] == s2[i]);
            }
        }
    }
}

/// an exact script carries cursors, and cursors have room
pub proof fn lemma_exact_carried_ok<Old: Index<usize> + ?Sized, New: Index<usize> + ?Sized>(old: &Old, new: &New, ops: Seq<DiffOp>, b: OBox)
  where New::Output: PartialEq<Old::Output>
    requires ops_full(old, new, ops, b, true),
    ensures carried_ok(ops),
{
    assert forall|i: int| 0 <= i < ops.len() implies match #[trigger] ops[i] {
        DiffOp::Insert { old_index, .. } => esum(ops, i) <= old_index && old_index + (esum(ops, ops.len() as int) - esum(ops, i)) <= usize::MAX,
        DiffOp::Delete { new_index, .. } => esum(ops, i) <= new_index && new_index + (esum(ops, ops.len() as int) - esum(ops, i)) <= usize::MAX,
        _ => true,
    } by {
        lemma_op_facts(old, new, ops, i, b, true);
        lemma_sum_mono(ops, i, i + 1);
    }
}


// ---------------------------------------------------------------------------------------------
// the rewrites of the compaction (src/algorithms/compact.rs) as functions on op lists
// ---------------------------------------------------------------------------------------------
/// two adjacent Inserts / Deletes become one: `ops[p - 1].grow_right(len of ops[p]); ops.remove(p)`
pub open spec fn merged(a: DiffOp, c: DiffOp) -> DiffOp {
    adjusted(a, 0, false, if c is Insert { op_new_len(c) } else { op_old_len(c) }, false)
}

pub open spec fn merge_result(s1: Seq<DiffOp>, p: int) -> Seq<DiffOp> { s1.update(p - 1, merged(s1[p - 1], s1[p])).remove(p) }

/// the Equal that `shift_diff_ops_up` inserts behind the Insert
pub open spec fn up_new_equal(e: DiffOp, i: DiffOp, s: usize) -> DiffOp {
    DiffOp::Equal { old_index: (op_old_end(e) - s) as usize, new_index: (op_new_end(i) - s) as usize, len: s }
}

/// shift the Insert at p up by s items of the Equal at p - 1
pub open spec fn shift_up_result(s1: Seq<DiffOp>, p: int, s: usize) -> Seq<DiffOp> {
    let grew = p + 1 < s1.len() && s1[p + 1] is Equal;
    let m1 = if grew { s1.update(p + 1, adjusted(s1[p + 1], s, true, s, false)) } else { s1.insert(p + 1, up_new_equal(s1[p - 1], s1[p], s)) };
    let m2 = m1.update(p, adjusted(s1[p], s, true, 0, false)).update(p - 1, adjusted(s1[p - 1], 0, false, s, true));
    if op_old_len(s1[p - 1]) == s { m2.remove(p - 1) } else { m2 }
}

/// the Equal that `shift_diff_ops_down` inserts before the Insert
pub open spec fn down_new_equal(i: DiffOp, f: DiffOp, s: usize) -> DiffOp {
    DiffOp::Equal { old_index: op_old_index(f), new_index: op_new_index(i), len: s }
}

/// shift the Insert at p down by s items of the Equal at p + 1
pub open spec fn shift_down_result(s1: Seq<DiffOp>, p: int, s: usize) -> Seq<DiffOp> {
    let grew = p >= 1 && s1[p - 1] is Equal;
    let m1 = if grew { s1.update(p - 1, adjusted(s1[p - 1], 0, false, s, false)) } else { s1.insert(p, down_new_equal(s1[p], s1[p + 1], s)) };
    let q = if grew { p } else { p + 1 };
    let m2 = m1.update(q, adjusted(s1[p], s, false, 0, false)).update(q + 1, adjusted(s1[p + 1], s, false, s, true));
    if op_old_len(s1[p + 1]) == s { m2.remove(q + 1) } else { m2 }
}

/// x and y are a Delete / an Insert with the same cursor-side index and the same length (the carried index may differ)
pub open spec fn same_cursor_side(x: DiffOp, y: DiffOp) -> bool {
    match (x, y) {
        (DiffOp::Insert { new_index: n1, new_len: l1, .. }, DiffOp::Insert { new_index: n2, new_len: l2, .. }) => n1 == n2 && l1 == l2,
        (DiffOp::Delete { old_index: o1, old_len: l1, .. }, DiffOp::Delete { old_index: o2, old_len: l2, .. }) => o1 == o2 && l1 == l2,
        _ => false,
    }
}

/// ops p - 1 and p (a Delete and an Insert) have changed places; what they carry is not specified
pub open spec fn swapped(s1: Seq<DiffOp>, s2: Seq<DiffOp>, p: int) -> bool {
    &&& 1 <= p < s1.len() && s2.len() == s1.len()
    &&& (s1[p - 1] is Insert && s1[p] is Delete) || (s1[p - 1] is Delete && s1[p] is Insert)
    &&& forall|i: int| 0 <= i < s1.len() && i != p - 1 && i != p ==> s2[i] == s1[i]
    &&& same_cursor_side(s2[p - 1], s1[p]) && same_cursor_side(s2[p], s1[p - 1])
}

/// ... they carry what they carried before (`ops.swap`)
pub open spec fn swap_plain(s1: Seq<DiffOp>, s2: Seq<DiffOp>, p: int) -> bool { s2[p - 1] == s1[p] && s2[p] == s1[p - 1] }

/// ... they carry the cursor (the `cfg(similar_verif)` block after `ops.swap`)
pub open spec fn swap_fixed(s2: Seq<DiffOp>, p: int) -> bool {
    match (s2[p - 1], s2[p]) {
        (DiffOp::Insert { old_index: io, new_index: ni, new_len: nl }, DiffOp::Delete { old_index: oi, old_len: ol, new_index: dn }) => io == oi && dn == ni + nl,
        (DiffOp::Delete { old_index: oi, old_len: ol, new_index: dn }, DiffOp::Insert { old_index: io, new_index: ni, new_len: nl }) => dn == ni && io == oi + ol,
        _ => false,
    }
}

// ---------------------------------------------------------------------------------------------
// window lemmas: the rewrite of a window of two or three ops keeps every box of the window
// ---------------------------------------------------------------------------------------------
pub proof fn lemma_win_merge<Old: Index<usize> + ?Sized, New: Index<usize> + ?Sized>(old: &Old, new: &New, a: DiffOp, c: DiffOp, exact: bool)
  where New::Output: PartialEq<Old::Output>
    requires (a is Insert && c is Insert && op_new_len(a) + op_new_len(c) <= usize::MAX) || (a is Delete && c is Delete && op_old_len(a) + op_old_len(c) <= usize::MAX),
    ensures win_ok(old, new, seq![a, c], seq![merged(a, c)], exact), win_carried(seq![a, c], seq![merged(a, c)]),
{
    let w1 = seq![a, c]; let m = merged(a, c); let w2 = seq![m];
    lemma_sums2(a, c); lemma_sums1(m);
    assert forall|wb: OBox| #[trigger] ops_full(old, new, w1, wb, exact) implies ops_full(old, new, w2, wb, exact) by {
        assert(op_ok(old, new, w1, 0, wb, exact)); assert(op_ok(old, new, w1, 1, wb, exact));
        assert(w1[0] == a && w1[1] == c);
        assert forall|j: int| 0 <= j < w2.len() implies #[trigger] op_ok(old, new, w2, j, wb, exact) by { assert(w2[0] == m); }
        assert forall|j: int| 0 <= j < w2.len() implies olen(#[trigger] w2[j]) + nlen(w2[j]) > 0 by { assert(w2[0] == m); assert(olen(w1[0]) + nlen(w1[0]) > 0); }
    }
    assert forall|e0: int, et: int| 0 <= e0 && e0 + etot(w1) <= et && #[trigger] carried_in(w1, e0, et) implies carried_in(w2, e0, et) by {
        assert(w1[0] == a);
        assert forall|j: int| 0 <= j < w2.len() implies match #[trigger] w2[j] {
            DiffOp::Insert { old_index, .. } => e0 + esum(w2, j) <= old_index && old_index + (et - e0 - esum(w2, j)) <= usize::MAX,
            DiffOp::Delete { new_index, .. } => e0 + esum(w2, j) <= new_index && new_index + (et - e0 - esum(w2, j)) <= usize::MAX,
            _ => true,
        } by { assert(w2[0] == m); }
    }
}

/// Delete and Insert change places.  Lax: whatever they carry afterwards.  Exact: if they carry the cursor afterwards.
pub proof fn lemma_win_swap<Old: Index<usize> + ?Sized, New: Index<usize> + ?Sized>(old: &Old, new: &New, a: DiffOp, c: DiffOp, c2: DiffOp, a2: DiffOp)
  where New::Output: PartialEq<Old::Output>
    requires (a is Insert && c is Delete) || (a is Delete && c is Insert), same_cursor_side(c2, c), same_cursor_side(a2, a),
    ensures win_ok(old, new, seq![a, c], seq![c2, a2], false),
        swap_fixed(seq![c2, a2], 1) ==> win_ok(old, new, seq![a, c], seq![c2, a2], true),
        etot(seq![a, c]) == etot(seq![c2, a2]),
{
    let w1 = seq![a, c]; let w2 = seq![c2, a2];
    lemma_sums2(a, c); lemma_sums2(c2, a2);
    assert(w1[0] == a && w1[1] == c && w2[0] == c2 && w2[1] == a2);
    assert forall|wb: OBox| #[trigger] ops_full(old, new, w1, wb, false) implies ops_full(old, new, w2, wb, false) by {
        assert(op_ok(old, new, w1, 0, wb, false)); assert(op_ok(old, new, w1, 1, wb, false));
        assert forall|j: int| 0 <= j < w2.len() implies #[trigger] op_ok(old, new, w2, j, wb, false) by { if j == 0 {} else { assert(j == 1); } }
        assert forall|j: int| 0 <= j < w2.len() implies olen(#[trigger] w2[j]) + nlen(w2[j]) > 0 by {
            assert(olen(w1[0]) + nlen(w1[0]) > 0); assert(olen(w1[1]) + nlen(w1[1]) > 0);
            if j == 0 {} else { assert(j == 1); }
        }
    }
    if swap_fixed(w2, 1) {
        assert forall|wb: OBox| #[trigger] ops_full(old, new, w1, wb, true) implies ops_full(old, new, w2, wb, true) by {
            assert(op_ok(old, new, w1, 0, wb, true)); assert(op_ok(old, new, w1, 1, wb, true));
            assert forall|j: int| 0 <= j < w2.len() implies #[trigger] op_ok(old, new, w2, j, wb, true) by { if j == 0 {} else { assert(j == 1); } }
            assert forall|j: int| 0 <= j < w2.len() implies olen(#[trigger] w2[j]) + nlen(w2[j]) > 0 by {
                assert(olen(w1[0]) + nlen(w1[0]) > 0); assert(olen(w1[1]) + nlen(w1[1]) > 0);
                if j == 0 {} else { assert(j == 1); }
            }
        }
    }
}


/// lengths and the cursor-side placement of an op, without the sequence around it
pub open spec fn op_place<Old: Index<usize> + ?Sized, New: Index<usize> + ?Sized>(old: &Old, new: &New, op: DiffOp, co: int, cn: int, exact: bool) -> bool
  where New::Output: PartialEq<Old::Output>
{
    match op {
        DiffOp::Equal { old_index, new_index, len } => old_index == co && new_index == cn
            && (forall|k: int| 0 <= k < len ==> #[trigger] relk(rel_of(old, new), co, cn, k)),
        DiffOp::Delete { old_index, old_len, new_index } => old_index == co && (exact ==> new_index == cn),
        DiffOp::Insert { old_index, new_index, new_len } => new_index == cn && (exact ==> old_index == co),
        DiffOp::Replace { old_index, old_len, new_index, new_len } => false,
    }
}

/// the Insert i moves up across the last s items of the Equal e: these s pairs reappear behind it, as a new Equal or
/// as the head of the Equal f that followed (the pairs are the ones `common_suffix_len` certified)
pub proof fn lemma_up_ops<Old: Index<usize> + ?Sized, New: Index<usize> + ?Sized>(old: &Old, new: &New, e: DiffOp, i: DiffOp, f: DiffOp, s: usize, grew: bool, co: int, cn: int, exact: bool)
  where New::Output: PartialEq<Old::Output>
    requires e is Equal, i is Insert, 0 < s <= op_old_len(e), s <= op_new_len(i), 0 <= co, 0 <= cn, op_wf(e), op_wf(i),
        op_place(old, new, e, co, cn, exact), op_place(old, new, i, co + olen(e), cn + olen(e), exact),
        grew ==> f is Equal && op_old_len(f) + s <= usize::MAX && op_place(old, new, f, co + olen(e), cn + olen(e) + nlen(i), exact),
        forall|k: int| 0 <= k < s ==> #[trigger] relk(rel_of(old, new), op_old_end(e) - s, op_new_end(i) - s, k),
    ensures
        ({
            let e2 = adjusted(e, 0, false, s, true); let i2 = adjusted(i, s, true, 0, false);
            let g = if grew { adjusted(f, s, true, s, false) } else { up_new_equal(e, i, s) };
            &&& e2 is Equal && i2 is Insert && g is Equal
            &&& olen(e2) == olen(e) - s && nlen(i2) == nlen(i) && olen(g) == (if grew { olen(f) + s } else { s as int })
            &&& op_place(old, new, e2, co, cn, exact)
            &&& op_place(old, new, i2, co + olen(e) - s, cn + olen(e) - s, exact)
            &&& op_place(old, new, g, co + olen(e) - s, cn + olen(e) - s + nlen(i), exact)
            &&& op_old_index(i2) == op_old_index(i) - s || op_old_index(i) < s
        }),
{
    let rel = rel_of(old, new);
    let g = if grew { adjusted(f, s, true, s, false) } else { up_new_equal(e, i, s) };
    let el = olen(e); let il = nlen(i);
    let go = co + el - s; let gn = cn + el - s + il;
    assert(op_old_end(e) - s == go && op_new_end(i) - s == gn);
    assert forall|k: int| 0 <= k < olen(g) implies #[trigger] relk(rel, go, gn, k) by {
        if k < s { assert(relk(rel, op_old_end(e) - s, op_new_end(i) - s, k)); }
        else { assert(relk(rel, co + el, cn + el + il, k - s)); }
    }
}

/// the Insert i moves down across the first s items of the Equal f: these s pairs reappear before it, as a new Equal or
/// as the tail of the Equal e that preceded (the pairs are the ones `common_prefix_len` certified)
pub proof fn lemma_down_ops<Old: Index<usize> + ?Sized, New: Index<usize> + ?Sized>(old: &Old, new: &New, e: DiffOp, i: DiffOp, f: DiffOp, s: usize, grew: bool, co: int, cn: int, exact: bool)
  where New::Output: PartialEq<Old::Output>
    requires f is Equal, i is Insert, 0 < s <= op_old_len(f), s <= op_new_len(i), 0 <= co, 0 <= cn,
        grew ==> e is Equal && op_old_len(e) + s <= usize::MAX && op_place(old, new, e, co, cn, exact),
        ({ let el = if grew { olen(e) } else { 0 };
           op_place(old, new, i, co + el, cn + el, exact) && op_place(old, new, f, co + el, cn + el + nlen(i), exact)
           && op_old_index(f) + s <= usize::MAX && op_new_index(f) + s <= usize::MAX && op_new_index(i) + s <= usize::MAX }),
        forall|k: int| 0 <= k < s ==> #[trigger] relk(rel_of(old, new), op_old_index(f) as int, op_new_index(i) as int, k),
    ensures
        ({
            let el = if grew { olen(e) } else { 0 };
            let g = if grew { adjusted(e, 0, false, s, false) } else { down_new_equal(i, f, s) };
            let i2 = adjusted(i, s, false, 0, false); let f2 = adjusted(f, s, false, s, true);
            &&& g is Equal && i2 is Insert && f2 is Equal
            &&& olen(g) == el + s && nlen(i2) == nlen(i) && olen(f2) == olen(f) - s
            &&& op_place(old, new, g, co, cn, exact)
            &&& op_place(old, new, i2, co + el + s, cn + el + s, exact)
            &&& op_place(old, new, f2, co + el + s, cn + el + s + nlen(i), exact)
            &&& op_old_index(i2) == op_old_index(i) + s || op_old_index(i) + s > usize::MAX
        }),
{
    let rel = rel_of(old, new);
    let el = if grew { olen(e) } else { 0 }; let il = nlen(i); let fl = olen(f);
    let fo = op_old_index(f) as int; let fnn = op_new_index(f) as int;
    assert(fo == co + el && fnn == cn + el + il && op_new_index(i) == cn + el);
    assert forall|k: int| 0 <= k < el + s implies #[trigger] relk(rel, co, cn, k) by {
        if k < el { } else { assert(relk(rel, fo, op_new_index(i) as int, k - el)); }
    }
    assert forall|k: int| 0 <= k < fl - s implies #[trigger] relk(rel, fo + s, fnn + s, k) by { assert(relk(rel, fo, fnn, k + s)); }
}


pub open spec fn nonempty(op: DiffOp) -> bool { olen(op) + nlen(op) > 0 }

/// a complete script of two / three ops, spelled out
pub proof fn lemma_full2<Old: Index<usize> + ?Sized, New: Index<usize> + ?Sized>(old: &Old, new: &New, a: DiffOp, c: DiffOp, wb: OBox, exact: bool)
  where New::Output: PartialEq<Old::Output>
    ensures ops_full(old, new, seq![a, c], wb, exact) == (box_wf(wb) && nonempty(a) && nonempty(c)
        && op_place(old, new, a, wb.o0, wb.n0, exact) && op_place(old, new, c, wb.o0 + olen(a), wb.n0 + nlen(a), exact)
        && wb.o0 + olen(a) + olen(c) == wb.oe && wb.n0 + nlen(a) + nlen(c) == wb.ne),
{
    let w = seq![a, c];
    lemma_sums2(a, c);
    assert(w[0] == a && w[1] == c && w.len() == 2);
    if ops_full(old, new, w, wb, exact) {
        assert(op_ok(old, new, w, 0, wb, exact)); assert(op_ok(old, new, w, 1, wb, exact));
        assert(nonempty(w[0]) && nonempty(w[1]));
    } else if box_wf(wb) && nonempty(a) && nonempty(c)
        && op_place(old, new, a, wb.o0, wb.n0, exact) && op_place(old, new, c, wb.o0 + olen(a), wb.n0 + nlen(a), exact)
        && wb.o0 + olen(a) + olen(c) == wb.oe && wb.n0 + nlen(a) + nlen(c) == wb.ne {
        assert forall|j: int| 0 <= j < w.len() implies #[trigger] op_ok(old, new, w, j, wb, exact) by { if j == 0 {} else { assert(j == 1); } }
        assert forall|j: int| 0 <= j < w.len() implies olen(#[trigger] w[j]) + nlen(w[j]) > 0 by { if j == 0 {} else { assert(j == 1); } }
        assert(false);
    }
}

pub proof fn lemma_full3<Old: Index<usize> + ?Sized, New: Index<usize> + ?Sized>(old: &Old, new: &New, a: DiffOp, c: DiffOp, d: DiffOp, wb: OBox, exact: bool)
  where New::Output: PartialEq<Old::Output>
    ensures ops_full(old, new, seq![a, c, d], wb, exact) == (box_wf(wb) && nonempty(a) && nonempty(c) && nonempty(d)
        && op_place(old, new, a, wb.o0, wb.n0, exact) && op_place(old, new, c, wb.o0 + olen(a), wb.n0 + nlen(a), exact)
        && op_place(old, new, d, wb.o0 + olen(a) + olen(c), wb.n0 + nlen(a) + nlen(c), exact)
        && wb.o0 + olen(a) + olen(c) + olen(d) == wb.oe && wb.n0 + nlen(a) + nlen(c) + nlen(d) == wb.ne),
{
    let w = seq![a, c, d];
    lemma_sums3(a, c, d);
    assert(w[0] == a && w[1] == c && w[2] == d && w.len() == 3);
    if ops_full(old, new, w, wb, exact) {
        assert(op_ok(old, new, w, 0, wb, exact)); assert(op_ok(old, new, w, 1, wb, exact)); assert(op_ok(old, new, w, 2, wb, exact));
        assert(nonempty(w[0]) && nonempty(w[1]) && nonempty(w[2]));
    } else if box_wf(wb) && nonempty(a) && nonempty(c) && nonempty(d)
        && op_place(old, new, a, wb.o0, wb.n0, exact) && op_place(old, new, c, wb.o0 + olen(a), wb.n0 + nlen(a), exact)
        && op_place(old, new, d, wb.o0 + olen(a) + olen(c), wb.n0 + nlen(a) + nlen(c), exact)
        && wb.o0 + olen(a) + olen(c) + olen(d) == wb.oe && wb.n0 + nlen(a) + nlen(c) + nlen(d) == wb.ne {
        assert forall|j: int| 0 <= j < w.len() implies #[trigger] op_ok(old, new, w, j, wb, exact) by { if j == 0 {} else if j == 1 {} else { assert(j == 2); } }
        assert forall|j: int| 0 <= j < w.len() implies olen(#[trigger] w[j]) + nlen(w[j]) > 0 by { if j == 0 {} else if j == 1 {} else { assert(j == 2); } }
        assert(false);
    }
}

/// carried_in of two / three ops, spelled out
pub open spec fn carried_one(op: DiffOp, eb: int, et: int) -> bool {
    match op {
        DiffOp::Insert { old_index, .. } => eb <= old_index && old_index + (et - eb) <= usize::MAX,
        DiffOp::Delete { new_index, .. } => eb <= new_index && new_index + (et - eb) <= usize::MAX,
        _ => true,
    }
}

pub proof fn lemma_carried2(a: DiffOp, c: DiffOp, e0: int, et: int)
    ensures carried_in(seq![a, c], e0, et) == (carried_one(a, e0, et) && carried_one(c, e0 + elen(a), et)),
        etot(seq![a, c]) == elen(a) + elen(c),
{
    let w = seq![a, c];
    lemma_sums2(a, c);
    assert(w[0] == a && w[1] == c && w.len() == 2);
    if carried_in(w, e0, et) {
        assert(carried_one(w[0], e0 + esum(w, 0), et)); assert(carried_one(w[1], e0 + esum(w, 1), et));
    } else if carried_one(a, e0, et) && carried_one(c, e0 + elen(a), et) {
        assert forall|i: int| 0 <= i < w.len() implies match #[trigger] w[i] {
            DiffOp::Insert { old_index, .. } => e0 + esum(w, i) <= old_index && old_index + (et - e0 - esum(w, i)) <= usize::MAX,
            DiffOp::Delete { new_index, .. } => e0 + esum(w, i) <= new_index && new_index + (et - e0 - esum(w, i)) <= usize::MAX,
            _ => true,
        } by { if i == 0 {} else { assert(i == 1); } }
        assert(false);
    }
}

pub proof fn lemma_carried3(a: DiffOp, c: DiffOp, d: DiffOp, e0: int, et: int)
    ensures carried_in(seq![a, c, d], e0, et) == (carried_one(a, e0, et) && carried_one(c, e0 + elen(a), et) && carried_one(d, e0 + elen(a) + elen(c), et)),
        etot(seq![a, c, d]) == elen(a) + elen(c) + elen(d),
{
    let w = seq![a, c, d];
    lemma_sums3(a, c, d);
    assert(w[0] == a && w[1] == c && w[2] == d && w.len() == 3);
    if carried_in(w, e0, et) {
        assert(carried_one(w[0], e0 + esum(w, 0), et)); assert(carried_one(w[1], e0 + esum(w, 1), et)); assert(carried_one(w[2], e0 + esum(w, 2), et));
    } else if carried_one(a, e0, et) && carried_one(c, e0 + elen(a), et) && carried_one(d, e0 + elen(a) + elen(c), et) {
        assert forall|i: int| 0 <= i < w.len() implies match #[trigger] w[i] {
            DiffOp::Insert { old_index, .. } => e0 + esum(w, i) <= old_index && old_index + (et - e0 - esum(w, i)) <= usize::MAX,
            DiffOp::Delete { new_index, .. } => e0 + esum(w, i) <= new_index && new_index + (et - e0 - esum(w, i)) <= usize::MAX,
            _ => true,
        } by { if i == 0 {} else if i == 1 {} else { assert(i == 2); } }
        assert(false);
    }
}


pub open spec fn up_window(e: DiffOp, i: DiffOp, f: DiffOp, s: usize, grew: bool) -> Seq<DiffOp> {
    let e2 = adjusted(e, 0, false, s, true); let i2 = adjusted(i, s, true, 0, false);
    let g = if grew { adjusted(f, s, true, s, false) } else { up_new_equal(e, i, s) };
    if op_old_len(e) == s { seq![i2, g] } else { seq![e2, i2, g] }
}

pub proof fn lemma_win_shift_up<Old: Index<usize> + ?Sized, New: Index<usize> + ?Sized>(old: &Old, new: &New, e: DiffOp, i: DiffOp, f: DiffOp, s: usize, grew: bool, exact: bool)
  where New::Output: PartialEq<Old::Output>
    requires e is Equal, i is Insert, grew ==> f is Equal && op_old_len(f) + s <= usize::MAX, 0 < s <= op_old_len(e), s <= op_new_len(i), op_wf(e), op_wf(i),
        forall|k: int| 0 <= k < s ==> #[trigger] relk(rel_of(old, new), op_old_end(e) - s, op_new_end(i) - s, k),
    ensures
        win_ok(old, new, if grew { seq![e, i, f] } else { seq![e, i] }, up_window(e, i, f, s, grew), exact),
        win_carried(if grew { seq![e, i, f] } else { seq![e, i] }, up_window(e, i, f, s, grew)),
{
    let w1 = if grew { seq![e, i, f] } else { seq![e, i] }; let w2 = up_window(e, i, f, s, grew);
    let e2 = adjusted(e, 0, false, s, true); let i2 = adjusted(i, s, true, 0, false);
    let g = if grew { adjusted(f, s, true, s, false) } else { up_new_equal(e, i, s) };
    let removed = op_old_len(e) == s;
    assert forall|wb: OBox| #[trigger] ops_full(old, new, w1, wb, exact) implies ops_full(old, new, w2, wb, exact) by {
        if grew { lemma_full3(old, new, e, i, f, wb, exact); } else { lemma_full2(old, new, e, i, wb, exact); }
        lemma_up_ops(old, new, e, i, f, s, grew, wb.o0, wb.n0, exact);
        if removed { lemma_full2(old, new, i2, g, wb, exact); } else { lemma_full3(old, new, e2, i2, g, wb, exact); }
    }
    assert forall|e0: int, et: int| 0 <= e0 && e0 + etot(w1) <= et && #[trigger] carried_in(w1, e0, et) implies carried_in(w2, e0, et) by {
        if grew { lemma_carried3(e, i, f, e0, et); } else { lemma_carried2(e, i, e0, et); }
        if removed { lemma_carried2(i2, g, e0, et); } else { lemma_carried3(e2, i2, g, e0, et); }
    }
    if grew { lemma_carried3(e, i, f, 0, 0); } else { lemma_carried2(e, i, 0, 0); }
    if removed { lemma_carried2(i2, g, 0, 0); } else { lemma_carried3(e2, i2, g, 0, 0); }
}

pub open spec fn down_window(e: DiffOp, i: DiffOp, f: DiffOp, s: usize, grew: bool) -> Seq<DiffOp> {
    let g = if grew { adjusted(e, 0, false, s, false) } else { down_new_equal(i, f, s) };
    let i2 = adjusted(i, s, false, 0, false); let f2 = adjusted(f, s, false, s, true);
    if op_old_len(f) == s { seq![g, i2] } else { seq![g, i2, f2] }
}

pub proof fn lemma_win_shift_down<Old: Index<usize> + ?Sized, New: Index<usize> + ?Sized>(old: &Old, new: &New, e: DiffOp, i: DiffOp, f: DiffOp, s: usize, grew: bool, exact: bool)
  where New::Output: PartialEq<Old::Output>
    requires f is Equal, i is Insert, grew ==> e is Equal && op_old_len(e) + s <= usize::MAX, 0 < s <= op_old_len(f), s <= op_new_len(i), op_wf(f), op_wf(i),
        forall|k: int| 0 <= k < s ==> #[trigger] relk(rel_of(old, new), op_old_index(f) as int, op_new_index(i) as int, k),
    ensures
        win_ok(old, new, if grew { seq![e, i, f] } else { seq![i, f] }, down_window(e, i, f, s, grew), exact),
        win_carried(if grew { seq![e, i, f] } else { seq![i, f] }, down_window(e, i, f, s, grew)),
{
    let w1 = if grew { seq![e, i, f] } else { seq![i, f] }; let w2 = down_window(e, i, f, s, grew);
    let g = if grew { adjusted(e, 0, false, s, false) } else { down_new_equal(i, f, s) };
    let i2 = adjusted(i, s, false, 0, false); let f2 = adjusted(f, s, false, s, true);
    let removed = op_old_len(f) == s;
    assert forall|wb: OBox| #[trigger] ops_full(old, new, w1, wb, exact) implies ops_full(old, new, w2, wb, exact) by {
        if grew { lemma_full3(old, new, e, i, f, wb, exact); } else { lemma_full2(old, new, i, f, wb, exact); }
        lemma_down_ops(old, new, e, i, f, s, grew, wb.o0, wb.n0, exact);
        if removed { lemma_full2(old, new, g, i2, wb, exact); } else { lemma_full3(old, new, g, i2, f2, wb, exact); }
    }
    assert forall|e0: int, et: int| 0 <= e0 && e0 + etot(w1) <= et && #[trigger] carried_in(w1, e0, et) implies carried_in(w2, e0, et) by {
        if grew { lemma_carried3(e, i, f, e0, et); } else { lemma_carried2(i, f, e0, et); }
        if removed { lemma_carried2(g, i2, e0, et); } else { lemma_carried3(g, i2, f2, e0, et); }
    }
    if grew { lemma_carried3(e, i, f, 0, 0); } else { lemma_carried2(i, f, 0, 0); }
    if removed { lemma_carried2(g, i2, 0, 0); } else { lemma_carried3(g, i2, f2, 0, 0); }
}


// ---------------------------------------------------------------------------------------------
// arm lemmas: one rewrite of the compaction, on the whole list
// ---------------------------------------------------------------------------------------------
/// what every rewrite keeps (the lax part of `cleanup_post`, for one step)
pub open spec fn lax_step<Old: Index<usize> + ?Sized, New: Index<usize> + ?Sized>(old: &Old, new: &New, s1: Seq<DiffOp>, s2: Seq<DiffOp>) -> bool
  where New::Output: PartialEq<Old::Output>
{
    step_ok(old, new, s1, s2, false) && etot(s2) == etot(s1) && (carried_ok(s1) ==> carried_ok(s2))
}

pub proof fn lemma_arm_window<Old: Index<usize> + ?Sized, New: Index<usize> + ?Sized>(old: &Old, new: &New, s1: Seq<DiffOp>, s2: Seq<DiffOp>,
    pre: Seq<DiffOp>, w1: Seq<DiffOp>, w2: Seq<DiffOp>, post: Seq<DiffOp>)
  where New::Output: PartialEq<Old::Output>
    requires s1 == cat3(pre, w1, post), s2 == cat3(pre, w2, post), win_ok(old, new, w1, w2, false), win_ok(old, new, w1, w2, true), win_carried(w1, w2),
    ensures lax_step(old, new, s1, s2), step_ok(old, new, s1, s2, true),
{
    lemma_step_window(old, new, pre, w1, w2, post, false);
    lemma_step_window(old, new, pre, w1, w2, post, true);
    lemma_carried_window(pre, w1, w2, post);
}

pub proof fn lemma_arm_merge<Old: Index<usize> + ?Sized, New: Index<usize> + ?Sized>(old: &Old, new: &New, s1: Seq<DiffOp>, p: int)
  where New::Output: PartialEq<Old::Output>
    requires 1 <= p < s1.len(),
        (s1[p - 1] is Insert && s1[p] is Insert && op_new_len(s1[p - 1]) + op_new_len(s1[p]) <= usize::MAX)
        || (s1[p - 1] is Delete && s1[p] is Delete && op_old_len(s1[p - 1]) + op_old_len(s1[p]) <= usize::MAX),
    ensures lax_step(old, new, s1, merge_result(s1, p)), step_ok(old, new, s1, merge_result(s1, p), true),
{
    let a = s1[p - 1]; let c = s1[p];
    let pre = s1.subrange(0, p - 1); let post = s1.subrange(p + 1, s1.len() as int);
    let w1 = seq![a, c]; let w2 = seq![merged(a, c)];
    assert(s1 =~= cat3(pre, w1, post));
    assert(merge_result(s1, p) =~= cat3(pre, w2, post));
    lemma_win_merge(old, new, a, c, false);
    lemma_win_merge(old, new, a, c, true);
    lemma_arm_window(old, new, s1, merge_result(s1, p), pre, w1, w2, post);
}

pub open spec fn up_grew(s1: Seq<DiffOp>, p: int) -> bool { p + 1 < s1.len() && s1[p + 1] is Equal }
pub open spec fn up_pre(s1: Seq<DiffOp>, p: int) -> Seq<DiffOp> { s1.subrange(0, p - 1) }
pub open spec fn up_post(s1: Seq<DiffOp>, p: int) -> Seq<DiffOp> { if up_grew(s1, p) { s1.subrange(p + 2, s1.len() as int) } else { s1.subrange(p + 1, s1.len() as int) } }
pub open spec fn up_w1(s1: Seq<DiffOp>, p: int) -> Seq<DiffOp> { if up_grew(s1, p) { seq![s1[p - 1], s1[p], s1[p + 1]] } else { seq![s1[p - 1], s1[p]] } }
pub open spec fn up_w2(s1: Seq<DiffOp>, p: int, s: usize) -> Seq<DiffOp> { up_window(s1[p - 1], s1[p], if up_grew(s1, p) { s1[p + 1] } else { s1[p - 1] }, s, up_grew(s1, p)) }

/// the shape of `shift_up_result`: only the window changes
pub proof fn lemma_shift_up_shape(s1: Seq<DiffOp>, p: int, s: usize)
    requires 1 <= p < s1.len(),
    ensures s1 == cat3(up_pre(s1, p), up_w1(s1, p), up_post(s1, p)),
        shift_up_result(s1, p, s) == cat3(up_pre(s1, p), up_w2(s1, p, s), up_post(s1, p)),
{
    let pre = up_pre(s1, p); let post = up_post(s1, p); let w1 = up_w1(s1, p); let w2 = up_w2(s1, p, s);
    let s2 = shift_up_result(s1, p, s);
    assert(s1 =~= cat3(pre, w1, post));
    // the four shapes, each compared position by position: before the window, inside it, behind it
    let t = cat3(pre, w2, post); let a = pre.len() as int;
    if up_grew(s1, p) {
        if op_old_len(s1[p - 1]) == s { assert(s2.len() == t.len()); assert forall|i: int| 0 <= i < t.len() implies s2[i] == t[i] by { if i < a {} else if i < a + w2.len() {} else {} } assert(s2 =~= t); } else { assert(s2.len() == t.len()); assert forall|i: int| 0 <= i < t.len() implies s2[i] == t[i] by { if i < a {} else if i < a + w2.len() {} else {} } assert(s2 =~= t); }
    } else {
        if op_old_len(s1[p - 1]) == s { assert(s2.len() == t.len()); assert forall|i: int| 0 <= i < t.len() implies s2[i] == t[i] by { if i < a {} else if i < a + w2.len() {} else {} } assert(s2 =~= t); } else { assert(s2.len() == t.len()); assert forall|i: int| 0 <= i < t.len() implies s2[i] == t[i] by { if i < a {} else if i < a + w2.len() {} else {} } assert(s2 =~= t); }
    }
}

pub proof fn lemma_arm_shift_up<Old: Index<usize> + ?Sized, New: Index<usize> + ?Sized>(old: &Old, new: &New, s1: Seq<DiffOp>, p: int, s: usize)
  where New::Output: PartialEq<Old::Output>
    requires 1 <= p < s1.len(), s1[p - 1] is Equal, s1[p] is Insert, 0 < s <= op_old_len(s1[p - 1]), s <= op_new_len(s1[p]), op_wf(s1[p - 1]), op_wf(s1[p]),
        p + 1 < s1.len() && s1[p + 1] is Equal ==> op_old_len(s1[p + 1]) + s <= usize::MAX,
        forall|k: int| 0 <= k < s ==> #[trigger] relk(rel_of(old, new), op_old_end(s1[p - 1]) - s, op_new_end(s1[p]) - s, k),
    ensures lax_step(old, new, s1, shift_up_result(s1, p, s)), step_ok(old, new, s1, shift_up_result(s1, p, s), true),
{
    // two small steps, so that the facts about the ops around p and the decomposition of the list never meet in one query
    lemma_win_shift_up_at(old, new, s1, p, s);
    lemma_arm_shift_up_glue(old, new, s1, p, s);
}

/// the window lemma for the window of s1 around p
pub proof fn lemma_win_shift_up_at<Old: Index<usize> + ?Sized, New: Index<usize> + ?Sized>(old: &Old, new: &New, s1: Seq<DiffOp>, p: int, s: usize)
  where New::Output: PartialEq<Old::Output>
    requires 1 <= p < s1.len(), s1[p - 1] is Equal, s1[p] is Insert, 0 < s <= op_old_len(s1[p - 1]), s <= op_new_len(s1[p]), op_wf(s1[p - 1]), op_wf(s1[p]),
        p + 1 < s1.len() && s1[p + 1] is Equal ==> op_old_len(s1[p + 1]) + s <= usize::MAX,
        forall|k: int| 0 <= k < s ==> #[trigger] relk(rel_of(old, new), op_old_end(s1[p - 1]) - s, op_new_end(s1[p]) - s, k),
    ensures win_ok(old, new, up_w1(s1, p), up_w2(s1, p, s), false), win_ok(old, new, up_w1(s1, p), up_w2(s1, p, s), true),
        win_carried(up_w1(s1, p), up_w2(s1, p, s)),
{
    let e = s1[p - 1]; let i = s1[p];
    let grew = up_grew(s1, p);
    let f = if grew { s1[p + 1] } else { e };
    lemma_win_shift_up(old, new, e, i, f, s, grew, false);
    lemma_win_shift_up(old, new, e, i, f, s, grew, true);
}

/// only the window changes (shape lemma), so what the window rewrite keeps, the list keeps (the pieces stay folded)
pub proof fn lemma_arm_shift_up_glue<Old: Index<usize> + ?Sized, New: Index<usize> + ?Sized>(old: &Old, new: &New, s1: Seq<DiffOp>, p: int, s: usize)
  where New::Output: PartialEq<Old::Output>
    requires 1 <= p < s1.len(),
        win_ok(old, new, up_w1(s1, p), up_w2(s1, p, s), false), win_ok(old, new, up_w1(s1, p), up_w2(s1, p, s), true), win_carried(up_w1(s1, p), up_w2(s1, p, s)),
    ensures lax_step(old, new, s1, shift_up_result(s1, p, s)), step_ok(old, new, s1, shift_up_result(s1, p, s), true),
{
    hide(up_w1); hide(up_w2); hide(up_pre); hide(up_post); hide(shift_up_result);
    lemma_shift_up_shape(s1, p, s);
    lemma_arm_window(old, new, s1, shift_up_result(s1, p, s), up_pre(s1, p), up_w1(s1, p), up_w2(s1, p, s), up_post(s1, p));
}

pub open spec fn down_grew(s1: Seq<DiffOp>, p: int) -> bool { p >= 1 && s1[p - 1] is Equal }
pub open spec fn down_pre(s1: Seq<DiffOp>, p: int) -> Seq<DiffOp> { if down_grew(s1, p) { s1.subrange(0, p - 1) } else { s1.subrange(0, p) } }
pub open spec fn down_post(s1: Seq<DiffOp>, p: int) -> Seq<DiffOp> { s1.subrange(p + 2, s1.len() as int) }
pub open spec fn down_w1(s1: Seq<DiffOp>, p: int) -> Seq<DiffOp> { if down_grew(s1, p) { seq![s1[p - 1], s1[p], s1[p + 1]] } else { seq![s1[p], s1[p + 1]] } }
pub open spec fn down_w2(s1: Seq<DiffOp>, p: int, s: usize) -> Seq<DiffOp> { down_window(if down_grew(s1, p) { s1[p - 1] } else { s1[p + 1] }, s1[p], s1[p + 1], s, down_grew(s1, p)) }

/// the shape of `shift_down_result`: only the window changes
pub proof fn lemma_shift_down_shape(s1: Seq<DiffOp>, p: int, s: usize)
    requires 0 <= p, p + 1 < s1.len(),
    ensures s1 == cat3(down_pre(s1, p), down_w1(s1, p), down_post(s1, p)),
        shift_down_result(s1, p, s) == cat3(down_pre(s1, p), down_w2(s1, p, s), down_post(s1, p)),
{
    let pre = down_pre(s1, p); let post = down_post(s1, p); let w1 = down_w1(s1, p); let w2 = down_w2(s1, p, s);
    let s2 = shift_down_result(s1, p, s);
    assert(s1 =~= cat3(pre, w1, post));
    // the four shapes, each compared position by position: before the window, inside it, behind it
    let t = cat3(pre, w2, post); let a = pre.len() as int;
    if down_grew(s1, p) {
        if op_old_len(s1[p + 1]) == s { assert(s2.len() == t.len()); assert forall|i: int| 0 <= i < t.len() implies s2[i] == t[i] by { if i < a {} else if i < a + w2.len() {} else {} } assert(s2 =~= t); } else { assert(s2.len() == t.len()); assert forall|i: int| 0 <= i < t.len() implies s2[i] == t[i] by { if i < a {} else if i < a + w2.len() {} else {} } assert(s2 =~= t); }
    } else {
        if op_old_len(s1[p + 1]) == s { assert(s2.len() == t.len()); assert forall|i: int| 0 <= i < t.len() implies s2[i] == t[i] by { if i < a {} else if i < a + w2.len() {} else {} } assert(s2 =~= t); } else { assert(s2.len() == t.len()); assert forall|i: int| 0 <= i < t.len() implies s2[i] == t[i] by { if i < a {} else if i < a + w2.len() {} else {} } assert(s2 =~= t); }
    }
}

pub proof fn lemma_arm_shift_down<Old: Index<usize> + ?Sized, New: Index<usize> + ?Sized>(old: &Old, new: &New, s1: Seq<DiffOp>, p: int, s: usize)
  where New::Output: PartialEq<Old::Output>
    requires 0 <= p, p + 1 < s1.len(), s1[p + 1] is Equal, s1[p] is Insert, 0 < s <= op_old_len(s1[p + 1]), s <= op_new_len(s1[p]), op_wf(s1[p + 1]), op_wf(s1[p]),
        p >= 1 && s1[p - 1] is Equal ==> op_old_len(s1[p - 1]) + s <= usize::MAX,
        forall|k: int| 0 <= k < s ==> #[trigger] relk(rel_of(old, new), op_old_index(s1[p + 1]) as int, op_new_index(s1[p]) as int, k),
    ensures lax_step(old, new, s1, shift_down_result(s1, p, s)), step_ok(old, new, s1, shift_down_result(s1, p, s), true),
{
    // two small steps, so that the facts about the ops around p and the decomposition of the list never meet in one query
    lemma_win_shift_down_at(old, new, s1, p, s);
    lemma_arm_shift_down_glue(old, new, s1, p, s);
}

/// the window lemma for the window of s1 around p
pub proof fn lemma_win_shift_down_at<Old: Index<usize> + ?Sized, New: Index<usize> + ?Sized>(old: &Old, new: &New, s1: Seq<DiffOp>, p: int, s: usize)
  where New::Output: PartialEq<Old::Output>
    requires 0 <= p, p + 1 < s1.len(), s1[p + 1] is Equal, s1[p] is Insert, 0 < s <= op_old_len(s1[p + 1]), s <= op_new_len(s1[p]), op_wf(s1[p + 1]), op_wf(s1[p]),
        p >= 1 && s1[p - 1] is Equal ==> op_old_len(s1[p - 1]) + s <= usize::MAX,
        forall|k: int| 0 <= k < s ==> #[trigger] relk(rel_of(old, new), op_old_index(s1[p + 1]) as int, op_new_index(s1[p]) as int, k),
    ensures win_ok(old, new, down_w1(s1, p), down_w2(s1, p, s), false), win_ok(old, new, down_w1(s1, p), down_w2(s1, p, s), true),
        win_carried(down_w1(s1, p), down_w2(s1, p, s)),
{
    let f = s1[p + 1]; let i = s1[p];
    let grew = down_grew(s1, p);
    let e = if grew { s1[p - 1] } else { f };
    lemma_win_shift_down(old, new, e, i, f, s, grew, false);
    lemma_win_shift_down(old, new, e, i, f, s, grew, true);
}

/// only the window changes (shape lemma), so what the window rewrite keeps, the list keeps (the pieces stay folded)
pub proof fn lemma_arm_shift_down_glue<Old: Index<usize> + ?Sized, New: Index<usize> + ?Sized>(old: &Old, new: &New, s1: Seq<DiffOp>, p: int, s: usize)
  where New::Output: PartialEq<Old::Output>
    requires 0 <= p, p + 1 < s1.len(),
        win_ok(old, new, down_w1(s1, p), down_w2(s1, p, s), false), win_ok(old, new, down_w1(s1, p), down_w2(s1, p, s), true), win_carried(down_w1(s1, p), down_w2(s1, p, s)),
    ensures lax_step(old, new, s1, shift_down_result(s1, p, s)), step_ok(old, new, s1, shift_down_result(s1, p, s), true),
{
    hide(down_w1); hide(down_w2); hide(down_pre); hide(down_post); hide(shift_down_result);
    lemma_shift_down_shape(s1, p, s);
    lemma_arm_window(old, new, s1, shift_down_result(s1, p, s), down_pre(s1, p), down_w1(s1, p), down_w2(s1, p, s), down_post(s1, p));
}

/// Delete and Insert at p - 1, p change places (`ops.swap`, with or without the recomputation of what they carry)
pub proof fn lemma_arm_swap<Old: Index<usize> + ?Sized, New: Index<usize> + ?Sized>(old: &Old, new: &New, s1: Seq<DiffOp>, s2: Seq<DiffOp>, p: int, bw: OBox)
  where New::Output: PartialEq<Old::Output>
    requires swapped(s1, s2, p), swap_plain(s1, s2, p) || swap_fixed(s2, p), ops_full(old, new, s1, bw, false), carried_ok(s1),
    ensures lax_step(old, new, s1, s2), swap_fixed(s2, p) ==> step_ok(old, new, s1, s2, true),
{
    // two small steps (the quantified hypotheses above are only passed on): validity, then the carried indices
    lemma_arm_swap_steps(old, new, s1, s2, p);
    assert(ops_full(old, new, s2, bw, false));
    lemma_arm_swap_carried(old, new, s1, s2, p, bw);
}

/// ... validity for every box, and the number of equal items
pub proof fn lemma_arm_swap_steps<Old: Index<usize> + ?Sized, New: Index<usize> + ?Sized>(old: &Old, new: &New, s1: Seq<DiffOp>, s2: Seq<DiffOp>, p: int)
  where New::Output: PartialEq<Old::Output>
    requires swapped(s1, s2, p), swap_plain(s1, s2, p) || swap_fixed(s2, p),
    ensures step_ok(old, new, s1, s2, false), swap_fixed(s2, p) ==> step_ok(old, new, s1, s2, true), etot(s2) == etot(s1),
{
    let a = s1[p - 1]; let c = s1[p]; let c2 = s2[p - 1]; let a2 = s2[p];
    let pre = s1.subrange(0, p - 1); let post = s1.subrange(p + 1, s1.len() as int);
    let w1 = seq![a, c]; let w2 = seq![c2, a2];
    assert(s1 =~= cat3(pre, w1, post));
    assert(s2 =~= cat3(pre, w2, post));
    lemma_win_swap(old, new, a, c, c2, a2);
    lemma_step_window(old, new, pre, w1, w2, post, false);
    assert(w2[0] == c2 && w2[1] == a2);
    if swap_fixed(s2, p) {
        assert(swap_fixed(w2, 1));
        lemma_step_window(old, new, pre, w1, w2, post, true);
    }
    lemma_cat3_tot(pre, w1, post);
    lemma_cat3_tot(pre, w2, post);
}

/// ... room around the carried indices
pub proof fn lemma_arm_swap_carried<Old: Index<usize> + ?Sized, New: Index<usize> + ?Sized>(old: &Old, new: &New, s1: Seq<DiffOp>, s2: Seq<DiffOp>, p: int, bw: OBox)
  where New::Output: PartialEq<Old::Output>
    requires swapped(s1, s2, p), swap_plain(s1, s2, p) || swap_fixed(s2, p), ops_full(old, new, s2, bw, false),
    ensures carried_ok(s1) ==> carried_ok(s2),
{
    let a = s1[p - 1]; let c = s1[p]; let c2 = s2[p - 1]; let a2 = s2[p];
    let pre = s1.subrange(0, p - 1); let post = s1.subrange(p + 1, s1.len() as int);
    let w1 = seq![a, c]; let w2 = seq![c2, a2];
    assert(s1 =~= cat3(pre, w1, post));
    assert(s2 =~= cat3(pre, w2, post));
    assert(w2[0] == c2 && w2[1] == a2);
    let e0 = etot(pre); let et = etot(s1);
    lemma_cat3_tot(pre, w1, post);
    lemma_carried2(a, c, e0, et); lemma_carried2(c2, a2, e0, et);
    if carried_in(w1, e0, et) {
        if swap_plain(s1, s2, p) {
            assert(carried_in(w2, e0, et));
        } else {
            lemma_op_facts(old, new, s2, p - 1, bw, false);
            lemma_op_facts(old, new, s2, p, bw, false);
            lemma_cat3_at(pre, w2, post, p - 1);
            lemma_cat3_tot(pre, w2, post);
            assert(carried_in(w2, e0, et));
        }
    }
    lemma_carried_window(pre, w1, w2, post);
}

// ---------------------------------------------------------------------------------------------
// C09 (latest insertion position): what the rewrites leave untouched before the pointer, and what that means for
// the Inserts that are already stuck
// ---------------------------------------------------------------------------------------------
pub proof fn lemma_same_before_refl(a: Seq<DiffOp>, n: int)
    requires 0 <= n <= a.len(),
    ensures same_before(a, a, n),
{}

/// a rewrite that leaves everything before position n alone keeps the frame
pub proof fn lemma_same_before_keep(ops0: Seq<DiffOp>, s1: Seq<DiffOp>, s2: Seq<DiffOp>, n: int)
    requires same_before(ops0, s1, n), n <= s2.len(), forall|i: int| 0 <= i < n ==> s1[i] == #[trigger] s2[i],
    ensures same_before(ops0, s2, n),
{
    if n >= 1 { assert(s1[n - 1] == s2[n - 1]); }
}

/// a rewrite that leaves everything before position p - 1 alone moves the frame up by one
pub proof fn lemma_same_before_dec(ops0: Seq<DiffOp>, s1: Seq<DiffOp>, s2: Seq<DiffOp>, p: int)
    requires same_before(ops0, s1, p), p >= 1, p - 1 <= s2.len(), forall|i: int| 0 <= i < p - 1 ==> s1[i] == #[trigger] s2[i],
    ensures same_before(ops0, s2, p - 1),
{
    if p >= 2 { assert(s1[p - 2] == s2[p - 2]); assert(ops0[p - 2] == s1[p - 2]); }
}

/// `shift_up_result`: the Equal at p - 1 keeps its start (or disappears), nothing before it changes
pub proof fn lemma_frame_shift_up(ops0: Seq<DiffOp>, s1: Seq<DiffOp>, p: int, s: usize)
    requires same_before(ops0, s1, p), 1 <= p < s1.len(), s1[p - 1] is Equal, 0 < s <= op_old_len(s1[p - 1]),
    ensures same_before(ops0, shift_up_result(s1, p, s), if op_old_len(s1[p - 1]) == s { p - 1 } else { p }),
        p - 1 < shift_up_result(s1, p, s).len(),
{
    let s2 = shift_up_result(s1, p, s);
    assert forall|i: int| 0 <= i < p - 1 implies s1[i] == #[trigger] s2[i] by {}
    if op_old_len(s1[p - 1]) == s {
        lemma_same_before_dec(ops0, s1, s2, p);
    } else {
        assert(s2[p - 1] == adjusted(s1[p - 1], 0, false, s, true));
        assert(head_same(s1[p - 1], s2[p - 1]));
    }
}

/// `shift_down_result`: nothing before p changes except that an Equal at p - 1 grows at its end; a new Equal may appear at p
pub proof fn lemma_frame_shift_down(ops0: Seq<DiffOp>, s1: Seq<DiffOp>, p0: int, p: int, s: usize, ins: bool)
    requires same_before(ops0, s1, p0), p0 <= p, p + 1 < s1.len(), s1[p] is Insert, s1[p + 1] is Equal, 0 < s <= op_old_len(s1[p + 1]),
        ins ==> no_insert_in(s1, p0, p),
    ensures ({ let s2 = shift_down_result(s1, p, s); let p2 = if down_grew(s1, p) { p } else { p + 1 };
        same_before(ops0, s2, p0) && (ins ==> no_insert_in(s2, p0, p2)) && p2 < s2.len() }),
{
    let s2 = shift_down_result(s1, p, s); let p2 = if down_grew(s1, p) { p } else { p + 1 };
    if down_grew(s1, p) {
        assert forall|i: int| 0 <= i < p - 1 implies s1[i] == #[trigger] s2[i] by {}
        assert(s2[p - 1] == adjusted(s1[p - 1], 0, false, s, false));
        assert(head_same(s1[p - 1], s2[p - 1]));
        if ins {
            assert forall|i: int| p0 <= i < p2 && 0 <= i < s2.len() implies !((#[trigger] s2[i]) is Insert) by {
                if i < p - 1 { assert(s1[i] == s2[i]); }
            }
        }
    } else {
        assert forall|i: int| 0 <= i < p implies s1[i] == #[trigger] s2[i] by {}
        assert(s2[p] == down_new_equal(s1[p], s1[p + 1], s));
        if p0 >= 1 { assert(s1[p0 - 1] == s2[p0 - 1]); }
        if ins {
            assert forall|i: int| p0 <= i < p2 && 0 <= i < s2.len() implies !((#[trigger] s2[i]) is Insert) by {
                if i < p { assert(s1[i] == s2[i]); }
            }
        }
    }
}

/// the Insert at p and the Delete behind it change places (`shift_diff_ops_down`): a Delete is left behind at p
pub proof fn lemma_frame_swap_down(ops0: Seq<DiffOp>, s1: Seq<DiffOp>, s2: Seq<DiffOp>, p0: int, p: int, ins: bool)
    requires same_before(ops0, s1, p0), 0 <= p0 <= p, swapped(s1, s2, p + 1), ins ==> s1[p] is Insert && no_insert_in(s1, p0, p),
    ensures same_before(ops0, s2, p0), ins ==> no_insert_in(s2, p0, p + 1),
{
    assert forall|i: int| 0 <= i < p0 implies s1[i] == #[trigger] s2[i] by {}
    lemma_same_before_keep(ops0, s1, s2, p0);
    if ins {
        assert(s2[p] is Delete);
        assert forall|i: int| p0 <= i < p + 1 && 0 <= i < s2.len() implies !((#[trigger] s2[i]) is Insert) by {
            if i < p { assert(s1[i] == s2[i]); }
        }
    }
}

/// `merge_result(s1, p + 1)` (`shift_diff_ops_down`): nothing before p changes
pub proof fn lemma_frame_merge_down(ops0: Seq<DiffOp>, s1: Seq<DiffOp>, p0: int, p: int, ins: bool)
    requires same_before(ops0, s1, p0), 0 <= p0 <= p, p + 1 < s1.len(), ins ==> no_insert_in(s1, p0, p),
    ensures same_before(ops0, merge_result(s1, p + 1), p0), ins ==> no_insert_in(merge_result(s1, p + 1), p0, p),
{
    let s2 = merge_result(s1, p + 1);
    assert forall|i: int| 0 <= i < p implies s1[i] == #[trigger] s2[i] by {}
    lemma_same_before_keep(ops0, s1, s2, p0);
    if ins {
        assert forall|i: int| p0 <= i < p && 0 <= i < s2.len() implies !((#[trigger] s2[i]) is Insert) by { assert(s1[i] == s2[i]); }
    }
}

/// the Inserts that were stuck before `shift_diff_ops_up` moved the op at `pointer` up to `res` are still stuck
pub proof fn lemma_stuck_after_up(rel: Rel, a: Seq<DiffOp>, b: Seq<DiffOp>, pointer: int, res: int)
    requires ins_stuck_upto(rel, a, pointer), 0 <= res <= pointer < a.len(), same_before(a, b, res), res > 0 ==> b[res - 1] is Equal,
    ensures ins_stuck_upto(rel, b, res),
{
    assert forall|i: int| 0 <= i < res && i < b.len() implies #[trigger] ins_stuck_at(rel, b, i) by {
        if i < res - 1 {
            assert(a[i] == b[i]);
            assert(ins_stuck_at(rel, a, i));
            if i + 1 < res - 1 { assert(a[i + 1] == b[i + 1]); } else { assert(head_same(a[i + 1], b[i + 1])); }
        }
    }
}

/// ... and after `shift_diff_ops_down` moved the Insert from `p` (behind an Equal, or first) down to `res`, where it is stuck
pub proof fn lemma_stuck_after_down(rel: Rel, a: Seq<DiffOp>, b: Seq<DiffOp>, p: int, res: int)
    requires ins_stuck_upto(rel, a, p), 0 <= p < a.len(), p > 0 ==> a[p - 1] is Equal, same_before(a, b, p), p <= res < b.len(),
        no_insert_in(b, p, res), ins_stuck_at(rel, b, res),
    ensures ins_stuck_upto(rel, b, res + 1),
{
    assert forall|i: int| 0 <= i < res + 1 && i < b.len() implies #[trigger] ins_stuck_at(rel, b, i) by {
        if i < p - 1 {
            assert(a[i] == b[i]);
            assert(ins_stuck_at(rel, a, i));
            if i + 1 < p - 1 { assert(a[i + 1] == b[i + 1]); } else { assert(head_same(a[i + 1], b[i + 1])); }
        } else if i == p - 1 {
            assert(head_same(a[i], b[i]));
        } else if i < res {
            assert(!(b[i] is Insert));
        }
    }
}

} // verus!
