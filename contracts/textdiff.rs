// TextDiffConfig::diff (src/text/mod.rs): the text-diff builder stores the ops of capture_diff_deadline over the two
// token slices (directly, or above 100 tokens through IdentifyDistinct's integer lookups) together with the configured
// algorithm and newline flag  (C02 "stored in a text diff", parts of C14)
verus! {



/*@*/ /// `==` on u32 is equality of the numbers (the abstract item relation `item_eq` instantiated at the integer ids)
/*@*/ #[verifier::external_body]
/*@*/ pub broadcast proof fn axiom_item_eq_u32(a: &u32, b: &u32)
/*@*/     ensures #[trigger] item_eq(a, b) == (*a == *b) {}


/*@*/ pub proof fn lemma_xrun_congr(r1: Rel, r2: Rel, st: Xs, s: Seq<Ev>, o0: int, n0: int)
/*@*/   requires o0 <= st.oc, n0 <= st.nc, forall|i: int, j: int| o0 <= i < st.oe && n0 <= j < st.ne ==> (#[trigger] r1(i, j)) == r2(i, j)
/*@*/   ensures xrun(r1, st, s) == xrun(r2, st, s)
/*@*/   decreases s.len()
/*@*/ {
/*@*/     if s.len() > 0 {
/*@*/         lemma_xrun_congr(r1, r2, st, s.drop_last(), o0, n0);
/*@*/         lemma_xrun_mono(r1, st, s.drop_last());
/*@*/         let m = xrun(r1, st, s.drop_last());
/*@*/         assert(m == xrun(r2, st, s.drop_last()));
/*@*/         let e = s.last();
/*@*/         assert(xrun(r1, st, s) == xstep(r1, m, e));
/*@*/         assert(xrun(r2, st, s) == xstep(r2, m, e));
/*@*/         match e {
/*@*/             Ev::Equal(o, n, l) => {
/*@*/                 if m.ok && l > 0 && o == m.oc && n == m.nc && m.oc + l <= m.oe && m.nc + l <= m.ne {
/*@*/                     let a1 = forall|i: int| 0 <= i < l ==> #[trigger] relk(r1, o as int, n as int, i);
/*@*/                     let a2 = forall|i: int| 0 <= i < l ==> #[trigger] relk(r2, o as int, n as int, i);
/*@*/                     if a1 {
/*@*/                         assert forall|i: int| 0 <= i < l implies #[trigger] relk(r2, o as int, n as int, i) by {
/*@*/                             assert(relk(r1, o as int, n as int, i)); assert(r1(o + i, n + i) == r2(o + i, n + i));
/*@*/                         }
/*@*/                     }
/*@*/                     if a2 {
/*@*/                         assert forall|i: int| 0 <= i < l implies #[trigger] relk(r1, o as int, n as int, i) by {
/*@*/                             assert(relk(r2, o as int, n as int, i)); assert(r1(o + i, n + i) == r2(o + i, n + i));
/*@*/                         }
/*@*/                     }
/*@*/                     assert(a1 == a2);
/*@*/                 }
/*@*/                 assert(xstep(r1, m, e) == xstep(r2, m, e));
/*@*/             }
/*@*/             _ => { assert(xstep(r1, m, e) == xstep(r2, m, e)); }
/*@*/         }
/*@*/     }
/*@*/ }

/*@*/ /// two lookups that answer every index alike
/*@*/ pub open spec fn lk_is<L: Index<usize> + ?Sized>(l: &L, req: spec_fn(usize) -> bool, at: spec_fn(usize) -> &L::Output) -> bool {
/*@*/     (forall|k: usize| (#[trigger] l.index_req(&k)) == req(k)) && (forall|k: usize| #[trigger] item_at(l, k) == at(k))
/*@*/ }

/*@*/ pub open spec fn rel_at<A: PartialEq<B> + ?Sized, B: ?Sized>(n_at: spec_fn(usize) -> &A, o_at: spec_fn(usize) -> &B) -> Rel {
/*@*/     |i: int, j: int| item_eq(n_at(j as usize), o_at(i as usize))
/*@*/ }

/*@*/ /// ops accepted over two lookups are accepted over the relation of what the lookups answer
/*@*/ pub broadcast proof fn lemma_cap_lk<LO: Index<usize> + ?Sized, LN: Index<usize> + ?Sized>(lo: &LO, ln: &LN, or: Range<usize>, nr: Range<usize>, ops: Seq<DiffOp>,
/*@*/         oreq: spec_fn(usize) -> bool, oat: spec_fn(usize) -> &LO::Output, nreq: spec_fn(usize) -> bool, nwat: spec_fn(usize) -> &LN::Output)
/*@*/   where LN::Output: PartialEq<LO::Output>
/*@*/   requires #[trigger] cap_post(lo, or, ln, nr, ops, false), #[trigger] lk_is(lo, oreq, oat), #[trigger] lk_is(ln, nreq, nwat)
/*@*/   ensures cap_post_rel(rel_at(nwat, oat), or, nr, ops, false)
/*@*/ {
/*@*/     assert(rel_of(lo, ln) =~= rel_at(nwat, oat));
/*@*/ }

/*@*/ proof fn lemma_slice_inb<T>(s: &[T])
/*@*/   ensures inb(s, 0..s@.len() as usize)
/*@*/ {}

//@@ item src/types.rs :: ^impl Default for Algorithm rw=R0
impl Default for Algorithm {
    /// Returns the default algorithm ([`Algorithm::Myers`]).
    fn default() -> (res: Algorithm)
    {
        Algorithm::Myers
    }
}
//@@ end

//@@ item src/text/mod.rs :: ^enum Deadline rw=R7
#[derive(Clone, Copy)]
enum Deadline {
    Absolute(Instant),
    Relative(Duration),
}
//@@ end

//@@ item src/deadline_support.rs :: ^pub fn duration_to_deadline rw=R0
/*@*/ #[verifier::external_body]  // assumed (no claim about the result): Instant::now() + checked_add are outside Verus
pub fn duration_to_deadline(add: Duration) -> (res: Option<Instant>)
{
    #[allow(unreachable_code)]
    #[cfg(all(target_arch = "wasm32", not(feature = "wasm32_web_time")))]
    {
        return None;
    }
    Instant::now().checked_add(add)
}
//@@ end

//@@ item src/text/mod.rs :: ^impl Deadline rw=R0
impl Deadline {
    fn into_instant(self) -> (res: Option<Instant>)
    /*@*/     ensures self matches Deadline::Absolute(inst) ==> res == Some(inst),
    {
        match self {
            Deadline::Absolute(instant) => Some(instant),
            Deadline::Relative(duration) => duration_to_deadline(duration),
        }
    }
}
//@@ end

//@@ item src/text/mod.rs :: ^pub struct TextDiffConfig rw=R7
#[derive(Clone, Default)]
pub struct TextDiffConfig {
    algorithm: Algorithm,
    newline_terminated: Option<bool>,
    deadline: Option<Deadline>,
}
/*@*/ impl TextDiffConfig {
/*@*/     pub closed spec fn alg(&self) -> Algorithm { self.algorithm }
/*@*/     pub closed spec fn nl(&self) -> Option<bool> { self.newline_terminated }
/*@*/     /// the absolute deadline configured with `deadline(..)` (None: no deadline, or a relative timeout)
/*@*/     pub closed spec fn dl_abs(&self) -> Option<Instant> { match self.deadline { Some(Deadline::Absolute(i)) => Some(i), _ => None } }
/*@*/ }
//@@ end


//@@ item src/algorithms/utils.rs :: ^struct OffsetLookup
struct OffsetLookup<Int> {
    offset: usize,
    vec: Vec<Int>,
}
//@@ end

//@@ item src/algorithms/utils.rs :: ^impl<Int> Index<usize> for OffsetLookup rw=R0
/*@*/ impl<Int> OffsetLookup<Int> {
/*@*/     pub closed spec fn at(&self, index: usize) -> Int { self.vec@[index - self.offset] }
/*@*/ }
/*@*/ impl<Int> IndexSpecImpl<usize> for OffsetLookup<Int> {
/*@*/     closed spec fn index_req(&self, index: &usize) -> bool {
/*@*/         self.offset <= *index < self.offset + self.vec.len()
/*@*/     }
/*@*/ }
impl<Int> Index<usize> for OffsetLookup<Int> {
    type Output = Int;

    #[inline(always)]
    fn index(&self, index: usize) -> (res: &Self::Output)
    /*@*/     ensures *res == self.at(index),
    {
        &self.vec[index - self.offset]
    }
}
//@@ end

//@@ item src/algorithms/utils.rs :: ^pub struct IdentifyDistinct
pub struct IdentifyDistinct<Int> {
    old: OffsetLookup<Int>,
    new: OffsetLookup<Int>,
}
/*@*/ impl<Int> IdentifyDistinct<Int> {
/*@*/     // what the two lookups answer (the struct's fields are private; OffsetLookup is a private type)
/*@*/     pub closed spec fn o_req(&self) -> spec_fn(usize) -> bool { |k: usize| IndexSpec::index_req(&self.old, &k) }
/*@*/     pub closed spec fn n_req(&self) -> spec_fn(usize) -> bool { |k: usize| IndexSpec::index_req(&self.new, &k) }
/*@*/     pub closed spec fn o_at(&self) -> spec_fn(usize) -> &Int { |k: usize| item_at(&self.old, k) }
/*@*/     pub closed spec fn n_at(&self) -> spec_fn(usize) -> &Int { |k: usize| item_at(&self.new, k) }
/*@*/     pub closed spec fn o_rng(&self) -> (int, int) { (self.old.offset as int, self.old.offset + self.old.vec@.len()) }
/*@*/     pub closed spec fn n_rng(&self) -> (int, int) { (self.new.offset as int, self.new.offset + self.new.vec@.len()) }
/*@*/ }
/*@*/
/*@*/ /// C14 (second sentence): the integer mapping keeps the caller's index ranges (every index of the ranges can be looked
/*@*/ /// up) and assigns equal numbers to an old and a new item exactly when the items are equal
/*@*/ pub open spec fn ident_ok<Int, Old: Index<usize> + ?Sized, New: Index<usize> + ?Sized>(ih: &IdentifyDistinct<Int>, old: &Old, or: Range<usize>, new: &New, nr: Range<usize>) -> bool
/*@*/   where New::Output: PartialEq<Old::Output>
/*@*/ {
/*@*/     ih.o_rng() == (or.start as int, or.end as int) && ih.n_rng() == (nr.start as int, nr.end as int)
/*@*/     && (forall|k: usize| or.start <= k < or.end ==> #[trigger] (ih.o_req())(k))
/*@*/     && (forall|k: usize| nr.start <= k < nr.end ==> #[trigger] (ih.n_req())(k))
/*@*/     && (forall|i: int, j: int| or.start <= i < or.end && nr.start <= j < nr.end ==>
/*@*/             (*(#[trigger] (ih.n_at())(j as usize)) == *(#[trigger] (ih.o_at())(i as usize))) == eqv(old, i, new, j))
/*@*/ }
/*@*/
/*@*/ /// ops accepted over the integer ids are accepted over the original sequences
/*@*/ pub proof fn lemma_ident_transfer<Old: Index<usize> + ?Sized, New: Index<usize> + ?Sized>(ih: &IdentifyDistinct<u32>, old: &Old, or: Range<usize>, new: &New, nr: Range<usize>, ops: Seq<DiffOp>)
/*@*/   where New::Output: PartialEq<Old::Output>
/*@*/   requires ident_ok(ih, old, or, new, nr), or.start <= or.end, nr.start <= nr.end, cap_post_rel(rel_at(ih.n_at(), ih.o_at()), or, nr, ops, false)
/*@*/   ensures cap_post(old, or, new, nr, ops, false)
/*@*/ {
/*@*/     broadcast use axiom_item_eq_u32;
/*@*/     let r1 = rel_at(ih.n_at(), ih.o_at()); let r2 = rel_of(old, new);
/*@*/     let st = xcanon(or.start as int, nr.start as int, or.end as int, nr.end as int, false);
/*@*/     assert forall|i: int, j: int| or.start <= i < st.oe && nr.start <= j < st.ne implies (#[trigger] r1(i, j)) == r2(i, j) by {
/*@*/         assert(r1(i, j) == item_eq((ih.n_at())(j as usize), (ih.o_at())(i as usize)));
/*@*/         assert(r2(i, j) == eqv(old, i, new, j));
/*@*/     }
/*@*/     lemma_xrun_congr(r1, r2, st, evs_of(ops), or.start as int, nr.start as int);
/*@*/ }
//@@ end

//@@ item src/algorithms/utils.rs :: ^impl<Int> IdentifyDistinct rw=R0
impl<Int> IdentifyDistinct<Int>
where
    Int: Add<Output = Int> + From<u8> + Default + Copy,
{
    /// Creates an int hasher for two sequences.
    /*@*/ #[verifier::external_body]  // assumed contract (HashMap entry API with a local Key enum and custom Hash/Eq impls are outside Verus)
    pub fn new<Old, New>(
        old: &Old,
        old_range: Range<usize>,
        new: &New,
        new_range: Range<usize>,
    ) -> (res: Self)
    where
        Old: Index<usize> + ?Sized,
        Old::Output: Eq + Hash,
        New: Index<usize> + ?Sized,
        New::Output: Eq + Hash + PartialEq<Old::Output>,
    /*@*/     requires old_range.start <= old_range.end, new_range.start <= new_range.end, inb(old, old_range), inb(new, new_range),
    /*@*/         (old_range.end - old_range.start) + (new_range.end - new_range.start) <= 0x1_0000_0000,   // ids are counted in Int (u32 at the call site)
    /*@*/     ensures ident_ok(&res, old, old_range, new, new_range),
    {
        enum Key<'old, 'new, Old: ?Sized, New: ?Sized> {
            Old(&'old Old),
            New(&'new New),
        }

        impl<Old, New> Hash for Key<'_, '_, Old, New>
        where
            Old: Hash + ?Sized,
            New: Hash + ?Sized,
        {
            fn hash<H: Hasher>(&self, state: &mut H) {
                match *self {
                    Key::Old(val) => val.hash(state),
                    Key::New(val) => val.hash(state),
                }
            }
        }

        impl<Old, New> PartialEq for Key<'_, '_, Old, New>
        where
            Old: Eq + ?Sized,
            New: Eq + PartialEq<Old> + ?Sized,
        {
            #[inline(always)]
            fn eq(&self, other: &Self) -> bool {
                match (self, other) {
                    (Key::Old(a), Key::Old(b)) => a == b,
                    (Key::New(a), Key::New(b)) => a == b,
                    (Key::Old(a), Key::New(b)) | (Key::New(b), Key::Old(a)) => b == a,
                }
            }
        }

        impl<Old, New> Eq for Key<'_, '_, Old, New>
        where
            Old: Eq + ?Sized,
            New: Eq + PartialEq<Old> + ?Sized,
        {
        }

        let mut map = HashMap::new();
        let mut old_seq = Vec::new();
        let mut new_seq = Vec::new();
        let mut next_id = Int::default();
        let step = Int::from(1);
        let old_start = old_range.start;
        let new_start = new_range.start;

        for idx in old_range {
            let item = Key::Old(&old[idx]);
            let id = match map.entry(item) {
                Entry::Occupied(o) => *o.get(),
                Entry::Vacant(v) => {
                    let id = next_id;
                    next_id = next_id + step;
                    *v.insert(id)
                }
            };
            old_seq.push(id);
        }

        for idx in new_range {
            let item = Key::New(&new[idx]);
            let id = match map.entry(item) {
                Entry::Occupied(o) => *o.get(),
                Entry::Vacant(v) => {
                    let id = next_id;
                    next_id = next_id + step;
                    *v.insert(id)
                }
            };
            new_seq.push(id);
        }

        IdentifyDistinct {
            old: OffsetLookup {
                offset: old_start,
                vec: old_seq,
            },
            new: OffsetLookup {
                offset: new_start,
                vec: new_seq,
            },
        }
    }

    /// Returns a lookup for the old side.
    /*@*/ #[verifier::external_body]  // assumed: the body is `&self.old`; Verus 0.2026.09.13 generates ill-typed AIR for returning a field as `&impl Index` (probes/impl_trait_return_ill_typed_air.rs)
    pub fn old_lookup(&self) -> (res: &impl Index<usize, Output = Int>)
    /*@*/     ensures lk_is(res, self.o_req(), self.o_at()),
    {
        &self.old
    }

    /// Returns a lookup for the new side.
    /*@*/ #[verifier::external_body]  // assumed: the body is `&self.new`; Verus 0.2026.09.13 generates ill-typed AIR for returning a field as `&impl Index` (probes/impl_trait_return_ill_typed_air.rs)
    pub fn new_lookup(&self) -> (res: &impl Index<usize, Output = Int>)
    /*@*/     ensures lk_is(res, self.n_req(), self.n_at()),
    {
        &self.new
    }

    /// Convenience method to get back the old range.
    pub fn old_range(&self) -> (res: Range<usize>)
    /*@*/     requires self.o_rng().1 <= usize::MAX,
    /*@*/     ensures res.start == self.o_rng().0, res.end == self.o_rng().1,
    {
        self.old.offset..self.old.offset + self.old.vec.len()
    }

    /// Convenience method to get back the new range.
    pub fn new_range(&self) -> (res: Range<usize>)
    /*@*/     requires self.n_rng().1 <= usize::MAX,
    /*@*/     ensures res.start == self.n_rng().0, res.end == self.n_rng().1,
    {
        self.new.offset..self.new.offset + self.new.vec.len()
    }
}
//@@ end

//@@ item src/text/mod.rs :: ^impl TextDiffConfig rw=R0,R10 only=fn\s+(diff|diff_slices|algorithm|deadline|timeout|newline_terminated)\b
impl TextDiffConfig {
    /// Changes the algorithm.
    ///
    /// The default algorithm is [`Algorithm::Myers`].
    pub fn algorithm(&mut self, alg: Algorithm) -> (res: &mut Self)
    /*@*/     ensures res.alg() == alg, res.nl() == old(self).nl(), res.dl_abs() == old(self).dl_abs(), *final(res) == *final(self),
    {
        self.algorithm = alg;
        self
    }

    /// Sets a deadline for the diff operation.
    ///
    /// By default a diff will take as long as it takes.  For certain diff
    /// algorithms like Myers' and Patience a maximum running time can be
    /// defined after which the algorithm gives up and approximates.
    pub fn deadline(&mut self, deadline: Instant) -> (res: &mut Self)
    /*@*/     ensures res.dl_abs() == Some(deadline), res.alg() == old(self).alg(), res.nl() == old(self).nl(), *final(res) == *final(self),
    {
        self.deadline = Some(Deadline::Absolute(deadline));
        self
    }

    /// Sets a timeout for thediff operation.
    ///
    /// This is like [`deadline`](Self::deadline) but accepts a duration.
    pub fn timeout(&mut self, timeout: Duration) -> (res: &mut Self)
    /*@*/     ensures res.alg() == old(self).alg(), res.nl() == old(self).nl(), *final(res) == *final(self),
    {
        self.deadline = Some(Deadline::Relative(timeout));
        self
    }

    /// Changes the newline termination flag.
    ///
    /// The default is automatic based on input.  This flag controls the
    /// behavior of [`TextDiff::iter_changes`] and unified diff generation
    /// with regards to newlines.  When the flag is set to `false` (which
    /// is the default) then newlines are added.  Otherwise the newlines
    /// from the source sequences are reused.
    pub fn newline_terminated(&mut self, yes: bool) -> (res: &mut Self)
    /*@*/     ensures res.nl() == Some(yes), res.alg() == old(self).alg(), res.dl_abs() == old(self).dl_abs(), *final(res) == *final(self),
    {
        self.newline_terminated = Some(yes);
        self
    }






    /// Creates a diff of arbitrary slices.
    ///
    /// ```rust
    /// use similar::{TextDiff, ChangeTag};
    ///
    /// let old = &["foo", "bar", "baz"];
    /// let new = &["foo", "BAR", "baz"];
    /// let diff = TextDiff::configure().diff_slices(old, new);
    /// let changes: Vec<_> = diff
    ///     .iter_all_changes()
    ///     .map(|x| (x.tag(), x.value()))
    ///     .collect();
    ///
    /// assert_eq!(changes, vec![
    ///    (ChangeTag::Equal, "foo"),
    ///    (ChangeTag::Delete, "bar"),
    ///    (ChangeTag::Insert, "BAR"),
    ///    (ChangeTag::Equal, "baz"),
    /// ]);
    /// ```
    pub fn diff_slices<'old, 'new, 'bufs, T: DiffableStr + ?Sized>(
        &self,
        old: &'bufs [&'old T],
        new: &'bufs [&'new T],
    ) -> (res: TextDiff<'old, 'new, 'bufs, T>)
    /*@*/     requires old@.len() + new@.len() + 4 <= isize::MAX, old@.len() + new@.len() <= 0x1_0000_0000,
    /*@*/         self.alg() == Algorithm::Lcs ==> (old@.len() <= u32::MAX || new@.len() <= u32::MAX),
    /*@*/     ensures
    /*@*/         // what is stored: the two token slices, the configured algorithm, the newline flag (override first)
    /*@*/         res.old_toks() == old, res.new_toks() == new,
    /*@*/         res.alg() == self.alg(),
    /*@*/         res.nl() == (match self.nl() { Some(b) => b, None => false }),
    /*@*/         // C02: the stored ops are a valid, normal-form op list over the two token slices - below and above the size
    /*@*/         // at which the items are mapped to integers
    /*@*/         cap_post(old, 0..old@.len() as usize, new, 0..new@.len() as usize, res.stored_ops(), false),
    /*@*/         res.wf(),
    {
        /*@*/ broadcast use axiom_cow_borrowed;
        self.diff(Cow::Borrowed(old), Cow::Borrowed(new), false)
    }

    fn diff<'old, 'new, 'bufs, T: DiffableStr + ?Sized>(
        &self,
        old: Cow<'bufs, [&'old T]>,
        new: Cow<'bufs, [&'new T]>,
        newline_terminated: bool,
    ) -> (res: TextDiff<'old, 'new, 'bufs, T>)
    /*@*/     requires cow_ref(&old)@.len() + cow_ref(&new)@.len() + 4 <= isize::MAX, cow_ref(&old)@.len() + cow_ref(&new)@.len() <= 0x1_0000_0000,
    /*@*/         self.alg() == Algorithm::Lcs ==> (cow_ref(&old)@.len() <= u32::MAX || cow_ref(&new)@.len() <= u32::MAX),
    /*@*/     ensures
    /*@*/         // what is stored: the two token slices, the configured algorithm, the newline flag (override first)
    /*@*/         res.old_toks() == cow_ref(&old), res.new_toks() == cow_ref(&new),
    /*@*/         res.alg() == self.alg(),
    /*@*/         res.nl() == (match self.nl() { Some(b) => b, None => newline_terminated }),
    /*@*/         // C02: the stored ops are a valid, normal-form op list over the two token slices - below and above the size
    /*@*/         // at which the items are mapped to integers
    /*@*/         cap_post(cow_ref(&old), 0..cow_ref(&old)@.len() as usize, cow_ref(&new), 0..cow_ref(&new)@.len() as usize, res.stored_ops(), false),
    /*@*/         res.wf(),
    {
        /*@*/ broadcast use {lemma_cap_lk, axiom_cow_borrowed};
        let deadline = match (self.deadline) { Some(x) => x.into_instant(), None => None };
        /*@*/ let ghost os = cow_ref(&old); let ghost ns = cow_ref(&new);
        /*@*/ proof { lemma_slice_inb(os); lemma_slice_inb(ns);
        /*@*/     // a slice is determined by its elements: `&old[..]` is the slice the Cow derefs to
        /*@*/     // (vstd specifies `&s[..]` as the subrange 0..len of `s`)
        /*@*/     assert forall|t: &[&'old T]| (#[trigger] t@) == os@.subrange(0, os@.len() as int) implies t == os by { assert(t@ =~= os@); }
        /*@*/     assert forall|t: &[&'new T]| (#[trigger] t@) == ns@.subrange(0, ns@.len() as int) implies t == ns by { assert(t@ =~= ns@); }
        /*@*/ }
        let ops = if old.len() > 100 || new.len() > 100 {
            let ih = IdentifyDistinct::<u32>::new(&old[..], 0..old.len(), &new[..], 0..new.len());
            /*@*/ proof {
            /*@*/     let orr = 0..os@.len() as usize; let nrr = 0..ns@.len() as usize;
            /*@*/     assert(orr.start <= orr.end && nrr.start <= nrr.end);
            /*@*/     assert(ih.o_rng() == (0int, os@.len() as int));
            /*@*/     assert(forall|k: usize| 0 <= k < os@.len() ==> #[trigger] (ih.o_req())(k));
            /*@*/     assert(forall|i: int, j: int| 0 <= i < os@.len() && 0 <= j < ns@.len() ==>
            /*@*/             (*(#[trigger] (ih.n_at())(j as usize)) == *(#[trigger] (ih.o_at())(i as usize))) == eqv(os, i, ns, j));
            /*@*/     assert(ident_ok(&ih, os, orr, ns, nrr));
            /*@*/     assert forall|ops: Seq<DiffOp>| #[trigger] cap_post_rel(rel_at(ih.n_at(), ih.o_at()), orr, nrr, ops, false) implies cap_post(os, orr, ns, nrr, ops, false) by {
            /*@*/         lemma_ident_transfer(&ih, os, orr, ns, nrr, ops);
            /*@*/     }
            /*@*/ }
            capture_diff_deadline(
                self.algorithm,
                ih.old_lookup(),
                ih.old_range(),
                ih.new_lookup(),
                ih.new_range(),
                deadline,
            )
        } else {
            capture_diff_deadline(
                self.algorithm,
                &old[..],
                0..old.len(),
                &new[..],
                0..new.len(),
                deadline,
            )
        };
        TextDiff {
            old,
            new,
            ops,
            newline_terminated: self.newline_terminated.unwrap_or(newline_terminated),
            algorithm: self.algorithm,
        }
    }
}
//@@ end


} // verus!
