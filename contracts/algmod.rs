// src/algorithms/mod.rs: the dispatching entry points
verus! {

//@@ item src/types.rs :: ^pub enum Algorithm rw=R7
#[derive(Clone, Copy, PartialEq, Eq)]
pub enum Algorithm {
    /// Picks the myers algorithm from [`crate::algorithms::myers`]
    Myers,
    /// Picks the patience algorithm from [`crate::algorithms::patience`]
    Patience,
    /// Picks the LCS algorithm from [`crate::algorithms::lcs`]
    Lcs,
}
//@@ end

//@@ item src/algorithms/mod.rs :: ^pub fn diff< rw=R0
pub fn diff<Old, New, D>(
    alg: Algorithm,
    d: &mut D,
    old: &Old,
    old_range: Range<usize>,
    new: &New,
    new_range: Range<usize>,
) -> (res: Result<(), D::Error>)
where
    Old: Index<usize> + ?Sized,
    New: Index<usize> + ?Sized,
    D: DiffHook,
    Old::Output: Hash + Eq + Ord,
    New::Output: PartialEq<Old::Output> + Hash + Eq + Ord,
/*@*/     requires diff_pre(*vstd::prelude::old(d), old, old_range, new, new_range, lvl_of(alg, None)),
/*@*/         alg == Algorithm::Lcs ==> ((old_range.end - old_range.start) <= u32::MAX || (new_range.end - new_range.start) <= u32::MAX),   // lcs table cells are u32
/*@*/     ensures
/*@*/         err_post(*vstd::prelude::old(d), *final(d), res),
/*@*/         seg_post(*vstd::prelude::old(d), *final(d), old, old_range, new, new_range, lvl_of(alg, None), alg != Algorithm::Patience, fin::<D>(), res.is_ok()),
{
    diff_deadline(alg, d, old, old_range, new, new_range, None)
}
//@@ end

//@@ item src/algorithms/mod.rs :: ^pub fn diff_deadline< rw=R0
pub fn diff_deadline<Old, New, D>(
    alg: Algorithm,
    d: &mut D,
    old: &Old,
    old_range: Range<usize>,
    new: &New,
    new_range: Range<usize>,
    deadline: Option<Instant>,
) -> (res: Result<(), D::Error>)
where
    Old: Index<usize> + ?Sized,
    New: Index<usize> + ?Sized,
    D: DiffHook,
    Old::Output: Hash + Eq + Ord,
    New::Output: PartialEq<Old::Output> + Hash + Eq + Ord,
/*@*/     requires diff_pre(*vstd::prelude::old(d), old, old_range, new, new_range, lvl_of(alg, deadline)),
/*@*/         alg == Algorithm::Lcs ==> ((old_range.end - old_range.start) <= u32::MAX || (new_range.end - new_range.start) <= u32::MAX),   // lcs table cells are u32
/*@*/     ensures
/*@*/         err_post(*vstd::prelude::old(d), *final(d), res),
/*@*/         seg_post(*vstd::prelude::old(d), *final(d), old, old_range, new, new_range, lvl_of(alg, deadline), deadline is None && alg != Algorithm::Patience, fin::<D>(), res.is_ok()),
{
    match alg {
        Algorithm::Myers => myers::diff_deadline(d, old, old_range, new, new_range, deadline),
        Algorithm::Patience => patience::diff_deadline(d, old, old_range, new, new_range, deadline),
        Algorithm::Lcs => lcs::diff_deadline(d, old, old_range, new, new_range, deadline),
    }
}
//@@ end

//@@ item src/algorithms/mod.rs :: ^pub fn diff_slices< rw=R0
pub fn diff_slices<D, T>(alg: Algorithm, d: &mut D, old: &[T], new: &[T]) -> (res: Result<(), D::Error>)
where
    D: DiffHook,
    T: Eq + Hash + Ord,
/*@*/     requires diff_pre(*vstd::prelude::old(d), old, 0..old.len(), new, 0..new.len(), lvl_of(alg, None)),
/*@*/         alg == Algorithm::Lcs ==> (old.len() <= u32::MAX || new.len() <= u32::MAX),
/*@*/     ensures
/*@*/         err_post(*vstd::prelude::old(d), *final(d), res),
/*@*/         seg_post(*vstd::prelude::old(d), *final(d), old, 0..old.len(), new, 0..new.len(), lvl_of(alg, None), alg != Algorithm::Patience, fin::<D>(), res.is_ok()),
{
    diff(alg, d, old, 0..old.len(), new, 0..new.len())
}
//@@ end

//@@ item src/algorithms/mod.rs :: ^pub fn diff_slices_deadline< rw=R0
pub fn diff_slices_deadline<D, T>(
    alg: Algorithm,
    d: &mut D,
    old: &[T],
    new: &[T],
    deadline: Option<Instant>,
) -> (res: Result<(), D::Error>)
where
    D: DiffHook,
    T: Eq + Hash + Ord,
/*@*/     requires diff_pre(*vstd::prelude::old(d), old, 0..old.len(), new, 0..new.len(), lvl_of(alg, deadline)),
/*@*/         alg == Algorithm::Lcs ==> (old.len() <= u32::MAX || new.len() <= u32::MAX),
/*@*/     ensures
/*@*/         err_post(*vstd::prelude::old(d), *final(d), res),
/*@*/         seg_post(*vstd::prelude::old(d), *final(d), old, 0..old.len(), new, 0..new.len(), lvl_of(alg, deadline), deadline is None && alg != Algorithm::Patience, fin::<D>(), res.is_ok()),
{
    diff_deadline(alg, d, old, 0..old.len(), new, 0..new.len(), deadline)
}
//@@ end

} // verus!
