//@@ include prelude.rs
//@@ include hook.rs
//@@ include algspec.rs
//@@ include algutils.rs
//@@ include myers.rs
//@@ include lcs.rs
//@@ props ^DiffHook : C08
//@@ props ^NoFinishHook : C08
//@@ props ^is_empty_range$|^common_prefix_len$|^common_suffix_len$ : C01
//@@ props ^deadline_exceeded$ : C07
//@@ props ^myers:: : C01 C07 C08
//@@ props ^lcs:: : C01 C07 C08
fn main() {}
