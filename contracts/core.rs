//@@ include prelude.rs
//@@ include hook.rs
fn main() {}
