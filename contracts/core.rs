//@@ include prelude.rs
//@@ include hook.rs
//@@ include algspec.rs
//@@ include algutils.rs
//@@ include myers.rs
fn main() {}
