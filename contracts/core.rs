//@@ include prelude.rs
//@@ include hook.rs
//@@ include lcsspec.rs
//@@ include algspec.rs
//@@ include algutils.rs
//@@ include xcheck.rs
//@@ include replace.rs
//@@ include myers.rs
//@@ include lcs.rs
//@@ include patience.rs
//@@ include algmod.rs
//@@ props ^DiffHook : C08
//@@ props ^NoFinishHook : C08
//@@ props ^is_empty_range$|^common_prefix_len$|^common_suffix_len$ : C01
//@@ props ^deadline_exceeded$ : C07
//@@ props ^myers:: : C01 C03 C07 C08
//@@ props ^lcs:: : C01 C03 C07 C08
//@@ props ^patience:: : C01 C07 C08
//@@ props ^unique$|^UniqueItem|^PartialEq for UniqueItem : C01
//@@ props ^Replace::|^DiffHook for Replace:: : C01 C08
//@@ props ^diff$|^diff_deadline$|^diff_slices$|^diff_slices_deadline$ : C01 C03 C07 C08
//@@ props ^lemma_lcs_ : C03
fn main() {}
