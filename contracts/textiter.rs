// unit `txi`: what a TextDiff hands to its consumers (C04, C13): the stored ops and token slices, and the change iterators built on them
verus! {

//@@ item src/types.rs :: ^pub enum Algorithm rw=R7
#[derive(Clone, Copy, PartialEq, Eq)]
pub enum Algorithm {
    /// Picks the myers algorithm from [`crate::algorithms::myers`]
    Myers,
    /// Picks the patience algorithm from [`crate::algorithms::patience`]
    Patience,
    /// Picks the LCS algorithm from [`crate::algorithms::lcs`]
    Lcs,
}
//@@ end

/*@*/ /// ops accepted by the checker from (0,0) to both slice ends lie inside the two slices
/*@*/ pub proof fn lemma_stored_ops_inb<A, B>(old: &[A], new: &[B], ops: Seq<DiffOp>)
/*@*/   where B: PartialEq<A>
/*@*/   requires cap_post_rel(rel_of(old, new), 0..old@.len() as usize, 0..new@.len() as usize, ops, false)
/*@*/   ensures ops_inb(old, new, ops)
/*@*/ {
/*@*/     let n = old@.len() as usize; let m = new@.len() as usize;
/*@*/     lemma_script_of_xrun(rel_of(old, new), ops, n, m, false);
/*@*/     assert forall|i: int| 0 <= i < ops.len() implies op_wf(#[trigger] ops[i]) && inb(old, op_old_range(ops[i])) && inb(new, op_new_range(ops[i])) by {
/*@*/         lemma_script_op(ops, n as int, m as int, i);
/*@*/     }
/*@*/ }

/*@*/ // ---- C04 end to end (spec level): entry point -> stored diff -> iter_all_changes -> the texts ----
/*@*/ /// For a TextDiff as the text entry points return it (TextDiffConfig::diff_lines / diff_words / diff_chars, unit txt:
/*@*/ /// `d.wf()` and `tok_post(old_text, kind, d.old_toks()@)`, of which the partition clause is used here), the changes
/*@*/ /// `d.iter_all_changes()` runs over are `expand_all(d.stored_ops())` over the two stored token slices (contract of
/*@*/ /// TextDiff::iter_all_changes below + AllChangesIter::next, unit itr).  Then: the byte views of the values of all
/*@*/ /// changes that are NOT Insert, concatenated in order, are the bytes of the old text.  (`val_of(c, ot, nt)` is the byte
/*@*/ /// view of the token a change's value is a clone of, H-CLONE of reconstruct.rs.)
/*@*/ pub proof fn lemma_entry_reconstruct_old<'old, 'new, 'bufs, T: DiffableStr + ?Sized>(d: &TextDiff<'old, 'new, 'bufs, T>, old_text: &T)
/*@*/   requires d.wf(), tokens_partition(old_text.bytes(), toks(d.old_toks()@)),
/*@*/   ensures ({ let ot = toks(d.old_toks()@); let nt = toks(d.new_toks()@);
/*@*/       let vo = proj(expand_all(d.stored_ops()), sel_value(true, ot, nt));
/*@*/       vo == ot && cat(vo, 0, vo.len() as int) == old_text.bytes() }),
/*@*/ {
/*@*/     let os = d.old_toks(); let ns = d.new_toks(); let n = os@.len() as usize; let m = ns@.len() as usize;
/*@*/     vstd::slice::axiom_spec_len(os); vstd::slice::axiom_spec_len(ns);   // a slice's length is a usize
/*@*/     lemma_script_of_xrun(rel_of(os, ns), d.stored_ops(), n, m, false);
/*@*/     lemma_reconstruct_changes_old(d.stored_ops(), toks(os@), toks(ns@), n as int, m as int);
/*@*/ }
/*@*/
/*@*/ /// the same for the new text and the changes that are NOT Delete.  An Equal change's value is read from the OLD
/*@*/ /// slice, so this needs H-EQ: tokens the diff found equal (`==` of `T`, the abstract item relation of the algorithms)
/*@*/ /// have the same bytes - true for str and [u8], whose `==` is byte equality; it is a hypothesis here because the item
/*@*/ /// relation is uninterpreted in the contracts.
/*@*/ pub proof fn lemma_entry_reconstruct_new<'old, 'new, 'bufs, T: DiffableStr + ?Sized>(d: &TextDiff<'old, 'new, 'bufs, T>, new_text: &T)
/*@*/   requires d.wf(), tokens_partition(new_text.bytes(), toks(d.new_toks()@)),
/*@*/       forall|i: int, j: int| #[trigger] rel_of(d.old_toks(), d.new_toks())(i, j) ==> toks(d.old_toks()@)[i] == toks(d.new_toks()@)[j],   // H-EQ
/*@*/   ensures ({ let ot = toks(d.old_toks()@); let nt = toks(d.new_toks()@);
/*@*/       let vn = proj(expand_all(d.stored_ops()), sel_value(false, ot, nt));
/*@*/       vn == nt && cat(vn, 0, vn.len() as int) == new_text.bytes() }),
/*@*/ {
/*@*/     let os = d.old_toks(); let ns = d.new_toks(); let n = os@.len() as usize; let m = ns@.len() as usize;
/*@*/     vstd::slice::axiom_spec_len(os); vstd::slice::axiom_spec_len(ns);   // a slice's length is a usize
/*@*/     lemma_script_of_xrun(rel_of(os, ns), d.stored_ops(), n, m, false);
/*@*/     lemma_equal_ok_of_rel(rel_of(os, ns), d.stored_ops(), toks(os@), toks(ns@));
/*@*/     lemma_reconstruct_changes_new(d.stored_ops(), toks(os@), toks(ns@), n as int, m as int);
/*@*/ }

//@@ item src/text/mod.rs :: ^impl<'old, 'new, 'bufs, T: DiffableStr \+ \?Sized \+ 'old \+ 'new> TextDiff rw=R0 only=fn\s+(algorithm|newline_terminated|old_slices|new_slices|ops|iter_changes|iter_all_changes)\b
impl<'old, 'new, 'bufs, T: DiffableStr + ?Sized + 'old + 'new> TextDiff<'old, 'new, 'bufs, T> {

    /// The name of the algorithm that created the diff.
    pub fn algorithm(&self) -> (res: Algorithm)
    /*@*/     ensures res == self.alg(),
    {
        self.algorithm
    }

    /// Returns `true` if items in the slice are newline terminated.
    ///
    /// This flag is used by the unified diff writer to determine if extra
    /// newlines have to be added.
    pub fn newline_terminated(&self) -> (res: bool)
    /*@*/     ensures res == self.nl(),
    {
        self.newline_terminated
    }

    /// Returns all old slices.
    pub fn old_slices(&self) -> (res: &[&'old T])
    /*@*/     ensures res == self.old_toks(),
    {
        &self.old
    }

    /// Returns all new slices.
    pub fn new_slices(&self) -> (res: &[&'new T])
    /*@*/     ensures res == self.new_toks(),
    {
        &self.new
    }


    /// Iterates over the changes the op expands to.
    ///
    /// This method is a convenient way to automatically resolve the different
    /// ways in which a change could be encoded (insert/delete vs replace), look
    /// up the value from the appropriate slice and also handle correct index
    /// handling.
    pub fn iter_changes<'x, 'slf>(
        &'slf self,
        op: &DiffOp,
    ) -> (res: ChangesIter<'slf, [&'x T], [&'x T], &'x T>)
    where
        'x: 'slf,
        'old: 'x,
        'new: 'x,
    /*@*/     // the op must lie inside the two token slices (every stored op does: lemma_stored_ops_inb)
    /*@*/     requires op_wf(*op), inb(self.old_toks(), op_old_range(*op)), inb(self.new_toks(), op_new_range(*op)),
    /*@*/     ensures res.wf(), res.rem() == expand(*op), res.src_old() == self.old_toks(), res.src_new() == self.new_toks(),
    {
        op.iter_changes(self.old_slices(), self.new_slices())
    }

    /// Returns the captured diff ops.
    pub fn ops(&self) -> (res: &[DiffOp])
    /*@*/     ensures res@ == self.stored_ops(),
    {
        &self.ops
    }


    /// Flattens out the diff into all changes.
    ///
    /// This is a shortcut for combining [`TextDiff::ops`] with
    /// [`TextDiff::iter_changes`].
    pub fn iter_all_changes<'x, 'slf>(&'slf self) -> (res: AllChangesIter<'slf, 'x, T>)
    where
        'x: 'slf + 'old + 'new,
        'old: 'x,
        'new: 'x,
    /*@*/     // C04 / C13: the whole-diff iterator runs over exactly the stored ops and the two token slices
    /*@*/     requires self.wf(),
    /*@*/     ensures res.wf(), res.rem_all() == expand_all(self.stored_ops()), res.src_old() == self.old_toks(), res.src_new() == self.new_toks(),
    {
        /*@*/ let ghost os = self.old_toks(); let ghost ns = self.new_toks();
        /*@*/ proof {
        /*@*/     lemma_stored_ops_inb(os, ns, self.stored_ops());
        /*@*/     assert forall|t: &[&'old T]| (#[trigger] t@) == os@.subrange(0, os@.len() as int) implies t == os by { assert(t@ =~= os@); }
        /*@*/     assert forall|t: &[&'new T]| (#[trigger] t@) == ns@.subrange(0, ns@.len() as int) implies t == ns by { assert(t@ =~= ns@); }
        /*@*/ }
        AllChangesIter::new(&self.old[..], &self.new[..], self.ops())
    }



}
//@@ end

} // verus!
