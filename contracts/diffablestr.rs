// src/text/abstraction.rs: the traits `DiffableStr` and `DiffableStrRef` with their TRAIT-LEVEL contract.  This is the ONE
// declaration of the two traits and of the byte-view vocabulary (`bytes()`, `toks`, `tok_post`); it is included by
//   * unit tok  - proves that `impl DiffableStr for str` / `for [u8]` satisfy it (tokens.rs, tokens_bytes.rs),
//   * unit txt  - the text entry points `TextDiffConfig::diff_lines / diff_words / diff_chars` are generic over
//                 `T: DiffableStrRef + ?Sized` and see the tokenizers only through this contract (textdiff.rs),
//   * units rmp / txi - `SliceRemapper` / `TextDiffRemapper` use `len` and `slice` (remap.rs).
// Needs tokpart.rs (`cat`, `tokens_partition`) before it.
//
// What the trait-level contract says (everything a GENERIC caller may rely on):
//   bytes()                      ghost: the ABSTRACT byte view of the string (str: its UTF-8 bytes, [u8]: the bytes)
//   tok_shape(kind, toks)        ghost: the shape clause of the tokenizer `kind` (abstract for generic code; each impl
//                                defines it: line / run / one-char shape, see tokens.rs and tokens_bytes.rs)
//   tokenize_lines / tokenize_lines_and_newlines / tokenize_words / tokenize_chars
//                                ensures  the tokens PARTITION the text: tokens_partition(self.bytes(), bytes of the tokens),
//                                         every token is non-empty,
//                                         self.tok_shape(<its kind>, res@)
//   len()                        ensures  res == self.bytes().len()
//   slice(rng)                   requires rng.start <= rng.end <= self.bytes().len()
//                                ensures  res.bytes() == self.bytes().subrange(rng.start, rng.end)
//   as_diffable_str()            ensures  res == self.ds()   (ghost `ds()`: the DiffableStr a reference resolves to)
// The traits sit OUTSIDE the `verus!` block (attribute syntax `#[verus_verify]` / `#[verus_spec(..)]`): the declarations
// `fn len(&self) -> usize;` carry their `;` on the signature line, so no ghost line can be spliced between signature
// and `;`; the attribute form goes on a ghost line *above* the code line.  (Second reason: tools/vx.py names the methods
// of `impl DiffableStr for [u8]` `DiffableStr::tokenize_*`; a trait inside `verus!` would add a second entry of that name.)
// The clauses of the tokenizers are written out in the trait (not through `tok_post` below): a spec function that is
// generic over `T: DiffableStr` cannot be used in the declaration of `DiffableStr` itself (Verus reports a cyclic
// self-reference, probes/trait_contract_generic_helper_cycle.rs); `tok_post` is the same three clauses for use outside.
// Dropped with `only=` (nothing under contract calls them): tokenize_unicode_words, tokenize_graphemes (feature
// `unicode`), as_str, to_string_lossy, ends_with_newline, as_bytes, is_empty.
verus! {

/// which tokenizer (ghost tag of `tok_shape`)
pub enum TokKind { Lines, LinesAndNewlines, Words, Chars }

} // verus!

/*@*/ #[verus_verify]
//@@ item src/text/abstraction.rs :: ^pub trait DiffableStr\b only=fn\s+(tokenize_lines|tokenize_lines_and_newlines|tokenize_words|tokenize_chars|len|slice)\(
pub trait DiffableStr: Hash + PartialEq + PartialOrd + Ord + Eq + ToOwned {
    /*@*/ /// ghost: the ABSTRACT byte view of the string (str: its UTF-8 bytes, [u8]: the bytes)
    /*@*/ #[verus_spec] #[verifier::spec]
    /*@*/ fn bytes(&self) -> Seq<u8>;
    /*@*/ /// ghost: the shape clause of tokenizer `kind` for the token list `toks` of this string
    /*@*/ #[verus_spec] #[verifier::spec]
    /*@*/ fn tok_shape(&self, kind: TokKind, toks: Seq<&Self>) -> bool;
    /// Splits the value into newlines with newlines attached.
    /*@*/ #[verus_spec(res => ensures
    /*@*/     tokens_partition(self.bytes(), Seq::new(res@.len(), |i: int| res@[i].bytes())),
    /*@*/     forall|k: int| 0 <= k < res@.len() ==> (#[trigger] res@[k]).bytes().len() > 0,
    /*@*/     self.tok_shape(TokKind::Lines, res@))]
    fn tokenize_lines(&self) -> Vec<&Self>;

    /// Splits the value into newlines with newlines separated.
    /*@*/ #[verus_spec(res => ensures
    /*@*/     tokens_partition(self.bytes(), Seq::new(res@.len(), |i: int| res@[i].bytes())),
    /*@*/     forall|k: int| 0 <= k < res@.len() ==> (#[trigger] res@[k]).bytes().len() > 0,
    /*@*/     self.tok_shape(TokKind::LinesAndNewlines, res@))]
    fn tokenize_lines_and_newlines(&self) -> Vec<&Self>;

    /// Tokenizes into words.
    /*@*/ #[verus_spec(res => ensures
    /*@*/     tokens_partition(self.bytes(), Seq::new(res@.len(), |i: int| res@[i].bytes())),
    /*@*/     forall|k: int| 0 <= k < res@.len() ==> (#[trigger] res@[k]).bytes().len() > 0,
    /*@*/     self.tok_shape(TokKind::Words, res@))]
    fn tokenize_words(&self) -> Vec<&Self>;

    /// Tokenizes the input into characters.
    /*@*/ #[verus_spec(res => ensures
    /*@*/     tokens_partition(self.bytes(), Seq::new(res@.len(), |i: int| res@[i].bytes())),
    /*@*/     forall|k: int| 0 <= k < res@.len() ==> (#[trigger] res@[k]).bytes().len() > 0,
    /*@*/     self.tok_shape(TokKind::Chars, res@))]
    fn tokenize_chars(&self) -> Vec<&Self>;






    /// The length of the string.
    /*@*/ #[verus_spec(res => ensures res == self.bytes().len())]
    fn len(&self) -> usize;

    /// Slices the string.
    /*@*/ #[verus_spec(res =>
    /*@*/     requires rng.start <= rng.end <= self.bytes().len(),
    /*@*/     ensures res.bytes() == self.bytes().subrange(rng.start as int, rng.end as int))]
    fn slice(&self, rng: Range<usize>) -> &Self;


}
//@@ end

/*@*/ #[verus_verify]
//@@ item src/text/abstraction.rs :: ^pub trait DiffableStrRef\b
pub trait DiffableStrRef {
    /// The type of the resolved [`DiffableStr`].
    type Output: DiffableStr + ?Sized;
    /*@*/ /// ghost: the DiffableStr this reference resolves to
    /*@*/ #[verus_spec] #[verifier::spec]
    /*@*/ fn ds(&self) -> &Self::Output;

    /// Resolves the reference.
    /*@*/ #[verus_spec(res => ensures res == self.ds())]
    fn as_diffable_str(&self) -> &Self::Output;
}
//@@ end

verus! {

/// the byte views of a token list
pub open spec fn toks<T: DiffableStr + ?Sized>(slices: Seq<&T>) -> Seq<Seq<u8>> {
    Seq::new(slices.len(), |i: int| slices[i].bytes())
}

/// what every tokenizer of `DiffableStr` ensures (the three clauses of the trait-level contract): the tokens `r`
/// partition the text `s` (H-TOK of the reconstruction lemmas), are non-empty and have the shape of tokenizer `kind`
pub open spec fn tok_post<T: DiffableStr + ?Sized>(s: &T, kind: TokKind, r: Seq<&T>) -> bool {
    &&& tokens_partition(s.bytes(), toks(r))
    &&& forall|k: int| 0 <= k < r.len() ==> (#[trigger] r[k]).bytes().len() > 0
    &&& s.tok_shape(kind, r)
}

proof fn lemma_tokpart_cat_len_ge(t: Seq<Seq<u8>>, n: int)
    requires 0 <= n <= t.len(), forall|k: int| 0 <= k < t.len() ==> (#[trigger] t[k]).len() > 0,
    ensures cat(t, 0, n).len() >= n,
    decreases n
{
    if n > 0 { lemma_tokpart_cat_len_ge(t, n - 1); }
}

/// non-empty tokens that partition a text: there are at most as many tokens as bytes
pub proof fn lemma_tokpart_count(src: Seq<u8>, t: Seq<Seq<u8>>)
    requires tokens_partition(src, t), forall|k: int| 0 <= k < t.len() ==> (#[trigger] t[k]).len() > 0,
    ensures t.len() <= src.len(),
{
    lemma_tokpart_cat_len_ge(t, t.len() as int);
}

//@@ item src/text/abstraction.rs :: ^impl<T: DiffableStr \+ \?Sized> DiffableStrRef for T rw=R0
impl<T: DiffableStr + ?Sized> DiffableStrRef for T {
    type Output = T;
    /*@*/ open spec fn ds(&self) -> &T { self }

    fn as_diffable_str(&self) -> (res: &T)
    {
        self
    }
}
//@@ end

} // verus!
