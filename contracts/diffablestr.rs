// the DiffableStr trait with an abstract byte view (same section as in remap.rs; for units that do not include remap.rs)
/*@*/ #[verus_verify]
//@@ item src/text/abstraction.rs :: ^pub trait DiffableStr\b only=fn\s+(len|slice)\(
pub trait DiffableStr: Hash + PartialEq + PartialOrd + Ord + Eq + ToOwned {
    /*@*/ /// ghost: the ABSTRACT byte view of the string (str: its UTF-8 bytes, [u8]: the bytes)
    /*@*/ #[verus_spec] #[verifier::spec]
    /*@*/ fn bytes(&self) -> Seq<u8>;









    /// The length of the string.
    /*@*/ #[verus_spec(res => ensures res == self.bytes().len())]
    fn len(&self) -> usize;

    /// Slices the string.
    /*@*/ #[verus_spec(res =>
    /*@*/     requires rng.start <= rng.end <= self.bytes().len(),
    /*@*/     ensures res.bytes() == self.bytes().subrange(rng.start as int, rng.end as int))]
    fn slice(&self, rng: Range<usize>) -> &Self;


}
//@@ end
