//@@ include prelude.rs
//@@ include hook.rs
//@@ include algutils.rs
//@@ include types.rs
//@@ include capture.rs
//@@ include iter.rs
//@@ include udiffhdr.rs
fn main() {}
