// unit `itr`: DiffOp / Change / Capture / ChangesIter / AllChangesIter (C13), UnifiedHunkHeader arithmetic (C05)
//@@ include prelude.rs
//@@ include hook.rs
//@@ include algutils.rs
//@@ include types.rs
//@@ include capture.rs
//@@ include iter.rs
//@@ include udiffhdr.rs
//@@ props ^DiffOp::|^Change:: : C13
//@@ props ^Capture::|^DiffHook for Capture::|^lemma_apply_capture|^lemma_evs_of : C13
//@@ props ^ChangesIter::|^AllChangesIter:: : C13 C04
//@@ props ^UnifiedHunkHeader::|^UnifiedDiffHunkRange::|^lemma_hunk_counts$|^lemma_header_counts$|^lemma_count_ : C05
fn main() {}
