// Shared by units `txt` and `txi`: the TextDiff struct with its ghost accessors, Cow::deref, the checker over a relation

verus! {

/*@*/ use std::borrow::Cow;
/*@*/ use std::time::Duration;
/*@*/ use std::ops::Add;

/*@*/ // ---- assumed specifications of dependencies (std) ----
/*@*/ /// the slice a Cow<'_, [T]> derefs to (alloc::borrow::Cow::deref returns the borrowed or the owned data)
/*@*/ pub uninterp spec fn cow_ref<'a, 'b, B: ?Sized + ToOwned>(c: &'b Cow<'a, B>) -> &'b B;
/*@*/ pub assume_specification<'a, 'b, B: ?Sized + ToOwned>[ <Cow<'a, B> as std::ops::Deref>::deref ](c: &'b Cow<'a, B>) -> (r: &'b B)
/*@*/     ensures r == cow_ref(c);
/*@*/ #[verifier::external_body]
/*@*/ pub broadcast proof fn axiom_cow_borrowed<'a, B: ?Sized + ToOwned>(b: &'a B)
/*@*/     ensures #[trigger] cow_ref(&Cow::<'a, B>::Borrowed(b)) == b {}   // Cow::deref: `Borrowed(borrowed) => borrowed`
/*@*/ /// the companion for an owned token vector (`Cow<'_, [T]>`, `<[T] as ToOwned>::Owned = Vec<T>`): Cow::deref is
/*@*/ /// `Owned(ref owned) => owned.borrow()` and `<Vec<T> as Borrow<[T]>>::borrow` is `&self[..]`: the slice the Cow derefs to
/*@*/ /// has the elements of the vector (stated on the views only; nothing is said about addresses or capacity)
/*@*/ #[verifier::external_body]
/*@*/ pub broadcast proof fn axiom_cow_owned_slice<'a, T: Clone>(v: Vec<T>)
/*@*/     ensures (#[trigger] cow_ref(&Cow::<'a, [T]>::Owned(v)))@ == v@ {}

/*@*/ // ---- the exact checker only looks at the item relation inside the box it was started on ----
/*@*/ pub open spec fn cap_post_rel(rel: Rel, or: Range<usize>, nr: Range<usize>, ops: Seq<DiffOp>, strict: bool) -> bool {
/*@*/     let xs = xrun(rel, xcanon(or.start as int, nr.start as int, or.end as int, nr.end as int, strict), evs_of(ops));
/*@*/     xs.ok && xs.oc == or.end && xs.nc == nr.end
/*@*/     && xs.dels == (or.end - or.start) - xs.eqs && xs.inss == (nr.end - nr.start) - xs.eqs
/*@*/ }

//@@ item src/text/mod.rs :: ^pub struct TextDiff\b
/*@*/ #[verifier::reject_recursive_types(T)]
pub struct TextDiff<'old, 'new, 'bufs, T: DiffableStr + ?Sized> {
    old: Cow<'bufs, [&'old T]>,
    new: Cow<'bufs, [&'new T]>,
    ops: Vec<DiffOp>,
    newline_terminated: bool,
    algorithm: Algorithm,
}
/*@*/ impl<'old, 'new, 'bufs, T: DiffableStr + ?Sized> TextDiff<'old, 'new, 'bufs, T> {
/*@*/     /// the two token slices the diff was made of, and what it stores
/*@*/     pub closed spec fn old_toks(&self) -> &[&'old T] { cow_ref(&self.old) }
/*@*/     pub closed spec fn new_toks(&self) -> &[&'new T] { cow_ref(&self.new) }
/*@*/     pub closed spec fn stored_ops(&self) -> Seq<DiffOp> { self.ops@ }
/*@*/     pub closed spec fn nl(&self) -> bool { self.newline_terminated }
/*@*/     pub closed spec fn alg(&self) -> Algorithm { self.algorithm }
/*@*/     /// what TextDiffConfig::diff establishes: the stored ops are a valid normal-form op list over the two token slices (C02)
/*@*/     pub open spec fn wf(&self) -> bool {
/*@*/         cap_post_rel(rel_of(self.old_toks(), self.new_toks()), 0..self.old_toks()@.len() as usize, 0..self.new_toks()@.len() as usize, self.stored_ops(), false)
/*@*/     }
/*@*/ }
//@@ end

} // verus!
