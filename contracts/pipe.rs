//@@ include prelude.rs
//@@ include hook.rs
//@@ include lcsspec.rs
//@@ include algspec.rs
//@@ include algutils.rs
//@@ include xcheck.rs
//@@ include types.rs
//@@ include capture.rs
//@@ include replace.rs
//@@ include myers.rs
//@@ include lcs.rs
//@@ include patience.rs
//@@ include algmod.rs
//@@ include opspec.rs
//@@ include compact_lemmas.rs
//@@ include opspec_lemmas.rs
//@@ include cleanup.rs
//@@ include compact.rs
//@@ include common.rs
//@@ props ^capture_diff : C02 C09 C11 C03
//@@ props ^myers::|^lcs::|^patience::|^diff$|^diff_deadline$|^diff_slices$|^diff_slices_deadline$ : C02 C11
//@@ props ^Compact::|^DiffHook for Compact:: : C02 C03 C09 C10 C11 C08
//@@ props ^cleanup_diff_ops$|^shift_diff_ops_up$|^shift_diff_ops_down$ : C02 C03 C09 C10 C11 C05
//@@ props ^Replace::|^DiffHook for Replace:: : C02 C03 C09 C10 C11
//@@ props ^Capture::|^DiffHook for Capture:: : C02 C09 C11
//@@ props ^DiffOp::apply_to_hook$|^DiffOp::(tag|old_range|new_range|as_tag_tuple|is_empty|shift_left|shift_right|grow_left|grow_right|shrink_left|shrink_right|adjust)$ : C02 C10 C11
fn main() {}
