// Longest common subsequence of two index ranges under the abstract item relation `eqv` (C03)
verus! {

/// length of a longest common subsequence of old[i..oe) and new[j..ne): the classical recurrence.  `eqv` need not be an
/// equivalence relation: matching the two first items when they are related is optimal by an exchange argument.
pub open spec fn lcs_len<Old: Index<usize> + ?Sized, New: Index<usize> + ?Sized>(old: &Old, i: int, oe: int, new: &New, j: int, ne: int) -> int
  where New::Output: PartialEq<Old::Output>
  decreases (if oe > i { oe - i } else { 0 }) + (if ne > j { ne - j } else { 0 })
{
    if i >= oe || j >= ne { 0 }
    else if eqv(old, i, new, j) { 1 + lcs_len(old, i + 1, oe, new, j + 1, ne) }
    else { imax(lcs_len(old, i + 1, oe, new, j, ne), lcs_len(old, i, oe, new, j + 1, ne)) }
}

// ---------------------------------------------------------------------------------------------
// lemmas about `lcs_len` (all proved, by induction along the recurrence; `eqv` is an arbitrary relation)
// ---------------------------------------------------------------------------------------------

/// an empty side has no common subsequence
pub proof fn lemma_lcs_empty<Old: Index<usize> + ?Sized, New: Index<usize> + ?Sized>(old: &Old, i: int, oe: int, new: &New, j: int, ne: int)
  where New::Output: PartialEq<Old::Output>
  requires i >= oe || j >= ne
  ensures lcs_len(old, i, oe, new, j, ne) == 0
{}

/// 0 <= lcs <= min(length of the old range, length of the new range)
pub proof fn lemma_lcs_bounds<Old: Index<usize> + ?Sized, New: Index<usize> + ?Sized>(old: &Old, i: int, oe: int, new: &New, j: int, ne: int)
  where New::Output: PartialEq<Old::Output>
  ensures 0 <= lcs_len(old, i, oe, new, j, ne), lcs_len(old, i, oe, new, j, ne) <= imax(oe - i, 0), lcs_len(old, i, oe, new, j, ne) <= imax(ne - j, 0)
  decreases (if oe > i { oe - i } else { 0 }) + (if ne > j { ne - j } else { 0 })
{
    if i >= oe || j >= ne {
    } else {
        lemma_lcs_bounds(old, i + 1, oe, new, j + 1, ne);
        lemma_lcs_bounds(old, i + 1, oe, new, j, ne);
        lemma_lcs_bounds(old, i, oe, new, j + 1, ne);
    }
}

/// monotonicity at the front: dropping the first item of one side never increases the lcs and decreases it by at most 1
pub proof fn lemma_lcs_front_step<Old: Index<usize> + ?Sized, New: Index<usize> + ?Sized>(old: &Old, i: int, oe: int, new: &New, j: int, ne: int)
  where New::Output: PartialEq<Old::Output>
  ensures
      lcs_len(old, i + 1, oe, new, j, ne) <= lcs_len(old, i, oe, new, j, ne) <= lcs_len(old, i + 1, oe, new, j, ne) + 1,
      lcs_len(old, i, oe, new, j + 1, ne) <= lcs_len(old, i, oe, new, j, ne) <= lcs_len(old, i, oe, new, j + 1, ne) + 1,
  decreases (if oe > i { oe - i } else { 0 }) + (if ne > j { ne - j } else { 0 })
{
    if i >= oe || j >= ne {
        lemma_lcs_empty(old, i + 1, oe, new, j, ne);
        lemma_lcs_empty(old, i, oe, new, j + 1, ne);
    } else {
        // (i+1, j): its j-step relates lcs(i+1, j) and lcs(i+1, j+1);  (i, j+1): its i-step relates lcs(i, j+1) and lcs(i+1, j+1)
        lemma_lcs_front_step(old, i + 1, oe, new, j, ne);
        lemma_lcs_front_step(old, i, oe, new, j + 1, ne);
    }
}

/// monotonicity at the back: one more item at the end of one side never decreases the lcs and increases it by at most 1
pub proof fn lemma_lcs_back_step<Old: Index<usize> + ?Sized, New: Index<usize> + ?Sized>(old: &Old, i: int, oe: int, new: &New, j: int, ne: int)
  where New::Output: PartialEq<Old::Output>
  ensures
      lcs_len(old, i, oe, new, j, ne) <= lcs_len(old, i, oe + 1, new, j, ne) <= lcs_len(old, i, oe, new, j, ne) + 1,
      lcs_len(old, i, oe, new, j, ne) <= lcs_len(old, i, oe, new, j, ne + 1) <= lcs_len(old, i, oe, new, j, ne) + 1,
  decreases (if oe > i { oe - i } else { 0 }) + (if ne > j { ne - j } else { 0 })
{
    lemma_lcs_bounds(old, i, oe + 1, new, j, ne);
    lemma_lcs_bounds(old, i, oe, new, j, ne + 1);
    if i >= oe || j >= ne {
        // the shorter box has lcs 0, the longer one has a side of length at most 1
    } else {
        lemma_lcs_back_step(old, i + 1, oe, new, j + 1, ne);
        lemma_lcs_back_step(old, i + 1, oe, new, j, ne);
        lemma_lcs_back_step(old, i, oe, new, j + 1, ne);
    }
}

/// one related pair appended at the end of both ranges lengthens the lcs by exactly 1
pub proof fn lemma_lcs_snoc_match<Old: Index<usize> + ?Sized, New: Index<usize> + ?Sized>(old: &Old, i: int, oe: int, new: &New, j: int, ne: int)
  where New::Output: PartialEq<Old::Output>
  requires i <= oe, j <= ne, eqv(old, oe, new, ne)
  ensures lcs_len(old, i, oe + 1, new, j, ne + 1) == lcs_len(old, i, oe, new, j, ne) + 1
  decreases (oe - i) + (ne - j)
{
    if i == oe && j == ne {
        lemma_lcs_empty(old, oe + 1, oe + 1, new, ne + 1, ne + 1);
    } else if i == oe {
        lemma_lcs_empty(old, oe, oe, new, j, ne);
        if eqv(old, oe, new, j) {
            lemma_lcs_empty(old, oe + 1, oe + 1, new, j + 1, ne + 1);
        } else {
            lemma_lcs_snoc_match(old, i, oe, new, j + 1, ne);
            lemma_lcs_empty(old, oe + 1, oe + 1, new, j, ne + 1);
            lemma_lcs_empty(old, oe, oe, new, j + 1, ne);
        }
    } else if j == ne {
        lemma_lcs_empty(old, i, oe, new, ne, ne);
        if eqv(old, i, new, ne) {
            lemma_lcs_empty(old, i + 1, oe + 1, new, ne + 1, ne + 1);
        } else {
            lemma_lcs_snoc_match(old, i + 1, oe, new, j, ne);
            lemma_lcs_empty(old, i, oe + 1, new, ne + 1, ne + 1);
            lemma_lcs_empty(old, i + 1, oe, new, ne, ne);
        }
    } else {
        if eqv(old, i, new, j) {
            lemma_lcs_snoc_match(old, i + 1, oe, new, j + 1, ne);
        } else {
            lemma_lcs_snoc_match(old, i + 1, oe, new, j, ne);
            lemma_lcs_snoc_match(old, i, oe, new, j + 1, ne);
        }
    }
}

/// PREFIX stripping: if the first p pairs are related then lcs(box) == p + lcs(box minus that prefix)
pub proof fn lemma_lcs_prefix<Old: Index<usize> + ?Sized, New: Index<usize> + ?Sized>(old: &Old, i: int, oe: int, new: &New, j: int, ne: int, p: int)
  where New::Output: PartialEq<Old::Output>
  requires 0 <= p, i + p <= oe, j + p <= ne,
      forall|t: int| 0 <= t < p ==> #[trigger] relk(rel_of(old, new), i, j, t),
  ensures lcs_len(old, i, oe, new, j, ne) == p + lcs_len(old, i + p, oe, new, j + p, ne)
  decreases p
{
    if p > 0 {
        assert(relk(rel_of(old, new), i, j, 0));
        assert(eqv(old, i, new, j));
        assert forall|t: int| 0 <= t < p - 1 implies #[trigger] relk(rel_of(old, new), i + 1, j + 1, t) by {
            assert(relk(rel_of(old, new), i, j, t + 1));
        }
        lemma_lcs_prefix(old, i + 1, oe, new, j + 1, ne, p - 1);
    }
}

/// SUFFIX stripping: if the last s pairs are related then lcs(box) == lcs(box minus that suffix) + s
pub proof fn lemma_lcs_suffix<Old: Index<usize> + ?Sized, New: Index<usize> + ?Sized>(old: &Old, i: int, oe: int, new: &New, j: int, ne: int, s: int)
  where New::Output: PartialEq<Old::Output>
  requires 0 <= s, i <= oe - s, j <= ne - s,
      forall|t: int| 0 <= t < s ==> #[trigger] relk(rel_of(old, new), oe - s, ne - s, t),
  ensures lcs_len(old, i, oe, new, j, ne) == lcs_len(old, i, oe - s, new, j, ne - s) + s
  decreases s
{
    if s > 0 {
        assert(relk(rel_of(old, new), oe - s, ne - s, s - 1));
        assert(eqv(old, oe - 1, new, ne - 1));
        lemma_lcs_snoc_match(old, i, oe - 1, new, j, ne - 1);
        assert forall|t: int| 0 <= t < s - 1 implies #[trigger] relk(rel_of(old, new), (oe - 1) - (s - 1), (ne - 1) - (s - 1), t) by {
            assert(relk(rel_of(old, new), oe - s, ne - s, t));
        }
        lemma_lcs_suffix(old, i, oe - 1, new, j, ne - 1, s - 1);
    }
}

/// what the algorithms do first: strip a common prefix of length p and then a common suffix of length s
pub proof fn lemma_lcs_strip<Old: Index<usize> + ?Sized, New: Index<usize> + ?Sized>(old: &Old, i: int, oe: int, new: &New, j: int, ne: int, p: int, s: int)
  where New::Output: PartialEq<Old::Output>
  requires 0 <= p, 0 <= s, i + p + s <= oe, j + p + s <= ne,
      forall|t: int| 0 <= t < p ==> #[trigger] relk(rel_of(old, new), i, j, t),
      forall|t: int| 0 <= t < s ==> #[trigger] relk(rel_of(old, new), oe - s, ne - s, t),
  ensures lcs_len(old, i, oe, new, j, ne) == p + lcs_len(old, i + p, oe - s, new, j + p, ne - s) + s
{
    lemma_lcs_prefix(old, i, oe, new, j, ne, p);
    lemma_lcs_suffix(old, i + p, oe, new, j + p, ne, s);
}

} // verus!
