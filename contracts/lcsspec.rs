// Longest common subsequence of two index ranges under the abstract item relation `eqv` (C03)
verus! {

/// length of a longest common subsequence of old[i..oe) and new[j..ne): the classical recurrence.  `eqv` need not be an
/// equivalence relation: matching the two first items when they are related is optimal by an exchange argument.
pub open spec fn lcs_len<Old: Index<usize> + ?Sized, New: Index<usize> + ?Sized>(old: &Old, i: int, oe: int, new: &New, j: int, ne: int) -> int
  where New::Output: PartialEq<Old::Output>
  decreases (if oe > i { oe - i } else { 0 }) + (if ne > j { ne - j } else { 0 })
{
    if i >= oe || j >= ne { 0 }
    else if eqv(old, i, new, j) { 1 + lcs_len(old, i + 1, oe, new, j + 1, ne) }
    else { imax(lcs_len(old, i + 1, oe, new, j, ne), lcs_len(old, i, oe, new, j + 1, ne)) }
}

} // verus!
