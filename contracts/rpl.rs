//@@ include prelude.rs
//@@ include hook.rs
//@@ include lcsspec.rs
//@@ include algspec.rs
//@@ include xcheck.rs
//@@ include replace.rs
//@@ props ^Replace::|^DiffHook for Replace:: : C10 C09 C08
fn main() {}
