// src/algorithms/lcs.rs
verus! {
pub mod lcs {
use super::*;

//@@ item src/algorithms/lcs.rs :: ^fn make_table\b rw=R0,R8
/*@*/ /// every stored value is bounded by the remaining lengths (so `+ 1` cannot overflow)
/*@*/ spec fn tbl_bounded(t: Map<(usize, usize), u32>, new_len: int, old_len: int) -> bool {
/*@*/     forall|k: (usize, usize)| #[trigger] t.contains_key(k) ==> k.0 < new_len && k.1 < old_len && t[k] <= new_len - k.0 && t[k] <= old_len - k.1
/*@*/ }
fn make_table<Old, New>(
    old: &Old,
    old_range: Range<usize>,
    new: &New,
    new_range: Range<usize>,
    deadline: Option<Instant>,
) -> (res: Option<BTreeMap<(usize, usize), u32>>)
where
    Old: Index<usize> + ?Sized,
    New: Index<usize> + ?Sized,
    New::Output: PartialEq<Old::Output>,
/*@*/     requires box_pre(old, old_range, new, new_range),
/*@*/         (old_range.end - old_range.start) <= u32::MAX || (new_range.end - new_range.start) <= u32::MAX,
{
    /*@*/ broadcast use {axiom_pure_index, axiom_pure_eq};
    let old_len = old_range.len();
    let new_len = new_range.len();
    let mut table = BTreeMap::new();

    for i in (0..new_len).rev()
    /*@*/     invariant
    /*@*/         old_len == old_range.end - old_range.start, new_len == new_range.end - new_range.start,
    /*@*/         box_pre(old, old_range, new, new_range),
    /*@*/         old_len <= u32::MAX || new_len <= u32::MAX,
    /*@*/         tbl_bounded(table@, new_len as int, old_len as int),
    {
        // are we running for too long?  give up on the table
        if deadline_exceeded(deadline) {
            return None;
        }

        for j in (0..old_len).rev()
        /*@*/     invariant
        /*@*/         old_len == old_range.end - old_range.start, new_len == new_range.end - new_range.start,
        /*@*/         box_pre(old, old_range, new, new_range), i < new_len,
        /*@*/         old_len <= u32::MAX || new_len <= u32::MAX,
        /*@*/         tbl_bounded(table@, new_len as int, old_len as int),
        {
            let val = if new[new_range.start + i] == old[old_range.start + j] {
                table.get(&(i + 1, j + 1)).unwrap_or(&0) + 1
            } else {
                *table
                    .get(&(i + 1, j))
                    .unwrap_or(&0)
                    .max(table.get(&(i, j + 1)).unwrap_or(&0))
            };
            if val > 0 {
                table.insert((i, j), val);
            }
        }
    }

    Some(table)
}
//@@ end

//@@ item src/algorithms/lcs.rs :: ^pub fn diff_deadline\b rw=R0,R8
pub fn diff_deadline<Old, New, D>(
    d: &mut D,
    old: &Old,
    old_range: Range<usize>,
    new: &New,
    new_range: Range<usize>,
    deadline: Option<Instant>,
) -> (res: Result<(), D::Error>)
where
    Old: Index<usize> + ?Sized,
    New: Index<usize> + ?Sized,
    D: DiffHook,
    New::Output: PartialEq<Old::Output>,
/*@*/     requires diff_pre(*vstd::prelude::old(d), old, old_range, new, new_range, alg_lvl(deadline)),
/*@*/         (old_range.end - old_range.start) <= u32::MAX || (new_range.end - new_range.start) <= u32::MAX,   // table cells are u32
/*@*/     ensures
/*@*/         err_post(*vstd::prelude::old(d), *final(d), res),
/*@*/         (*final(d)).fobs() == (*vstd::prelude::old(d)).fobs(),
/*@*/         seg_post(*vstd::prelude::old(d), *final(d), old, old_range, new, new_range, alg_lvl(deadline), false, fin::<D>(), res.is_ok()),
{
    /*@*/ broadcast use {axiom_pure_index, axiom_pure_eq};
    /*@*/ let ghost rel = rel_of(old, new); let ghost lvl = alg_lvl(deadline);
    /*@*/ let ghost o0 = old_range.start as int; let ghost n0 = new_range.start as int;
    /*@*/ let ghost oe0 = old_range.end as int; let ghost ne0 = new_range.end as int;
    /*@*/ let ghost d0 = *d; let ghost t0 = d.trace(); let ghost rs0 = d.rely_st(); let ghost r1 = d.rely_rel();
    /*@*/ let ghost mut s: Seq<Ev> = Seq::empty();
    /*@*/ let ghost mut oc: int = o0; let ghost mut nc: int = n0;
    /*@*/ proof { lemma_seg_empty(rel, lvl, o0, n0); lemma_run_empty(r1, rs0); assert(t0 + s =~= t0); assert(alg_inv(*d, d0, t0, s, rel, lvl, rs0, o0, n0, oc, nc)); }
    if is_empty_range(&new_range) {
        if !is_empty_range(&old_range) {
            /*@*/ proof { let e = Ev::Delete(old_range.start, (old_range.end - old_range.start) as usize, new_range.start);  if d0.relies() { pre_call(rel, r1, lvl, s, e, o0, n0, oc, nc, rs0); } }
            d.delete(old_range.start, old_range.len(), new_range.start)?;
            /*@*/ proof { let e = Ev::Delete(old_range.start, (old_range.end - old_range.start) as usize, new_range.start); post_call(rel, r1, lvl, s, e, o0, n0, oc, nc, rs0); assert((t0 + s).push(e) =~= t0 + s.push(e)); s = s.push(e); oc = oc + (old_range.end - old_range.start);
            /*@*/     assert(alg_inv(*d, d0, t0, s, rel, lvl, rs0, o0, n0, oc, nc)); }
        }
        /*@*/ proof { assert(oc == oe0 && nc == ne0); assert(seg(old, new, lvl, s, o0, n0, oe0, ne0)); if d0.relies() { lemma_seg_any(rel, r1, lvl, s, o0, n0, oe0, ne0, rs0); } lemma_run_fin::<D>(r1, rs0, s); }
        d.finish()?;
        return Ok(());
    } else if is_empty_range(&old_range) {
        /*@*/ proof { let e = Ev::Insert(old_range.start, new_range.start, (new_range.end - new_range.start) as usize);  if d0.relies() { pre_call(rel, r1, lvl, s, e, o0, n0, oc, nc, rs0); } }
        d.insert(old_range.start, new_range.start, new_range.len())?;
        /*@*/ proof { let e = Ev::Insert(old_range.start, new_range.start, (new_range.end - new_range.start) as usize); post_call(rel, r1, lvl, s, e, o0, n0, oc, nc, rs0); assert((t0 + s).push(e) =~= t0 + s.push(e)); s = s.push(e); nc = nc + (new_range.end - new_range.start);
        /*@*/     assert(alg_inv(*d, d0, t0, s, rel, lvl, rs0, o0, n0, oc, nc)); }
        /*@*/ proof { assert(oc == oe0 && nc == ne0); assert(seg(old, new, lvl, s, o0, n0, oe0, ne0)); if d0.relies() { lemma_seg_any(rel, r1, lvl, s, o0, n0, oe0, ne0, rs0); } lemma_run_fin::<D>(r1, rs0, s); }
        d.finish()?;
        return Ok(());
    }

    let common_prefix_len = common_prefix_len(old, old_range.clone(), new, new_range.clone());
    let common_suffix_len = common_suffix_len(
        old,
        old_range.start + common_prefix_len..old_range.end,
        new,
        new_range.start + common_prefix_len..new_range.end,
    );

    // If the sequences are not different then we're done
    if common_prefix_len == old_range.len() && (old_range.len() == new_range.len()) {
        /*@*/ proof { let e = Ev::Equal(old_range.start, new_range.start, (old_range.end - old_range.start) as usize);  if d0.relies() { pre_call(rel, r1, lvl, s, e, o0, n0, oc, nc, rs0); } }
        d.equal(old_range.start, new_range.start, old_range.len())?;
        /*@*/ proof { let e = Ev::Equal(old_range.start, new_range.start, (old_range.end - old_range.start) as usize); post_call(rel, r1, lvl, s, e, o0, n0, oc, nc, rs0); assert((t0 + s).push(e) =~= t0 + s.push(e)); s = s.push(e); oc = oc + (old_range.end - old_range.start); nc = nc + (old_range.end - old_range.start);
        /*@*/     assert(alg_inv(*d, d0, t0, s, rel, lvl, rs0, o0, n0, oc, nc)); }
        /*@*/ proof { assert(oc == oe0 && nc == ne0); assert(seg(old, new, lvl, s, o0, n0, oe0, ne0)); if d0.relies() { lemma_seg_any(rel, r1, lvl, s, o0, n0, oe0, ne0, rs0); } lemma_run_fin::<D>(r1, rs0, s); }
        d.finish()?;
        return Ok(());
    }

    let maybe_table = make_table(
        old,
        (old_range.start + common_prefix_len)..(old_range.end - common_suffix_len),
        new,
        (new_range.start + common_prefix_len)..(new_range.end - common_suffix_len),
        deadline,
    );
    let mut old_idx = 0;
    let mut new_idx = 0;
    let new_len = new_range.len() - common_prefix_len - common_suffix_len;
    let old_len = old_range.len() - common_prefix_len - common_suffix_len;

    if common_prefix_len > 0 {
        /*@*/ proof { let e = Ev::Equal(old_range.start, new_range.start, common_prefix_len);  if d0.relies() { pre_call(rel, r1, lvl, s, e, o0, n0, oc, nc, rs0); } }
        d.equal(old_range.start, new_range.start, common_prefix_len)?;
        /*@*/ proof { let e = Ev::Equal(old_range.start, new_range.start, common_prefix_len); post_call(rel, r1, lvl, s, e, o0, n0, oc, nc, rs0); assert((t0 + s).push(e) =~= t0 + s.push(e)); s = s.push(e); oc = oc + common_prefix_len; nc = nc + common_prefix_len;
        /*@*/     assert(alg_inv(*d, d0, t0, s, rel, lvl, rs0, o0, n0, oc, nc)); }
    }

    if let Some(table) = maybe_table {
        while new_idx < new_len && old_idx < old_len
        /*@*/     invariant
        /*@*/         alg_inv(*d, d0, t0, s, rel, lvl, rs0, o0, n0, oc, nc), (*d).fobs() == d0.fobs(),
        /*@*/         box_pre(old, old_range, new, new_range), rely_pre(d0, old, old_range, new, new_range, lvl),
        /*@*/         rel == rel_of(old, new), lvl == alg_lvl(deadline), r1 == d0.rely_rel(), o0 == old_range.start, n0 == new_range.start,
        /*@*/         d0 == *vstd::prelude::old(d), rs0 == d0.rely_st(), t0 == d0.trace(), oe0 == old_range.end, ne0 == new_range.end,
        /*@*/         old_len == old_range.end - old_range.start - common_prefix_len - common_suffix_len,
        /*@*/         new_len == new_range.end - new_range.start - common_prefix_len - common_suffix_len,
        /*@*/         old_idx <= old_len, new_idx <= new_len,
        /*@*/         oc == old_range.start + common_prefix_len + old_idx, nc == new_range.start + common_prefix_len + new_idx,
        /*@*/     decreases (new_len - new_idx) + (old_len - old_idx),
        {
            /*@*/ broadcast use {axiom_pure_index, axiom_pure_eq};
            let old_orig_idx = old_range.start + common_prefix_len + old_idx;
            let new_orig_idx = new_range.start + common_prefix_len + new_idx;

            if new[new_orig_idx] == old[old_orig_idx] {
                /*@*/ proof { let e = Ev::Equal(old_orig_idx, new_orig_idx, 1); assert(eqv(old, old_orig_idx as int, new, new_orig_idx as int)); assert(relk(rel, old_orig_idx as int, new_orig_idx as int, 0)); if d0.relies() { pre_call(rel, r1, lvl, s, e, o0, n0, oc, nc, rs0); } }
                d.equal(old_orig_idx, new_orig_idx, 1)?;
                /*@*/ proof { let e = Ev::Equal(old_orig_idx, new_orig_idx, 1); post_call(rel, r1, lvl, s, e, o0, n0, oc, nc, rs0); assert((t0 + s).push(e) =~= t0 + s.push(e)); s = s.push(e); oc = oc + 1; nc = nc + 1;
                /*@*/     assert(alg_inv(*d, d0, t0, s, rel, lvl, rs0, o0, n0, oc, nc)); }
                old_idx += 1;
                new_idx += 1;
            } else if table.get(&(new_idx, old_idx + 1)).unwrap_or(&0)
                >= table.get(&(new_idx + 1, old_idx)).unwrap_or(&0)
            {
                /*@*/ proof { let e = Ev::Delete(old_orig_idx, 1, new_orig_idx);  if d0.relies() { pre_call(rel, r1, lvl, s, e, o0, n0, oc, nc, rs0); } }
                d.delete(old_orig_idx, 1, new_orig_idx)?;
                /*@*/ proof { let e = Ev::Delete(old_orig_idx, 1, new_orig_idx); post_call(rel, r1, lvl, s, e, o0, n0, oc, nc, rs0); assert((t0 + s).push(e) =~= t0 + s.push(e)); s = s.push(e); oc = oc + 1;
                /*@*/     assert(alg_inv(*d, d0, t0, s, rel, lvl, rs0, o0, n0, oc, nc)); }
                old_idx += 1;
            } else {
                /*@*/ proof { let e = Ev::Insert(old_orig_idx, new_orig_idx, 1);  if d0.relies() { pre_call(rel, r1, lvl, s, e, o0, n0, oc, nc, rs0); } }
                d.insert(old_orig_idx, new_orig_idx, 1)?;
                /*@*/ proof { let e = Ev::Insert(old_orig_idx, new_orig_idx, 1); post_call(rel, r1, lvl, s, e, o0, n0, oc, nc, rs0); assert((t0 + s).push(e) =~= t0 + s.push(e)); s = s.push(e); nc = nc + 1;
                /*@*/     assert(alg_inv(*d, d0, t0, s, rel, lvl, rs0, o0, n0, oc, nc)); }
                new_idx += 1;
            }
        }
    }
    // without a table (deadline reached) the remaining items are deleted and
    // inserted by the code below.

    if old_idx < old_len {
        /*@*/ proof { let e = Ev::Delete((old_range.start + common_prefix_len + old_idx) as usize, (old_len - old_idx) as usize, (new_range.start + common_prefix_len + new_idx) as usize);  if d0.relies() { pre_call(rel, r1, lvl, s, e, o0, n0, oc, nc, rs0); } }
        d.delete(
            old_range.start + common_prefix_len + old_idx,
            old_len - old_idx,
            new_range.start + common_prefix_len + new_idx,
        )?;
        /*@*/ proof { let e = Ev::Delete((old_range.start + common_prefix_len + old_idx) as usize, (old_len - old_idx) as usize, (new_range.start + common_prefix_len + new_idx) as usize); post_call(rel, r1, lvl, s, e, o0, n0, oc, nc, rs0); assert((t0 + s).push(e) =~= t0 + s.push(e)); s = s.push(e); oc = oc + (old_len - old_idx);
        /*@*/     assert(alg_inv(*d, d0, t0, s, rel, lvl, rs0, o0, n0, oc, nc)); }
        old_idx += old_len - old_idx;
    }

    if new_idx < new_len {
        /*@*/ proof { let e = Ev::Insert((old_range.start + common_prefix_len + old_idx) as usize, (new_range.start + common_prefix_len + new_idx) as usize, (new_len - new_idx) as usize);  if d0.relies() { pre_call(rel, r1, lvl, s, e, o0, n0, oc, nc, rs0); } }
        d.insert(
            old_range.start + common_prefix_len + old_idx,
            new_range.start + common_prefix_len + new_idx,
            new_len - new_idx,
        )?;
        /*@*/ proof { let e = Ev::Insert((old_range.start + common_prefix_len + old_idx) as usize, (new_range.start + common_prefix_len + new_idx) as usize, (new_len - new_idx) as usize); post_call(rel, r1, lvl, s, e, o0, n0, oc, nc, rs0); assert((t0 + s).push(e) =~= t0 + s.push(e)); s = s.push(e); nc = nc + (new_len - new_idx);
        /*@*/     assert(alg_inv(*d, d0, t0, s, rel, lvl, rs0, o0, n0, oc, nc)); }
    }

    if common_suffix_len > 0 {
        /*@*/ proof { let e = Ev::Equal((old_range.start + old_len + common_prefix_len) as usize, (new_range.start + new_len + common_prefix_len) as usize, common_suffix_len);  if d0.relies() { pre_call(rel, r1, lvl, s, e, o0, n0, oc, nc, rs0); } }
        d.equal(
            old_range.start + old_len + common_prefix_len,
            new_range.start + new_len + common_prefix_len,
            common_suffix_len,
        )?;
        /*@*/ proof { let e = Ev::Equal((old_range.start + old_len + common_prefix_len) as usize, (new_range.start + new_len + common_prefix_len) as usize, common_suffix_len); post_call(rel, r1, lvl, s, e, o0, n0, oc, nc, rs0); assert((t0 + s).push(e) =~= t0 + s.push(e)); s = s.push(e); oc = oc + common_suffix_len; nc = nc + common_suffix_len;
        /*@*/     assert(alg_inv(*d, d0, t0, s, rel, lvl, rs0, o0, n0, oc, nc)); }
    }

    /*@*/ proof { assert(oc == oe0 && nc == ne0); assert(seg(old, new, lvl, s, o0, n0, oe0, ne0)); if d0.relies() { lemma_seg_any(rel, r1, lvl, s, o0, n0, oe0, ne0, rs0); } lemma_run_fin::<D>(r1, rs0, s); }
    d.finish()
}
//@@ end

//@@ item src/algorithms/lcs.rs :: ^pub fn diff\b rw=R0
pub fn diff<Old, New, D>(
    d: &mut D,
    old: &Old,
    old_range: Range<usize>,
    new: &New,
    new_range: Range<usize>,
) -> (res: Result<(), D::Error>)
where
    Old: Index<usize> + ?Sized,
    New: Index<usize> + ?Sized,
    D: DiffHook,
    New::Output: PartialEq<Old::Output>,
/*@*/     requires diff_pre(*vstd::prelude::old(d), old, old_range, new, new_range, alg_lvl(None)),
/*@*/         (old_range.end - old_range.start) <= u32::MAX || (new_range.end - new_range.start) <= u32::MAX,   // table cells are u32
/*@*/     ensures
/*@*/         err_post(*vstd::prelude::old(d), *final(d), res),
/*@*/         (*final(d)).fobs() == (*vstd::prelude::old(d)).fobs(),
/*@*/         seg_post(*vstd::prelude::old(d), *final(d), old, old_range, new, new_range, alg_lvl(None), false, fin::<D>(), res.is_ok()),
{
    diff_deadline(d, old, old_range, new, new_range, None)
}
//@@ end

} // mod lcs
} // verus!
