//@@ include prelude.rs
//@@ include lcsspec.rs
//@@ include lcsmatch.rs
//@@ props ^lemma_lcs_|^lemma_matching_ : C03
fn main() {}
