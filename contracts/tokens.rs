// src/text/abstraction.rs: the `str` tokenizers tokenize_lines / tokenize_lines_and_newlines / tokenize_words
// (property C06).  The code lines of the two `//@@ item` sections are re-extracted from /repo on every build.
//
// Rewrites (tools/rewrites.py):
//   R0/R8  result named `res`, body / loop braces on their own line (no semantics)
//   R11    `X.peekable()` -> `iter_peekable(X)` (one-line wrapper below; Iterator::peekable is a provided trait method,
//          Verus cannot attach a specification to it)
//   R12    `o.map_or(false, |x| B)` -> `match (o) { Some(x) => B, None => false }` (definition of Option::map_or)
//   R13    `while let Some(&(_, c)) = E {` -> `while let Some(t__r) = E { let (_, c) = *t__r;` (reference patterns)
// The trait `DiffableStr` with its TRAIT-LEVEL contract is declared in diffablestr.rs (shared with units txt / rmp / txi,
// included before this file): every impl method below has to establish the trait's clauses (tokens partition
// `self.bytes()`, are non-empty, `self.tok_shape(kind, res@)`) in addition to the impl-level clauses stated here; the
// impl defines `bytes()` := `spec_bytes()` and `tok_shape` := the line / run / one-char shape predicates.
// `tokenize_chars` (iterator `map` + `collect` with a closure, probes/tok_tokenize_chars_map_collect.rs) keeps its real
// body under `external_body`: its contract (trait clauses with `tok_shape(Chars, ..)` = `chars_spec`) is ASSUMED
// (bounded stand-in: replay mode C06).  `len` is verified; `slice` (`&self[rng]`) keeps an ASSUMED contract (H-DS of
// remap.rs: the trait-level precondition does not say that `rng` falls on char boundaries, where std panics).
// Not in this unit: the `unicode` tokenizers.  The `[u8]` implementations are in tokens_bytes.rs (same unit).
//
// Vocabulary that comes from vstd (trusted as part of the verifier's library, not declared here):
//   `s@ : Seq<char>` and `s.spec_bytes() : Seq<u8>` with `s.spec_bytes() == encode_utf8(s@)`, `vstd::utf8::*`
//   (encode_utf8 / is_char_boundary and their lemmas), the contracts of `str::len`, `char::len_utf8`
//   (= `encode_scalar(c as u32).len()`), `char::is_whitespace` (= `vstd::std_specs::char::is_white_space`),
//   `SliceIndex<str>::index` for Range / RangeInclusive / RangeFrom (`in_bounds` = both ends on char boundaries;
//   result bytes = the sub-range of the bytes), `Vec::{new,push}`, `Iterator::next` (prophetic `remaining()`).
use vstd::prelude::*;
use vstd::string::*;
use vstd::utf8::*;
use vstd::slice::SliceIndexSpec;
use core::slice::SliceIndex;
use core::ops::Index;
use core::ops::Range;
use core::str::CharIndices;
use core::iter::Peekable;
use std::hash::Hash;

verus! {

// ---------------------------------------------------------------------------------------------
// 1. ASSUMED CONTRACTS OF DEPENDENCIES (std).  Everything trusted by this file is in this block.
// ---------------------------------------------------------------------------------------------

/// vstd's ghost view of an iterator: the items it is going to yield (`IteratorSpec::remaining`), and whether it
/// follows the iterator laws.  (Wrapped because importing `IteratorSpec` would make `iter.peek()` in the code
/// resolve to the spec function `IteratorSpec::peek(int)`.)
#[verifier::prophetic]
pub open spec fn it_rem<I: Iterator>(it: &I) -> Seq<I::Item> { vstd::std_specs::iter::IteratorSpec::remaining(it) }
#[verifier::prophetic]
pub open spec fn it_laws<I: Iterator>(it: &I) -> bool { vstd::std_specs::iter::IteratorSpec::obeys_prophetic_iter_laws(it) }

// std type, opaque to the verifier
#[verifier::external_type_specification]
#[verifier::external_body]
pub struct ExCharIndices<'a>(CharIndices<'a>);

// std type, opaque to the verifier
#[verifier::external_type_specification]
#[verifier::external_body]
#[verifier::reject_recursive_types(I)]
pub struct ExPeekable<I: Iterator>(Peekable<I>);

/// byte offset of the i-th char of a string with chars `cs`: the length of the UTF-8 encoding of the first i chars
#[verifier::opaque]
pub open spec fn off(cs: Seq<char>, i: int) -> int { encode_utf8(cs.take(i)).len() as int }

/// what `char_indices` yields: (byte offset, char) for every char, in order
pub open spec fn char_pairs(cs: Seq<char>) -> Seq<(usize, char)> {
    Seq::new(cs.len(), |i: int| (off(cs, i) as usize, cs[i]))
}

/// ASSUMED (std `str::char_indices`, doc: "Returns an iterator over the chars of a string slice, and their
/// positions ... The iterator yields tuples. The position is first, the char is second", positions are byte
/// offsets): the iterator is well-behaved and yields exactly (byte offset of char i, char i) for i = 0, 1, ..
pub assume_specification<'a>[str::char_indices](s: &'a str) -> (r: CharIndices<'a>)
    ensures it_laws(&r), it_rem(&r) == char_pairs(s@);

/// ASSUMED (std `Iterator::peekable`, a provided trait method: the code calls it through this wrapper, rewrite
/// R11): the peekable adapter yields the same items as the iterator it wraps.
#[verifier::external_body]
pub fn iter_peekable<I: Iterator>(it: I) -> (r: Peekable<I>)
    ensures it_laws(&r) == it_laws(&it), it_rem(&r) == it_rem(&it),
{ it.peekable() }

/// ASSUMED (std `Peekable::peek`, doc: "Returns a reference to the next() value without advancing the iterator"):
/// the result is the item `next` would return; the items still to come are unchanged.
pub assume_specification<I: Iterator>[Peekable::<I>::peek](p: &mut Peekable<I>) -> (r: Option<&I::Item>)
    ensures it_laws(old(p)) ==> it_laws(final(p)) && it_rem(final(p)) == it_rem(old(p))
        && (if it_rem(old(p)).len() > 0 { r == Some(&it_rem(old(p))[0]) } else { r is None });

/// ASSUMED (std `impl<I: SliceIndex<str>> Index<I> for str`, whose body is `index.index(self)`): `&s[range]` is
/// `SliceIndex::index(range, s)`; the postcondition is the one vstd gives for `SliceIndex<str>::index`
/// (result bytes = bytes[range]).  The precondition (range ends on char boundaries, `in_bounds`) comes from vstd's
/// `IndexSpec::index_req`; a violated precondition is std's panic "byte index is not a char boundary / out of bounds".
pub assume_specification<I: SliceIndex<str>>[<str as Index<I>>::index](s: &str, i: I) -> (r: &I::Output)
    ensures i.index_postcondition(s, r);

/// ASSUMED (Rust language: the length of a `str` is a `usize`; vstd states `str::len` as
/// `spec_bytes().len() as usize` and leaves this bound implicit).
#[verifier::external_body]
pub proof fn axiom_str_len_fits_usize(s: &str)
    ensures s.spec_bytes().len() <= usize::MAX
{}

// ---------------------------------------------------------------------------------------------
// 2. Specification vocabulary (from the property statement)
// ---------------------------------------------------------------------------------------------
pub open spec fn is_nl(c: char) -> bool { c == '\r' || c == '\n' }

/// the character class that delimits runs: whitespace (words) or line-break characters (lines-and-newlines)
#[verifier::opaque]
pub open spec fn cls(words: bool, c: char) -> bool {
    if words { vstd::std_specs::char::is_white_space(c) } else { is_nl(c) }
}

/// cut points (char indices): 0 = c[0] < c[1] < .. < c.last() = n
pub open spec fn cuts_ok(c: Seq<int>, n: int) -> bool {
    &&& c.len() >= 1 && c[0] == 0 && c.last() == n
    &&& forall|i: int, j: int| 0 <= i < j < c.len() ==> #[trigger] c[i] < #[trigger] c[j]
}

/// the token t is the piece of s that consists of the chars a..b: as chars and byte for byte
pub open spec fn tok_is(s: &str, t: &str, a: int, b: int) -> bool {
    &&& t@ == s@.subrange(a, b)
    &&& t.spec_bytes() == s.spec_bytes().subrange(off(s@, a), off(s@, b))
}

/// token k is the piece between the cut points c[k] and c[k+1]
pub open spec fn tokens_at(s: &str, toks: Seq<&str>, c: Seq<int>) -> bool {
    &&& toks.len() + 1 == c.len()
    &&& forall|k: int| 0 <= k < toks.len() ==> tok_is(s, #[trigger] toks[k], c[k], c[k + 1])
}

/// (P) the tokens are non-empty, contiguous pieces that start at 0 and end at the end of the input
pub open spec fn partition(s: &str, toks: Seq<&str>, c: Seq<int>) -> bool {
    cuts_ok(c, s@.len() as int) && tokens_at(s, toks, c)
}

/// length of the line terminator at the end of the token cs[a..b): "\r\n" -> 2, "\n" or "\r" -> 1, none -> 0
pub open spec fn term_len(cs: Seq<char>, a: int, b: int) -> int {
    if b - a >= 2 && cs[b - 2] == '\r' && cs[b - 1] == '\n' { 2 }
    else if b - a >= 1 && is_nl(cs[b - 1]) { 1 }
    else { 0 }
}

/// (L) the line token cs[a..b): no line-break character except one terminator (LF, CRLF or lone CR) at its end;
/// only the last token may lack the terminator; a CR that is followed by LF in the input is never a terminator of
/// its own ("\r\n" is one terminator)
pub open spec fn line_tok_ok(cs: Seq<char>, a: int, b: int) -> bool {
    &&& forall|j: int| a <= j < b - term_len(cs, a, b) ==> !is_nl(#[trigger] cs[j])
    &&& term_len(cs, a, b) == 0 ==> b == cs.len()
    &&& cs[b - 1] == '\r' ==> b == cs.len() || cs[b] != '\n'
}

/// (W)/(N) the run token cs[a..b): all chars in one class, and the char after it (the first char of the next
/// token) is in the other class -- runs are maximal, adjacent tokens differ in class
pub open spec fn run_tok_ok(cs: Seq<char>, w: bool, a: int, b: int) -> bool {
    &&& forall|j: int| a <= j < b ==> cls(w, #[trigger] cs[j]) == cls(w, cs[a])
    &&& b < cs.len() ==> cls(w, cs[b]) != cls(w, cs[a])
}

pub open spec fn lines_spec(s: &str, toks: Seq<&str>, c: Seq<int>) -> bool {
    &&& partition(s, toks, c)
    &&& forall|k: int| 0 <= k < toks.len() ==> #[trigger] line_tok_ok(s@, c[k], c[k + 1])
}

pub open spec fn runs_spec(s: &str, w: bool, toks: Seq<&str>, c: Seq<int>) -> bool {
    &&& partition(s, toks, c)
    &&& forall|k: int| 0 <= k < toks.len() ==> #[trigger] run_tok_ok(s@, w, c[k], c[k + 1])
}

/// tokenize_chars: token k is the k-th char (cut points 0, 1, .., n)
pub open spec fn chars_spec(s: &str, toks: Seq<&str>) -> bool {
    &&& toks.len() == s@.len()
    &&& forall|k: int| 0 <= k < toks.len() ==> tok_is(s, #[trigger] toks[k], k, k + 1)
}

/// concatenation of the tokens, as bytes / as chars
pub open spec fn cat_bytes(toks: Seq<&str>) -> Seq<u8> decreases toks.len() {
    if toks.len() == 0 { Seq::<u8>::empty() } else { cat_bytes(toks.drop_last()) + toks.last().spec_bytes() }
}
pub open spec fn cat_chars(toks: Seq<&str>) -> Seq<char> decreases toks.len() {
    if toks.len() == 0 { Seq::<char>::empty() } else { cat_chars(toks.drop_last()) + toks.last()@ }
}

pub open spec fn pin_toks(v: &Vec<&str>) -> bool { true }

// ---------------------------------------------------------------------------------------------
// 3. Lemmas (proved; UTF-8 facts come from vstd::utf8)
// ---------------------------------------------------------------------------------------------

/// offsets: 0 at the start, the byte length at the end
pub proof fn lemma_tok_off_ends(cs: Seq<char>)
    ensures off(cs, 0) == 0, off(cs, cs.len() as int) == encode_utf8(cs).len(),
{
    reveal(off);
    assert(cs.take(0) =~= Seq::<char>::empty());
    assert(cs.take(cs.len() as int) =~= cs);
    encode_utf8_concat(Seq::<char>::empty(), Seq::<char>::empty());
    assert(Seq::<char>::empty() + Seq::<char>::empty() =~= Seq::<char>::empty());
}

/// the offset advances by the UTF-8 width of the char (1..=4)
pub proof fn lemma_tok_off_step(cs: Seq<char>, i: int)
    requires 0 <= i < cs.len(),
    ensures off(cs, i + 1) == off(cs, i) + encode_scalar(cs[i] as u32).len(),
        1 <= encode_scalar(cs[i] as u32).len() <= 4,
{
    reveal(off);
    assert(cs.take(i + 1) =~= cs.take(i).push(cs[i]));
    encode_utf8_push(cs.take(i), cs[i]);
}

pub proof fn lemma_tok_off_mono(cs: Seq<char>, i: int, j: int)
    requires 0 <= i <= j <= cs.len(),
    ensures off(cs, i) <= off(cs, j), i < j ==> off(cs, i) < off(cs, j), 0 <= off(cs, i), off(cs, j) <= encode_utf8(cs).len(),
{
    reveal(off);
    lemma_tok_off_ends(cs);
    if i < j { lemma_encode_utf8_len_strictly_monotonic(cs, i, j); }
    if 0 < i { lemma_encode_utf8_len_strictly_monotonic(cs, 0, i); }
    if j < cs.len() { lemma_encode_utf8_len_strictly_monotonic(cs, j, cs.len() as int); }
}

/// every char offset (and the end) is a char boundary of the encoded string
pub proof fn lemma_tok_boundary(cs: Seq<char>, i: int)
    requires 0 <= i <= cs.len(),
    ensures is_char_boundary(encode_utf8(cs), off(cs, i)), 0 <= off(cs, i) <= encode_utf8(cs).len(),
{
    reveal(off);
    let b = encode_utf8(cs);
    encode_utf8_valid_utf8(cs);
    let h = cs.take(i); let t = cs.skip(i);
    assert(h + t =~= cs);
    encode_utf8_concat(h, t);
    if i == cs.len() {
        assert(cs.take(i) =~= cs);
        is_char_boundary_start_end_of_seq(b);
    } else {
        let bt = encode_utf8(t);
        encode_utf8_valid_utf8(t);
        encode_utf8_first_scalar(t);
        assert(bt.len() > 0);
        is_char_boundary_start_end_of_seq(bt);
        is_char_boundary_iff_not_is_continuation_byte(bt, 0);
        assert(b[off(cs, i)] == bt[0]);
        is_char_boundary_iff_not_is_continuation_byte(b, off(cs, i));
    }
}

/// the bytes between two char offsets are the encoding of the chars between them
pub proof fn lemma_tok_sub_enc(cs: Seq<char>, a: int, b: int)
    requires 0 <= a <= b <= cs.len(),
    ensures encode_utf8(cs).subrange(off(cs, a), off(cs, b)) == encode_utf8(cs.subrange(a, b)),
        off(cs, b) - off(cs, a) == encode_utf8(cs.subrange(a, b)).len(),
{
    reveal(off);
    let h = cs.take(a); let m = cs.subrange(a, b); let t = cs.skip(b);
    assert(h + m =~= cs.take(b));
    assert(cs.take(b) + t =~= cs);
    encode_utf8_concat(h, m);
    encode_utf8_concat(cs.take(b), t);
    assert(encode_utf8(cs).subrange(off(cs, a), off(cs, b)) =~= encode_utf8(m));
}

/// a slice of s whose bytes are the bytes between the offsets of chars a and b is the piece a..b of s
pub proof fn lemma_tok_slice(s: &str, t: &str, a: int, b: int)
    requires 0 <= a <= b <= s@.len(), t.spec_bytes() == s.spec_bytes().subrange(off(s@, a), off(s@, b)),
    ensures tok_is(s, t, a, b),
{
    lemma_tok_sub_enc(s@, a, b);
    encode_utf8_decode_utf8(t@);
    encode_utf8_decode_utf8(s@.subrange(a, b));
}

/// `cls` unfolded (it is opaque to keep the whitespace table out of the loop queries)
pub proof fn lemma_tok_cls(c: char)
    ensures cls(true, c) == vstd::std_specs::char::is_white_space(c), cls(false, c) == is_nl(c),
{ reveal(cls); }

/// CR and LF are one byte wide
pub proof fn lemma_tok_nl_width(c: char)
    requires is_nl(c),
    ensures encode_scalar(c as u32).len() == 1,
{}

/// what the iterator yields at position k, with the offsets as machine integers
pub proof fn lemma_tok_pair(cs: Seq<char>, k: int)
    requires 0 <= k < cs.len(), encode_utf8(cs).len() <= usize::MAX,
    ensures char_pairs(cs)[k].1 == cs[k], char_pairs(cs)[k].0 as int == off(cs, k),
        char_pairs(cs).skip(k)[0] == char_pairs(cs)[k], char_pairs(cs).skip(k).skip(1) == char_pairs(cs).skip(k + 1),
        off(cs, k + 1) == off(cs, k) + encode_scalar(cs[k] as u32).len(), 1 <= encode_scalar(cs[k] as u32).len() <= 4,
        0 <= off(cs, k) < off(cs, k + 1) <= encode_utf8(cs).len(),
{
    lemma_tok_off_step(cs, k);
    lemma_tok_off_mono(cs, k, k + 1);
    assert(char_pairs(cs).skip(k).skip(1) =~= char_pairs(cs).skip(k + 1));
}

pub proof fn lemma_tok_cuts_bounds(c: Seq<int>, n: int, k: int)
    requires cuts_ok(c, n), 0 <= k < c.len(),
    ensures 0 <= c[k] <= n, k + 1 < c.len() ==> c[k] < c[k + 1],
{
    if 0 < k { assert(c[0] < c[k]); }
    if k < c.len() - 1 { assert(c[k] < c[c.len() - 1]); assert(c[k] < c[k + 1]); }
}

pub proof fn lemma_tok_seq_join<A>(q: Seq<A>, x: int, y: int)
    requires 0 <= x <= y <= q.len(),
    ensures q.subrange(0, x) + q.subrange(x, y) == q.subrange(0, y),
{
    assert(q.subrange(0, x) + q.subrange(x, y) =~= q.subrange(0, y));
}

/// token k is the piece bo[k]..bo[k+1] of the bytes and the piece c[k]..c[k+1] of the chars
pub open spec fn piece(toks: Seq<&str>, bytes: Seq<u8>, cs: Seq<char>, bo: Seq<int>, c: Seq<int>, k: int) -> bool {
    &&& 0 <= bo[k] <= bo[k + 1] <= bytes.len() && toks[k].spec_bytes() == bytes.subrange(bo[k], bo[k + 1])
    &&& 0 <= c[k] <= c[k + 1] <= cs.len() && toks[k]@ == cs.subrange(c[k], c[k + 1])
}

/// contiguous pieces that start at 0 concatenate to a prefix
pub proof fn lemma_tok_cat_prefix(toks: Seq<&str>, bytes: Seq<u8>, cs: Seq<char>, bo: Seq<int>, c: Seq<int>, m: int)
    requires 0 <= m <= toks.len(), bo.len() == toks.len() + 1, c.len() == toks.len() + 1, bo[0] == 0, c[0] == 0,
        forall|k: int| 0 <= k < toks.len() ==> #[trigger] piece(toks, bytes, cs, bo, c, k),
    ensures cat_bytes(toks.take(m)) == bytes.subrange(0, bo[m]), cat_chars(toks.take(m)) == cs.subrange(0, c[m]),
        0 <= bo[m] <= bytes.len(), 0 <= c[m] <= cs.len(),
    decreases m,
{
    if m == 0 {
        assert(toks.take(0) =~= Seq::<&str>::empty());
        assert(bytes.subrange(0, 0) =~= Seq::<u8>::empty());
        assert(cs.subrange(0, 0) =~= Seq::<char>::empty());
    } else {
        lemma_tok_cat_prefix(toks, bytes, cs, bo, c, m - 1);
        assert(piece(toks, bytes, cs, bo, c, m - 1));
        let p = toks.take(m);
        let t = toks[m - 1];
        assert(p.drop_last() =~= toks.take(m - 1));
        assert(p.last() == t);
        assert(cat_bytes(p) == cat_bytes(p.drop_last()) + p.last().spec_bytes());
        assert(cat_chars(p) == cat_chars(p.drop_last()) + p.last()@);
        lemma_tok_seq_join(bytes, bo[m - 1], bo[m]);
        lemma_tok_seq_join(cs, c[m - 1], c[m]);
    }
}

/// byte cut points of the char cut points c
pub open spec fn byte_cuts(cs: Seq<char>, c: Seq<int>) -> Seq<int> { Seq::new(c.len(), |k: int| off(cs, c[k])) }

pub proof fn lemma_tok_partition_shape(s: &str, toks: Seq<&str>, c: Seq<int>)
    requires partition(s, toks, c),
    ensures c.len() == toks.len() + 1, c[0] == 0, c[toks.len() as int] == s@.len(),
        byte_cuts(s@, c).len() == c.len(), byte_cuts(s@, c)[0] == 0, byte_cuts(s@, c)[toks.len() as int] == s.spec_bytes().len(),
{
    lemma_tok_off_ends(s@);
}

pub proof fn lemma_tok_partition_piece(s: &str, toks: Seq<&str>, c: Seq<int>, k: int)
    requires partition(s, toks, c), 0 <= k < toks.len(),
    ensures piece(toks, s.spec_bytes(), s@, byte_cuts(s@, c), c, k), toks[k].spec_bytes().len() > 0, toks[k]@.len() > 0,
{
    let cs = s@;
    lemma_tok_off_ends(cs);
    assert(tok_is(s, toks[k], c[k], c[k + 1]));
    lemma_tok_cuts_bounds(c, cs.len() as int, k);
    lemma_tok_cuts_bounds(c, cs.len() as int, k + 1);
    lemma_tok_off_mono(cs, c[k], c[k + 1]);
}

/// (P) spelled out: a partition has non-empty tokens whose concatenation is the input, byte for byte (and char
/// for char)
pub proof fn lemma_tok_partition_concat(s: &str, toks: Seq<&str>, c: Seq<int>)
    requires partition(s, toks, c),
    ensures cat_bytes(toks) == s.spec_bytes(), cat_chars(toks) == s@,
        forall|k: int| 0 <= k < toks.len() ==> (#[trigger] toks[k]).spec_bytes().len() > 0 && toks[k]@.len() > 0,
{
    hide(partition); hide(piece); hide(byte_cuts);
    let cs = s@;
    let bytes = s.spec_bytes();
    let bo = byte_cuts(cs, c);
    lemma_tok_partition_shape(s, toks, c);
    assert forall|k: int| 0 <= k < toks.len() implies #[trigger] piece(toks, bytes, cs, bo, c, k) by {
        lemma_tok_partition_piece(s, toks, c, k);
    }
    assert forall|k: int| 0 <= k < toks.len() implies (#[trigger] toks[k]).spec_bytes().len() > 0 && toks[k]@.len() > 0 by {
        lemma_tok_partition_piece(s, toks, c, k);
    }
    lemma_tok_cat_prefix(toks, bytes, cs, bo, c, toks.len() as int);
    assert(toks.take(toks.len() as int) =~= toks);
    assert(cs.subrange(0, cs.len() as int) =~= cs);
    assert(bytes.subrange(0, bytes.len() as int) =~= bytes);
}

// ---------------------------------------------------------------------------------------------
// 3b. The specifications determine the tokens (so two implementations that meet them agree)
// ---------------------------------------------------------------------------------------------

/// a line that starts at a cannot end in two places
pub proof fn lemma_tok_line_end_unique(cs: Seq<char>, a: int, b1: int, b2: int)
    requires 0 <= a < b1 < b2 <= cs.len(), line_tok_ok(cs, a, b1), line_tok_ok(cs, a, b2),
    ensures false,
{
    // the shorter token is not the last one, so it ends in a terminator; its last char is a line-break character
    assert(term_len(cs, a, b1) != 0);
    assert(is_nl(cs[b1 - 1]));
    // inside the longer token that character can only be the CR of a final CRLF: then CR LF was split
    if b1 - 1 < b2 - term_len(cs, a, b2) {
        assert(!is_nl(cs[b1 - 1]));
    }
}

/// a run that starts at a cannot end in two places
pub proof fn lemma_tok_run_end_unique(cs: Seq<char>, w: bool, a: int, b1: int, b2: int)
    requires 0 <= a < b1 < b2 <= cs.len(), run_tok_ok(cs, w, a, b1), run_tok_ok(cs, w, a, b2),
    ensures false,
{
    assert(cls(w, cs[b1]) == cls(w, cs[a]));
}

/// two cut lists whose pieces satisfy a predicate that fixes the end of a piece given its start are equal
pub proof fn lemma_tok_cuts_unique(n: int, c1: Seq<int>, c2: Seq<int>, ok: spec_fn(int, int) -> bool)
    requires cuts_ok(c1, n), cuts_ok(c2, n),
        forall|k: int| 0 <= k < c1.len() - 1 ==> #[trigger] ok(c1[k], c1[k + 1]),
        forall|k: int| 0 <= k < c2.len() - 1 ==> #[trigger] ok(c2[k], c2[k + 1]),
        forall|a: int, b1: int, b2: int| 0 <= a < b1 < b2 <= n && #[trigger] ok(a, b1) && #[trigger] ok(a, b2) ==> false,
    ensures c1 == c2,
{
    lemma_tok_cuts_unique_prefix(n, c1, c2, ok, (if c1.len() <= c2.len() { c1.len() } else { c2.len() }) as int - 1);
    let l = (if c1.len() <= c2.len() { c1.len() } else { c2.len() }) as int;
    if c1.len() < c2.len() { lemma_tok_cuts_bounds(c2, n, l - 1); lemma_tok_cuts_bounds(c2, n, l); }
    if c2.len() < c1.len() { lemma_tok_cuts_bounds(c1, n, l - 1); lemma_tok_cuts_bounds(c1, n, l); }
    assert(c1.len() == c2.len());
    assert forall|k: int| 0 <= k < c1.len() implies c1[k] == c2[k] by {
        lemma_tok_cuts_unique_prefix(n, c1, c2, ok, k);
    }
    assert(c1 =~= c2);
}

pub proof fn lemma_tok_cuts_unique_prefix(n: int, c1: Seq<int>, c2: Seq<int>, ok: spec_fn(int, int) -> bool, k: int)
    requires cuts_ok(c1, n), cuts_ok(c2, n), 0 <= k < c1.len(), k < c2.len(),
        forall|k: int| 0 <= k < c1.len() - 1 ==> #[trigger] ok(c1[k], c1[k + 1]),
        forall|k: int| 0 <= k < c2.len() - 1 ==> #[trigger] ok(c2[k], c2[k + 1]),
        forall|a: int, b1: int, b2: int| 0 <= a < b1 < b2 <= n && #[trigger] ok(a, b1) && #[trigger] ok(a, b2) ==> false,
    ensures c1[k] == c2[k],
    decreases k,
{
    if k > 0 {
        lemma_tok_cuts_unique_prefix(n, c1, c2, ok, k - 1);
        lemma_tok_cuts_bounds(c1, n, k - 1); lemma_tok_cuts_bounds(c1, n, k);
        lemma_tok_cuts_bounds(c2, n, k - 1); lemma_tok_cuts_bounds(c2, n, k);
        assert(ok(c1[k - 1], c1[k - 1 + 1]));
        assert(ok(c2[k - 1], c2[k - 1 + 1]));
    }
}

/// (L) determines the line tokens: two token lists that meet `lines_spec` for the same input are the same, token
/// by token, as chars and as bytes
pub proof fn lemma_tok_lines_unique(s: &str, t1: Seq<&str>, c1: Seq<int>, t2: Seq<&str>, c2: Seq<int>)
    requires lines_spec(s, t1, c1), lines_spec(s, t2, c2),
    ensures c1 == c2, t1.len() == t2.len(),
        forall|k: int| 0 <= k < t1.len() ==> (#[trigger] t1[k])@ == t2[k]@ && t1[k].spec_bytes() == t2[k].spec_bytes(),
{
    let cs = s@;
    let n = cs.len() as int;
    let ok = |a: int, b: int| line_tok_ok(cs, a, b);
    assert forall|a: int, b1: int, b2: int| 0 <= a < b1 < b2 <= n && #[trigger] ok(a, b1) && #[trigger] ok(a, b2) implies false by {
        lemma_tok_line_end_unique(cs, a, b1, b2);
    }
    assert forall|k: int| 0 <= k < c1.len() - 1 implies #[trigger] ok(c1[k], c1[k + 1]) by { assert(line_tok_ok(cs, c1[k], c1[k + 1])); }
    assert forall|k: int| 0 <= k < c2.len() - 1 implies #[trigger] ok(c2[k], c2[k + 1]) by { assert(line_tok_ok(cs, c2[k], c2[k + 1])); }
    lemma_tok_cuts_unique(n, c1, c2, ok);
    assert forall|k: int| 0 <= k < t1.len() implies (#[trigger] t1[k])@ == t2[k]@ && t1[k].spec_bytes() == t2[k].spec_bytes() by {
        assert(tok_is(s, t1[k], c1[k], c1[k + 1]));
        assert(tok_is(s, t2[k], c2[k], c2[k + 1]));
    }
}

/// (W)/(N) determine the run tokens
pub proof fn lemma_tok_runs_unique(s: &str, w: bool, t1: Seq<&str>, c1: Seq<int>, t2: Seq<&str>, c2: Seq<int>)
    requires runs_spec(s, w, t1, c1), runs_spec(s, w, t2, c2),
    ensures c1 == c2, t1.len() == t2.len(),
        forall|k: int| 0 <= k < t1.len() ==> (#[trigger] t1[k])@ == t2[k]@ && t1[k].spec_bytes() == t2[k].spec_bytes(),
{
    let cs = s@;
    let n = cs.len() as int;
    let ok = |a: int, b: int| run_tok_ok(cs, w, a, b);
    assert forall|a: int, b1: int, b2: int| 0 <= a < b1 < b2 <= n && #[trigger] ok(a, b1) && #[trigger] ok(a, b2) implies false by {
        lemma_tok_run_end_unique(cs, w, a, b1, b2);
    }
    assert forall|k: int| 0 <= k < c1.len() - 1 implies #[trigger] ok(c1[k], c1[k + 1]) by { assert(run_tok_ok(cs, w, c1[k], c1[k + 1])); }
    assert forall|k: int| 0 <= k < c2.len() - 1 implies #[trigger] ok(c2[k], c2[k + 1]) by { assert(run_tok_ok(cs, w, c2[k], c2[k + 1])); }
    lemma_tok_cuts_unique(n, c1, c2, ok);
    assert forall|k: int| 0 <= k < t1.len() implies (#[trigger] t1[k])@ == t2[k]@ && t1[k].spec_bytes() == t2[k].spec_bytes() by {
        assert(tok_is(s, t1[k], c1[k], c1[k + 1]));
        assert(tok_is(s, t2[k], c2[k], c2[k + 1]));
    }
}

// ---------------------------------------------------------------------------------------------
// 4. The code of /repo
// ---------------------------------------------------------------------------------------------

//@@ item src/text/abstraction.rs :: ^impl DiffableStr for str only=fn\s+(tokenize_(lines|lines_and_newlines|words|chars)|len|slice)\( rw=R0,R8,R13,R12,R11
impl DiffableStr for str {
    /*@*/ /// the byte view of a str: its UTF-8 bytes
    /*@*/ open spec fn bytes(&self) -> Seq<u8> { self.spec_bytes() }
    /*@*/ /// the shape clauses of the four tokenizers (see lines_spec / runs_spec / chars_spec)
    /*@*/ open spec fn tok_shape(&self, kind: TokKind, toks: Seq<&str>) -> bool {
    /*@*/     match kind {
    /*@*/         TokKind::Lines => exists|c: Seq<int>| lines_spec(self, toks, c),
    /*@*/         TokKind::LinesAndNewlines => exists|c: Seq<int>| runs_spec(self, false, toks, c),
    /*@*/         TokKind::Words => exists|c: Seq<int>| runs_spec(self, true, toks, c),
    /*@*/         TokKind::Chars => chars_spec(self, toks),
    /*@*/     }
    /*@*/ }
    fn tokenize_lines(&self) -> (res: Vec<&Self>)
    /*@*/     ensures
    /*@*/         // (P) non-empty tokens whose concatenation is the input, byte for byte
    /*@*/         cat_bytes(res@) == self.spec_bytes(),
    /*@*/         forall|k: int| 0 <= k < res@.len() ==> (#[trigger] res@[k]).spec_bytes().len() > 0,
    /*@*/         // (P)+(L) contiguous pieces cut at char positions, every piece a line (see line_tok_ok)
    /*@*/         exists|c: Seq<int>| lines_spec(self, res@, c),
    {
        /*@*/ let ghost cs = self@; let ghost n = cs.len() as int;
        /*@*/ proof { axiom_str_len_fits_usize(self); lemma_tok_off_ends(cs); }
        let mut iter = iter_peekable(self.char_indices());
        let mut last_pos = 0;
        let mut lines = vec![];
        /*@*/ proof { let _ = pin_toks(&lines); }
        /*@*/ let ghost mut k: int = 0; let ghost mut cut: Seq<int> = seq![0int];

        while let Some((idx, c)) = iter.next()
        /*@*/     invariant
        /*@*/         cs == self@, n == cs.len(), self.spec_bytes() == encode_utf8(cs), encode_utf8(cs).len() <= usize::MAX,
        /*@*/         off(cs, n) == encode_utf8(cs).len(),
        /*@*/         it_laws(&iter), 0 <= k <= n,
        /*@*/         it_rem(&iter) == char_pairs(cs).skip(k),                    // the iterator is at char k
        /*@*/         cut.len() == lines@.len() + 1, cut[0] == 0,
        /*@*/         0 <= cut.last() <= k,                                       // the pending line starts at char cut.last()
        /*@*/         forall|i: int, j: int| 0 <= i < j < cut.len() ==> #[trigger] cut[i] < #[trigger] cut[j],
        /*@*/         last_pos as int == off(cs, cut.last()),                     // last_pos is the byte offset of the pending line
        /*@*/         forall|j: int| 0 <= j < lines@.len() ==> tok_is(self, #[trigger] lines@[j], cut[j], cut[j + 1]),
        /*@*/         forall|j: int| 0 <= j < lines@.len() ==> #[trigger] line_tok_ok(cs, cut[j], cut[j + 1]),
        /*@*/         forall|j: int| cut.last() <= j < k ==> !is_nl(#[trigger] cs[j]),   // no line break in the pending line
        /*@*/     ensures k == n,
        /*@*/     decreases n - k,
        {
            /*@*/ let ghost a = cut.last();
            /*@*/ proof {
            /*@*/     lemma_tok_pair(cs, k);
            /*@*/     lemma_tok_boundary(cs, a);
            /*@*/     lemma_tok_off_mono(cs, a, k);
            /*@*/ }
            /*@*/ assert(c == cs[k] && idx as int == off(cs, k));
            if c == '\r' {
                /*@*/ proof { lemma_tok_nl_width(c); if k + 1 < n { lemma_tok_pair(cs, k + 1); lemma_tok_nl_width('\n'); } }
                if match (iter.peek()) { Some(x) => x.1 == '\n', None => false } {
                    /*@*/ assert(k + 1 < n && cs[k + 1] == '\n');
                    /*@*/ proof { lemma_tok_boundary(cs, k + 2); }
                    lines.push(&self[last_pos..=idx + 1]);
                    iter.next();
                    last_pos = idx + 2;
                    /*@*/ proof {
                    /*@*/     lemma_tok_slice(self, lines@.last(), a, k + 2);
                    /*@*/     cut = cut.push(k + 2); k = k + 2;
                    /*@*/     assert(term_len(cs, a, k) == 2);
                    /*@*/     assert(line_tok_ok(cs, a, k));
                    /*@*/ }
                } else {
                    /*@*/ assert(k + 1 == n || cs[k + 1] != '\n');
                    /*@*/ proof { lemma_tok_boundary(cs, k + 1); }
                    lines.push(&self[last_pos..=idx]);
                    last_pos = idx + 1;
                    /*@*/ proof {
                    /*@*/     lemma_tok_slice(self, lines@.last(), a, k + 1);
                    /*@*/     cut = cut.push(k + 1); k = k + 1;
                    /*@*/     assert(term_len(cs, a, k) == 1);
                    /*@*/     assert(line_tok_ok(cs, a, k));
                    /*@*/ }
                }
            } else if c == '\n' {
                /*@*/ proof { lemma_tok_nl_width(c); lemma_tok_boundary(cs, k + 1); }
                lines.push(&self[last_pos..=idx]);
                last_pos = idx + 1;
                /*@*/ proof {
                /*@*/     lemma_tok_slice(self, lines@.last(), a, k + 1);
                /*@*/     cut = cut.push(k + 1); k = k + 1;
                /*@*/     assert(term_len(cs, a, k) == 1);
                /*@*/     assert(line_tok_ok(cs, a, k));
                /*@*/ }
            }
            /*@*/ else { proof { k = k + 1; } }
        }

        /*@*/ let ghost a = cut.last();
        /*@*/ proof { lemma_tok_off_mono(cs, a, n); lemma_tok_boundary(cs, a); lemma_tok_boundary(cs, n); }
        if last_pos < self.len() {
            lines.push(&self[last_pos..]);
            /*@*/ proof {
            /*@*/     lemma_tok_slice(self, lines@.last(), a, n);
            /*@*/     cut = cut.push(n);
            /*@*/     assert(term_len(cs, a, n) == 0);
            /*@*/     assert(line_tok_ok(cs, a, n));
            /*@*/ }
        }

        /*@*/ proof {
        /*@*/     assert(cut.last() == n);
        /*@*/     assert(lines_spec(self, lines@, cut));
        /*@*/     lemma_tok_partition_concat(self, lines@, cut);
        /*@*/     // the trait-level clauses (diffablestr.rs)
        /*@*/     lemma_tok_partition_bridge(self, lines@);
        /*@*/     assert(Seq::new(lines@.len(), |i: int| <str as DiffableStr>::bytes(lines@[i])) =~= str_tok_bytes(lines@));
        /*@*/ }
        lines
    }

    fn tokenize_lines_and_newlines(&self) -> (res: Vec<&Self>)
    /*@*/     ensures
    /*@*/         // (P) non-empty tokens whose concatenation is the input, byte for byte
    /*@*/         cat_bytes(res@) == self.spec_bytes(),
    /*@*/         forall|k: int| 0 <= k < res@.len() ==> (#[trigger] res@[k]).spec_bytes().len() > 0,
    /*@*/         // (P)+(N) a maximal run of line-break / non-line-break chars (see run_tok_ok)
    /*@*/         exists|c: Seq<int>| runs_spec(self, false, res@, c),
    {
        /*@*/ let ghost cs = self@; let ghost n = cs.len() as int;
        /*@*/ proof { axiom_str_len_fits_usize(self); lemma_tok_off_ends(cs); }
        let mut rv = vec![];
        let mut iter = iter_peekable(self.char_indices());
        /*@*/ proof { let _ = pin_toks(&rv); }
        /*@*/ let ghost mut k: int = 0; let ghost mut cut: Seq<int> = seq![0int];

        while let Some((idx, c)) = iter.next()
        /*@*/     invariant
        /*@*/         cs == self@, n == cs.len(), self.spec_bytes() == encode_utf8(cs), encode_utf8(cs).len() <= usize::MAX,
        /*@*/         off(cs, n) == encode_utf8(cs).len(),
        /*@*/         it_laws(&iter), 0 <= k <= n,
        /*@*/         it_rem(&iter) == char_pairs(cs).skip(k),                    // the iterator is at char k
        /*@*/         cut.len() == rv@.len() + 1, cut[0] == 0,
        /*@*/         cut.last() == k,                                            // the tokens so far end at char k
        /*@*/         forall|i: int, j: int| 0 <= i < j < cut.len() ==> #[trigger] cut[i] < #[trigger] cut[j],
        /*@*/         forall|j: int| 0 <= j < rv@.len() ==> tok_is(self, #[trigger] rv@[j], cut[j], cut[j + 1]),
        /*@*/         forall|j: int| 0 <= j < rv@.len() ==> #[trigger] run_tok_ok(cs, false, cut[j], cut[j + 1]),
        /*@*/     ensures k == n,
        /*@*/     decreases n - k,
        {
            /*@*/ proof { lemma_tok_pair(cs, k); lemma_tok_boundary(cs, k); lemma_tok_cls(cs[k]); }
            /*@*/ let ghost k0 = k; let ghost mut m: int = k + 1;
            let is_newline = c == '\r' || c == '\n';
            let start = idx;
            let mut end = idx + c.len_utf8();
            while let Some(t__r) = iter.peek()
            /*@*/     invariant
            /*@*/         cs == self@, n == cs.len(), encode_utf8(cs).len() <= usize::MAX, off(cs, n) == encode_utf8(cs).len(),
            /*@*/         it_laws(&iter), 0 <= k0 < m <= n,
            /*@*/         it_rem(&iter) == char_pairs(cs).skip(m),                // the iterator is at char m
            /*@*/         end as int == off(cs, m),                              // end is the byte offset of char m
            /*@*/         is_newline == cls(false, cs[k0]),
            /*@*/         forall|j: int| k0 <= j < m ==> cls(false, #[trigger] cs[j]) == cls(false, cs[k0]),   // one class so far
            /*@*/     ensures m == n || cls(false, cs[m]) != cls(false, cs[k0]),             // the run is maximal
            /*@*/     decreases n - m,
            {
                /*@*/ proof { lemma_tok_pair(cs, m); lemma_tok_cls(cs[m]); }
                let (_, next_char) = *t__r;
                /*@*/ assert(next_char == cs[m]);
                if (next_char == '\r' || next_char == '\n') != is_newline {
                    break;
                }
                iter.next();
                end += next_char.len_utf8();
                /*@*/ proof { m = m + 1; }
            }
            /*@*/ proof { lemma_tok_boundary(cs, m); lemma_tok_off_mono(cs, k0, m); }
            rv.push(&self[start..end]);
            /*@*/ proof {
            /*@*/     lemma_tok_slice(self, rv@.last(), k0, m);
            /*@*/     cut = cut.push(m); k = m;
            /*@*/     assert(run_tok_ok(cs, false, k0, m));
            /*@*/ }
        }

        /*@*/ proof {
        /*@*/     assert(runs_spec(self, false, rv@, cut));
        /*@*/     lemma_tok_partition_concat(self, rv@, cut);
        /*@*/     // the trait-level clauses (diffablestr.rs)
        /*@*/     lemma_tok_partition_bridge(self, rv@);
        /*@*/     assert(Seq::new(rv@.len(), |i: int| <str as DiffableStr>::bytes(rv@[i])) =~= str_tok_bytes(rv@));
        /*@*/ }
        rv
    }

    fn tokenize_words(&self) -> (res: Vec<&Self>)
    /*@*/     ensures
    /*@*/         // (P) non-empty tokens whose concatenation is the input, byte for byte
    /*@*/         cat_bytes(res@) == self.spec_bytes(),
    /*@*/         forall|k: int| 0 <= k < res@.len() ==> (#[trigger] res@[k]).spec_bytes().len() > 0,
    /*@*/         // (P)+(W) a maximal run of whitespace / non-whitespace chars (see run_tok_ok)
    /*@*/         exists|c: Seq<int>| runs_spec(self, true, res@, c),
    {
        /*@*/ let ghost cs = self@; let ghost n = cs.len() as int;
        /*@*/ proof { axiom_str_len_fits_usize(self); lemma_tok_off_ends(cs); }
        let mut iter = iter_peekable(self.char_indices());
        let mut rv = vec![];
        /*@*/ proof { let _ = pin_toks(&rv); }
        /*@*/ let ghost mut k: int = 0; let ghost mut cut: Seq<int> = seq![0int];

        while let Some((idx, c)) = iter.next()
        /*@*/     invariant
        /*@*/         cs == self@, n == cs.len(), self.spec_bytes() == encode_utf8(cs), encode_utf8(cs).len() <= usize::MAX,
        /*@*/         off(cs, n) == encode_utf8(cs).len(),
        /*@*/         it_laws(&iter), 0 <= k <= n,
        /*@*/         it_rem(&iter) == char_pairs(cs).skip(k),                    // the iterator is at char k
        /*@*/         cut.len() == rv@.len() + 1, cut[0] == 0,
        /*@*/         cut.last() == k,                                            // the tokens so far end at char k
        /*@*/         forall|i: int, j: int| 0 <= i < j < cut.len() ==> #[trigger] cut[i] < #[trigger] cut[j],
        /*@*/         forall|j: int| 0 <= j < rv@.len() ==> tok_is(self, #[trigger] rv@[j], cut[j], cut[j + 1]),
        /*@*/         forall|j: int| 0 <= j < rv@.len() ==> #[trigger] run_tok_ok(cs, true, cut[j], cut[j + 1]),
        /*@*/     ensures k == n,
        /*@*/     decreases n - k,
        {
            /*@*/ proof { lemma_tok_pair(cs, k); lemma_tok_boundary(cs, k); lemma_tok_cls(cs[k]); }
            /*@*/ let ghost k0 = k; let ghost mut m: int = k + 1;
            let is_whitespace = c.is_whitespace();
            let start = idx;
            let mut end = idx + c.len_utf8();
            while let Some(t__r) = iter.peek()
            /*@*/     invariant
            /*@*/         cs == self@, n == cs.len(), encode_utf8(cs).len() <= usize::MAX, off(cs, n) == encode_utf8(cs).len(),
            /*@*/         it_laws(&iter), 0 <= k0 < m <= n,
            /*@*/         it_rem(&iter) == char_pairs(cs).skip(m),                // the iterator is at char m
            /*@*/         end as int == off(cs, m),                              // end is the byte offset of char m
            /*@*/         is_whitespace == cls(true, cs[k0]),
            /*@*/         forall|j: int| k0 <= j < m ==> cls(true, #[trigger] cs[j]) == cls(true, cs[k0]),   // one class so far
            /*@*/     ensures m == n || cls(true, cs[m]) != cls(true, cs[k0]),             // the run is maximal
            /*@*/     decreases n - m,
            {
                /*@*/ proof { lemma_tok_pair(cs, m); lemma_tok_cls(cs[m]); }
                let (_, next_char) = *t__r;
                /*@*/ assert(next_char == cs[m]);
                if next_char.is_whitespace() != is_whitespace {
                    break;
                }
                iter.next();
                end += next_char.len_utf8();
                /*@*/ proof { m = m + 1; }
            }
            /*@*/ proof { lemma_tok_boundary(cs, m); lemma_tok_off_mono(cs, k0, m); }
            rv.push(&self[start..end]);
            /*@*/ proof {
            /*@*/     lemma_tok_slice(self, rv@.last(), k0, m);
            /*@*/     cut = cut.push(m); k = m;
            /*@*/     assert(run_tok_ok(cs, true, k0, m));
            /*@*/ }
        }

        /*@*/ proof {
        /*@*/     assert(runs_spec(self, true, rv@, cut));
        /*@*/     lemma_tok_partition_concat(self, rv@, cut);
        /*@*/     // the trait-level clauses (diffablestr.rs)
        /*@*/     lemma_tok_partition_bridge(self, rv@);
        /*@*/     assert(Seq::new(rv@.len(), |i: int| <str as DiffableStr>::bytes(rv@[i])) =~= str_tok_bytes(rv@));
        /*@*/ }
        rv
    }

    /*@*/ // ASSUMED contract (the trait-level clauses of diffablestr.rs with tok_shape(Chars, ..) = chars_spec: one token per
    /*@*/ // char): the body - iterator `map(closure)` + `collect()` - is outside Verus' subset
    /*@*/ // (probes/tok_tokenize_chars_map_collect.rs).  Bounded stand-in: replay mode C06.
    /*@*/ #[verifier::external_body]
    fn tokenize_chars(&self) -> (res: Vec<&Self>)
    {
        self.char_indices()
            .map(move |(i, c)| &self[i..i + c.len_utf8()])
            .collect()
    }






    fn len(&self) -> (res: usize)
    {
        /*@*/ proof { axiom_str_len_fits_usize(self); }
        str::len(self)
    }

    /*@*/ // ASSUMED contract (H-DS, the trait-level clause `res.bytes() == self.bytes().subrange(rng.start, rng.end)` under
    /*@*/ // `rng.start <= rng.end <= len`): `&self[rng]` on a str panics unless both ends are char boundaries, which the
    /*@*/ // abstract byte view of the trait cannot say (a trait impl cannot add `requires`).  With that extra
    /*@*/ // precondition the clause is vstd's postcondition of `SliceIndex<str>::index`.
    /*@*/ #[verifier::external_body]
    fn slice(&self, rng: Range<usize>) -> (res: &Self)
    {
        &self[rng]
    }

}
//@@ end

} // verus!
