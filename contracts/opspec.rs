// Op lists (Seq<DiffOp>) as edit scripts: cursor-wise validity, exactness, totals (C02 C09 C10 C11)
verus! {

pub open spec fn olen(op: DiffOp) -> int { op_old_len(op) as int }
pub open spec fn nlen(op: DiffOp) -> int { op_new_len(op) as int }
pub open spec fn elen(op: DiffOp) -> int { match op { DiffOp::Equal { old_index, new_index, len } => len as int, _ => 0 } }

/// old / new / equal items consumed by the first i ops
pub open spec fn osum(ops: Seq<DiffOp>, i: int) -> int decreases i { if i <= 0 { 0 } else { osum(ops, i - 1) + olen(ops[i - 1]) } }
pub open spec fn nsum(ops: Seq<DiffOp>, i: int) -> int decreases i { if i <= 0 { 0 } else { nsum(ops, i - 1) + nlen(ops[i - 1]) } }
pub open spec fn esum(ops: Seq<DiffOp>, i: int) -> int decreases i { if i <= 0 { 0 } else { esum(ops, i - 1) + elen(ops[i - 1]) } }

/// the box an op list is a script for: it starts at (o0, n0) and must stay below (oe, ne)
pub struct OBox { pub o0: int, pub n0: int, pub oe: int, pub ne: int }

pub open spec fn box_wf(b: OBox) -> bool { 0 <= b.o0 <= b.oe <= usize::MAX && 0 <= b.n0 <= b.ne <= usize::MAX }

/// op i sits where the ops before it stopped (cursor side of every op; with `exact` also the carried index of
/// a Delete / Insert), stays inside the box, is not a Replace, and an Equal pairs element-wise equal items
pub open spec fn op_ok<Old: Index<usize> + ?Sized, New: Index<usize> + ?Sized>(old: &Old, new: &New, ops: Seq<DiffOp>, i: int, b: OBox, exact: bool) -> bool
  where New::Output: PartialEq<Old::Output>
{
    let op = ops[i]; let co = b.o0 + osum(ops, i); let cn = b.n0 + nsum(ops, i);
    &&& co + olen(op) <= b.oe && cn + nlen(op) <= b.ne
    &&& match op {
        DiffOp::Equal { old_index, new_index, len } => old_index == co && new_index == cn
            && (forall|k: int| 0 <= k < len ==> #[trigger] relk(rel_of(old, new), co, cn, k)),
        DiffOp::Delete { old_index, old_len, new_index } => old_index == co && (exact ==> new_index == cn),
        DiffOp::Insert { old_index, new_index, new_len } => new_index == cn && (exact ==> old_index == co),
        DiffOp::Replace { old_index, old_len, new_index, new_len } => false,
    }
}

/// a (possibly partial) script: every op is placed correctly
pub open spec fn ops_ok<Old: Index<usize> + ?Sized, New: Index<usize> + ?Sized>(old: &Old, new: &New, ops: Seq<DiffOp>, b: OBox, exact: bool) -> bool
  where New::Output: PartialEq<Old::Output>
{
    box_wf(b) && (forall|i: int| 0 <= i < ops.len() ==> #[trigger] op_ok(old, new, ops, i, b, exact))
}

pub open spec fn no_empty(ops: Seq<DiffOp>) -> bool { forall|i: int| 0 <= i < ops.len() ==> olen(#[trigger] ops[i]) + nlen(ops[i]) > 0 }

/// a complete script for the box
pub open spec fn ops_full<Old: Index<usize> + ?Sized, New: Index<usize> + ?Sized>(old: &Old, new: &New, ops: Seq<DiffOp>, b: OBox, exact: bool) -> bool
  where New::Output: PartialEq<Old::Output>
{
    ops_ok(old, new, ops, b, exact) && no_empty(ops)
    && b.o0 + osum(ops, ops.len() as int) == b.oe && b.n0 + nsum(ops, ops.len() as int) == b.ne
}

/// the index a Delete / Insert carries for the other side leaves room for the equal items before and after it, so that
/// sliding it across them neither underflows nor overflows (implied by within-run validity and by exactness)
pub open spec fn carried_ok(ops: Seq<DiffOp>) -> bool {
    forall|i: int| 0 <= i < ops.len() ==> match #[trigger] ops[i] {
        DiffOp::Insert { old_index, new_index, new_len } => esum(ops, i) <= old_index && old_index + (esum(ops, ops.len() as int) - esum(ops, i)) <= usize::MAX,
        DiffOp::Delete { old_index, old_len, new_index } => esum(ops, i) <= new_index && new_index + (esum(ops, ops.len() as int) - esum(ops, i)) <= usize::MAX,
        _ => true,
    }
}

// ---------------------------------------------------------------------------------------------
// C09, last sentence: an insertion sits at its latest position
// ---------------------------------------------------------------------------------------------
/// the Insert at position i, if an Equal follows it, cannot slide down across that Equal: the first inserted item
/// differs from the first item of the Equal (the pair `common_prefix_len` would compare first)
pub open spec fn ins_late_at(rel: Rel, ops: Seq<DiffOp>, i: int) -> bool {
    (ops[i] is Insert && i + 1 < ops.len() && ops[i + 1] is Equal) ==> !rel(op_old_index(ops[i + 1]) as int, op_new_index(ops[i]) as int)
}

/// every pure insertion that is followed by equal items sits at its latest position (what the captured ops satisfy)
pub open spec fn ins_late(rel: Rel, ops: Seq<DiffOp>) -> bool {
    forall|i: int| 0 <= i < ops.len() ==> #[trigger] ins_late_at(rel, ops, i)
}

/// the Insert at position i is stuck: it is the last op, or an Equal follows it across which it cannot slide down
/// (what the insertion pass of `cleanup_diff_ops` leaves behind: no Insert is followed by a Delete or an Insert)
pub open spec fn ins_stuck_at(rel: Rel, ops: Seq<DiffOp>, i: int) -> bool {
    (ops[i] is Insert && i + 1 < ops.len()) ==> (ops[i + 1] is Equal && !rel(op_old_index(ops[i + 1]) as int, op_new_index(ops[i]) as int))
}

/// all Inserts among the first n ops are stuck
pub open spec fn ins_stuck_upto(rel: Rel, ops: Seq<DiffOp>, n: int) -> bool {
    forall|i: int| 0 <= i < n && i < ops.len() ==> #[trigger] ins_stuck_at(rel, ops, i)
}

pub open spec fn ins_stuck(rel: Rel, ops: Seq<DiffOp>) -> bool { ins_stuck_upto(rel, ops, ops.len() as int) }

/// a and b are the same op, or two Equals with the same start (one grew or shrank at its end)
pub open spec fn head_same(a: DiffOp, b: DiffOp) -> bool {
    a == b || (a is Equal && b is Equal && op_old_index(a) == op_old_index(b))
}

/// the ops before position n are untouched, except that the one at n - 1 may be an Equal that kept its start
pub open spec fn same_before(a: Seq<DiffOp>, b: Seq<DiffOp>, n: int) -> bool {
    &&& 0 <= n <= a.len() && n <= b.len()
    &&& forall|i: int| 0 <= i < n - 1 ==> a[i] == #[trigger] b[i]
    &&& n >= 1 ==> head_same(a[n - 1], b[n - 1])
}

/// no Insert at positions lo .. hi
pub open spec fn no_insert_in(ops: Seq<DiffOp>, lo: int, hi: int) -> bool {
    forall|i: int| lo <= i < hi && 0 <= i < ops.len() ==> !((#[trigger] ops[i]) is Insert)
}


} // verus!
