// lcs_len (the recurrence of lcsspec.rs) IS the length of a longest common subsequence (C03): it bounds every
// order-preserving matching of related items from above, and one matching attains it.  Pure ghost.
verus! {

/// an order-preserving matching inside old[i..oe) x new[j..ne): pairs of related items, strictly increasing on both sides
pub open spec fn is_matching<Old: Index<usize> + ?Sized, New: Index<usize> + ?Sized>(old: &Old, i: int, oe: int, new: &New, j: int, ne: int, m: Seq<(int, int)>) -> bool
  where New::Output: PartialEq<Old::Output>
{
    (forall|k: int| 0 <= k < m.len() ==> i <= (#[trigger] m[k]).0 < oe && j <= m[k].1 < ne && eqv(old, m[k].0, new, m[k].1))
    && (forall|k: int, l: int| 0 <= k < l < m.len() ==> (#[trigger] m[k]).0 < (#[trigger] m[l]).0 && m[k].1 < m[l].1)
}

/// a matching stays a matching in a larger window / in a smaller window that still contains all its pairs
proof fn lemma_matching_window<Old: Index<usize> + ?Sized, New: Index<usize> + ?Sized>(old: &Old, i: int, oe: int, new: &New, j: int, ne: int, m: Seq<(int, int)>, i2: int, j2: int)
  where New::Output: PartialEq<Old::Output>
  requires is_matching(old, i, oe, new, j, ne, m), forall|k: int| 0 <= k < m.len() ==> i2 <= (#[trigger] m[k]).0 && j2 <= m[k].1,
  ensures is_matching(old, i2, oe, new, j2, ne, m)
{}

/// (A) no matching is longer than lcs_len
pub proof fn lemma_lcs_upper<Old: Index<usize> + ?Sized, New: Index<usize> + ?Sized>(old: &Old, i: int, oe: int, new: &New, j: int, ne: int, m: Seq<(int, int)>)
  where New::Output: PartialEq<Old::Output>
  requires is_matching(old, i, oe, new, j, ne, m)
  ensures m.len() <= lcs_len(old, i, oe, new, j, ne)
  decreases (if oe > i { oe - i } else { 0 }) + (if ne > j { ne - j } else { 0 })
{
    if m.len() == 0 {
        lemma_lcs_bounds(old, i, oe, new, j, ne);
    } else if i >= oe || j >= ne {
        assert(i <= m[0].0 < oe && j <= m[0].1 < ne);   // impossible
    } else {
        let a = m[0].0; let b = m[0].1;
        let rest = m.subrange(1, m.len() as int);
        assert forall|k: int| 0 <= k < rest.len() implies a < (#[trigger] rest[k]).0 && b < rest[k].1 by {
            assert(rest[k] == m[k + 1]);
            assert(m[0].0 < m[k + 1].0 && m[0].1 < m[k + 1].1);
        }
        assert(is_matching(old, i, oe, new, j, ne, rest)) by {
            assert forall|k: int| 0 <= k < rest.len() implies i <= (#[trigger] rest[k]).0 < oe && j <= rest[k].1 < ne && eqv(old, rest[k].0, new, rest[k].1) by {
                assert(rest[k] == m[k + 1]);
            }
            assert forall|k: int, l: int| 0 <= k < l < rest.len() implies (#[trigger] rest[k]).0 < (#[trigger] rest[l]).0 && rest[k].1 < rest[l].1 by {
                assert(rest[k] == m[k + 1]); assert(rest[l] == m[l + 1]);
            }
        }
        lemma_lcs_front_step(old, i, oe, new, j, ne);
        if eqv(old, i, new, j) {
            // the pairs after the first one lie strictly behind (i, j) on both sides
            lemma_matching_window(old, i, oe, new, j, ne, rest, i + 1, j + 1);
            lemma_lcs_upper(old, i + 1, oe, new, j + 1, ne, rest);
            assert(m.len() == rest.len() + 1);
        } else if a > i {
            assert forall|k: int| 0 <= k < m.len() implies i + 1 <= (#[trigger] m[k]).0 && j <= m[k].1 by {
                if k > 0 { assert(m[0].0 < m[k].0); }
            }
            lemma_matching_window(old, i, oe, new, j, ne, m, i + 1, j);
            lemma_lcs_upper(old, i + 1, oe, new, j, ne, m);
        } else {
            // a == i, and (i, j) are not related, so b > j
            assert(eqv(old, a, new, b));
            assert(b > j);
            assert forall|k: int| 0 <= k < m.len() implies i <= (#[trigger] m[k]).0 && j + 1 <= m[k].1 by {
                if k > 0 { assert(m[0].1 < m[k].1); }
            }
            lemma_matching_window(old, i, oe, new, j, ne, m, i, j + 1);
            lemma_lcs_upper(old, i, oe, new, j + 1, ne, m);
        }
    }
}

/// the matching read off the recurrence
pub open spec fn lcs_witness<Old: Index<usize> + ?Sized, New: Index<usize> + ?Sized>(old: &Old, i: int, oe: int, new: &New, j: int, ne: int) -> Seq<(int, int)>
  where New::Output: PartialEq<Old::Output>
  decreases (if oe > i { oe - i } else { 0 }) + (if ne > j { ne - j } else { 0 })
{
    if i >= oe || j >= ne { Seq::empty() }
    else if eqv(old, i, new, j) { seq![(i, j)] + lcs_witness(old, i + 1, oe, new, j + 1, ne) }
    else if lcs_len(old, i + 1, oe, new, j, ne) >= lcs_len(old, i, oe, new, j + 1, ne) { lcs_witness(old, i + 1, oe, new, j, ne) }
    else { lcs_witness(old, i, oe, new, j + 1, ne) }
}

/// (B) some matching has exactly lcs_len pairs
pub proof fn lemma_lcs_attained<Old: Index<usize> + ?Sized, New: Index<usize> + ?Sized>(old: &Old, i: int, oe: int, new: &New, j: int, ne: int)
  where New::Output: PartialEq<Old::Output>
  ensures
      is_matching(old, i, oe, new, j, ne, lcs_witness(old, i, oe, new, j, ne)),
      lcs_witness(old, i, oe, new, j, ne).len() == lcs_len(old, i, oe, new, j, ne),
  decreases (if oe > i { oe - i } else { 0 }) + (if ne > j { ne - j } else { 0 })
{
    if i >= oe || j >= ne {
    } else if eqv(old, i, new, j) {
        lemma_lcs_attained(old, i + 1, oe, new, j + 1, ne);
        let t = lcs_witness(old, i + 1, oe, new, j + 1, ne);
        let w = seq![(i, j)] + t;
        assert(w == lcs_witness(old, i, oe, new, j, ne));
        assert forall|k: int| 0 <= k < w.len() implies i <= (#[trigger] w[k]).0 < oe && j <= w[k].1 < ne && eqv(old, w[k].0, new, w[k].1) by {
            if k > 0 { assert(w[k] == t[k - 1]); }
        }
        assert forall|k: int, l: int| 0 <= k < l < w.len() implies (#[trigger] w[k]).0 < (#[trigger] w[l]).0 && w[k].1 < w[l].1 by {
            assert(w[l] == t[l - 1]);
            if k > 0 { assert(w[k] == t[k - 1]); }
        }
    } else if lcs_len(old, i + 1, oe, new, j, ne) >= lcs_len(old, i, oe, new, j + 1, ne) {
        lemma_lcs_attained(old, i + 1, oe, new, j, ne);
        lemma_matching_window(old, i + 1, oe, new, j, ne, lcs_witness(old, i + 1, oe, new, j, ne), i, j);
    } else {
        lemma_lcs_attained(old, i, oe, new, j + 1, ne);
        lemma_matching_window(old, i, oe, new, j + 1, ne, lcs_witness(old, i, oe, new, j + 1, ne), i, j);
    }
}

/// C03's "L is the length of a longest common subsequence": lcs_len is the maximum over all matchings
pub proof fn lemma_lcs_is_max<Old: Index<usize> + ?Sized, New: Index<usize> + ?Sized>(old: &Old, i: int, oe: int, new: &New, j: int, ne: int)
  where New::Output: PartialEq<Old::Output>
  ensures
      exists|m: Seq<(int, int)>| #[trigger] is_matching(old, i, oe, new, j, ne, m) && m.len() == lcs_len(old, i, oe, new, j, ne),
      forall|m: Seq<(int, int)>| #[trigger] is_matching(old, i, oe, new, j, ne, m) ==> m.len() <= lcs_len(old, i, oe, new, j, ne),
{
    lemma_lcs_attained(old, i, oe, new, j, ne);
    assert forall|m: Seq<(int, int)>| #[trigger] is_matching(old, i, oe, new, j, ne, m) implies m.len() <= lcs_len(old, i, oe, new, j, ne) by {
        lemma_lcs_upper(old, i, oe, new, j, ne, m);
    }
}

} // verus!
